package main

// C14, second oracle: sessions.  A scenario is a sequence of interpreter sessions run the way the REPL runs them,
// with the REAL configuration (repl.Options{AutoLoad, AutoSave, MaxValueLen}, incl. the default -max-save-len 4000):
//
//	fresh state -> repl.AutoLoad -> inputs (repl.EvalOne) -> repl.AutoSave
//
// After every session the state file must be what SaveGlobals writes for the globals at exit (an auto-save that is
// skipped or stale loses the session's changes); at the start of the next session every binding that was saved must
// be back (data by type and value, functions by tree), nothing may be added, and saving the restored state must
// give the same bytes.  The last session is also saved with save("st") and loaded with load("st") in a fresh state.
// Families: lines that are long relative to the limit (named functions are written whatever their length), aliases
// of named functions whose own name was rebound / deleted / redefined, globals changed only from inside functions.

import (
	"bytes"
	"fmt"
	"os"
	"sort"
	"strings"
	"time"

	"grol.io/grol/eval"
	"grol.io/grol/object"
	"grol.io/grol/repl"
	. "verifharness/common"
)

type sessCase struct {
	kind     string     // construct class, part of the failure signature
	maxLen   int        // repl.Options.MaxValueLen / eval.State.MaxValueLen
	sessions [][]string // inputs of each session; a final session without input is always added
	calls    []string   // calls compared between the last state and its restart (may change globals: done last)
}

func (sc sessCase) replay() string {
	var ss []string
	for _, s := range sc.sessions {
		ss = append(ss, strings.Join(s, "\x00"))
	}
	return fmt.Sprintf("SESS %d %s %s %s", sc.maxLen, sc.kind, Hx([]byte(strings.Join(ss, "\x01"))), Hx([]byte(strings.Join(sc.calls, "\x00"))))
}

func parseSessCase(f []string) (sessCase, bool) {
	if len(f) != 5 || f[0] != "SESS" {
		return sessCase{}, false
	}
	var sc sessCase
	fmt.Sscan(f[1], &sc.maxLen)
	sc.kind = f[2]
	for _, s := range strings.Split(string(Unhx(f[3])), "\x01") {
		if s == "" {
			sc.sessions = append(sc.sessions, nil)
		} else {
			sc.sessions = append(sc.sessions, strings.Split(s, "\x00"))
		}
	}
	if c := string(Unhx(f[4])); c != "" {
		sc.calls = strings.Split(c, "\x00")
	}
	return sc, true
}

type snapshot struct {
	vals  map[string]object.Object
	saved map[string]bool // names that have a line in what SaveGlobals writes (not skipped by the limit, not constants)
	bytes []byte
	n     int // number of bindings SaveGlobals reports
}

func snap(s *eval.State, maxLen int) snapshot {
	sn := snapshot{vals: map[string]object.Object{}, saved: map[string]bool{}}
	for _, n := range globalNames(s) {
		if n == "info" || n == "self" {
			continue
		}
		if o := getGlobal(s, n); o != nil {
			sn.vals[n] = o
		}
	}
	sn.bytes, sn.n = saveBytes(s, maxLen)
	for _, l := range splitLines(sn.bytes) {
		sn.saved[lineName(l)] = true
	}
	return sn
}

// compareRestored: every saved binding of prev is back in s; nothing else appeared.
func compareRestored(c *Ctx, sc sessCase, rp, tag string, prev snapshot, s *eval.State, loadErr string) {
	got := snap(s, sc.maxLen)
	nf0 := totalFails()
	var names []string
	for n := range prev.vals {
		names = append(names, n)
	}
	sort.Strings(names)
	sig := func(outcome string) string { return "restart:" + sc.kind + ":" + outcome }
	for _, n := range names {
		o := prev.vals[n]
		if !prev.saved[n] {
			continue // skipped by the limit or a constant of the root environment
		}
		r := got.vals[n]
		if extraSet[n] && r != nil && Canon(r) == Canon(o) {
			continue
		}
		detail := fmt.Sprintf("%s: %s was %s, restored %s (load error %q)", tag, n, canonShort(o), canonShort(r), loadErr)
		switch {
		case r == nil:
			failf(c, sig("binding-lost"), rp, detail)
		case isData(o):
			c.Count("session-data-global")
			if d := diffClass(o, r); d != "" {
				failf(c, sig("reload-"+d), rp, detail)
			} else {
				c.NonTrivial("sd:" + n + ":" + canonShort(o))
			}
		default:
			if f, isF := o.(object.Function); isF {
				c.Count("session-function-global")
				rf, isF2 := r.(object.Function)
				if !isF2 || !sameFn(n, f, rf) {
					failf(c, sig("function-changed"), rp, fmt.Sprintf("%s: %s was %q, restored %q", tag, n, short(f.Inspect()), short(r.Inspect())))
				} else {
					c.NonTrivial("sf:" + n + ":" + short(f.Inspect()))
				}
				continue
			}
			if Canon(r) != Canon(o) {
				failf(c, sig("reload-value-changed:"+otherClass(o)), rp, detail)
			}
		}
	}
	for n := range got.vals {
		if _, ok := prev.vals[n]; !ok {
			failf(c, sig("binding-added"), rp, fmt.Sprintf("%s: %s = %s", tag, n, canonShort(got.vals[n])))
		}
	}
	// saving what was restored gives the same file (when a binding already failed above, the different file is its
	// consequence and is not reported a second time)
	if !bytes.Equal(got.bytes, prev.bytes) && totalFails() == nf0 {
		failf(c, sig("second-save-differs"), rp, fmt.Sprintf("%s: %q then %q", tag, short(string(prev.bytes)), short(string(got.bytes))))
	}
}

func short(s string) string {
	if len(s) > 400 {
		return s[:200] + " ... " + s[len(s)-150:]
	}
	return s
}

func canonShort(o object.Object) string {
	if o == nil {
		return "(unbound)"
	}
	return short(Canon(o))
}

// sessState: a fresh state with the session's configuration. The scenarios whose values are shaped by a RUNNING program
// (nesting thousands of levels deep) get the interpreter's default recursion limit instead of the harness's small one.
func sessState(sc sessCase) (*eval.State, *bytes.Buffer) {
	s, out := newState()
	s.MaxValueLen = sc.maxLen
	if strings.HasPrefix(sc.kind, "runtime-") {
		s.MaxDepth = eval.DefaultMaxDepth
	}
	return s, out
}

func checkSessions(c *Ctx, sc sessCase) {
	c.Eval()
	c.Count("session-scenario:" + sc.kind)
	rp := sc.replay()
	nfail0 := totalFails()
	reported := func() bool { return totalFails() > nfail0 }
	os.Remove(".gr")
	os.Remove("st.gr")
	opts := repl.Options{AutoLoad: true, AutoSave: true, MaxValueLen: sc.maxLen}
	var prev snapshot
	var last, lastReal *eval.State
	var lastOut, lastRealOut *bytes.Buffer
	all := append(append([][]string{}, sc.sessions...), nil)
	for i, inputs := range all {
		s, out := sessState(sc)
		errL := repl.AutoLoad(s, opts)
		le := ""
		if errL != nil {
			le = errL.Error()
			if len(le) > 200 {
				le = le[:200]
			}
		}
		if i > 0 {
			compareRestored(c, sc, rp, fmt.Sprintf("session %d after auto-load", i+1), prev, s, le)
		}
		inputLimit := 300 * time.Millisecond
		if strings.HasPrefix(sc.kind, "runtime-") {
			inputLimit = 20 * time.Second // building the value is the point of the scenario
		}
		for _, in := range inputs {
			if _, errs := evalQuietD(s, out, in, inputLimit); deadlineHit(errs) && strings.HasPrefix(sc.kind, "runtime-") {
				c.Count("harness-resource-limit:input-deadline")
				return // the value the scenario is about was not built: no verdict
			}
		}
		out.Reset()
		prev = snap(s, sc.maxLen)
		if len(prev.bytes) > 1500000 && sc.kind != "huge-flat-line" { // (a flat 5 MB string literal nests nothing)
			// keep a saved line well below the size at which the recursive parser exhausts the Go stack (a 3 MB run of `[`
			// kills the clean tree with a stack overflow that nobody can recover): a limit of the machinery
			c.Count("harness-resource-limit:state-file-over-1.5MB")
			return
		}
		// each saved binding occupies exactly one line of the file
		if nl := len(splitLines(prev.bytes)); nl != prev.n {
			cls := "other"
			for n, o := range prev.vals {
				if strings.Contains(o.Inspect(), "\n") {
					cls = strings.ToLower(o.Type().String())
					_ = n
					break
				}
			}
			failf(c, "restart:"+sc.kind+":binding-occupies-several-lines:"+cls, rp, fmt.Sprintf("session %d: SaveGlobals wrote %d bindings on %d lines: %q", i+1, prev.n, nl, short(string(prev.bytes))))
		}
		if err := repl.AutoSave(s, opts); err != nil {
			failf(c, "autosave-error", rp, err.Error())
			return
		}
		file, errRd := os.ReadFile(".gr")
		if errRd != nil {
			if i == 0 {
				c.Count("autosave-skipped-nothing-set")
				return // nothing was ever set: no state file, nothing to restore
			}
			failf(c, "restart:"+sc.kind+":state-file-missing", rp, errRd.Error())
			return
		}
		// the file is what SaveGlobals writes for the globals at exit (an auto-save skipped as "nothing changed" keeps
		// the old file: right only if nothing changed)
		if !bytes.Equal(file, prev.bytes) && !reported() {
			failf(c, "restart:"+sc.kind+":autosave-skipped-after-change", rp,
				fmt.Sprintf("session %d: state file %q, globals at exit save as %q", i+1, short(string(file)), short(string(prev.bytes))))
		}
		if i == len(all)-2 {
			lastReal, lastRealOut = s, out // the last session with inputs: its restart is the final, empty session
		}
		last, lastOut = s, out
		if reported() {
			return
		}
	}
	// explicit save / load of the last state (whole file)
	evalQuietD(last, lastOut, `save("st")`, 0)
	lastOut.Reset()
	if fileB, _ := os.ReadFile("st.gr"); !bytes.Equal(fileB, prev.bytes) {
		failf(c, "save-extension-differs-from-SaveGlobals", rp, fmt.Sprintf("%q vs %q", short(string(fileB)), short(string(prev.bytes))))
	}
	sB, outB := sessState(sc)
	_, errsB := evalQuietD(sB, outB, `load("st")`, 0)
	if deadlineHit(errsB) {
		c.Count("harness-resource-limit:load-deadline")
		return
	}
	outB.Reset()
	compareRestored(c, sc, rp, "load(\"st\")", prev, sB, strings.Join(errsB, "; "))
	if reported() {
		return
	}
	// behaviour: the same calls in the last session that had inputs and in its restart (the final session)
	if lastReal == nil {
		return
	}
	for _, call := range sc.calls {
		sawDeadline = false
		r1 := callObs(lastReal, lastRealOut, call)
		r2 := callObs(last, lastOut, call)
		c.Count("session-function-call")
		if sawDeadline {
			c.Count("harness-resource-limit:call-deadline")
			continue
		}
		if r1 != r2 {
			failf(c, "restart:"+sc.kind+":function-behaviour-changed", rp, fmt.Sprintf("%s gives %s, after restart %s (%s)", call, r1, r2, lastErrs))
			break
		}
	}
}

// ------------------------------------------------------------------ scenario generators

// fnOfLen: a named function whose saved one-line text has (about) the given length
func fnOfLen(name string, n int) string {
	// saved as: func <name>(a){a=a+1 a=a+1 ... a}   each statement is 6 bytes + separator
	k := (n - len(name) - 12) / 6
	if k < 0 {
		k = 0
	}
	return "func " + name + "(a){" + strings.Repeat("a=a+1;", k) + "a}"
}

func strOfInspectLen(n int) string {
	if n < 2 {
		n = 2
	}
	return `"` + strings.Repeat("s", n-2) + `"`
}

func (x *gen) pickName(pool []string) string { return pool[x.intn(len(pool))] }

var beforeNames = []string{"aa", "a0", "Ab", "b"}
var midNames = []string{"mid", "m", "fn", "hh"}
var afterNames = []string{"zz", "z9", "q", "y"}

// longLines: bindings whose saved text is long relative to the limit, with bindings sorted before and after
func (x *gen) longLines() sessCase {
	limit := []int{4000, 4000, 200, 30, 0}[x.intn(5)]
	base := limit
	if base == 0 {
		base = []int{3000, 70000}[x.intn(2)] // beyond bufio.MaxScanTokenSize when unlimited
	}
	factor := []float64{1, 1.2, 2, 10}[x.intn(4)]
	size := int(float64(base) * factor)
	if x.intn(3) == 0 {
		// absolute sizes around the other limits of the load path, whatever the save limit: bufio.MaxScanTokenSize
		// (64 KiB, the scanner's default), twice that, and twice the save limit
		size = []int{65536 - 200, 65536 - 8, 65536 + 8, 65536 + 200, 2*65536 + 100, 2*limit - 8, 2*limit + 64, 70000}[x.intn(8)]
		if size < 40 {
			size = 70000
		}
	}
	fname := x.pickName(midNames)
	before, after := x.pickName(beforeNames), x.pickName(afterNames)
	st := []string{
		before + " = " + fmt.Sprint(1+x.intn(1000)),
		fnOfLen(fname, size),
		after + " = [" + fmt.Sprint(x.intn(100)) + ", \"t\"]",
	}
	if limit > 0 {
		// data values whose text is limit-1, limit, limit+1 bytes long (the last one is skipped by design)
		st = append(st, "dlo = "+strOfInspectLen(limit-1), "deq = "+strOfInspectLen(limit), "dhi = "+strOfInspectLen(limit+1))
		// a lambda and an alias of the long function: values, subject to the limit
		st = append(st, "lam = a => a"+strings.Repeat("+1", limit/4), "zal = "+fname)
	}
	if x.intn(2) == 0 {
		st = append(st, fnOfLen(x.pickName(afterNames)+"f", int(float64(base)*[]float64{0.5, 1.2, 3}[x.intn(3)])))
	}
	if limit == 0 && x.intn(2) == 0 {
		// unlimited saving: data values and a lambda around the scanner's default buffer
		n := []int{65536 - 8, 65536 + 8, 70000}[x.intn(3)]
		st = append(st, "dbig = "+strOfInspectLen(n), "lbig = a => {"+strings.Repeat("a=a+1;", n/6)+"a}")
	}
	second := []string{after + "2 = 7"}
	return sessCase{kind: "long-line", maxLen: limit, sessions: [][]string{st, second}, calls: []string{fname + "(1)"}}
}

// aliases of named functions whose own name was since rebound, deleted or redefined
func (x *gen) aliasCase() sessCase {
	fn := x.pickName([]string{"f", "g", "mm"})
	al := x.pickName([]string{"k", "al", "a1", "zz"}) // sorts before or after fn
	body1 := []string{"x+1", "1", "x*2", "[x]"}[x.intn(4)]
	body2 := []string{"x+100", "2", "x*3", "nil"}[x.intn(4)]
	def1 := "func " + fn + "(x){" + body1 + "}"
	def2 := "func " + fn + "(x){" + body2 + "}"
	calls := []string{al + "(3)"}
	var st []string
	kind := ""
	switch x.intn(13) {
	case 8, 9:
		// the name is rebound to ANOTHER NAMED function, with exactly the same text or a different one
		other := x.pickName([]string{"b", "oth", "zf"})
		ob := body1
		kind = "alias-name-rebound-to-named-function-same-text"
		if x.intn(2) == 0 {
			ob, kind = body2, "alias-name-rebound-to-named-function"
		}
		st = []string{def1, al + " = " + fn, "func " + other + "(x){" + ob + "}", fn + " = " + other}
		calls = append(calls, fn+"(3)", other+"(3)")
	case 10:
		// a chain: k=a; a=b; b=k
		other := x.pickName([]string{"b", "oth", "zf"})
		ob := []string{body1, body2}[x.intn(2)]
		kind, st = "alias-chain", []string{def1, al + " = " + fn, "func " + other + "(x){" + ob + "}", fn + " = " + other, other + " = " + al}
		calls = append(calls, fn+"(3)", other+"(3)")
	case 11:
		// aliases inside containers, the function still bound to its name
		kind, st = "alias-in-container", []string{def1, "cc = [" + fn + ", {\"f\": " + fn + "}]", al + " = " + fn}
		calls = append(calls, fn+"(3)", "cc[0](3)", "cc[1].f(3)")
	case 12:
		// a container holding a named function whose name was redefined since
		kind, st = "alias-in-container-name-redefined", []string{def1, "cc = [" + fn + ", {\"f\": " + fn + "}]", def2}
		calls = append(calls, fn+"(3)", "cc[0](3)", "cc[1].f(3)")
	case 7:
		// the old version calls itself by name: inside a named function its own name denotes the function itself
		rec := "func " + fn + "(x){if x<=0 {0} else {" + fn + "(x-1)+1}}"
		kind, st = "alias-of-recursive-function-name-redefined", []string{rec, al + " = " + fn, def2}
		calls = append(calls, fn+"(3)")
	case 0:
		kind, st = "alias-name-redefined", []string{def1, al + " = " + fn, def2}
		calls = append(calls, fn+"(3)")
	case 1:
		kind, st = "alias-name-deleted", []string{def1, al + " = " + fn, "del(" + fn + ")"}
	case 2:
		kind, st = "alias-name-rebound-to-data", []string{def1, al + " = " + fn, fn + " = 5"}
	case 3:
		kind, st = "alias-of-alias", []string{def1, al + " = " + fn, "j2 = " + al, "B = j2"}
		calls = append(calls, fn+"(3)", "j2(3)", "B(3)")
	case 4:
		kind, st = "alias-of-alias-name-redefined", []string{def1, al + " = " + fn, "j2 = " + al, def2}
		calls = append(calls, fn+"(3)", "j2(3)")
	case 5:
		kind, st = "alias-name-rebound-to-lambda", []string{def1, al + " = " + fn, fn + " = x => " + body2}
		calls = append(calls, fn+"(3)")
	default:
		kind, st = "alias-intact", []string{def1, al + " = " + fn, "B = " + fn}
		calls = append(calls, fn+"(3)", "B(3)")
	}
	ss := [][]string{st}
	if x.intn(2) == 0 { // the rebinding happens in a later session
		ss = [][]string{st[:2], st[2:]}
	}
	return sessCase{kind: kind, maxLen: []int{0, 4000}[x.intn(2)], sessions: ss, calls: calls}
}

// globals changed only from inside a function / lambda / loop, in a session of their own
func (x *gen) mutationCase() sessCase {
	setup := []string{"x = 1", "y = 2", "arr = [1,2,3,4,5,6,7,8,9,10]", "sm = [1,2]", "m = {\"k\":1}", "bigm = {1:1,2:2,3:3,4:4,5:5,6:6}"}
	type mut struct{ kind, def, run string }
	muts := []mut{
		{"global-written-from-function", "func setx(){x=5}", "setx()"},
		{"global-written-from-lambda", "sl = () => {x=6}", "sl()"},
		{"global-written-from-function-after-read", "func rw(){x=x+1}", "rw()"},
		{"global-written-from-nested-function", "func outer(){func inner(){x=7};inner()}", "outer()"},
		{"global-incremented-from-function", "func inc(){x++}", "inc()"},
		{"global-index-assigned-from-function", "func seta(){arr[0]=9}", "seta()"},
		{"global-index-assigned-from-function", "func setsm(){sm[1]=9}", "setsm()"},
		{"global-map-assigned-from-function", "func setm(){m[\"k\"]=9}", "setm()"},
		{"global-map-assigned-from-function", "func setbm(){bigm[3]=9}", "setbm()"},
		{"global-deleted-from-function", "func rm(){del(y)}", "rm()"},
		{"global-map-key-deleted-from-function", "func rmk(){del(m[\"k\"])}", "rmk()"},
		{"global-written-in-toplevel-loop", "cnt = 0", "for i = 3 {x = x + i}"},
		{"global-written-from-function-in-loop", "func bump(){x=x+1}", "for 3 {bump()}"},
		{"new-global-created-from-function", "func mk2(){fresh = 1}", "mk2()"},
		{"global-written-from-function-parameter-shadow", "func sh(x){x=9}", "sh(1)"},
	}
	m := muts[x.intn(len(muts))]
	first := append(append([]string{}, setup...), m.def)
	return sessCase{kind: m.kind, maxLen: []int{0, 4000}[x.intn(2)], sessions: [][]string{first, {m.run}}, calls: nil}
}

// ---- functions and lambdas whose bodies hold string literals over the whole byte universe of the data strings

// bodyStr: source text of a string literal for a function body
func (x *gen) bodyStr() string {
	switch k := x.intn(10); {
	case k < 4:
		// a double quote together with newline / CR / tab / NUL / backslash / backquote / DEL / high bytes
		comp := []int{'\n', '\r', '\t', 0, '\\', '`', 0x7f, 0x80 + x.intn(128), '\'', 7, 11, 27}
		var b strings.Builder
		b.WriteByte('"')
		n := 2 + x.intn(6)
		q := x.intn(n)
		for i := 0; i < n; i++ {
			ch := 32 + x.intn(95)
			switch {
			case i == q:
				ch = '"'
			case x.intn(2) == 0:
				ch = comp[x.intn(len(comp))]
				if x.intn(3) > 0 {
					ch = comp[x.intn(2)*2] // newline or tab most of the time
				}
			}
			fmt.Fprintf(&b, "\\x%02x", ch)
		}
		b.WriteByte('"')
		return b.String()
	case k < 7:
		return x.str()
	default:
		// a raw string in the SOURCE of the function: real newlines, tabs and double quotes between backquotes
		parts := []string{"line1", "say \"hi\"", "\ttab", "x=\"1\"", "", "a'b", "{\"k\":\"v\"}", "back\\slash", "\r"}
		n := 1 + x.intn(4)
		var l []string
		for i := 0; i < n; i++ {
			l = append(l, parts[x.intn(len(parts))])
		}
		return "`" + strings.Join(l, "\n") + "`"
	}
}

// strBody: an expression built around string literals (plain, concatenated, inside nested containers and calls)
func (x *gen) strBody() string {
	a, b := x.bodyStr(), x.bodyStr()
	switch x.intn(9) {
	case 0:
		return a
	case 1:
		return a + " + " + b
	case 2:
		return "[" + a + ", {" + b + ": [" + a + "]}, len(" + b + ")]"
	case 3:
		return "if a == nil {" + a + "} else {" + b + "}"
	case 4:
		return "sprintf(\"%s|%v\", " + a + ", [" + b + "])"
	case 5:
		return "first([" + a + ", " + b + "]) + " + b
	case 6:
		return "println(" + a + ")"
	case 7:
		return "{\"k\": " + a + "}[\"k\"]"
	default:
		return "len(" + a + ") + len(" + b + ")"
	}
}

// strFunc: a named function or a lambda with such a body; returns the statement and the global's name
func (x *gen) strFunc() (string, string) {
	switch x.intn(4) {
	case 0:
		n := x.pickName([]string{"sfn", "msg", "usage"})
		return "func " + n + "(a) {" + x.strBody() + "}", n
	case 1:
		n := x.pickName([]string{"sfn", "msg", "usage"})
		return "func " + n + "(a) {t = " + x.bodyStr() + "\n" + x.strBody() + "}", n // a real newline in the source between statements
	case 2:
		n := x.pickName([]string{"slam", "txt"})
		return n + " = a => " + x.strBody(), n
	default:
		n := x.pickName([]string{"slam", "txt"})
		return n + " = func(a) {" + x.strBody() + "}", n
	}
}

// ---- operator adjacency: every binary operator followed by every prefix operator, postfix followed by binary,
// nested; the compact printer must keep the tokens apart (a - --b is not a---b)
var adjBin = []string{"+", "-", "*", "/", "%", "<", "<=", ">", ">=", "==", "!=", "&&", "||", "&", "|", "^", "<<", ">>"}
var adjPre = []string{"-", "+", "--", "++", "!", "~", "^"}

func (x *gen) adjExpr(d int) string {
	bin, pre := adjBin[x.intn(len(adjBin))], adjPre[x.intn(len(adjPre))]
	if x.intn(2) == 0 { // the critical pairs, half of the time
		bin = []string{"-", "+"}[x.intn(2)]
		pre = []string{"-", "+", "--", "++"}[x.intn(4)]
	}
	operand := "b"
	if d > 0 && pre != "--" && pre != "++" && x.intn(3) == 0 {
		operand = "(" + x.adjExpr(d-1) + ")"
	}
	switch x.intn(8) {
	case 0:
		return "a " + bin + " " + pre + "(" + []string{"-", "+", "!"}[x.intn(3)] + "b)" // a - -(-b)
	case 1:
		return "a" + []string{"++", "--"}[x.intn(2)] + " " + bin + " b" // postfix followed by binary: a++ + b
	case 2:
		return "a" + []string{"++", "--"}[x.intn(2)] + " " + bin + " " + pre + "b"
	case 3:
		if d > 0 {
			return "(" + x.adjExpr(d-1) + ") " + bin + " " + pre + operand
		}
	case 4:
		if d > 0 {
			return "[" + x.adjExpr(d-1) + ", a " + bin + " " + pre + "b][" + []string{"0", "1"}[x.intn(2)] + "]"
		}
	case 5:
		return "a * 2 " + bin + " " + pre + operand
	case 6:
		// round 11: the right operand is NOT itself a prefix expression but an operator of higher precedence whose
		// LEFTMOST leaf is one: a - -b*c is a - ((-b)*c), printed compactly the two signs still meet
		hi := []string{"*", "/", "%", "*"}[x.intn(4)]
		third := []string{"b", "a", "2", pre + "a", "(a+1)"}[x.intn(5)]
		if x.intn(3) == 0 {
			return "a " + bin + " " + pre + operand + " " + hi + " " + third + " " + []string{"*", "/", "%"}[x.intn(3)] + " 3"
		}
		return "a " + bin + " " + pre + operand + " " + hi + " " + third
	case 7:
		// the same below an index, a call argument and a second operator
		hi := []string{"*", "/", "%"}[x.intn(3)]
		switch x.intn(3) {
		case 0:
			return "[a " + bin + " " + pre + operand + " " + hi + " b][0]"
		case 1:
			return "max(a " + bin + " " + pre + operand + " " + hi + " b, a)"
		}
		return "(a " + bin + " " + pre + operand + " " + hi + " b) " + bin + " " + pre + "a " + hi + " 2"
	}
	return "a " + bin + " " + pre + operand
}

// adjFunc: a named function or lambda of two integer parameters around such an expression
func (x *gen) adjFunc() (string, string) {
	e := x.adjExpr(2)
	switch x.intn(3) {
	case 0:
		n := x.pickName([]string{"opsub", "opadd", "opx"})
		return "func " + n + "(a,b){" + e + "}", n
	case 1:
		n := x.pickName([]string{"oplam", "opl2"})
		return n + " = (a,b) => " + e, n
	default:
		n := x.pickName([]string{"opsub", "opadd", "opx"})
		return "func " + n + "(a,b){c = " + e + "; c " + adjBin[x.intn(len(adjBin))] + " " + adjPre[x.intn(len(adjPre))] + "a}", n
	}
}

var adjArgs = []string{"(5,3)", "(2,7)", "(0,0)", "(-4,9)", "(1,1)"}

func (x *gen) adjacencyCase() sessCase {
	var st, calls []string
	for i := 0; i < 1+x.intn(3); i++ {
		s, n := x.adjFunc()
		st = append(st, s)
		for _, a := range adjArgs[:3] {
			calls = append(calls, n+a)
		}
	}
	st = append(st, "zz = 1")
	return sessCase{kind: "operator-adjacency-in-function", maxLen: []int{0, 4000}[x.intn(2)], sessions: [][]string{st, {"zz = 2"}}, calls: calls}
}

// ---- functions made by macros: the template unquotes values computed at expansion time, so the stored body holds
// literal nodes that never went through the parser; what is saved is their TEXT
var unqVals = []string{"2+3", "-5", "0-7", "1000000*1000000", "9223372036854775807", "1<2", "2==3",
	"360.0/2", "1.25*4", "2.0", "-3.0", "1e3", "0.0", "1.5*3", "0.1+0.2", "-2.25", "1/3.", "1e21", "2.5e-7",
	"\"a\"+\"b\"", "\"q\\\"\\n\"", "7", "0"}
var unqOps = []string{"/", "+", "*", "-", "==", "<", "%"}

// macroFuncs: n groups of (macro, named function using it, lambda-making macro, lambda); returns statements and names
func (x *gen) macroFuncs(n int) ([]string, []string) {
	var st, names []string
	for i := 0; i < n; i++ {
		id := fmt.Sprint(x.intn(90) + 10)
		v, op := unqVals[x.intn(len(unqVals))], unqOps[x.intn(len(unqOps))]
		switch x.intn(4) {
		case 0:
			st = append(st, "mm"+id+" = macro(x) { quote(unquote(x) "+op+" unquote("+v+")) }", "func mf"+id+"(d) { mm"+id+"(d) }")
			names = append(names, "mf"+id)
		case 1:
			st = append(st, "mk"+id+" = macro() { quote(v => v "+op+" unquote("+v+")) }", "ml"+id+" = mk"+id+"()")
			names = append(names, "ml"+id)
		case 2:
			v2 := unqVals[x.intn(len(unqVals))]
			st = append(st, "mm"+id+" = macro(x) { quote([unquote(x), unquote("+v+"), {unquote("+v2+"): unquote(x) "+op+" unquote("+v+")}]) }", "func mf"+id+"(d) { mm"+id+"(d) }")
			names = append(names, "mf"+id)
		default:
			st = append(st, "mk"+id+" = macro() { quote(func(v) { w = unquote("+v+"); w "+op+" v }) }", "ml"+id+" = mk"+id+"()")
			names = append(names, "ml"+id)
		}
	}
	return st, names
}

func (x *gen) macroCase() sessCase {
	st, names := x.macroFuncs(1 + x.intn(3))
	var calls []string
	for _, n := range names {
		calls = append(calls, n+"(90)", n+"(1)", n+"(2.5)")
	}
	st = append(st, "zz = 1")
	return sessCase{kind: "function-made-by-macro", maxLen: []int{0, 4000}[x.intn(2)], sessions: [][]string{st, {"zz = 2"}}, calls: calls}
}

// ---- values whose SHAPE no literal of a generated program has but a running program builds: nesting hundreds to
// ten thousand levels deep (arrays in arrays, maps in maps, mixed), very wide containers, long strings. They are
// saved by an unbounded recursive Inspect and read back through the parser and the evaluator. The restored value is
// compared whole (canonical dump) and by probes that walk it.
func (x *gen) runtimeShapeCase(depths []int) sessCase {
	n := depths[x.intn(len(depths))]
	limit := []int{0, 0, 4000}[x.intn(3)]
	st := []string{"func walk(v,n){for n {v=v[0]}; v}", "func walkm(v,n){for n {v=v[\"k\"]}; v}", "first1 = 1"}
	var calls []string
	switch x.intn(6) {
	case 0:
		st = append(st, "a = [1]", fmt.Sprintf("for %d {a=[a]}", n))
		calls = append(calls, fmt.Sprintf("walk(a,%d)", n+1), fmt.Sprintf("walk(a,%d)", n), "len(a)")
	case 1:
		st = append(st, "m = {\"k\":1}", fmt.Sprintf("for %d {m={\"k\":m}}", n))
		calls = append(calls, fmt.Sprintf("walkm(m,%d)", n+1), "len(m)")
	case 2:
		st = append(st, "a = [\"x\"]", fmt.Sprintf("for %d {a=[{\"k\":a}]}", n/2))
		calls = append(calls, "len(a[0][\"k\"])", "a[0][\"k\"][0][\"k\"] == nil")
	case 3:
		st = append(st, fmt.Sprintf("w = [1,2.5,\"s\"]*%d", 1000+x.intn(9000)), "wm = {}", fmt.Sprintf("for i=%d {wm[i]=[i]}", 100+x.intn(400)))
		calls = append(calls, "len(w)", "w[len(w)-1]", "len(wm)", "wm[57]")
	case 4:
		st = append(st, fmt.Sprintf("ls = \"ab\\n\\\"\"*%d", 10000+x.intn(30000)))
		calls = append(calls, "len(ls)", "ls[len(ls)-1]")
	default:
		k := n/4 + 1
		if k > 400 {
			k = 400 // the text of this shape grows with the SQUARE of the depth (a[1] is itself k deep): ~250 KB at 400
		}
		st = append(st, "a = [[1],[2]]", fmt.Sprintf("for %d {a=[a,[a[1]]]}", k))
		calls = append(calls, "len(a)", fmt.Sprintf("walk(a,%d)", k+1))
	}
	st = append(st, "zlast = \"after\"")
	return sessCase{kind: "runtime-shaped-value", maxLen: limit, sessions: [][]string{st, {"b = 7"}}, calls: calls}
}

func (x *gen) stringFuncCase() sessCase {
	var st, calls []string
	st = append(st, "aa = "+x.str())
	for i := 0; i < 1+x.intn(3); i++ {
		s, n := x.strFunc()
		st = append(st, s)
		calls = append(calls, n+"(nil)", n+"(\"x\")")
	}
	st = append(st, "zz = [1, "+x.str()+"]")
	return sessCase{kind: "string-literal-in-function", maxLen: []int{0, 4000, 4000}[x.intn(3)], sessions: [][]string{st, {"zz2 = 7"}}, calls: calls}
}

// sessionCorpus: explicit witnesses, run first
var sessionCorpus = []sessCase{
	// a named function much longer than the default limit, bindings before and after it (seeded regression: scanner buffer)
	{"long-line", 4000, [][]string{{"alpha = 1", fnOfLen("poly", 10000), "zeta = [1,2]"}}, []string{"poly(2)"}},
	{"long-line", 4000, [][]string{{"alpha = 1", fnOfLen("poly", 5100), "zeta = [1,2]", "dlo = " + strOfInspectLen(3999), "deq = " + strOfInspectLen(4000), "dhi = " + strOfInspectLen(4001)}}, []string{"poly(2)"}},
	// a named function longer than the scanner's default 64 KiB buffer under the DEFAULT save limit (seeded regression 2:
	// buffer bounded by max(64KiB, 2*limit)), and one just above twice the limit
	{"long-line", 4000, [][]string{{"alpha = 1", fnOfLen("big", 70000), "small = [1, 2.5, \"x\"]", "z = 42"}}, []string{"big(1)"}},
	{"long-line", 40000, [][]string{{"alpha = 1", fnOfLen("big", 2*40000+2000), "z = 42"}}, []string{"big(1)"}},
	{"long-line", 0, [][]string{{"alpha = 1", fnOfLen("poly", 70000), "zeta = [1,2]", "big = " + strOfInspectLen(70000)}}, []string{"poly(2)"}},
	// round 12: one saved line of 5 MB (no value-length limit), bindings sorted before and after it
	{"huge-flat-line", 0, [][]string{{"alpha = 1", "huge = \"ab\"*2500000", "zeta = [1,2]", "zz = \"end\""}}, []string{"len(huge)", "zeta[1]"}},
	{"long-line", 200, [][]string{{"alpha = 1", fnOfLen("poly", 2000), "zeta = [1,2]", "lam = a => a" + strings.Repeat("+1", 150)}}, []string{"poly(2)"}},
	// string literals inside function bodies: a double quote together with a newline, tab, NUL, high byte; a raw string
	{"string-literal-in-function", 4000, [][]string{{"aa = 1", "func usage(who){\"dear \\\"\" + who + \"\\\":\\nsee \\\"help\\\"\\n\"}", "lam = a => [\"q\\\"\\n\\t\\x00\\xff\", {\"k\\\"\\r\": a}]", "zz = 2"}, {"zz = 3"}}, []string{"usage(\"you\")", "lam(1)"}},
	{"string-literal-in-function", 0, [][]string{{"func raw(a){`say \"hi\"\nsecond \"line\"\ttab`}", "r2 = a => `{\"k\":\n\"v\"}` + a", "zz = 2"}}, []string{"raw(1)", "r2(\"x\")"}},
	// a binary - or + followed by the prefix -- / ++ / - / +, postfix followed by binary
	{"operator-adjacency-in-function", 4000, [][]string{{"func sub(a,b){a - --b}", "func add(a,b){a + ++b}", "lam = (a,b) => a*2 - --b", "m2 = (a,b) => a - -b", "pf = (a,b) => a++ + b", "nn = (a,b) => a - -(-b)"}, {"zz = 1"}},
		[]string{"sub(5,3)", "add(5,3)", "lam(5,3)", "m2(5,3)", "pf(5,3)", "nn(5,3)"}},
	// functions made by macros whose templates unquote computed values (integral and other floats, integers, booleans)
	{"function-made-by-macro", 4000, [][]string{{"halfturns = macro(x) { quote(unquote(x) / unquote(360.0 / 2)) }", "func half(d) { halfturns(d) }",
		"mkratio = macro() { quote(v => v / unquote(1.25 * 4)) }", "ratio = mkratio()", "mki = macro() { quote(v => v / unquote(2+3)) }", "ri = mki()",
		"mkb = macro() { quote(v => [v, unquote(1<2), unquote(1.5*3)]) }", "rb = mkb()"}, {"zz = 1"}},
		[]string{"half(90)", "ratio(1)", "ri(1)", "ri(2.5)", "rb(1)"}},
	// a value nested deeper (at run time) than any literal: arrays 10 050 deep, maps 1 000 deep; saved without limit
	{"runtime-shaped-value", 0, [][]string{{"func walk(v,n){for n {v=v[0]}; v}", "a = [1]", "for 10050 {a=[a]}", "b = 7", "s = \"after\""}, {"c = 1"}}, []string{"walk(a,10051)", "walk(a,10050)", "b", "s"}},
	{"runtime-shaped-value", 0, [][]string{{"func walkm(v,n){for n {v=v[\"k\"]}; v}", "m = {\"k\":1}", "for 1000 {m={\"k\":m}}", "z = 1"}}, []string{"walkm(m,1001)"}},
	{"runtime-shaped-value", 4000, [][]string{{"func walk(v,n){for n {v=v[0]}; v}", "a = [1]", "for 1000 {a=[a]}", "z = 1"}}, []string{"walk(a,1001)"}},
	// aliases
	{"alias-name-redefined", 0, [][]string{{"func f(x){1}", "k = f", "func f(x){2}"}}, []string{"f(0)", "k(0)"}},
	{"alias-name-redefined", 0, [][]string{{"func f(x){1}", "a = f", "func f(x){2}"}}, []string{"f(0)", "a(0)"}},
	{"alias-name-deleted", 0, [][]string{{"func f(x){1}", "k = f", "del(f)"}}, []string{"k(0)"}},
	{"alias-name-rebound-to-data", 0, [][]string{{"func f(x){1}", "k = f", "f = 5"}}, []string{"k(0)"}},
	{"alias-intact", 0, [][]string{{"func g(a){a+1}", "h = g", "b = g"}}, []string{"g(1)", "h(1)", "b(1)"}},
	{"alias-of-alias", 0, [][]string{{"func g(a){a+1}", "h = g", "j = h"}, {"func g(a){a+2}"}}, []string{"g(1)", "h(1)", "j(1)"}},
	{"alias-name-rebound-to-named-function-same-text", 0, [][]string{{"func a(x){x+1}", "k = a", "func b(x){x+1}", "a = b"}}, []string{"a(1)", "b(1)", "k(1)"}},
	{"alias-name-rebound-to-named-function", 4000, [][]string{{"func a(x){x+1}", "k = a", "func b(x){x+2}", "a = b"}}, []string{"a(1)", "b(1)", "k(1)"}},
	{"alias-chain", 0, [][]string{{"func a(x){x+1}", "k = a", "func b(x){x+1}", "a = b", "b = k"}}, []string{"a(1)", "b(1)", "k(1)"}},
	{"alias-in-container", 0, [][]string{{"func a(x){x+1}", "cc = [a, {\"f\": a}]", "k = a"}}, []string{"a(1)", "cc[0](1)", "cc[1].f(1)"}},
	{"alias-in-container-name-redefined", 0, [][]string{{"func a(x){x+1}", "cc = [a, {\"f\": a}]", "func a(x){x+2}"}}, []string{"a(1)", "cc[0](1)"}},
	{"alias-of-recursive-function-name-redefined", 0, [][]string{{"func f(n){if n<=0 {0} else {f(n-1)+1}}", "k = f", "func f(n){100}"}}, []string{"k(3)", "f(3)"}},
	// globals changed only from inside a function
	{"global-written-from-function", 4000, [][]string{{"x = 1", "func setx(){x=5}"}, {"setx()"}}, nil},
	{"global-index-assigned-from-function", 0, [][]string{{"arr = [1,2,3,4,5,6,7,8,9,10]", "func seta(){arr[0]=9}"}, {"seta()"}}, nil},
	{"global-deleted-from-function", 0, [][]string{{"y = 2", "func rm(){del(y)}"}, {"rm()"}}, nil},
}

func runSessions(c *Ctx, x *gen) {
	for _, sc := range sessionCorpus {
		checkSessions(c, sc)
	}
	n := 40
	if c.Thorough() {
		n = 700
	}
	for i := 0; i < n; i++ {
		checkSessions(c, x.longLines())
		checkSessions(c, x.aliasCase())
		checkSessions(c, x.mutationCase())
		checkSessions(c, x.stringFuncCase())
		checkSessions(c, x.adjacencyCase())
		checkSessions(c, x.macroCase())
		if i%4 == 0 {
			checkSessions(c, x.runtimeShapeCase([]int{100, 1000, 1000, 3000}))
		}
		if i%40 == 7 {
			checkSessions(c, x.runtimeShapeCase([]int{10050, 12000}))
		}
	}
	os.Remove(".gr")
	os.Remove("st.gr")
}
