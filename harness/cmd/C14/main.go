package main

// C14: saved state loads back to the same state.
//
// The harness re-executes itself as a child process whose working directory is a scratch directory made
// with os.MkdirTemp (repl.AutoSave / repl.AutoLoad and save()/load() work in the current directory);
// the parent never changes directory and removes the scratch directory afterwards.
//
// Correspondence (extracted Coq model coq/model/SaveLoad.v, driver ocaml/drv_C14.ml):
//   SAVE  bytes written by eval.State.SaveGlobals for a whole global environment vs save_globals
//   LINE  the binding made by eval.EvalString on one saved data line vs read_back (Lexer+Parser models + eval_lit)
//   FUNC  the saved text of a function (object.Function.Inspect) and whether it re-parses to the same
//         parameters and body vs func_text / func_roundtrip (Printer + Parser models)
// Direct oracle (model-free): save -> fresh state -> load, BOTH by repl.AutoSave/AutoLoad (line by line) and
// by save("st") / load("st") (whole file) -> every data global equal by type and value (floats by bits) ->
// every grol function called on sample arguments -> save again: same bytes; one line per binding; the
// value-length limit skips whole bindings.

import (
	"bytes"
	"context"
	"fmt"
	"io"
	"math"
	"os"
	"os/exec"
	"path/filepath"
	"regexp"
	"sort"
	"strings"
	"time"

	"fortio.org/log"
	"grol.io/grol/ast"
	"grol.io/grol/eval"
	"grol.io/grol/extensions"
	"grol.io/grol/object"
	"grol.io/grol/repl"
	"grol.io/grol/token"
	"verifharness/common"
	. "verifharness/common"
)

const childEnv = "VERIF_C14_CHILD"

func main() {
	if os.Getenv(childEnv) == "" {
		os.Exit(parent())
	}
	common.Main("C14", run)
}

// parent: make the scratch directory, run the same binary inside it, remove the directory.
func parent() int {
	dir, err := os.MkdirTemp("", "verif-c14-")
	if err != nil {
		fmt.Fprintln(os.Stderr, "C14: cannot create scratch directory:", err)
		return 2
	}
	defer os.RemoveAll(dir)
	args := append([]string{}, os.Args[1:]...)
	for i, a := range args {
		if (a == "-out" || a == "--out") && i+1 < len(args) {
			if abs, e := filepath.Abs(args[i+1]); e == nil {
				args[i+1] = abs
			}
		}
		for _, p := range []string{"-out=", "--out="} {
			if strings.HasPrefix(a, p) {
				if abs, e := filepath.Abs(a[len(p):]); e == nil {
					args[i] = p + abs
				}
			}
		}
	}
	exe, err := os.Executable()
	if err != nil {
		fmt.Fprintln(os.Stderr, "C14:", err)
		return 2
	}
	cmd := exec.Command(exe, args...)
	cmd.Dir = dir
	cmd.Env = append(os.Environ(), childEnv+"=1")
	cmd.Stdout, cmd.Stderr = os.Stdout, os.Stderr
	if err := cmd.Run(); err != nil {
		if ee, ok := err.(*exec.ExitError); ok {
			return ee.ExitCode()
		}
		fmt.Fprintln(os.Stderr, "C14:", err)
		return 2
	}
	return 0
}

// ------------------------------------------------------------------ states

func newState() (*eval.State, *bytes.Buffer) {
	s := eval.NewState()
	var out bytes.Buffer
	s.Out, s.LogOut, s.NoLog = &out, &out, true
	s.MaxDepth = 300
	return s, &out
}

// evalQuiet evaluates one input like the REPL does (panic recovery, time limit).
func evalQuiet(s *eval.State, out *bytes.Buffer, in string) (panicked bool, errs []string) {
	return evalQuietD(s, out, in, 300*time.Millisecond)
}

// evalQuietD: d <= 0 = no deadline (the property has no time clause: saving and loading a state file get none)
func evalQuietD(s *eval.State, out *bytes.Buffer, in string, d time.Duration) (panicked bool, errs []string) {
	_, panicked, errs, _ = repl.EvalOne(context.Background(), s, in, out,
		repl.Options{All: true, ShowEval: true, NoColor: true, MaxDuration: d})
	s.Out, s.LogOut = out, out
	s.Context, s.Cancel = nil, nil // EvalOne leaves its cancelled context behind: a later EvalString on the state would fail
	if deadlineHit(errs) {
		sawDeadline = true
	}
	return
}

// the harness's own evaluation deadline fired (the implementation sets none): a limit of the machinery, reported
// under its own name and never as a lost binding or a changed behaviour
var sawDeadline bool

func deadlineHit(errs []string) bool {
	for _, e := range errs {
		if strings.Contains(e, "context deadline exceeded") || strings.Contains(e, "context canceled") {
			return true
		}
	}
	return false
}

func build(stmts []string) (*eval.State, *bytes.Buffer) {
	s, out := newState()
	for _, st := range stmts {
		evalQuiet(s, out, st)
	}
	out.Reset()
	return s, out
}

// globalNames: the names bound in the root environment, through the language itself (info.globals).
func globalNames(s *eval.State) []string {
	o, err := eval.EvalString(s, "info.globals", false)
	if err != nil {
		return nil
	}
	m, ok := o.(object.Map)
	if !ok {
		return nil
	}
	ps := object.VerifMapPairs(m)
	var names []string
	for i := 0; i+1 < len(ps); i += 2 {
		if k, ok := ps[i].(object.String); ok {
			names = append(names, k.Value)
		}
	}
	sort.Strings(names)
	return names
}

func getGlobal(s *eval.State, name string) object.Object {
	o, err := eval.EvalString(s, name, false)
	if err != nil {
		return nil
	}
	return object.Value(o)
}

func saveBytes(s *eval.State, maxLen int) ([]byte, int) {
	old := s.MaxValueLen
	s.MaxValueLen = maxLen
	defer func() { s.MaxValueLen = old }()
	var w bytes.Buffer
	n, err := s.SaveGlobals(&w)
	if err != nil {
		return nil, -1
	}
	return w.Bytes(), n
}

var extraNames []string // names bound in a fresh state (object.extraIdentifiers)
var extraSet = map[string]bool{}

// ------------------------------------------------------------------ value classes

func isData(o object.Object) bool {
	switch v := o.(type) {
	case object.Integer, object.Float, object.Boolean, object.Null, object.String:
		return true
	case object.SmallArray, object.BigArray:
		for _, e := range object.Elements(o) {
			if !isData(e) {
				return false
			}
		}
		return true
	case object.Map:
		ps := object.VerifMapPairs(v)
		for _, e := range ps {
			if !isData(e) {
				return false
			}
		}
		return true
	}
	return false
}

// inModelDomain: a data value the Coq model renders itself (strings inside go_quote's byte universe).
func inModelDomain(o object.Object) bool {
	switch v := o.(type) {
	case object.Integer, object.Float, object.Boolean, object.Null:
		return true
	case object.String:
		return QuoteInDomain(v.Value)
	case object.SmallArray, object.BigArray:
		for _, e := range object.Elements(o) {
			if !inModelDomain(e) {
				return false
			}
		}
		return true
	case object.Map:
		for _, e := range object.VerifMapPairs(v) {
			if !inModelDomain(e) {
				return false
			}
		}
		return true
	}
	return false
}

func integralFloat(f float64) bool {
	return !math.IsInf(f, 0) && !math.IsNaN(f) && f == math.Trunc(f) && math.Abs(f) < 9223372036854775808.0
}

// diffClass: why two values differ (first difference, depth first); "" when equal by type and value.
func diffClass(a, b object.Object) string {
	if b == nil {
		return "missing"
	}
	if Canon(a) == Canon(b) {
		return ""
	}
	switch x := a.(type) {
	case object.Float:
		if _, isInt := b.(object.Integer); isInt && integralFloat(x.Value) {
			return "type-changed:integral-float"
		}
		if y, ok := b.(object.Float); ok {
			_ = y
			return "value-changed:float"
		}
		return "type-changed:float-to-" + strings.ToLower(b.Type().String())
	case object.Integer:
		if _, isF := b.(object.Float); isF && x.Value == math.MinInt64 {
			return "type-changed:min-int64"
		}
		if _, ok := b.(object.Integer); ok {
			return "value-changed:integer"
		}
		return "type-changed:integer-to-" + strings.ToLower(b.Type().String())
	case object.String:
		if _, ok := b.(object.String); ok {
			return "value-changed:string"
		}
	case object.Boolean:
		if _, ok := b.(object.Boolean); ok {
			return "value-changed:boolean"
		}
	case object.Null:
		return "type-changed:nil-to-" + strings.ToLower(b.Type().String())
	case object.SmallArray, object.BigArray:
		if b.Type() != object.ARRAY {
			return "type-changed:array-to-" + strings.ToLower(b.Type().String())
		}
		ea, eb := object.Elements(a), object.Elements(b)
		if len(ea) != len(eb) {
			return "value-changed:array-length"
		}
		for i := range ea {
			if d := diffClass(ea[i], eb[i]); d != "" {
				return d
			}
		}
		return "value-changed:array"
	case object.Map:
		mb, ok := b.(object.Map)
		if !ok {
			return "type-changed:map-to-" + strings.ToLower(b.Type().String())
		}
		pa, pb := object.VerifMapPairs(x), object.VerifMapPairs(mb)
		if len(pa) != len(pb) {
			// a key that changed type on reload can merge with another key
			for i := 0; i < len(pa); i++ {
				if f, isF := pa[i].(object.Float); isF && integralFloat(f.Value) {
					return "type-changed:integral-float"
				}
				if n, isI := pa[i].(object.Integer); isI && n.Value == math.MinInt64 {
					return "type-changed:min-int64"
				}
			}
			return "value-changed:map-length"
		}
		for i := range pa {
			if d := diffClass(pa[i], pb[i]); d != "" {
				return d
			}
		}
		// same leaves, different order: a key changed its place
		return "value-changed:map-order"
	}
	if a.Type() != b.Type() {
		return "type-changed:" + strings.ToLower(a.Type().String()) + "-to-" + strings.ToLower(b.Type().String())
	}
	return "value-changed:" + strings.ToLower(a.Type().String())
}

// otherClass: the kind of a global that is neither data nor a grol function.
func otherClass(o object.Object) string {
	found := ""
	var walk func(o object.Object)
	walk = func(o object.Object) {
		if found != "" {
			return
		}
		switch v := o.(type) {
		case object.Quote:
			found = "quote-value"
		case object.Extension:
			found = "extension-value"
		case object.Function:
			found = "function-inside-container"
		case object.SmallArray, object.BigArray:
			for _, e := range object.Elements(o) {
				walk(e)
			}
		case object.Map:
			for _, e := range object.VerifMapPairs(v) {
				walk(e)
			}
		}
	}
	walk(o)
	if found == "" {
		found = strings.ToLower(o.Type().String()) + "-value"
	}
	return found
}

// ------------------------------------------------------------------ functions

type fnInfo struct {
	params, body string // DumpNoComments
	name         string
	variadic     bool
}

func fnOf(f object.Function) fnInfo {
	var nm string
	if f.Name != nil {
		nm = f.Name.Literal()
	}
	return fnInfo{normDump(dumpListNC(f.Parameters)), normDump(DumpNoComments(f.Body)), nm, f.Variadic}
}

// a function literal without parameters holds a nil or an empty parameter slice depending on whether the tree
// went through ast.Modify (macro expansion copies the slice): not a difference of the program
var nilParams = regexp.MustCompile(`\(Fn (\d+) (\S+) (-|\(\d+ \S+\)) nil `)

func normDump(d string) string {
	return strings.ReplaceAll(nilParams.ReplaceAllString(d, "(Fn $1 $2 $3 [] "), " ", "")
}

// sameFn: same parameters, body, variadic flag - and same name, except for an alias (a function bound to another
// name than its own), whose inner name is not part of what the binding promises (it is dropped on save once the
// name no longer denotes that function)
func sameFn(key string, f, r object.Function) bool {
	a, b := fnOf(f), fnOf(r)
	if f.Name != nil && f.Name.Literal() != key {
		a.name, b.name = "", ""
	}
	return a == b
}

func dumpListNC(l []ast.Node) string {
	parts := make([]string, len(l))
	for i, n := range l {
		parts[i] = DumpNoComments(n)
	}
	return "[" + strings.Join(parts, " ") + "]"
}

// funcOfLine parses a saved line and returns the function literal it defines (definition or name=<function>).
func funcOfLine(line []byte) (fl *ast.FunctionLiteral, ok bool) {
	prog, clean := ParseClean(line)
	if !clean || prog == nil || len(prog.Statements) != 1 {
		return nil, false
	}
	switch x := prog.Statements[0].(type) {
	case *ast.FunctionLiteral:
		return x, true
	case *ast.InfixExpression:
		if x.Type() == token.ASSIGN {
			if f, isF := x.Right.(*ast.FunctionLiteral); isF {
				return f, true
			}
		}
	}
	return nil, false
}

// fnRoundTrip: does the saved text of f parse back to the same parameters, body, name and variadic flag?
func fnRoundTrip(f object.Function, line []byte) string {
	fl, ok := funcOfLine(line)
	if !ok {
		return "rejected"
	}
	want := fnOf(f)
	var nm string
	if fl.Name != nil {
		nm = fl.Name.Literal()
	}
	got := fnInfo{normDump(dumpListNC(fl.Parameters)), normDump(DumpNoComments(fl.Body)), nm, fl.Variadic}
	if got == want {
		return "same"
	}
	return "differs"
}

// closureFree: every identifier used in the body that is not a parameter resolves in the root environment of s
// or is assigned in the body... approximated by: the function was created at depth 0 (its Env is the root).
func createdAtRoot(f object.Function) bool {
	return f.Env != nil && object.VerifIsRoot(f.Env)
}

// knownBodyPattern: the recorded formatter findings (C02) present in the function's body or parameters.
func knownBodyPattern(f object.Function) string {
	if f.Body == nil {
		return ""
	}
	if p := KnownPatterns(f.Body); len(p) > 0 {
		return p[0]
	}
	return ""
}

var sampleArgs = []string{"1", "-2", "2.5", `"s"`, "[1,2]", `{"a":1}`, "true", "nil", "0", "[]", "10", `""`}

// ------------------------------------------------------------------ the direct oracle on one environment

type envCase struct {
	stmts  []string
	maxLen int
}

func (e envCase) replay() string {
	return fmt.Sprintf("ENV %d %s", e.maxLen, Hx([]byte(strings.Join(e.stmts, "\x00"))))
}

func lineName(line []byte) string {
	if bytes.HasPrefix(line, []byte("func ")) {
		r := line[5:]
		if i := bytes.IndexByte(r, '('); i >= 0 {
			return string(r[:i])
		}
	}
	if i := bytes.IndexByte(line, '='); i >= 0 {
		return string(line[:i])
	}
	return ""
}

func splitLines(b []byte) [][]byte {
	if len(b) == 0 {
		return nil
	}
	return bytes.Split(bytes.TrimSuffix(b, []byte("\n")), []byte("\n"))
}

var seenLine = map[string]bool{}
var seenFunc = map[string]bool{}

func checkEnv(c *Ctx, e envCase, emit bool) {
	c.Eval()
	rp := e.replay()
	nfail0 := totalFails()
	reported := func() bool { return totalFails() > nfail0 }
	s1, out1 := build(e.stmts)
	names := globalNames(s1)
	orig := map[string]object.Object{}
	for _, n := range names {
		if n == "info" || n == "self" {
			continue
		}
		if o := getGlobal(s1, n); o != nil {
			orig[n] = o
		}
	}
	full, nfull := saveBytes(s1, 0)
	lim, nlim := saveBytes(s1, e.maxLen)
	if full == nil || lim == nil {
		failf(c, "save-error", rp, "SaveGlobals returned an error on a bytes.Buffer")
		return
	}
	// ---- correspondence cases
	if emit {
		emitSave(c, s1, orig, e.maxLen, lim, nlim)
	}
	// ---- one line per binding, sorted, complete lines only
	fullLines, limLines := splitLines(full), splitLines(lim)
	expected := 0
	var savedNames []string
	for n, o := range orig {
		if object.Constant(n) && extraSet[n] {
			continue
		}
		_ = o
		expected++
		savedNames = append(savedNames, n)
	}
	sort.Strings(savedNames)
	if nfull != expected || len(fullLines) != expected {
		cls := "other"
		for _, n := range savedNames {
			if strings.Contains(orig[n].Inspect(), "\n") {
				cls = otherClass(orig[n])
				if isData(orig[n]) {
					cls = "data-value"
				}
				if _, isF := orig[n].(object.Function); isF {
					cls = "function"
				}
				break
			}
		}
		failf(c, "binding-occupies-several-lines:"+cls, rp, fmt.Sprintf("%d bindings to save, SaveGlobals reported %d, file has %d lines", expected, nfull, len(fullLines)))
	} else {
		for i, n := range savedNames {
			if ln := lineName(fullLines[i]); ln != n {
				sig := "line-order-or-name"
				if f, isF := orig[n].(object.Function); isF && f.Name != nil && f.Name.Literal() != n {
					sig = "binding-lost:alias-of-named-function"
				}
				failf(c, sig, rp, fmt.Sprintf("line %d is %q, expected the binding of %q", i, fullLines[i], n))
				break
			}
		}
	}
	// the value-length limit: the limited file is the full file minus whole lines; a missing line is too long
	if e.maxLen > 0 && !reported() {
		j := 0
		for _, l := range fullLines {
			if j < len(limLines) && bytes.Equal(limLines[j], l) {
				j++
				continue
			}
			val := l
			if i := bytes.IndexByte(l, '='); i >= 0 {
				val = l[i+1:]
			}
			if len(val) <= e.maxLen {
				failf(c, "value-length-limit:short-value-skipped", rp, fmt.Sprintf("limit %d, line %q absent", e.maxLen, l))
			}
			c.Count("skipped-by-limit")
		}
		if j != len(limLines) || nlim != len(limLines) {
			failf(c, "value-length-limit:truncated-or-extra-line", rp, fmt.Sprintf("limit %d: limited file is not a sub-sequence of whole lines of the full file", e.maxLen))
		}
		for _, l := range limLines {
			if bytes.HasPrefix(l, []byte("func ")) {
				continue // named functions are written whatever their length
			}
			if i := bytes.IndexByte(l, '='); i >= 0 && len(l)-i-1 > e.maxLen {
				failf(c, "value-length-limit:long-value-written", rp, fmt.Sprintf("limit %d, line %q", e.maxLen, l))
			}
		}
	}
	// ---- way A: auto-save then auto-load (line by line); way B: save("st") then load("st") (whole file)
	s1.MaxValueLen = e.maxLen
	os.Remove(".gr")
	if err := repl.AutoSave(s1, repl.Options{AutoSave: true, MaxValueLen: e.maxLen}); err != nil {
		failf(c, "autosave-error", rp, err.Error())
		return
	}
	fileA, errRd := os.ReadFile(".gr")
	if errRd != nil {
		// nothing was set in this session (every statement failed): AutoSave does not write; auto-load what save() writes
		c.Count("autosave-skipped-nothing-set")
		fileA = lim
		_ = os.WriteFile(".gr", lim, 0o644)
	}
	if !bytes.Equal(fileA, lim) {
		failf(c, "autosave-differs-from-SaveGlobals", rp, fmt.Sprintf("%q vs %q", fileA, lim))
	}
	evalQuietD(s1, out1, `save("st")`, 0)
	fileB, _ := os.ReadFile("st.gr")
	if !bytes.Equal(fileB, lim) {
		failf(c, "save-extension-differs-from-SaveGlobals", rp, fmt.Sprintf("%q vs %q", fileB, lim))
	}
	out1.Reset()
	sA, outA := newState()
	sA.MaxValueLen = e.maxLen
	errA := repl.AutoLoad(sA, repl.Options{AutoLoad: true, AutoSave: true, MaxValueLen: e.maxLen}) // the session's real configuration
	sB, outB := newState()
	_, errsB := evalQuietD(sB, outB, `load("st")`, 0)
	outA.Reset()
	outB.Reset()
	limited := map[string]bool{}
	for _, l := range limLines {
		limited[lineName(l)] = true
	}
	type way struct {
		tag string
		s   *eval.State
		out *bytes.Buffer
		err string
	}
	ea := ""
	if errA != nil {
		ea = errA.Error()
	}
	ways := []way{{"autoload", sA, outA, ea}, {"load", sB, outB, strings.Join(errsB, "; ")}}
	missA := 0
	dataFailed := false
	for wi, w := range ways {
		got := map[string]object.Object{}
		for _, n := range globalNames(w.s) {
			if n == "info" || n == "self" {
				continue
			}
			if o := getGlobal(w.s, n); o != nil {
				got[n] = o
			}
		}
		miss := 0
		for _, n := range savedNames {
			o := orig[n]
			if e.maxLen > 0 && !limited[n] {
				continue // skipped by the limit (checked above)
			}
			r := got[n]
			if extraSet[n] && r != nil && Canon(r) == Canon(o) {
				continue
			}
			switch {
			case isData(o):
				c.Count("data-global")
				d := diffClass(o, r)
				if d == "" {
					c.NonTrivial("d:" + Canon(o))
					continue
				}
				miss++
				dataFailed = true
				if d == "missing" {
					if wi == 1 && w.err != "" {
						continue // reported once below as an aborted whole-file load
					}
					d = "binding-lost:" + strings.ToLower(o.Type().String())
				} else {
					d = "reload-" + d
				}
				if reboundSpecial(orig) {
					d = "reload-value-changed:rebound-nil-Inf-NaN"
				}
				failf(c, d, rp, fmt.Sprintf("%s: %s was %s, reloaded %s", w.tag, n, Canon(o), canonOrNone(r)))
			default:
				if f, isF := o.(object.Function); isF {
					c.Count("function-global")
					rf, isF2 := r.(object.Function)
					if !isF2 {
						miss++
						if wi == 1 && w.err != "" && r == nil {
							continue
						}
						failf(c, fnSig(f, n, "lost"), rp, fmt.Sprintf("%s: function %s reloaded as %s", w.tag, n, canonOrNone(r)))
						continue
					}
					if !sameFn(n, f, rf) {
						failf(c, fnSig(f, n, "tree-changed"), rp, fmt.Sprintf("%s: %s saved as %q reloads as %q [%v | %v]", w.tag, n, f.Inspect(), rf.Inspect(), fnOf(f), fnOf(rf)))
					} else {
						c.NonTrivial("f:" + f.Inspect())
					}
					continue
				}
				c.Count("other-global:" + otherClass(o))
				if r == nil || Canon(r) != Canon(o) {
					miss++
					if wi == 1 && w.err != "" && r == nil {
						continue
					}
					failf(c, "not-reloaded:"+otherClass(o), rp, fmt.Sprintf("%s: %s was %s, reloaded %s", w.tag, n, Canon(o), canonOrNone(r)))
				}
			}
		}
		for n := range got {
			if _, ok := orig[n]; !ok {
				failf(c, "binding-added-by-reload", rp, fmt.Sprintf("%s: %s = %s", w.tag, n, Canon(got[n])))
			}
		}
		if wi == 0 {
			missA = miss
		}
		if wi == 1 && w.err != "" && miss > missA {
			cause := "other"
			probe, _ := newState()
			for _, l := range limLines {
				if _, err := eval.EvalString(probe, string(l), false); err == nil {
					continue
				}
				o, ok := orig[lineName(l)]
				switch {
				case !ok:
				case isData(o):
					cause = "data-value"
				default:
					if f, isF := o.(object.Function); isF {
						cause = "function:" + fnCause(f)
					} else {
						cause = otherClass(o)
					}
				}
				break
			}
			failf(c, "whole-file-load-stops-at-unloadable-line:"+cause, rp, fmt.Sprintf("load() error %q: %d bindings not restored (auto-load: %d)", w.err, miss, missA))
		}
		// ---- save again: same bytes; and a second cycle
		re, _ := saveBytes(w.s, e.maxLen)
		if !bytes.Equal(re, lim) && !reported() {
			failf(c, "resave-differs", rp, fmt.Sprintf("%s: %q then %q", w.tag, lim, re))
		}
		cycles := 1
		if c.Thorough() {
			cycles = 3
		}
		prev, ps := re, w.s
		for k := 0; k < cycles && wi == 0; k++ {
			s2, _ := newState()
			for _, l := range splitLines(prev) {
				_, _ = eval.EvalString(s2, string(l), false)
			}
			nb, _ := saveBytes(s2, e.maxLen)
			if !bytes.Equal(nb, prev) {
				if reported() {
					break // a consequence of a reload failure already reported for this environment
				}
				failf(c, "save-load-cycle-not-stable", rp, fmt.Sprintf("cycle %d: %q then %q", k+2, prev, nb))
				break
			}
			prev, ps = nb, s2
		}
		_ = ps
	}
	// ---- behaviour of every reloaded function on sample arguments (last: calls may change globals).
	// Not when the limit skipped a binding: a function reading a skipped global cannot behave the same.
	// Nor when a data global was not reproduced (reported above): functions reading it differ as a consequence.
	if len(limLines) != len(fullLines) || dataFailed {
		return
	}
	for _, n := range savedNames {
		f, isF := orig[n].(object.Function)
		if !isF || (e.maxLen > 0 && !limited[n]) {
			continue
		}
		np := len(f.Parameters)
		if f.Variadic {
			np += c.R.Intn(3) - 1
		}
		for k := 0; k < 2; k++ {
			var args []string
			for i := 0; i < np; i++ {
				a := sampleArgs[c.R.Intn(len(sampleArgs))]
				if strings.HasPrefix(n, "op") { // the operator-adjacency functions compute on integers
					a = []string{"5", "3", "0", "-4", "7"}[c.R.Intn(5)]
				}
				if strings.HasPrefix(n, "mf") || strings.HasPrefix(n, "ml") { // functions made by macros: numbers
					a = []string{"90", "1", "7", "2.5", "-3"}[c.R.Intn(5)]
				}
				args = append(args, a)
			}
			call := n + "(" + strings.Join(args, ",") + ")"
			sawDeadline = false
			r1 := callObs(s1, out1, call)
			for _, w := range ways[:1] {
				r2 := callObs(w.s, w.out, call)
				if sawDeadline {
					c.Count("harness-resource-limit:call-deadline") // one side ran out of the harness's time: no verdict
					continue
				}
				if r1 != r2 {
					failf(c, fnSig(f, n, "behaviour-changed"), rp, fmt.Sprintf("%s: %s gives %s, after reload %s (%s)", w.tag, call, r1, r2, lastErrs))
				}
			}
			c.Count("function-call")
		}
	}
}

func lineFor(lines [][]byte, name string) []byte {
	for _, l := range lines {
		if lineName(l) == name {
			return l
		}
	}
	return nil
}

func canonOrNone(o object.Object) string {
	if o == nil {
		return "(unbound)"
	}
	return Canon(o)
}

// reboundSpecial: the session changed one of the globals the printed form of nil / +Inf / -Inf / NaN refers to.
func reboundSpecial(orig map[string]object.Object) bool {
	if o, ok := orig["nil"]; ok && o.Type() != object.NIL {
		return true
	}
	if o, ok := orig["Inf"]; ok {
		if f, isF := o.(object.Float); !isF || !math.IsInf(f.Value, 1) {
			return true
		}
	}
	if o, ok := orig["NaN"]; ok {
		if f, isF := o.(object.Float); !isF || !math.IsNaN(f.Value) {
			return true
		}
	}
	return false
}

func fnCause(f object.Function) string {
	if p := knownBodyPattern(f); p != "" {
		return p
	}
	return "unclassified"
}

// fnSig: signature of a function failure: construct class + outcome.
func fnSig(f object.Function, key, outcome string) string {
	if !createdAtRoot(f) {
		return "function-" + outcome + ":closure-captured-variable"
	}
	if p := knownBodyPattern(f); p != "" {
		return "function-roundtrip:" + p
	}
	return "function-" + outcome + ":unclassified"
}

// callObs: outcome class, printed output and the RESULT WITH ITS TYPE (canonical dump: INTEGER 0 and FLOAT 0 differ,
// floats by bits) of a call; the result is read through a scratch global that is deleted again.
func callObs(s *eval.State, out *bytes.Buffer, call string) string {
	out.Reset()
	panicked, errs := evalQuiet(s, out, "vres__ = "+call)
	o := out.String()
	out.Reset()
	if !panicked && len(errs) == 0 {
		if r := getGlobal(s, "vres__"); r != nil {
			o += "\x00" + Canon(r)
		}
	}
	evalQuiet(s, out, "del(vres__)")
	out.Reset()
	cls := "v"
	if panicked {
		cls = "p"
		o = "" // the panic message and partial output are not compared
	} else if len(errs) > 0 {
		cls = "e"
	}
	lastErrs = strings.Join(errs, "; ")
	return cls + ":" + Hx([]byte(o))
}

var lastErrs string

// failf records a failure; each signature keeps its first 25 occurrences in full, the rest are only counted
// (the run-wide list is bounded: a frequent known finding must not crowd out a rare new one).
var perSig = map[string]int{}

func totalFails() int {
	n := 0
	for _, v := range perSig {
		n += v
	}
	return n
}

func failf(c *Ctx, sig, cs, detail string) {
	perSig[sig]++
	if perSig[sig] > 25 {
		c.Count("more:" + sig)
		return
	}
	c.Fail(sig, cs, detail)
}

// ------------------------------------------------------------------ correspondence cases

func emitSave(c *Ctx, s *eval.State, orig map[string]object.Object, maxLen int, saved []byte, n int) {
	var names []string
	for k := range orig {
		names = append(names, k)
	}
	sort.Strings(names)
	// shuffled: the model sorts
	for i := len(names) - 1; i > 0; i-- {
		j := c.R.Intn(i + 1)
		names[i], names[j] = names[j], names[i]
	}
	lines := splitLines(saved)
	var bs []string
	for _, k := range names {
		o := orig[k]
		switch {
		case inModelDomain(o):
			bs = append(bs, Hx([]byte(k))+":D:"+Canon(o))
			c.Count("model-data-binding")
		default:
			if f, isF := o.(object.Function); isF {
				if fd, ok := funcDesc(f); ok {
					bs = append(bs, Hx([]byte(k))+":F:"+fd)
					c.Count("model-function-binding")
					emitFunc(c, f, fd)
					continue
				}
				named := "0"
				if f.Name != nil && f.Name.Literal() == k {
					named = "1"
				}
				txt := f.Inspect()
				if named == "0" {
					if l := lineFor(lines, k); l != nil && len(l) > len(k) {
						txt = string(l[len(k)+1:]) // an opaque binding travels as the text the implementation wrote
					}
				}
				bs = append(bs, Hx([]byte(k))+":O:"+named+":"+Hx([]byte(txt)))
				c.Count("opaque-binding")
				continue
			}
			bs = append(bs, Hx([]byte(k))+":O:0:"+Hx([]byte(o.Inspect())))
			c.Count("opaque-binding")
		}
	}
	var ex []string
	for _, x := range extraNames {
		ex = append(ex, Hx([]byte(x)))
	}
	c.Case(fmt.Sprintf("SAVE %d %s %s", maxLen, strings.Join(ex, ","), strings.Join(bs, " ")), fmt.Sprintf("%d %s", n, Hx(saved)))
	// every data line of the model's domain is read back by both sides
	for _, l := range lines {
		k := lineName(l)
		o, ok := orig[k]
		if !ok || !inModelDomain(o) || seenLine[string(l)] {
			continue
		}
		seenLine[string(l)] = true
		s2, _ := newState()
		obs := "REJECT"
		if _, err := eval.EvalString(s2, string(l), false); err == nil {
			if r := getGlobal(s2, k); r != nil {
				obs = Hx([]byte(k)) + " " + Canon(r)
			}
		}
		c.Case("LINE "+Hx(l)+" "+Convs(l), obs)
	}
}

// funcDesc: <hex name|->:<lambda>:<variadic>:<hex params dump>:<hex body dump>, when the trees are plain syntax.
func funcDesc(f object.Function) (string, bool) {
	if f.Body == nil {
		return "", false
	}
	pd, bd := DumpList(f.Parameters, true), DumpAST(f.Body)
	if strings.Contains(pd+bd, "(Reg") || strings.Contains(pd+bd, "(Unknown") {
		return "", false
	}
	if !StringsInQuoteDomain([]byte(f.Inspect()), false) {
		return "", false
	}
	nm := "-"
	if f.Name != nil {
		nm = Hx([]byte(f.Name.Literal()))
	}
	return fmt.Sprintf("%s:%d:%d:%s:%s", nm, B2i(f.Lambda), B2i(f.Variadic), Hx([]byte(pd)), Hx([]byte(bd))), true
}

func emitFunc(c *Ctx, f object.Function, fd string) {
	if seenFunc[fd] {
		return
	}
	seenFunc[fd] = true
	txt := f.Inspect()
	line := txt
	if f.Name == nil {
		line = "k=" + txt
	}
	c.Case("FUNC "+fd+" "+Convs([]byte(line)), Hx([]byte(txt))+" "+fnRoundTrip(f, []byte(line)))
}

// ------------------------------------------------------------------ generators

type gen struct {
	c *Ctx
	g *Gen
}

func (x *gen) intn(n int) int { return x.c.R.Intn(n) }

var specialInts = []string{"0", "1", "-1", "9223372036854775807", "(-9223372036854775807)", "42", "-7", "4611686018427387904", "1000000", "255"}
var specialFloats = []string{"0.5", "-2.25", "0.001", "1.5e-3", "3.14159", "1e21", "1e20", "1e22", "123456.789", "0.1", "2.5e-8", "1e-7", "5e-324", "2.2250738585072014e-308",
	"1.7976931348623157e308", "1e308", "4.9e-324", "0.30000000000000004", "1e23", "8.41e21", "2.5", "-0.75", "100.5", "6.02e23", "1.0000000000000002", "0.000001", "9.5e-7"}
var integralFloats = []string{"9007199254740993.0", "1.0", "-3.0", "0.0", "(-0.0)", "1e3", "2e10", "9007199254740992.0", "4611686018427387904.0"}

func (x *gen) float(findings bool) string {
	switch k := x.intn(10); {
	case k < 4:
		return specialFloats[x.intn(len(specialFloats))]
	case k < 5 && findings:
		return integralFloats[x.intn(len(integralFloats))]
	case k < 6:
		return []string{"(1/0.)", "(-1/0.)", "((1/0.)-(1/0.))"}[x.intn(3)]
	default:
		// random decimal: 1-17 significant digits, exponent anywhere in the double range, never integral
		nd := 1 + x.intn(17)
		var b strings.Builder
		b.WriteByte(byte('1' + x.intn(9)))
		for i := 1; i < nd; i++ {
			b.WriteByte(byte('0' + x.intn(10)))
		}
		exp := x.intn(40) - 30
		if x.intn(6) == 0 {
			exp = x.intn(630) - 325
		}
		if !findings && exp >= -nd+1 && exp < 19 {
			exp = -nd - 1 - x.intn(5) // keep a fractional part: integral floats below 2^63 are a recorded finding
		}
		s := b.String() + "e" + fmt.Sprint(exp)
		if x.intn(4) == 0 {
			s = "(-" + s + ")"
		}
		return s
	}
}

func (x *gen) str() string {
	n := x.intn(9)
	if x.intn(8) == 0 {
		n = 20 + x.intn(60)
	}
	var b strings.Builder
	b.WriteByte('"')
	for i := 0; i < n; i++ {
		var ch int
		switch x.intn(6) {
		case 0:
			ch = x.intn(32) // control bytes incl. newline
		case 1:
			ch = 127 + x.intn(129) // high bytes (mostly invalid UTF-8)
		case 2:
			ch = []int{'"', '\\', '\n', '\t', 7, 8, 12, 11, 13, 0, '`', '\''}[x.intn(12)]
		default:
			ch = 32 + x.intn(95)
		}
		fmt.Fprintf(&b, "\\x%02x", ch)
	}
	if x.intn(10) == 0 {
		b.WriteString([]string{"é", "日本", "\\u2028", "\\U0001F600", "€"}[x.intn(5)]) // valid multi-byte UTF-8: direct oracle only
	}
	b.WriteByte('"')
	return b.String()
}

func (x *gen) scalar(findings bool) string {
	switch x.intn(8) {
	case 0, 1:
		if x.intn(2) == 0 {
			if findings && x.intn(4) == 0 {
				return "(-9223372036854775807-1)"
			}
			return specialInts[x.intn(len(specialInts))]
		}
		v := int64(x.c.R.Next())
		if v == math.MinInt64 && !findings {
			v = 5
		}
		if v < 0 {
			if v == math.MinInt64 {
				return "(-9223372036854775807-1)"
			}
			return fmt.Sprintf("(%d)", v)
		}
		return fmt.Sprint(v >> uint(x.intn(60)))
	case 2, 3:
		return x.float(findings)
	case 4, 5:
		return x.str()
	case 6:
		return []string{"true", "false"}[x.intn(2)]
	default:
		return "nil"
	}
}

// value: source text of a data value; containers across the small/large thresholds (8 elements / 4 pairs)
func (x *gen) value(d int, findings bool) string {
	if d <= 0 || x.intn(3) == 0 {
		return x.scalar(findings)
	}
	if x.intn(2) == 0 {
		n := []int{0, 1, 2, 3, 7, 8, 9, 12}[x.intn(8)]
		if d < 2 && n > 3 && x.intn(2) == 0 {
			n = x.intn(3)
		}
		var el []string
		for i := 0; i < n; i++ {
			el = append(el, x.value(d-1, findings))
		}
		return "[" + strings.Join(el, ",") + "]"
	}
	n := []int{0, 1, 2, 4, 5, 6}[x.intn(6)]
	var kv []string
	for i := 0; i < n; i++ {
		var k string
		switch x.intn(7) {
		case 0:
			k = "[" + x.scalarKey(findings) + "," + x.scalarKey(findings) + "]"
		case 1:
			k = "{" + x.scalarKey(findings) + ":" + x.scalar(findings) + "}"
		default:
			k = x.scalarKey(findings)
		}
		kv = append(kv, k+":"+x.value(d-1, findings))
	}
	return "{" + strings.Join(kv, ",") + "}"
}

// scalarKey: a key of every scalar type (NaN cannot be a key: Equals(key,key) fails)
func (x *gen) scalarKey(findings bool) string {
	for {
		s := x.scalar(findings)
		if !strings.Contains(s, "(1/0.)-(1/0.)") {
			return s
		}
	}
}

var dataNames = []string{"x", "y", "s", "n", "i", "a", "b", "c", "foo", "_z1", "d1", "d2", "val", "M_x", "Ab", "ZZ", "TEN", "K_9"}
var funcNames = []string{"f", "g", "fact", "h2", "fn1", "fn2"}
var lamNames = []string{"l1", "l2", "lam", "op", "cb"}

// environment: a list of statements building a session's globals
func (x *gen) environment(findings bool) []string {
	var st []string
	x.g.O.AvoidKnown = !findings
	nd := 1 + x.intn(6)
	used := map[string]bool{}
	for i := 0; i < nd; i++ {
		n := dataNames[x.intn(len(dataNames))]
		if used[n] {
			continue
		}
		used[n] = true
		st = append(st, n+" = "+x.value(1+x.intn(3), findings))
	}
	nf := x.intn(4)
	for i := 0; i < nf; i++ {
		switch x.intn(5) {
		case 0, 1:
			n := funcNames[x.intn(len(funcNames))]
			st = append(st, "func "+n+"("+strings.Join(x.params(), ", ")+") "+x.g.Block(1+x.intn(3)))
		case 2:
			n := lamNames[x.intn(len(lamNames))]
			p := x.params()
			ps := "(" + strings.Join(p, ",") + ")"
			if len(p) == 1 && p[0] != ".." {
				ps = p[0]
			}
			st = append(st, n+" = "+ps+" => "+x.g.Expr(1+x.intn(3)))
		case 3:
			n := lamNames[x.intn(len(lamNames))]
			st = append(st, n+" = ("+strings.Join(x.params(), ",")+") => "+x.g.Block(1+x.intn(2)))
		default:
			n := lamNames[x.intn(len(lamNames))]
			st = append(st, n+" = func("+strings.Join(x.params(), ", ")+") "+x.g.Block(1+x.intn(2)))
		}
	}
	// a function or lambda whose body holds string literals over the whole byte universe (incl. raw-string sources)
	if x.intn(3) == 0 {
		s, _ := x.strFunc()
		st = append(st, s)
	}
	// functions made by macros whose templates unquote computed values
	if x.intn(4) == 0 {
		ms, _ := x.macroFuncs(1 + x.intn(2))
		st = append(st, ms...)
	}
	// a function or lambda whose body puts a prefix operator right after a binary one (or a binary after a postfix)
	if x.intn(3) == 0 {
		s, _ := x.adjFunc()
		st = append(st, s)
	}
	// history: a function writes a global through a reference; an alias of a function; a one-line quote
	switch x.intn(8) {
	case 0:
		st = append(st, "func setg(v) {gv = v}", "gv = 0", "setg("+x.value(1, findings)+")")
	case 1:
		if nf > 0 {
			st = append(st, "al = "+funcNames[x.intn(len(funcNames))])
		}
	case 2:
		st = append(st, "qq = quote("+[]string{"1+2", "a*b", "f(x)", "[1,2]"}[x.intn(4)]+")")
	case 3:
		st = append(st, "cnt = 0", "func bump() {cnt = cnt + 1}", "bump()", "bump()")
	case 4:
		// an alias of a named function whose name is then rebound to another named function (same or other text),
		// a chain, the alias inside a container
		b2 := []string{"x+1", "x+2"}[x.intn(2)]
		st = append(st, "func afn(x){x+1}", "kal = afn", "func bfn(x){"+b2+"}", "afn = bfn")
		switch x.intn(3) {
		case 0:
			st = append(st, "bfn = kal")
		case 1:
			st = append(st, "cfn = [bfn, {\"f\": bfn}]") // intact; a stale alias in a container is the recorded finding of the session family
		}
	}
	if findings {
		switch x.intn(8) {
		case 0:
			st = append(st, "func mk(v) {() => v}", "clo = mk("+x.scalar(false)+")")
		case 1:
			st = append(st, "qb = quote(if a {b})")
		case 2:
			st = append(st, "ext = "+[]string{"sin", "len2", "sprintf", "round"}[x.intn(4)])
		case 3:
			st = append(st, []string{"nil = 3", "Inf = 1", "NaN = 0"}[x.intn(3)], "w = [nil, 1/0., (1/0.)-(1/0.)]")
		}
	}
	return st
}

func (x *gen) params() []string {
	n := x.intn(4)
	p := []string{"a", "b", "c"}[:n]
	p = append([]string{}, p...)
	if n > 0 && x.intn(7) == 0 {
		p = append(p, "..")
	}
	return p
}

// ------------------------------------------------------------------ corpus (runs first)

var corpus = []envCase{
	{[]string{`x = 1.0`}, 0},                                      // integral float reloads as INTEGER
	{[]string{`y = -9223372036854775807-1`}, 0},                   // min int64 reloads as FLOAT
	{[]string{`nz = -0.0`, `m = {2.0:1}`, `a = [1.0, [3.0]]`}, 0}, // -0 and nested integral floats
	{[]string{`q = quote(if a {b})`, `z = 5`}, 0},                 // a quote value printed on several lines
	{[]string{`func mk(v) {() => v}`, `c = mk(5)`}, 0},            // closure: captured variable is not saved
	{[]string{`nil = 3`, `m = {}`, `x = m["k"]`}, 0},              // nil rebound: the saved text `nil` names the global
	{[]string{`Inf = 1`, `y = 1/0.`}, 0},
	{[]string{`s = sin`, `z = 5`}, 0}, // extension valued global: unloadable line, whole-file load stops there
	{[]string{`func g(a) {a+1}`, `h = g`}, 0},
	{[]string{`f1 = () => {a || b}`, `f2 = () => {a = 3}`, `f3 = () => {return 1}`, `g1 = () => {a && b}`, `f9 = (a) => {a := 1}`, `g8 = () => {/*c*/}`, `g3 = () => {1:2}`}, 0},
	{[]string{`f = (a,b,c) => a+(b+c)`}, 0},
	{[]string{`func f(a,b,c) {a - -b*c}`, `g = (a,b,c) => a + +b/c - -a%c`, `func h(a,b) {[a - -b*2][0] + max(a - -b/2, a)}`}, 0}, // round 11: the signed operand is the leftmost leaf of the right operand
	// round 12: a right operand in parentheses under the SAME operator, for every operator but + (the recorded a+(b+c) finding): the saved text must keep the grouping
	{[]string{`func vol(w,h,d) {w*(h*d)}`, `func q(a,b,c) {a-(b-c)}`, `dv = (a,b,c) => a/(b/c)`, `md = (a,b,c) => a%(b%c)`, `func an(a,b,c) {a&&(b&&c)}`, `func orr(a,b,c) {a||(b||c)}`, `sh = (a,b,c) => a<<(b<<c)`, `func bx(a,b,c) {[a&(b&c), a|(b|c), a^(b^c), a>>(b>>c)]}`, `func mx(a,b,c) {a*(b/c) + a/(b*c) - a*(b%c)}`}, 0},
	{[]string{`func f(a,b) {a;-b}`}, 0},
	{[]string{`f = a => (1).x`}, 0},
	{[]string{`func f(a,b) {a +
// c
 b}`}, 0},
	{[]string{`func f(a){return // c
a}`}, 0},
	{[]string{`i = 1/0.`, `n = -1/0.`, `nan = (1/0.)-(1/0.)`, `t = 1e20`, `u = 1e21`, `big = 1e308`, `sub = 5e-324`}, 0},
	{[]string{`s = "a\nb\x07\x00\xff\x7f\"\\"`, `u = "héllo "`, `e = ""`}, 0},
	{[]string{`m = {1.5:[1,2],[1,2]:3,nil:4,true:5,"k":{},{1:2}:6}`, `big = [1,2,3,4,5,6,7,8,9,10]`, `bm = {1:1,2:2,3:3,4:4,5:5,6:6}`, `em = {}`, `ea = []`}, 0},
	{[]string{`x = "0123456789"`, `y = "01234"`, `z = [1,2,3,4,5,6,7,8,9]`, `w = 5`, `func longname(a,b,c) {a+b+c+a+b+c}`, `l = a => a+1+2+3+4+5+6`}, 8},
	{[]string{`TEN = 10`, `Ab = 3`, `A_B = 5`, `A1 = 2`}, 0},
	{[]string{`func f(n) {if n<=1 {1} else {n*f(n-1)}}`, `func v(a, ..) {len(..)}`, `w = (..) => ..`, `x = 4`, `func usex(a) {a + x}`}, 0},
}

func run(c *Ctx) {
	c.Rule = "global environments built by evaluating generated grol source on a fresh eval.State: 1-6 data globals (integers incl. both int64 extremes, floats: special list, random 1-17 digit decimals over the " +
		"whole exponent range, +-Inf, NaN, strings over all 256 bytes via \\x escapes and some valid UTF-8, nested arrays of 0-12 elements and maps of 0-6 pairs with keys of every type incl. arrays and maps), " +
		"0-3 named functions / lambdas / anonymous func values with bodies from the shared grammar generator, histories (function writing a global, alias of a function, one-line quote), constant names, " +
		"value-length limits 0/8/30/200/4000 (the default), named functions 1-2x longer than the limit; a findings stream adds integral floats, min-int64, closures, multi-line quotes, extension values, rebound nil/Inf/NaN and the recorded formatter findings. " +
		"Sessions (fresh state, repl.AutoLoad, inputs, repl.AutoSave with the real options; then save()/load()): lines 1x/1.2x/2x/10x the limit (limits 4000/200/30/0, up to 70 KB), data values at limit-1/limit/limit+1, " +
		"aliases of named functions whose own name was redefined/deleted/rebound (alias sorting before and after, alias of alias), globals changed only from inside functions/lambdas/loops/index assignment/++/del. " +
		"non-trivial = distinct reloaded data values and function texts"
	_ = extensions.Init(&extensions.Config{HasLoad: true, HasSave: true})
	log.SetLogLevelQuiet(log.Critical)
	log.SetOutput(io.Discard)
	fresh, _ := newState()
	extraNames = globalNames(fresh)
	for _, n := range extraNames {
		extraSet[n] = true
	}
	if c.ReplayCase != "" {
		f := strings.Fields(c.ReplayCase)
		if len(f) == 3 && f[0] == "ENV" {
			var ml int
			fmt.Sscan(f[1], &ml)
			checkEnv(c, envCase{strings.Split(string(Unhx(f[2])), "\x00"), ml}, false)
		}
		if sc, ok := parseSessCase(f); ok {
			checkSessions(c, sc)
		}
		return
	}
	for _, e := range corpus {
		checkEnv(c, e, true)
	}
	x := &gen{c, &Gen{R: c.R, O: GenOpts{AvoidKnown: true, MaxDepth: 3}}}
	runSessions(c, x)
	n, nf := 260, 60
	if c.Thorough() {
		n, nf = 6000, 1000
	}
	limits := []int{0, 0, 0, 8, 30, 200, 4000}
	for i := 0; i < n; i++ {
		e := envCase{x.environment(false), limits[c.R.Intn(len(limits))]}
		if c.R.Intn(10) == 0 {
			// a named function whose saved line is long relative to the limit (named functions are not subject to it),
			// with data globals sorted after it
			base := e.maxLen
			if base == 0 || base > 200 {
				base = 300 // the model prints it too (quadratic): the 4000 / 70000 byte cases are in the session oracle
			}
			e.stmts = append(e.stmts, fnOfLen("hlong", int(float64(base)*[]float64{1, 1.2, 2}[c.R.Intn(3)])), "zlast = [1, \"t\"]")
		}
		checkEnv(c, e, true)
	}
	for i := 0; i < nf; i++ {
		checkEnv(c, envCase{x.environment(true), limits[c.R.Intn(len(limits))]}, true)
	}
	os.Remove(".gr")
	os.Remove("st.gr")
}
