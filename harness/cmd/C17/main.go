package main

// C17: restricted IO confines file access to plain .gr names in the current directory.
//
// Correspondence (real code vs extracted Coq model, diffed by ./check):
//   SAN  the real sanitizeFileName (hook extensions.VerifSanitize) on every string up to length L over the
//        12-symbol alphabet, with and without ".gr", under the four IO-flag combinations; all 256 bytes alone and
//        embedded; random longer names.
//   ALW  the allowed-set predicate used by the direct oracle below vs the model's allowedb.
//   REG  one child process per configuration (16): which of save/load/exec/run exist after extensions.Init.
//   FS   one child process per configuration: grol programs save("..")/load("..")/image.save/exec/run evaluated by
//        repl.EvalStringWithOption with the working directory inside a scratch tree with decoy files in the parent
//        and sibling directories; after every case the tree is diffed against its baseline and restored.
// Direct oracle (no model): accepted names under restricted IO are [A-Za-z0-9_]*.gr (only ".gr" in empty-only
// mode), the result depends on the name only, a rejected request leaves the tree untouched, nothing outside the
// allowed set is created, changed or read, exec/run are undefined when restricted.  Beyond the length the model
// is run on, the exhaustive sweep is compared with a Go re-statement of the sanitiser.

import (
	"bufio"
	"context"
	"fmt"
	"io"
	"os"
	"os/exec"
	"path/filepath"
	"regexp"
	"runtime/debug"
	"sort"
	"strings"
	"syscall"
	"unicode/utf8"

	"fortio.org/log"
	"grol.io/grol/extensions"
	"grol.io/grol/object"
	"grol.io/grol/repl"
	"verifharness/common"
	. "verifharness/common"
)

const (
	childEnv   = "VERIF_C17_CHILD"
	traceEnv   = "VERIF_C17_TRACE"
	markPrefix = "/verif-c17-mark/" // never exists; a stat of markPrefix+"B<n>" / "E<n>" brackets request n in the strace log
)

func main() {
	if os.Getenv(childEnv) != "" {
		childMain(os.Getenv(childEnv))
		return
	}
	common.Main("C17", runC17)
}

// the property's alphabet: letters (g, r so that ".gr" can occur inside a name, Z), digit, underscore, dot, slash,
// backslash, NUL, space, tilde, a non-ASCII byte
var alphabet = []byte{'g', 'r', 'Z', '7', '_', '.', '/', '\\', 0x00, ' ', '~', 0xff}

const ext = ".gr"

// ---------------------------------------------------------------- model-free statements about names
func isAlnum(b byte) bool {
	return (b >= 'a' && b <= 'z') || (b >= 'A' && b <= 'Z') || (b >= '0' && b <= '9') || b == '_'
}

// plain: letters, digits, underscores followed by .gr
func plainName(n string) bool {
	if !strings.HasSuffix(n, ext) {
		return false
	}
	for i := 0; i < len(n)-len(ext); i++ {
		if !isAlnum(n[i]) {
			return false
		}
	}
	return true
}

// the set of names a program may touch under a restricted configuration
func allowedName(emptyOnly bool, n string) bool {
	if n == "grol.png" {
		return true
	}
	if emptyOnly {
		return n == ext
	}
	return plainName(n)
}

// Go re-statement of the sanitiser (used only beyond the sizes on which the Coq model is run)
func restate(unrestricted, emptyOnly, hasArg bool, name string) (string, bool) {
	if !hasArg {
		return ext, true
	}
	if emptyOnly && name != "" {
		return "", false
	}
	if unrestricted {
		return name, true
	}
	f := strings.TrimSuffix(name, ext)
	for i := 0; i < len(f); i++ {
		if !isAlnum(f[i]) {
			return "", false
		}
	}
	return f + ext, true
}

type ioFlags struct{ emptyOnly, unrestricted bool }

func (f ioFlags) cfg() string { return "11" + b01(f.emptyOnly) + b01(f.unrestricted) }

func b01(b bool) string {
	if b {
		return "1"
	}
	return "0"
}

func hxs(s string) string { return Hx([]byte(s)) }

// ---------------------------------------------------------------- SAN: sanitiser sweep
type batcher struct {
	c     *Ctx
	kind  string
	cfg   string
	names []string
	obs   []string
	max   int
	sep   string
}

func (b *batcher) add(name, obs string) {
	b.names = append(b.names, name)
	b.obs = append(b.obs, obs)
	if len(b.names) >= b.max {
		b.flush()
	}
}

func (b *batcher) flush() {
	if len(b.names) == 0 {
		return
	}
	b.c.Case(b.kind+" "+b.cfg+" "+strings.Join(b.names, ","), strings.Join(b.obs, b.sep))
	b.names, b.obs = b.names[:0], b.obs[:0]
}

type sanSweep struct {
	c       *Ctx
	flags   []ioFlags
	codes   []*strings.Builder // coded mode: one character per name and flag combination
	batch   []*batcher
	decoy   string
	nAcc    int
	nRej    int
	nModel  int
	nDirect int
}

func newSanSweep(c *Ctx) *sanSweep {
	s := &sanSweep{c: c, flags: []ioFlags{{false, false}, {true, false}, {false, true}, {true, true}}, decoy: "zz"}
	for _, f := range s.flags {
		s.batch = append(s.batch, &batcher{c: c, kind: "SAN", cfg: f.cfg(), max: 64, sep: ","})
		s.codes = append(s.codes, &strings.Builder{})
	}
	return s
}

const (
	modeRestate = iota // direct oracle + Go re-statement only
	modeModel          // also an explicit correspondence case (name and result spelled out)
	modeCoded          // also part of a coded correspondence case (SANX: the model driver enumerates the same names)
)

// one name under every flag combination
func (s *sanSweep) one(hasArg bool, name string, mode int) {
	c := s.c
	for i, f := range s.flags {
		got, err := extensions.VerifSanitize(f.unrestricted, f.emptyOnly, hasArg, name)
		acc := err == nil
		c.Eval()
		desc := func() string {
			a := "~"
			if hasArg {
				a = hxs(name)
			}
			return "SAN " + f.cfg() + " " + a
		}
		// --- direct oracle: the property on the implementation alone
		if acc && !f.unrestricted {
			if !plainName(got) {
				sig := "sanitize-accepts-nonplain"
				for i := 0; i < len(got); i++ {
					if got[i] >= 0x80 { // accepted name must be pure ASCII letters/digits/underscore + .gr
						sig = "sanitize-accepts-non-ascii-byte"
					}
				}
				c.Fail(sig, desc(), fmt.Sprintf("restricted IO accepted %q as file %q", name, got))
			}
			if f.emptyOnly && got != ext {
				c.Fail("sanitize-emptyonly-accepts-other", desc(), fmt.Sprintf("empty-only accepted %q as file %q", name, got))
			}
		}
		// function of the name: ask again after an unrelated request under other flags
		_, _ = extensions.VerifSanitize(!f.unrestricted, !f.emptyOnly, true, s.decoy)
		got2, err2 := extensions.VerifSanitize(f.unrestricted, f.emptyOnly, hasArg, name)
		if (err2 == nil) != acc || got2 != got {
			c.Fail("sanitize-not-function-of-name", desc(), fmt.Sprintf("first (%q,%v) then (%q,%v)", got, err, got2, err2))
		}
		if acc {
			s.nAcc++
			if !f.unrestricted && hasArg && name != "" && name != ext {
				c.NonTrivial("acc:" + f.cfg() + ":" + name)
			}
		} else {
			s.nRej++
		}
		if mode == modeCoded {
			s.nModel++
			switch {
			case !acc:
				s.codes[i].WriteByte('!')
			case got == name:
				s.codes[i].WriteByte('=')
			case got == name+ext:
				s.codes[i].WriteByte('+')
			default:
				s.codes[i].WriteString("?" + hxs(got) + "?")
			}
		}
		if mode == modeModel {
			s.nModel++
			o := "!"
			if acc {
				o = hxs(got)
			}
			a := "~"
			if hasArg {
				a = hxs(name)
			}
			s.batch[i].add(a, o)
		}
		if mode != modeModel {
			s.nDirect++
			want, wacc := restate(f.unrestricted, f.emptyOnly, hasArg, name)
			if wacc != acc || (acc && want != got) {
				c.Fail("sanitize-restatement-mismatch", desc(), fmt.Sprintf("real (%q,%v) restated (%q,%v)", got, acc, want, wacc))
			}
		}
	}
}

func (s *sanSweep) flush() {
	for _, b := range s.batch {
		b.flush()
	}
}

// Valid UTF-8 encodings of 2, 3 and 4 bytes for every value of the LOW byte of the code point (a check that decodes
// runes and then looks at byte(r) sees exactly that low byte): 7 code-point pages x 256 low bytes.
func utf8Runes() []string {
	var out []string
	for _, page := range []int{0x0100, 0x0500, 0x0800, 0x4E00, 0xFF00, 0x10000, 0x1F600, 0x10FF00} {
		for low := 0; low < 256; low++ {
			r := rune(page | low)
			if !utf8.ValidRune(r) || utf8.RuneLen(r) < 2 {
				continue
			}
			out = append(out, string(r))
		}
	}
	return out
}

// multi-byte symbols for a small exhaustive sweep: runes whose low code-point byte is a letter ('a' 2/3/4 bytes), a digit,
// '_', '.', '/', NUL, next to plain ASCII symbols
var utf8Tokens = []string{"g", ".", "/", "\u0161", "\u4e61", "\U00010061", "\u0130", "\u015f", "\u012e", "\u012f", "\u0100", "\u00e9"}

func enumerateTokens(toks []string, l int, f func(string)) {
	var rec func(i int, cur string)
	rec = func(i int, cur string) {
		if i == l {
			f(cur)
			return
		}
		for _, t := range toks {
			rec(i+1, cur+t)
		}
	}
	rec(0, "")
}

// every string of length exactly l over the alphabet
func enumerate(l int, f func([]byte)) {
	buf := make([]byte, l)
	var rec func(i int)
	rec = func(i int) {
		if i == l {
			f(buf)
			return
		}
		for _, a := range alphabet {
			buf[i] = a
			rec(i + 1)
		}
	}
	rec(0)
}

// ---------------------------------------------------------------- child process: one IO configuration
func cfgOf(s string) extensions.Config {
	return extensions.Config{HasLoad: s[0] == '1', HasSave: s[1] == '1', LoadSaveEmptyOnly: s[2] == '1', UnrestrictedIOs: s[3] == '1'}
}

// a grol string literal denoting exactly these bytes
func grolLit(name string) string {
	var b strings.Builder
	b.WriteByte('"')
	for i := 0; i < len(name); i++ {
		fmt.Fprintf(&b, "\\x%02x", name[i])
	}
	b.WriteByte('"')
	return b.String()
}

func callSrc(fn string, hasArg bool, name string) string {
	if !hasArg {
		return fn + "()"
	}
	return fn + "(" + grolLit(name) + ")"
}

// protocol (one line each way):  S <name|~> <k> | L <name|~> | I | X | R | P <identifier> | A <k> | G <hex program>
// reply: errs=<n> san=<!|hex|none> res=<hex> err=<hex>
func childMain(cfgs string) {
	log.SetLogLevelQuiet(log.Error)
	cfg := cfgOf(cfgs)
	err := extensions.Init(&cfg)
	out := bufio.NewWriter(os.Stdout)
	initialized, unr, eo := extensions.VerifIOConfig()
	fmt.Fprintf(out, "ready err=%v init=%v u=%s e=%s save=%s load=%s exec=%s run=%s\n", err != nil, initialized, b01(unr), b01(eo),
		b01(object.IsExtraFunction("save")), b01(object.IsExtraFunction("load")),
		b01(object.IsExtraFunction("exec")), b01(object.IsExtraFunction("run")))
	out.Flush()
	in := bufio.NewScanner(os.Stdin)
	in.Buffer(make([]byte, 1<<20), 1<<20)
	trace := os.Getenv(traceEnv) != ""
	reqNo := 0
	for in.Scan() {
		f := strings.Fields(in.Text())
		if len(f) == 0 {
			continue
		}
		reqNo++
		if trace { // bracket the request in the system-call log
			_, _ = os.Stat(fmt.Sprintf("%sB%d", markPrefix, reqNo))
		}
		opts := repl.EvalStringOptions()
		prog, san := "", "none"
		arg := func(i int) (bool, string) {
			if f[i] == "~" {
				return false, ""
			}
			return true, string(Unhx(f[i]))
		}
		sanOf := func(hasArg bool, name string) string {
			r, e := extensions.VerifSanitizeCurrent(hasArg, name)
			if e != nil {
				return "!"
			}
			return hxs(r)
		}
		switch f[0] {
		case "S":
			has, name := arg(1)
			prog = "v=" + f[2] + "\n" + callSrc("save", has, name)
			san = sanOf(has, name)
		case "L":
			has, name := arg(1)
			prog = callSrc("load", has, name)
			san = sanOf(has, name)
		case "I":
			prog = "image.new(\"c17\",2,2)\nimage.save(\"c17\")"
		case "X":
			prog = "exec(\"/nonexistent/verif-c17\")"
		case "R":
			prog = "run(\"/nonexistent/verif-c17\")"
		case "P":
			prog = f[1]
		case "A":
			opts.AutoLoad, opts.AutoSave = true, true
			prog = "v=" + f[1]
		case "G":
			prog = string(Unhx(f[1]))
		default:
			prog = "error(\"bad request\")"
		}
		res, errs, _ := repl.EvalStringWithOption(context.Background(), opts, prog)
		if trace {
			_, _ = os.Stat(fmt.Sprintf("%sE%d", markPrefix, reqNo))
		}
		fmt.Fprintf(out, "errs=%d san=%s res=%s err=%s\n", len(errs), san, hxs(res), hxs(strings.Join(errs, "|")))
		out.Flush()
	}
}

type child struct {
	reqNo int
	cfg   string
	cmd   *exec.Cmd
	in    io.WriteCloser
	out   *bufio.Reader
	ready map[string]string
}

type reply struct {
	errs     int
	san      string
	res, err string
}

func startChild(cfg, dir string) (*child, error) { return startChildTraced(cfg, dir, "") }

// every process started by the harness sees a sandbox: the places a "helpful" fallback could write to (temporary
// directory, home, cache and config directories) are directories of the watched scratch tree; dir = <root>/work
func sandboxEnv(dir string) []string {
	root := filepath.Dir(dir)
	return []string{"TMPDIR=" + root + "/tmpdir", "HOME=" + root + "/home", "XDG_CACHE_HOME=" + root + "/home/.cache",
		"XDG_CONFIG_HOME=" + root + "/home/.config", "XDG_DATA_HOME=" + root + "/home/.local", "XDG_RUNTIME_DIR=" + root + "/tmpdir"}
}

// unprivileged=true: the child (and strace) run as nobody, so that permission bits are effective (the check itself
// usually runs as root, for which no directory is read-only)
var unprivilegedChild = false

var traceCalls = "open,openat,creat,execve,execveat,unlink,unlinkat,rename,renameat,renameat2,mkdir,mkdirat,rmdir,link,linkat," +
	"symlink,symlinkat,truncate,chmod,fchmodat,stat,lstat,newfstatat"

// traceLog != "": the child runs under strace -f, which writes the listed system calls of all its threads to traceLog
func startChildTraced(cfg, dir, traceLog string) (*child, error) {
	self, err := os.Executable()
	if err != nil {
		return nil, err
	}
	cmd := exec.Command(self)
	cmd.Env = append(append(os.Environ(), sandboxEnv(dir)...), childEnv+"="+cfg)
	if traceLog != "" {
		st, err := exec.LookPath("strace")
		if err != nil {
			return nil, err
		}
		cmd = exec.Command(st, "-f", "-qq", "-xx", "-s", "16384", "--seccomp-bpf", "-e", "signal=none", "-e", "trace="+traceCalls, "-o", traceLog, self)
		cmd.Env = append(append(os.Environ(), sandboxEnv(dir)...), childEnv+"="+cfg, traceEnv+"=1")
	}
	cmd.Dir = dir
	if unprivilegedChild && os.Geteuid() == 0 {
		cmd.SysProcAttr = &syscall.SysProcAttr{Credential: &syscall.Credential{Uid: 65534, Gid: 65534}}
	}
	cmd.Stderr = io.Discard
	in, err := cmd.StdinPipe()
	if err != nil {
		return nil, err
	}
	outp, err := cmd.StdoutPipe()
	if err != nil {
		return nil, err
	}
	if err := cmd.Start(); err != nil {
		return nil, err
	}
	ch := &child{cfg: cfg, cmd: cmd, in: in, out: bufio.NewReaderSize(outp, 1<<20), ready: map[string]string{}}
	line, err := ch.out.ReadString('\n')
	if err != nil || !strings.HasPrefix(line, "ready ") {
		ch.stop()
		return nil, fmt.Errorf("child %s did not start: %q %v", cfg, line, err)
	}
	for _, kv := range strings.Fields(line)[1:] {
		k, v, _ := strings.Cut(kv, "=")
		ch.ready[k] = v
	}
	return ch, nil
}

func (ch *child) ask(req string) (reply, error) {
	ch.reqNo++
	if _, err := io.WriteString(ch.in, req+"\n"); err != nil {
		return reply{}, err
	}
	line, err := ch.out.ReadString('\n')
	if err != nil {
		return reply{}, fmt.Errorf("child %s died on %q: %v", ch.cfg, req, err)
	}
	var r reply
	for _, kv := range strings.Fields(line) {
		k, v, _ := strings.Cut(kv, "=")
		switch k {
		case "errs":
			fmt.Sscanf(v, "%d", &r.errs)
		case "san":
			r.san = v
		case "res":
			r.res = string(Unhx(v))
		case "err":
			r.err = string(Unhx(v))
		}
	}
	return r, nil
}

func (ch *child) stop() {
	ch.in.Close()
	_ = ch.cmd.Wait()
}

// ---------------------------------------------------------------- scratch tree
type tree struct {
	root, work string
	base       map[string]string // path relative to root -> content (regular files)
	baseDirs   map[string]bool
}

// token of a baseline file = the integer k of its line "v=k"
var baseFiles = []struct {
	rel string // relative to root
	k   int
}{
	{"outside.gr", 101}, {"secret.txt", 102}, {"g.gr", 103}, {"sibling/decoy.gr", 104},
	{"work/existing.gr", 201}, {"work/g.gr", 202}, {"work/.gr", 203}, {"work/notes.txt", 204},
	{"work/sub/inner.gr", 205}, {"work/g", 206}, {"work/Z7_.gr", 208},
}

const nestContent = "v=207\nsave(\"\\x2e\\x2e\\x2fevil\")\n" // work/nest.gr: a loaded file that itself tries to escape

func newTree() (*tree, error) {
	root, err := os.MkdirTemp("", "verif-c17-")
	if err != nil {
		return nil, err
	}
	root, _ = filepath.EvalSymlinks(root)
	t := &tree{root: root, work: filepath.Join(root, "work")}
	os.Chmod(root, 0o755)
	for _, d := range []string{"sibling", "work", "work/sub", "work/dir.gr", "tmpdir", "home"} {
		if err := os.MkdirAll(filepath.Join(root, d), 0o755); err != nil {
			return t, err
		}
	}
	os.Chmod(filepath.Join(root, "tmpdir"), 0o777) // a fallback into the temporary or home directory must be able to succeed
	os.Chmod(filepath.Join(root, "home"), 0o777)
	for _, f := range baseFiles {
		if err := os.WriteFile(filepath.Join(root, f.rel), []byte(fmt.Sprintf("v=%d\n", f.k)), 0o644); err != nil {
			return t, err
		}
	}
	if err := os.WriteFile(filepath.Join(root, "work/nest.gr"), []byte(nestContent), 0o644); err != nil {
		return t, err
	}
	t.base, t.baseDirs, err = t.snapshot()
	return t, err
}

func (t *tree) remove() { os.RemoveAll(t.root) }

func (t *tree) snapshot() (map[string]string, map[string]bool, error) {
	files, dirs := map[string]string{}, map[string]bool{}
	err := filepath.Walk(t.root, func(p string, info os.FileInfo, err error) error {
		if err != nil {
			return err
		}
		rel, _ := filepath.Rel(t.root, p)
		switch {
		case info.IsDir():
			dirs[rel] = true
		case info.Mode().IsRegular():
			b, err := os.ReadFile(p)
			if err != nil {
				return err
			}
			files[rel] = string(b)
		default:
			files[rel] = "<special " + info.Mode().String() + ">"
		}
		return nil
	})
	return files, dirs, err
}

type change struct {
	rel     string // relative to root
	content string
	kind    string // created | modified | deleted | newdir | deldir
}

func (t *tree) diffAndRestore() ([]change, error) {
	files, dirs, err := t.snapshot()
	if err != nil {
		return nil, err
	}
	var ch []change
	for rel, c := range files {
		old, ok := t.base[rel]
		switch {
		case !ok:
			ch = append(ch, change{rel, c, "created"})
			os.Remove(filepath.Join(t.root, rel))
		case old != c:
			ch = append(ch, change{rel, c, "modified"})
			os.WriteFile(filepath.Join(t.root, rel), []byte(old), 0o644)
		}
	}
	for rel, old := range t.base {
		if _, ok := files[rel]; !ok {
			ch = append(ch, change{rel, "", "deleted"})
			os.MkdirAll(filepath.Dir(filepath.Join(t.root, rel)), 0o755)
			os.WriteFile(filepath.Join(t.root, rel), []byte(old), 0o644)
		}
	}
	for rel := range dirs {
		if !t.baseDirs[rel] {
			ch = append(ch, change{rel, "", "newdir"})
			os.RemoveAll(filepath.Join(t.root, rel))
		}
	}
	for rel := range t.baseDirs {
		if !dirs[rel] {
			ch = append(ch, change{rel, "", "deldir"})
			os.MkdirAll(filepath.Join(t.root, rel), 0o755)
		}
	}
	sort.Slice(ch, func(i, j int) bool { return ch[i].rel < ch[j].rel })
	return ch, nil
}

// name of a file of the tree as the program (cwd = work) would spell it canonically
func (t *tree) nameFromWork(rel string) string {
	r, err := filepath.Rel(t.work, filepath.Join(t.root, rel))
	if err != nil {
		return "?" + rel
	}
	return r
}

var vLine = regexp.MustCompile(`(?m)^v=(\d+)$`)

// content token shared with the model: the k of the last "v=k" line, "png" for a PNG file
func token(content string) string {
	if strings.HasPrefix(content, "\x89PNG\r\n\x1a\n") {
		return "png"
	}
	m := vLine.FindAllStringSubmatch(content, -1)
	if len(m) == 0 {
		return "?" + content
	}
	return m[len(m)-1][1]
}

// does os.Create(name) succeed, cwd = work?  A statement about the OS and the scratch tree only.
func (t *tree) creatable(name string) bool {
	if name == "" || strings.IndexByte(name, 0) >= 0 {
		return false
	}
	p := name
	if !filepath.IsAbs(p) {
		p = t.work + "/" + name
	}
	if strings.HasSuffix(p, "/") {
		return false
	}
	if len(filepath.Base(p)) > 255 {
		return false
	}
	di, err := os.Stat(filepath.Dir(p))
	if err != nil || !di.IsDir() {
		return false
	}
	fi, err := os.Stat(p)
	if err == nil && !fi.Mode().IsRegular() {
		return false
	}
	return true
}

// ---------------------------------------------------------------- FS cases
type fsReq struct {
	op     byte // S L I X R
	hasArg bool
	name   string
	k      int
	ff     string // the scenario makes the OS refuse this file ("*": every file) if the request is resolved to it (model: ok = false)
}

func (r fsReq) argStr() string {
	if !r.hasArg {
		return "~"
	}
	return hxs(r.name)
}

type fsRunner struct {
	c       *Ctx
	t       *tree
	ch      *child
	cfg     string
	conf    extensions.Config
	baseStr string
	kOf     map[string]string // token -> name (from work) of the baseline file carrying it
	traced  bool
	tcases  []tracedCase
	scen    string // name of the failure scenario in force ("" = the plain baseline tree)
}

type tracedCase struct {
	full     string // "FS cfg base reqs"
	short    string
	first, n int // request numbers first .. first+n-1 of the child
}

func (fr *fsRunner) canonicalName(name string) bool {
	return name != "" && strings.IndexByte(name, 0) < 0 && !filepath.IsAbs(name) && filepath.Clean(name) == name
}

// Under unrestricted IO the flat name->content model only speaks about spellings that cannot alias another one:
// canonical relative paths, names the OS refuses outright (empty, NUL), and absolute paths of files that do not exist yet.
func (fr *fsRunner) modelable(r fsReq) bool {
	if !fr.conf.UnrestrictedIOs || !r.hasArg || r.name == "" || strings.IndexByte(r.name, 0) >= 0 {
		return true
	}
	if filepath.IsAbs(r.name) {
		_, err := os.Lstat(r.name)
		return r.op == 'S' && filepath.Clean(r.name) == r.name && err != nil
	}
	return fr.canonicalName(r.name)
}

// safety of the machine running the check: never let a program touch an absolute path outside the scratch tree, and
// never issue a request whose (real) sanitised name is not plain under a restricted configuration (already reported by SAN)
func (fr *fsRunner) safe(r fsReq) bool {
	if !r.hasArg {
		return true
	}
	got, err := extensions.VerifSanitize(fr.conf.UnrestrictedIOs, fr.conf.LoadSaveEmptyOnly, true, r.name)
	if err != nil {
		return true
	}
	if !fr.conf.UnrestrictedIOs {
		// a wrongly accepted name is still issued (so that its file-system effect is observed) as long as it can only
		// name an entry of the scratch working directory
		return plainName(got) || (!strings.ContainsAny(got, "/\x00") && got != "." && got != ".." && len(got) <= 255)
	}
	if filepath.IsAbs(got) {
		return strings.HasPrefix(filepath.Clean(got), fr.t.root+"/")
	}
	return strings.HasPrefix(filepath.Clean(filepath.Join(fr.t.work, got))+"/", fr.t.root+"/")
}

// runs one case (a short request sequence starting from the baseline tree); model=false: direct oracle only
func (fr *fsRunner) do(reqs []fsReq, model bool) error {
	c, t := fr.c, fr.t
	restricted := !fr.conf.UnrestrictedIOs
	var reqStrs, outs []string
	var resolved []string // names (as spelled by the sanitiser) the case may legitimately touch
	anyEffectExpected := false
	rejectedOnly := true
	for _, r := range reqs {
		if !fr.safe(r) {
			c.Count("fs-skipped-unsafe")
			return nil
		}
		if !fr.modelable(r) {
			model = false
		}
	}
	firstReq := fr.ch.reqNo + 1
	for _, r := range reqs {
		var line string
		switch r.op {
		case 'S':
			line = fmt.Sprintf("S %s %d", r.argStr(), r.k)
		case 'L':
			line = "L " + r.argStr()
		default:
			line = string(r.op)
		}
		// the OS answer for the name the request will be resolved to, decided before the request runs
		okBit := true
		if r.op == 'S' {
			if f, acc := restateCfg(fr.conf, r.hasArg, r.name); acc {
				okBit = t.creatable(f)
			}
		}
		if r.op == 'I' {
			okBit = t.creatable("grol.png")
		}
		if r.ff != "" {
			resolved := "grol.png"
			if r.op == 'S' {
				resolved, _ = restateCfg(fr.conf, r.hasArg, r.name)
			}
			if r.ff == "*" || r.ff == resolved {
				okBit = false
			}
		}
		rep, err := fr.ch.ask(line)
		if err != nil {
			return err
		}
		c.Eval()
		caseStr := "FS " + fr.cfg + " " + line
		o := ""
		switch r.op {
		case 'S', 'L':
			fn := map[byte]string{'S': "save", 'L': "load"}[r.op]
			defined := fr.ch.ready[fn] == "1"
			switch {
			case !defined:
				o = "undef"
				if rep.errs == 0 {
					c.Fail(fn+"-callable-although-not-registered", caseStr, "no error: "+rep.res)
				}
			case rep.san == "!":
				o = "rej"
				if rep.errs == 0 {
					o = "rej-but-succeeded:" + hxs(strings.TrimSpace(rep.res))
					rejectedOnly = false
					c.Fail(fn+"-succeeds-on-rejected-name", caseStr, "sanitiser rejects but "+fn+" returned "+rep.res)
					if src, ok := fr.kOf[strings.TrimSpace(rep.res)]; ok && r.op == 'L' && restricted && !allowedName(fr.conf.LoadSaveEmptyOnly, src) {
						c.Fail("restricted-load-read-disallowed-file", caseStr, "load returned the content of "+src)
					}
				}
			default:
				rejectedOnly = false
				fname := string(Unhx(rep.san))
				resolved = append(resolved, fname)
				if r.op == 'S' {
					if rep.errs == 0 {
						o = "saved:" + rep.san
						anyEffectExpected = true
					} else {
						o = "cfail:" + rep.san
					}
				} else {
					if rep.errs == 0 {
						k := strings.TrimSpace(rep.res)
						o = "loaded:" + rep.san + ":" + hxs(k)
						// direct oracle: the value read identifies the file that was read
						if src, ok := fr.kOf[k]; ok && restricted && !allowedName(fr.conf.LoadSaveEmptyOnly, src) {
							c.Fail("restricted-load-read-disallowed-file", caseStr, "load returned the content of "+src)
						}
					} else {
						o = "nofile:" + rep.san
					}
				}
			}
			if r.op == 'S' {
				line = fmt.Sprintf("S:%s:%s:%s", r.argStr(), hxs(fmt.Sprint(r.k)), b01(okBit))
			} else {
				line = "L:" + r.argStr()
			}
		case 'I':
			rejectedOnly = false
			if rep.errs == 0 {
				o = "img"
				anyEffectExpected = true
			} else {
				o = "cfail:" + hxs("grol.png")
			}
			resolved = append(resolved, "grol.png")
			line = "I:1:" + hxs("png") + ":" + b01(okBit)
		case 'X', 'R':
			fn := map[byte]string{'X': "exec", 'R': "run"}[r.op]
			rejectedOnly = false
			if fr.ch.ready[fn] == "1" {
				o = "spawned"
				if restricted {
					c.Fail(fn+"-defined-when-restricted", caseStr, "object.IsExtraFunction reports "+fn)
				}
			} else {
				o = "undef"
				if rep.errs == 0 {
					c.Fail(fn+"-callable-although-not-registered", caseStr, "no error: "+rep.res)
				}
			}
			if restricted && rep.errs == 0 {
				c.Fail(fn+"-callable-when-restricted", caseStr, "call returned "+rep.res)
			}
			line = string(r.op)
		}
		reqStrs = append(reqStrs, line)
		outs = append(outs, o)
	}
	changes, err := t.diffAndRestore()
	if err != nil {
		return err
	}
	fullCase := "FS " + fr.cfg + " " + fr.baseStr + " " + strings.Join(reqStrs, "+")
	caseStr := "FS " + fr.cfg + " " + strings.Join(reqStrs, "+") // replayable form (the baseline tree is fixed)
	if fr.scen != "" {
		caseStr = "FS " + fr.cfg + " scen:" + fr.scen + " " + strings.Join(reqStrs, "+")
	}
	var chs []string
	for _, ch := range changes {
		name := t.nameFromWork(ch.rel)
		// an absolute spelling used by the program names the same file
		for _, rn := range resolved {
			if filepath.IsAbs(rn) && filepath.Clean(rn) == filepath.Join(t.root, ch.rel) {
				name = rn
			}
		}
		// --- direct oracle on the real file system
		if restricted {
			inWork := filepath.Dir(ch.rel) == "work"
			if !inWork || !allowedName(fr.conf.LoadSaveEmptyOnly, filepath.Base(ch.rel)) || ch.kind == "deleted" || ch.kind == "newdir" || ch.kind == "deldir" {
				sig := "restricted-io-touched-file-outside-allowed-set"
				if fr.conf.LoadSaveEmptyOnly {
					sig = "emptyonly-io-touched-file-other-than-dotgr"
				}
				c.Fail(sig, caseStr, fmt.Sprintf("%s %s (from cwd: %q)", ch.kind, ch.rel, name))
			}
		}
		if rejectedOnly {
			c.Fail("rejected-or-undefined-request-changed-file-system", caseStr, fmt.Sprintf("%s %s", ch.kind, ch.rel))
		}
		switch ch.kind {
		case "created", "modified":
			a := "0"
			if allowedName(fr.conf.LoadSaveEmptyOnly, name) {
				a = "1"
			}
			chs = append(chs, hxs(name)+"="+hxs(token(ch.content))+"/"+a)
		default:
			chs = append(chs, hxs(name)+"="+strings.ToUpper(ch.kind))
		}
	}
	sort.Strings(chs)
	if anyEffectExpected && len(changes) == 0 {
		// a save that reports success without any visible change: either it rewrote identical content (not generated) or the observation is blind
		c.Fail("harness-saw-no-change-after-successful-save", caseStr, "")
	}
	if len(changes) > 0 {
		c.NonTrivial("fs:" + caseStr)
	}
	c.Count("fs-" + fr.cfg)
	if model {
		chStr := "@"
		if len(chs) > 0 {
			chStr = strings.Join(chs, ",")
		}
		c.Case(fullCase, strings.Join(outs, "+")+" | "+chStr)
		if fr.traced {
			fr.tcases = append(fr.tcases, tracedCase{fullCase, caseStr, firstReq, len(reqs)})
		}
	}
	return nil
}

func restateCfg(conf extensions.Config, hasArg bool, name string) (string, bool) {
	return restate(conf.UnrestrictedIOs, conf.LoadSaveEmptyOnly, hasArg, name)
}

// registration under one configuration: a child process runs the real extensions.Init and reports the function table
func regOne(c *Ctx, t *tree, cfg string) {
	ch, err := startChild(cfg, t.work)
	if err != nil {
		c.Fail("harness-child", "REG "+cfg, err.Error())
		return
	}
	conf := cfgOf(cfg)
	r := ch.ready
	if r["init"] != "true" || r["err"] != "false" || r["u"] != b01(conf.UnrestrictedIOs) || r["e"] != b01(conf.LoadSaveEmptyOnly) {
		c.Fail("init-did-not-install-configuration", "REG "+cfg, fmt.Sprint(r))
	}
	// a second observation of the same fact: the bare identifier evaluates iff the function exists
	for _, fn := range []string{"save", "load", "exec", "run"} {
		rep, err := ch.ask("P " + fn)
		if err != nil {
			c.Fail("harness-child", "REG "+cfg, err.Error())
			break
		}
		c.Eval()
		if (rep.errs == 0) != (r[fn] == "1") {
			c.Fail("registration-table-and-evaluator-disagree", "REG "+cfg+" "+fn, fmt.Sprintf("IsExtraFunction=%s errs=%d %s", r[fn], rep.errs, rep.err))
		}
		if !conf.UnrestrictedIOs && (fn == "exec" || fn == "run") && (r[fn] == "1" || rep.errs == 0) {
			c.Fail(fn+"-defined-when-restricted", "REG "+cfg+" "+fn, fmt.Sprintf("IsExtraFunction=%s errs=%d", r[fn], rep.errs))
		}
	}
	if ch2, _ := t.diffAndRestore(); len(ch2) > 0 {
		c.Fail("rejected-or-undefined-request-changed-file-system", "REG "+cfg, fmt.Sprint(ch2))
	}
	ch.stop()
	c.Case("REG "+cfg, fmt.Sprintf("save=%s load=%s exec=%s run=%s", r["save"], r["load"], r["exec"], r["run"]))
	c.Count("reg")
}

// curated request sequences (names of the repository's own tests, classic escapes, OS-level failures)
func curatedSeqs(t *tree, S, L func(string) fsReq, nextK func() int) [][]fsReq {
	return [][]fsReq{
		{{'S', false, "", nextK(), ""}}, {{'L', false, "", 0, ""}}, {S("")}, {L("")},
		{S("fib_50")}, {S("fib_50.gr")}, {S("fib_50"), L("fib_50.gr"), L("fib_50")},
		{L("existing")}, {L("existing.gr")}, {L("g")}, {L("g.gr")}, {S("g")}, {S("g.gr"), L("g")}, {L("Z7_")},
		{S("existing"), L("existing")}, {S("dir")}, {L("dir")}, {S("nothere/x")}, {L("nothere")},
		{{'I', false, "", 0, ""}}, {{'X', false, "", 0, ""}}, {{'R', false, "", 0, ""}},
		{S("a1"), S("a2"), {'I', false, "", 0, ""}, L("a1"), {'X', false, "", 0, ""}},
		{S("../outside")}, {S("../outside.gr")}, {L("../outside.gr")}, {L("../secret.txt")}, {S("../new.gr")}, {S("../sibling/decoy.gr")},
		{L("../sibling/decoy.gr")}, {S("sub/inner.gr")}, {L("sub/inner.gr")}, {S("sub/new")}, {L("notes.txt")}, {S("notes.txt")},
		{S(filepath.Join(t.root, "abs.gr"))}, {L(filepath.Join(t.root, "outside.gr"))},
		{S("..")}, {S(".")}, {S("~")}, {S(" ")}, {S("\\")}, {S("\xff")}, {S("a\x00b")}, {S("a\x00")}, {S("x.gr\x00")}, {S(".gr.gr")}, {S("..gr")},
		{S("\u0161")}, {S("\u0161.gr"), L("\u0161")}, {S("ab\u0161")}, {S("\u0130")}, {S("\u4e41")}, {S("\U00010061.gr")}, {S("\u012fx")}, {S("\u012e\u012e\u012fx")}, {L("\u0161")},
		{S("a.gr.gr")}, {S("grol.png")}, {L("grol.png.gr")}, {S("Z7_")}, {S("Z7_.gr")}, {S(strings.Repeat("n", 252))}, {S(strings.Repeat("n", 253))},
	}
}

// ---------------------------------------------------------------- the primary target cannot be created / opened
// A scenario changes the scratch tree so that the OS refuses the file a request is resolved to; the tree as set up
// becomes the baseline while the scenario runs.  Whatever the program then does, nothing anywhere in the sandbox
// (working directory, parents, siblings, $TMPDIR, $HOME) may be created or changed, and the request must fail.
type scenario struct {
	name   string
	unpriv bool // needs permission bits to be effective: only run with a child that is not root
	setup  func(t *tree) error
	undo   func(t *tree)
	seqs   func(S, L func(string) fsReq, nextK func() int) [][]fsReq
	direct bool // direct oracle only (the flat model's baseline does not describe this tree)
}

func ffail(r fsReq, target string) fsReq { r.ff = target; return r }

func scenarios() []scenario {
	w := func(t *tree, n string) string { return filepath.Join(t.work, n) }
	return []scenario{
		{name: "target-is-directory",
			setup: func(t *tree) error { return os.Mkdir(w(t, "grol.png"), 0o755) },
			undo:  func(t *tree) { os.RemoveAll(w(t, "grol.png")) },
			seqs: func(S, L func(string) fsReq, nextK func() int) [][]fsReq {
				return [][]fsReq{{ffail(fsReq{op: 'I'}, "grol.png")}, {ffail(S("dir"), "dir.gr")}, {L("dir")}, {ffail(fsReq{op: 'I'}, "grol.png"), S("afterimg"), L("afterimg")}}
			}},
		{name: "dotgr-is-directory", direct: true,
			setup: func(t *tree) error {
				os.Remove(w(t, ".gr"))
				return os.Mkdir(w(t, ".gr"), 0o755)
			},
			undo: func(t *tree) {
				os.RemoveAll(w(t, ".gr"))
				os.WriteFile(w(t, ".gr"), []byte(t.base["work/.gr"]), 0o644)
			},
			seqs: func(S, L func(string) fsReq, nextK func() int) [][]fsReq {
				return [][]fsReq{{ffail(fsReq{'S', false, "", nextK(), ""}, ".gr")}, {ffail(S(""), ".gr")}, {fsReq{op: 'L'}}, {L("")}}
			}},
		{name: "dangling-symlink-and-loop",
			setup: func(t *tree) error {
				if err := os.Symlink("nodir/x", w(t, "blocked.gr")); err != nil {
					return err
				}
				if err := os.Symlink("loop.gr", w(t, "loop.gr")); err != nil {
					return err
				}
				return os.Symlink("nodir/grol.png", w(t, "grol.png"))
			},
			undo: func(t *tree) {
				for _, n := range []string{"blocked.gr", "loop.gr", "grol.png"} {
					os.Remove(w(t, n))
				}
			},
			seqs: func(S, L func(string) fsReq, nextK func() int) [][]fsReq {
				return [][]fsReq{{ffail(fsReq{op: 'I'}, "grol.png")}, {ffail(S("blocked"), "blocked.gr")}, {L("blocked")}, {ffail(S("loop.gr"), "loop.gr")}, {L("loop")}}
			}},
		{name: "cwd-read-only", unpriv: true,
			setup: func(t *tree) error { return os.Chmod(t.work, 0o555) },
			undo:  func(t *tree) { os.Chmod(t.work, 0o755) },
			seqs: func(S, L func(string) fsReq, nextK func() int) [][]fsReq {
				return [][]fsReq{{ffail(fsReq{op: 'I'}, "grol.png")}, {ffail(S("new1"), "*")}, {ffail(fsReq{'S', false, "", nextK(), ""}, ".gr")}, {ffail(S("existing"), "existing.gr")}, {L("existing")},
					{ffail(S("new2"), "*"), L("new2"), ffail(fsReq{op: 'I'}, "grol.png")}}
			}},
		{name: "target-exists-read-only", unpriv: true,
			setup: func(t *tree) error {
				os.Chmod(t.work, 0o777)
				if err := os.WriteFile(w(t, "grol.png"), []byte("v=105\n"), 0o444); err != nil {
					return err
				}
				if err := os.WriteFile(w(t, "unreadable.gr"), []byte("v=106\n"), 0o000); err != nil {
					return err
				}
				return os.Chmod(w(t, "existing.gr"), 0o444)
			},
			undo: func(t *tree) {
				os.Remove(w(t, "grol.png"))
				os.Remove(w(t, "unreadable.gr"))
				os.Chmod(w(t, "existing.gr"), 0o644)
				os.Chmod(t.work, 0o755)
			},
			seqs: func(S, L func(string) fsReq, nextK func() int) [][]fsReq {
				return [][]fsReq{{ffail(fsReq{op: 'I'}, "grol.png")}, {ffail(S("existing"), "existing.gr")}, {L("existing")}, {L("unreadable")}, {ffail(S("unreadable"), "unreadable.gr")}, {S("new3"), L("new3")}}
			}},
	}
}

// runs the scenarios that fit the child of fr (privileged or not); returns false when the child died
func (fr *fsRunner) runScenarios(nextK func() int, unpriv bool) bool {
	c, t := fr.c, fr.t
	S := func(n string) fsReq { return fsReq{'S', true, n, nextK(), ""} }
	L := func(n string) fsReq { return fsReq{'L', true, n, 0, ""} }
	alive := true
	for _, sc := range scenarios() {
		if sc.unpriv != unpriv || !alive {
			continue
		}
		oldB, oldD := t.base, t.baseDirs
		err := sc.setup(t)
		if err == nil {
			t.base, t.baseDirs, err = t.snapshot()
		}
		if err != nil {
			c.Fail("harness-scratch-tree", "scenario "+sc.name, err.Error())
			t.base, t.baseDirs = oldB, oldD
			sc.undo(t)
			continue
		}
		fr.scen = sc.name
		for _, sq := range sc.seqs(S, L, nextK) {
			if err := fr.do(sq, !sc.direct); err != nil {
				c.Fail("harness-child", "FS "+fr.cfg+" scenario "+sc.name, err.Error())
				alive = false
				break
			}
			c.Count("scenario-" + sc.name)
		}
		fr.scen = ""
		t.base, t.baseDirs = oldB, oldD
		sc.undo(t)
		if rest, _ := t.diffAndRestore(); len(rest) > 0 {
			c.Fail("harness-scratch-tree", "after scenario "+sc.name, fmt.Sprint(rest))
		}
	}
	return alive
}

// the restricted configurations once more with a child that is not root, so that a read-only working directory and
// read-only existing targets really refuse the program
func unprivStage(c *Ctx, t *tree, cfg, baseStr string, kOf map[string]string, nextK func() int, traced bool) {
	unprivilegedChild = true
	defer func() { unprivilegedChild = false }()
	logPath := ""
	if traced {
		logPath = filepath.Join(c.Out, "strace-unpriv-"+cfg+".log")
		os.Remove(logPath)
		if f, err := os.OpenFile(logPath, os.O_CREATE|os.O_WRONLY, 0o666); err == nil { // strace (as nobody) must be able to write it
			f.Close()
			os.Chmod(logPath, 0o666)
		}
	}
	ch, err := startChildTraced(cfg, t.work, logPath)
	if err != nil {
		c.Count("unprivileged-child-unavailable")
		c.Extra["unprivileged_child_unavailable"] = err.Error()
		return
	}
	fr := &fsRunner{c: c, t: t, ch: ch, cfg: cfg, conf: cfgOf(cfg), baseStr: baseStr, kOf: kOf, traced: traced}
	fr.runScenarios(nextK, true)
	ch.stop()
	if traced {
		fr.emitTraced(logPath)
	}
}

// ---------------------------------------------------------------- system-call observation (strace)
type sysEvent struct {
	kind string // C (open with O_CREAT) | W (open for writing) | O (open read-only) | P (exec) | M:<syscall> (other mutation)
	path string
}

var (
	traceLine  = regexp.MustCompile(`^(\d+)\s+(.*)$`)
	traceCall  = regexp.MustCompile(`^([a-z0-9_]+)\((.*)\)\s+= (-?\d+|\?)`)
	traceStr   = regexp.MustCompile(`"((?:\\x[0-9a-f]{2})*)"`)
	traceResum = regexp.MustCompile(`^<\.\.\. ([a-z0-9_]+) resumed>(.*)$`)
)

func unhexEscapes(s string) string {
	var b []byte
	for i := 0; i+3 < len(s)+0 && i < len(s); i += 4 {
		var v int
		fmt.Sscanf(s[i+2:i+4], "%02x", &v)
		b = append(b, byte(v))
	}
	return string(b)
}

// parseTrace returns the file/process events between the B<n> and E<n> markers of each request, and which requests are complete
func parseTrace(logPath, root, work string) (map[int][]sysEvent, map[int]bool, error) {
	return parseTraceMode(logPath, root, work, true)
}

// marked=false: no markers are expected, every event of the traced process tree is attributed to request 1
func parseTraceMode(logPath, root, work string, marked bool) (map[int][]sysEvent, map[int]bool, error) {
	data, err := os.ReadFile(logPath)
	if err != nil {
		return nil, nil, err
	}
	events, done := map[int][]sysEvent{}, map[int]bool{}
	pending := map[string]string{}
	cur := 0
	if !marked {
		cur = 1
		done[1] = true
	}
	for _, ln := range strings.Split(string(data), "\n") {
		m := traceLine.FindStringSubmatch(ln)
		if m == nil {
			continue
		}
		pid, rest := m[1], m[2]
		if strings.HasSuffix(rest, "<unfinished ...>") {
			pending[pid] = strings.TrimSuffix(rest, "<unfinished ...>")
			continue
		}
		if r := traceResum.FindStringSubmatch(rest); r != nil {
			rest = pending[pid] + r[2]
			delete(pending, pid)
		}
		cm := traceCall.FindStringSubmatch(rest)
		if cm == nil {
			continue
		}
		sys, args := cm[1], cm[2]
		strs := traceStr.FindAllStringSubmatch(args, -1)
		if len(strs) == 0 {
			continue
		}
		path := unhexEscapes(strs[0][1])
		if strings.HasPrefix(path, markPrefix) {
			var n int
			tag := path[len(markPrefix):]
			if len(tag) > 1 {
				fmt.Sscanf(tag[1:], "%d", &n)
				if tag[0] == 'B' {
					cur = n
				} else if tag[0] == 'E' && n == cur {
					done[n] = true
					cur = 0
				}
			}
			continue
		}
		if cur == 0 {
			continue
		}
		relevant := func(p string) bool { return !filepath.IsAbs(p) || p == root || strings.HasPrefix(p, root+"/") }
		switch sys {
		case "open", "openat", "creat":
			k := "O"
			switch {
			case sys == "creat" || strings.Contains(args, "O_CREAT"):
				k = "C"
			case strings.Contains(args, "O_WRONLY") || strings.Contains(args, "O_RDWR") || strings.Contains(args, "O_TRUNC") || strings.Contains(args, "O_APPEND"):
				k = "W"
			}
			if k == "O" && !relevant(path) { // reads of system files by the runtime are not the program's; writes anywhere are
				continue
			}
			events[cur] = append(events[cur], sysEvent{k, path})
		case "execve", "execveat":
			events[cur] = append(events[cur], sysEvent{"P", path})
		case "stat", "lstat", "newfstatat":
			// looking at a name is not an access to its content
		default:
			for _, st := range strs {
				events[cur] = append(events[cur], sysEvent{"M:" + sys, unhexEscapes(st[1])})
			}
		}
	}
	_ = work
	return events, done, nil
}

// one configuration under strace: the curated sequences, every accepted/rejected request bracketed by markers;
// the system calls are checked directly and compared with the access log of the model (FSL cases)
func traceStage(c *Ctx, t *tree, cfg, baseStr string, kOf map[string]string, nextK func() int) {
	logPath := filepath.Join(c.Out, "strace-"+cfg+".log")
	ch, err := startChildTraced(cfg, t.work, logPath)
	if err != nil {
		c.Count("trace-unavailable")
		c.Extra["trace_unavailable"] = err.Error()
		return
	}
	fr := &fsRunner{c: c, t: t, ch: ch, cfg: cfg, conf: cfgOf(cfg), baseStr: baseStr, kOf: kOf, traced: true}
	S := func(n string) fsReq { return fsReq{'S', true, n, nextK(), ""} }
	L := func(n string) fsReq { return fsReq{'L', true, n, 0, ""} }
	all := curatedSeqs(t, S, L, nextK)
	enumerate(1, func(b []byte) {
		all = append(all, []fsReq{S(string(b)), L(string(b))}, []fsReq{S(string(b) + ext), L(string(b) + ext)})
	})
	for _, sq := range all {
		if err := fr.do(sq, true); err != nil {
			c.Fail("harness-child", "FSL "+cfg, err.Error())
			break
		}
	}
	fr.runScenarios(nextK, false)
	ch.stop()
	fr.emitTraced(logPath)
}

// compares the recorded system calls of a traced child with the model's access log (FSL cases) and checks them directly
func (fr *fsRunner) emitTraced(logPath string) {
	c, t, cfg := fr.c, fr.t, fr.cfg
	events, done, err := parseTrace(logPath, t.root, t.work)
	if err != nil {
		c.Count("trace-unavailable")
		return
	}
	restricted := !fr.conf.UnrestrictedIOs
	for _, tc := range fr.tcases {
		var obs []string
		complete := true
		for n := tc.first; n < tc.first+tc.n; n++ {
			if !done[n] {
				complete = false
			}
			var es []string
			for _, e := range events[n] {
				c.Eval()
				name := e.path
				if filepath.IsAbs(name) { // spell it as the model does: relative to the working directory
					if r, err := filepath.Rel(t.work, name); err == nil {
						name = r
					}
				}
				// direct oracle on the system calls themselves
				if restricted && (!(e.kind == "C" || e.kind == "O") || strings.ContainsRune(name, '/') || !allowedName(fr.conf.LoadSaveEmptyOnly, name)) {
					sig := "restricted-io-syscall-outside-allowed-set"
					if e.kind == "P" {
						sig = "restricted-io-spawned-process"
					}
					c.Fail(sig, tc.short, fmt.Sprintf("request %d: %s %q", n-tc.first+1, e.kind, e.path))
				}
				es = append(es, e.kind+":"+hxs(name))
			}
			if len(es) == 0 {
				obs = append(obs, "-")
			} else {
				obs = append(obs, strings.Join(es, ","))
			}
		}
		if !complete {
			c.Count("trace-incomplete")
			continue
		}
		c.Count("fsl-" + cfg)
		c.Case("FSL"+strings.TrimPrefix(tc.full, "FS"), strings.Join(obs, "+"))
	}
	os.Remove(logPath)
}

// ---------------------------------------------------------------- SCR: the interpreter binary on a script file elsewhere
// The program is a script file given on the command line of the real binary (main.go: processOneFile sets
// State.CurrentFile), located in the parent, a sibling, a subdirectory or the working directory itself, started
// plainly or in #! mode (-s), by relative or absolute path, with -restrict-io (and -empty-only / -no-load-save).
// Libraries with the requested (accepted) names sit next to the script as decoys.  Every file-system access of the
// process other than opening the script itself must obey the working-directory rules.

func repoDir() string {
	if bi, ok := debug.ReadBuildInfo(); ok {
		for _, d := range bi.Deps {
			if d.Path == "grol.io/grol" && d.Replace != nil && d.Replace.Path != "" {
				return d.Replace.Path
			}
		}
	}
	if v := os.Getenv("VERIF_REPO"); v != "" {
		return v
	}
	return "/repo"
}

// the production binary (no verif tag) of the tree the harness itself was built against
func buildGrol(c *Ctx) (string, error) {
	outDir, err := filepath.Abs(c.Out)
	if err != nil {
		return "", err
	}
	bin := filepath.Join(outDir, "grol-c17")
	cmd := exec.Command("go", "build", "-trimpath", "-o", bin, ".")
	cmd.Dir = repoDir()
	cmd.Env = append(os.Environ(), "GOFLAGS=-mod=mod", "GOPROXY=off", "CGO_ENABLED=0")
	if out, err := cmd.CombinedOutput(); err != nil {
		return "", fmt.Errorf("go build in %s: %v: %s", cmd.Dir, err, out)
	}
	return bin, nil
}

func (t *tree) addTemp(rel, content string) error {
	if err := os.WriteFile(filepath.Join(t.root, rel), []byte(content), 0o644); err != nil {
		return err
	}
	t.base[rel] = content
	return nil
}

func (t *tree) removeTemp(rel string) {
	os.Remove(filepath.Join(t.root, rel))
	delete(t.base, rel)
}

type scrProg struct {
	id, src, req string // req: the request as the model sees it (FSL case), "" = not compared with the model
}

var decoyValue = regexp.MustCompile(`\b30[1-9]\b`)

func scriptStage(c *Ctx, t *tree, nextK func() int, only string) {
	bin, err := buildGrol(c)
	if err != nil {
		c.Fail("harness-grol-binary-build", "SCR", err.Error())
		return
	}
	defer os.Remove(bin)
	strace, _ := exec.LookPath("strace")
	// decoy libraries next to the scripts (values 301..), none of these names exists in the working directory
	decoys := map[string]string{"lib.gr": "v=301\n", "sibling/lib.gr": "v=302\n", "work/sub/lib.gr": "v=303\n"}
	for rel, content := range decoys {
		if err := t.addTemp(rel, content); err != nil {
			c.Fail("harness-scratch-tree", "SCR", err.Error())
			return
		}
	}
	defer func() {
		for rel := range decoys {
			t.removeTemp(rel)
		}
	}()
	type loc struct{ key, rel string } // rel: script path relative to the scratch root
	locs := []loc{{"parent", "scr_main.gr"}, {"sibling", "sibling/scr_main.gr"}, {"subdir", "work/sub/scr_main.gr"}, {"cwd", "work/scr_main.gr"}}
	progs := func() []scrProg {
		k1, k2 := nextK(), nextK()
		return []scrProg{
			{"load-lib", `load("lib")`, "L:" + hxs("lib")},
			{"load-lib.gr", `load("lib.gr")`, "L:" + hxs("lib.gr")},
			{"load-g", `load("g")`, "L:" + hxs("g")},
			{"save-out", fmt.Sprintf("v=%d\nsave(\"out\")", k1), fmt.Sprintf("S:%s:%s:1", hxs("out"), hxs(fmt.Sprint(k1)))},
			{"save-lib", fmt.Sprintf("v=%d\nsave(\"lib\")", k2), fmt.Sprintf("S:%s:%s:1", hxs("lib"), hxs(fmt.Sprint(k2)))},
			{"image-save", "image.new(\"c17\",2,2)\nimage.save(\"c17\")", "I:1:" + hxs("png") + ":1"},
			{"load-noarg", `load()`, "L:~"},
		}
	}
	type variant struct {
		cfg   string
		flags []string
	}
	variants := []variant{{"1100", []string{"-restrict-io"}}, {"1110", []string{"-restrict-io", "-empty-only"}}, {"0000", []string{"-restrict-io", "-no-load-save"}}}
	runOne := func(v variant, mode, form string, l loc, p scrProg) {
		caseStr := fmt.Sprintf("SCR %s %s %s %s %s", v.cfg, mode, form, l.key, p.id)
		if only != "" && only != caseStr {
			return
		}
		src := p.src + "\n"
		if mode == "shebang" {
			src = "#!/usr/bin/env grol\n" + src
		}
		if err := t.addTemp(l.rel, src); err != nil {
			c.Fail("harness-scratch-tree", caseStr, err.Error())
			return
		}
		defer t.removeTemp(l.rel)
		arg := t.nameFromWork(l.rel)
		if form == "abs" {
			arg = filepath.Join(t.root, l.rel)
		}
		args := append([]string{"-quiet", "-no-auto"}, v.flags...)
		if mode == "shebang" {
			args = append(args, "-s")
		}
		args = append(args, arg)
		logPath := filepath.Join(c.Out, "strace-scr.log")
		var cmd *exec.Cmd
		if strace != "" {
			cmd = exec.Command(strace, append([]string{"-f", "-qq", "-xx", "-s", "16384", "--seccomp-bpf", "-e", "signal=none", "-e", "trace=" + traceCalls, "-o", logPath, bin}, args...)...)
		} else {
			cmd = exec.Command(bin, args...)
		}
		cmd.Dir = t.work
		cmd.Env = append(append(os.Environ(), sandboxEnv(t.work)...), "GOMEMLIMIT=1GiB")
		outb, _ := cmd.CombinedOutput() // a failing load makes the exit status non-zero: not an error of the run
		out := string(outb)
		c.Eval()
		c.Count("scr-" + v.cfg)
		detail := func(s string) string {
			return fmt.Sprintf("%s; cwd=work, script %s = %q, command: grol %s", s, arg, p.src, strings.Join(args, " "))
		}
		emptyOnly := v.cfg[2] == '1'
		// (1) what the process printed: the value of a decoy library next to the script means it was read
		if m := decoyValue.FindString(out); m != "" {
			c.Fail("script-mode-restricted-load-read-file-outside-cwd", caseStr, detail("output contains the decoy value "+m+": "+strings.TrimSpace(out)))
		}
		// (2) the tree
		changes, err := t.diffAndRestore()
		if err != nil {
			c.Fail("harness-scratch-tree", caseStr, err.Error())
			return
		}
		for _, ch := range changes {
			if filepath.Dir(ch.rel) != "work" || !allowedName(emptyOnly, filepath.Base(ch.rel)) || ch.kind == "deleted" || ch.kind == "newdir" || ch.kind == "deldir" {
				c.Fail("script-mode-restricted-io-touched-file-outside-allowed-set", caseStr, detail(ch.kind+" "+ch.rel))
			}
		}
		if v.cfg == "1100" {
			if p.id == "save-out" && len(changes) == 0 {
				c.Fail("harness-script-run-had-no-effect", caseStr, detail("save(\"out\") created nothing: "+strings.TrimSpace(out)))
			}
			if p.id == "load-g" && !strings.Contains(out, "202") {
				c.Fail("harness-script-run-had-no-effect", caseStr, detail("load(\"g\") did not print the value of ./g.gr: "+strings.TrimSpace(out)))
			}
		}
		if len(changes) > 0 || l.key != "cwd" {
			c.NonTrivial("scr:" + caseStr)
		}
		// (3) the system calls
		if strace == "" {
			c.Count("trace-unavailable")
			return
		}
		events, _, err := parseTraceMode(logPath, t.root, t.work, false)
		os.Remove(logPath)
		if err != nil {
			c.Count("trace-unavailable")
			return
		}
		var es []string
		scriptOpens := 0
		for _, e := range events[1] {
			if e.kind == "P" && e.path == bin {
				continue // strace starting the interpreter
			}
			if e.kind == "O" && e.path == arg && scriptOpens == 0 {
				scriptOpens++ // main.go opening the script named on the command line (not chosen by the program)
				continue
			}
			c.Eval()
			name := e.path
			if filepath.IsAbs(name) {
				if r, err := filepath.Rel(t.work, name); err == nil {
					name = r
				}
			}
			if !(e.kind == "C" || e.kind == "O") || strings.ContainsRune(name, '/') || !allowedName(emptyOnly, name) {
				sig := "script-mode-restricted-io-syscall-outside-allowed-set"
				if e.kind == "P" {
					sig = "script-mode-restricted-io-spawned-process"
				}
				c.Fail(sig, caseStr, detail(fmt.Sprintf("%s %q", e.kind, e.path)))
			}
			es = append(es, e.kind+":"+hxs(name))
		}
		if scriptOpens == 0 {
			c.Count("trace-incomplete")
			return
		}
		if p.req != "" {
			obs := "-"
			if len(es) > 0 {
				obs = strings.Join(es, ",")
			}
			c.Case("FSL "+v.cfg+" @ "+p.req, obs)
		}
	}
	for _, v := range variants {
		for _, l := range locs {
			for _, p := range progs() {
				for _, mode := range []string{"plain", "shebang"} {
					for _, form := range []string{"rel", "abs"} {
						if !c.Thorough() && only == "" {
							switch {
							case v.cfg == "1100" && mode == "shebang" && form == "abs":
								continue
							case v.cfg == "1110" && (mode != "plain" || form != "rel" || !(p.id == "load-lib" || p.id == "load-g" || p.id == "load-noarg")):
								continue
							case v.cfg == "0000" && (mode != "plain" || form != "rel" || l.key != "parent" || !(p.id == "load-lib" || p.id == "save-out")):
								continue
							}
						}
						runOne(v, mode, form, l, p)
					}
				}
			}
		}
	}
	// image.save / save when the primary target cannot be created (a directory is in the way)
	for _, sc := range scenarios()[:1] {
		oldB, oldD := t.base, t.baseDirs
		if err := sc.setup(t); err == nil {
			t.base, t.baseDirs, _ = t.snapshot()
			for _, v := range variants {
				for _, l := range locs[:2] {
					runOne(v, "plain", "rel", l, scrProg{"image-save-blocked", "image.new(\"c17\",2,2)\nimage.save(\"c17\")", "I:1:" + hxs("png") + ":0"})
					runOne(v, "plain", "rel", l, scrProg{"save-dir-blocked", "v=1\nsave(\"dir\")", "S:" + hxs("dir") + ":" + hxs("1") + ":0"})
				}
			}
		}
		t.base, t.baseDirs = oldB, oldD
		sc.undo(t)
	}
	// load() without argument when ./.gr is missing and a .gr sits next to the script
	dotgr := t.base["work/.gr"]
	t.removeTemp("work/.gr")
	extra := []string{".gr", "sibling/.gr", "work/sub/.gr"}
	for i, rel := range extra {
		_ = t.addTemp(rel, fmt.Sprintf("v=%d\n", 304+i))
	}
	for _, v := range variants[:2] {
		for _, l := range locs[:3] {
			for _, mode := range []string{"plain", "shebang"} {
				if mode == "shebang" && !c.Thorough() && only == "" {
					continue
				}
				runOne(v, mode, "rel", l, scrProg{"load-noarg-missing", `load()`, "L:~"})
			}
		}
	}
	for _, rel := range extra {
		t.removeTemp(rel)
	}
	_ = t.addTemp("work/.gr", dotgr)
}

// the per-function table of the regenerated inventory next to the audited one (the proof obligation compares them as
// multisets without the function): reported in the evidence, never a failure
func reportIOSites(c *Ctx) {
	tuple := regexp.MustCompile(`\("([^"]*)", "([^"]*)", "([^"]*)", "((?:[^"]|"")*)"\)`)
	read := func(path, def string) ([]string, bool) {
		b, err := os.ReadFile(path)
		if err != nil {
			return nil, false
		}
		s := string(b)
		i := strings.Index(s, "Definition "+def+" ")
		if i < 0 {
			return nil, false
		}
		s = s[i:]
		if j := strings.Index(s, "]."); j >= 0 {
			s = s[:j]
		}
		var out []string
		for _, m := range tuple.FindAllStringSubmatch(s, -1) {
			out = append(out, m[1]+" | "+m[2]+" | "+m[3]+" | "+m[4])
		}
		return out, true
	}
	gen, ok1 := read("coq/gen/Gen_IOSites.v", "io_sites")
	aud, ok2 := read("coq/proofs/IOSites_audit.v", "audited_io_sites")
	if !ok1 || !ok2 {
		return
	}
	count := map[string]int{}
	for _, g := range gen {
		count[g]++
	}
	for _, a := range aud {
		count[a]--
	}
	moved := []string{}
	for k, n := range count {
		if n > 0 {
			moved = append(moved, "now: "+k)
		} else if n < 0 {
			moved = append(moved, "audited: "+k)
		}
	}
	sort.Strings(moved)
	c.Extra["io_sites_per_function"] = gen
	c.Extra["io_sites_moved"] = moved
}

// ---------------------------------------------------------------- driver
func runC17(c *Ctx) {
	c.Rule = "exhaustive: every string of length <= L over the alphabet {g r Z 7 _ . / \\ NUL space ~ 0xff}, with and without .gr, " +
		"under the 4 IO-flag combinations: real sanitizeFileName vs the extracted Coq model on every one of them (L=4 quick, 6 thorough; " +
		"lengths 5 and 6 as coded cases, also compared with a Go re-statement); all 256 byte values alone/embedded; random longer names; " +
		"16 configurations for registration (child process each); save-then-load programs for every name of length <= 3 (quick) / 4 (thorough) " +
		"with and without .gr plus curated sequences (image.save, exec, run, OS failures) in 7 configurations with real file-system observation " +
		"in a scratch tree with decoys; system calls of 3 restricted configurations recorded with strace and compared with the model's access log. " +
		"non-trivial = distinct (configuration, non-empty name) accepted under restricted IO, plus distinct file-system cases that changed the tree"
	log.SetLogLevelQuiet(log.Error)
	if c.ReplayCase != "" {
		c17Replay(c, c.ReplayCase)
		return
	}
	maxLen, modelLen, fsLen := 4, 4, 3
	if c.Thorough() {
		maxLen, modelLen, fsLen = 6, 4, 4
	}
	// ---- SAN
	s := newSanSweep(c)
	// corpus first: the names of main_test.txtar and classic escapes
	for _, n := range []string{"\u0161", "\u0161.gr", "ab\u0161", "\u0130", "\u4e41", "\U00010061.gr", "\u012f\u012e.gr", "/tmp/foo.gr", "./fib_50.gr", "fib_50", "fib_50.gr", "../x", "..", ".", "", ".gr", ".gr.gr", "a.gr.gr", "a.grx",
		"a\x00.gr", "a.gr\x00", "a/../b.gr", "a\\b.gr", "~/.gr", " .gr", "a .gr", "\xc3\xa9.gr", "\xff.gr", "A_z09.gr", "gr", ".g", "r.gr/", "GROL.PNG", "grol.png", "x.GR",
		strings.Repeat("a", 300), strings.Repeat("a", 300) + ".gr", "con.gr", "a\n.gr", "a\t", "-", "--.gr", "a-b"} {
		s.one(true, n, modeModel)
	}
	s.one(false, "", modeModel)
	for b := 0; b < 256; b++ { // every byte value: alone, with suffix, embedded
		bs := string([]byte{byte(b)})
		for _, n := range []string{bs, bs + ext, "g" + bs + "r", "g" + bs + "r" + ext, bs + bs} {
			s.one(true, n, modeModel)
		}
	}
	// valid multi-byte UTF-8 runes for every low code-point byte: alone, with suffix, embedded, doubled
	for _, r := range utf8Runes() {
		for _, n := range []string{r, r + ext, "g" + r + "r", "g" + r + "r" + ext, r + r + ext} {
			s.one(true, n, modeModel)
		}
	}
	c.Count("san-utf8-runes")
	// every sequence of up to 3 symbols over a mixed ASCII / multi-byte alphabet
	for l := 1; l <= 3; l++ {
		enumerateTokens(utf8Tokens, l, func(n string) {
			s.one(true, n, modeModel)
			s.one(true, n+ext, modeModel)
		})
	}
	c.Count("san-utf8-exhaustive")
	// one offending symbol at every position of otherwise plain names of several lengths
	for _, ln := range []int{7, 8, 9, 16, 17, 33, 64, 65, 100, 257} {
		for _, bad := range []string{"/", ".", "\x00", "\xff", " ", "\u0161", "\u4e61", "\U00010061"} {
			for pos := 0; pos <= ln; pos++ {
				n := strings.Repeat("a", pos) + bad + strings.Repeat("b", ln-pos)
				s.one(true, n, modeModel)
				s.one(true, n+ext, modeModel)
			}
		}
	}
	c.Count("san-position-sweep")
	for l := 0; l <= maxLen; l++ {
		if l <= modelLen { // spelled-out correspondence cases
			enumerate(l, func(b []byte) {
				n := string(b)
				s.one(true, n, modeModel)
				s.one(true, n+ext, modeModel)
			})
		} else { // coded correspondence cases: one per 2-byte prefix and flag combination, the model driver enumerates the same names
			enumerate(2, func(pre []byte) {
				p := string(pre)
				enumerate(l-2, func(b []byte) {
					n := p + string(b)
					s.one(true, n, modeCoded)
					s.one(true, n+ext, modeCoded)
				})
				for i, f := range s.flags {
					c.Case(fmt.Sprintf("SANX %s %d %s %s", f.cfg(), l, Hx(alphabet), Hx(pre)), s.codes[i].String())
					s.codes[i].Reset()
				}
			})
		}
		c.Count(fmt.Sprintf("san-exhaustive-len=%d", l))
	}
	// random longer names around the suffix and the character class (model-compared)
	nRand := 3000
	if c.Thorough() {
		nRand = 150000
	}
	pieces := []string{"\u0161", "\u4e41", "\U00010061", "\u0130", "\u012f", ".gr", ".g", "gr", ".", "..", "/", "\\", "\x00", " ", "~", "\xff", "\xc3\xa9", "_", "a", "Z", "0", "9", "z", "A", "@", "[", "`", "{", ":", "/.gr", ".gr.gr", ".GR", "-", "\n"}
	for i := 0; i < nRand; i++ {
		var b strings.Builder
		k := 1 + c.R.Intn(7)
		for j := 0; j < k; j++ {
			if c.R.Pct(60) {
				b.WriteString(pieces[c.R.Intn(len(pieces))])
			} else if c.R.Pct(80) {
				b.WriteByte("abcxyzABCXYZ0123456789_"[c.R.Intn(23)])
			} else {
				b.WriteByte(byte(c.R.Intn(256)))
			}
		}
		n := b.String()
		if c.R.Pct(40) {
			n += ext
		}
		if len(n) <= maxLen && c.R.Pct(80) {
			n = "q" + n + "Q_9" // keep most of the random stream outside the exhaustive space
		}
		s.one(true, n, modeModel)
	}
	c.Count("san-random")
	s.flush()
	c.Extra["exhaustive"] = true
	c.Extra["san_accepted"] = s.nAcc
	c.Extra["san_rejected"] = s.nRej
	c.Extra["san_model_compared"] = s.nModel
	c.Extra["san_restatement_compared"] = s.nDirect

	// ---- ALW: the oracle's allowed set vs the model's
	for _, eo := range []bool{false, true} {
		b := &batcher{c: c, kind: "ALW", cfg: ioFlags{eo, false}.cfg(), max: 64, sep: ""}
		add := func(n string) {
			b.add(hxs(n), b01(allowedName(eo, n)))
		}
		for _, n := range []string{"\u0161.gr", "\u4e41.gr", "\U00010061.gr", "a\u0130.gr", "grol.png", ".gr", "a.gr", "A_z09.gr", "grol.png.gr", "grol.pn", "x/grol.png", "./.gr", "a.grx", "gr", "a.gr.gr", "Z7_.gr"} {
			add(n)
		}
		for l := 1; l <= 3; l++ {
			enumerate(l, func(bs []byte) {
				add(string(bs))
				add(string(bs) + ext)
			})
		}
		b.flush()
	}

	// ---- REG: registration under the 16 configurations
	t, err := newTree()
	if t != nil {
		defer func() {
			t.remove()
			_, e := os.Stat(t.root)
			c.Extra["scratch_removed"] = os.IsNotExist(e)
		}()
	}
	if err != nil {
		c.Fail("harness-scratch-tree", "newTree", err.Error())
		return
	}
	for i := 0; i < 16; i++ {
		regOne(c, t, b01(i&8 != 0)+b01(i&4 != 0)+b01(i&2 != 0)+b01(i&1 != 0))
	}

	// ---- FS: real file-system effects, one child per configuration
	var baseParts []string
	kOf := map[string]string{}
	for rel, content := range t.base {
		n := t.nameFromWork(rel)
		baseParts = append(baseParts, hxs(n)+":"+hxs(token(content)))
		kOf[token(content)] = n
	}
	sort.Strings(baseParts)
	c.Case("DEF B0 "+strings.Join(baseParts, ","), "ok") // the baseline tree as the model sees it, named once
	baseStr := "=B0"
	k := 1000
	nextK := func() int { k++; return k }
	for _, cfg := range []string{"1100", "1110", "1101", "1111", "0000", "1000", "0100"} {
		ch, err := startChild(cfg, t.work)
		if err != nil {
			c.Fail("harness-child", "FS "+cfg, err.Error())
			continue
		}
		fr := &fsRunner{c: c, t: t, ch: ch, cfg: cfg, conf: cfgOf(cfg), baseStr: baseStr, kOf: kOf}
		restricted := !fr.conf.UnrestrictedIOs
		fail := func(err error) bool {
			if err != nil {
				c.Fail("harness-child", "FS "+cfg, err.Error())
				return true
			}
			return false
		}
		S := func(n string) fsReq { return fsReq{'S', true, n, nextK(), ""} }
		L := func(n string) fsReq { return fsReq{'L', true, n, 0, ""} }
		seqs := curatedSeqs(t, S, L, nextK)
		dead := false
		for _, sq := range seqs {
			if fail(fr.do(sq, true)) {
				dead = true
				break
			}
		}
		// every name up to fsLen, with and without suffix: save then load it back
		for l := 1; l <= fsLen && !dead; l++ {
			enumerate(l, func(b []byte) {
				for _, n := range []string{string(b), string(b) + ext} {
					if !dead && fail(fr.do([]fsReq{S(n), L(n)}, true)) {
						dead = true
					}
				}
			})
		}
		// the mixed ASCII / multi-byte symbols: every sequence of up to 2 symbols, with and without suffix
		for l := 1; l <= 2 && !dead; l++ {
			enumerateTokens(utf8Tokens, l, func(n string) {
				for _, nm := range []string{n, n + ext} {
					if !dead && fail(fr.do([]fsReq{S(nm), L(nm)}, true)) {
						dead = true
					}
				}
			})
		}
		if dead {
			ch.stop()
			continue
		}
		// the OS refuses the primary target (directory in the way, dangling symlink, ...): nothing may appear elsewhere
		if !fr.runScenarios(nextK, false) {
			ch.stop()
			continue
		}
		// direct-oracle-only cases
		// (1) a loaded file that itself asks for an escape: restricted -> nothing outside; unrestricted -> the harness must SEE the escape
		rep, err := ch.ask("L " + hxs("nest.gr"))
		if !fail(err) {
			c.Eval()
			chg, _ := t.diffAndRestore()
			if restricted {
				for _, x := range chg {
					c.Fail("restricted-io-touched-file-outside-allowed-set", "FS "+cfg+" L nest.gr{save(../evil)}", x.kind+" "+x.rel)
				}
			} else if fr.conf.HasLoad && fr.conf.HasSave && !fr.conf.LoadSaveEmptyOnly {
				seen := false
				for _, x := range chg {
					if x.rel == "evil" {
						seen = true
					}
				}
				if !seen {
					c.Fail("harness-cannot-see-escape-under-unrestricted-io", "FS "+cfg+" L nest.gr{save(../evil)}", fmt.Sprintf("errs=%d %s changes=%v", rep.errs, rep.err, chg))
				} else {
					c.NonTrivial("escape-visible:" + cfg)
				}
			}
		}
		// (2) auto-save (fixed names chosen by the interpreter, not by the program): only ./.gr may change
		rep, err = ch.ask(fmt.Sprintf("A %d", nextK()))
		if !fail(err) {
			c.Eval()
			chg, _ := t.diffAndRestore()
			for _, x := range chg {
				if x.rel != "work/.gr" {
					c.Fail("autosave-touched-file-other-than-dotgr", "FS "+cfg+" A", x.kind+" "+x.rel)
				}
			}
			if len(chg) == 1 {
				c.NonTrivial("autosave:" + cfg)
			}
		}
		ch.stop()
	}
	// ---- FSL: the same programs with the child's system calls recorded (restricted configurations)
	for _, cfg := range []string{"1100", "1110", "0000"} {
		traceStage(c, t, cfg, baseStr, kOf, nextK)
	}
	// ---- the same restricted configurations with a child that is not root: read-only working directory, read-only targets
	_, haveStrace := exec.LookPath("strace")
	for _, cfg := range []string{"1100", "1110", "0000"} {
		unprivStage(c, t, cfg, baseStr, kOf, nextK, haveStrace == nil)
	}
	// ---- SCR: the real binary on script files located outside the working directory
	scriptStage(c, t, nextK, "")
	reportIOSites(c)
	if rest, _ := t.diffAndRestore(); len(rest) > 0 {
		c.Fail("harness-scratch-tree", "final", fmt.Sprint(rest))
	}
}

// replay: "SAN <cfg> <name|~>" or "FS <cfg> <request line>" / any recorded case string: re-run through the direct oracle
func c17Replay(c *Ctx, cs string) {
	f := strings.Fields(cs)
	if len(f) >= 3 && f[0] == "SAN" {
		s := newSanSweep(c)
		for _, a := range strings.Split(f[2], ",") {
			if a == "~" {
				s.one(false, "", modeRestate)
			} else {
				s.one(true, string(Unhx(a)), modeRestate)
			}
		}
		return
	}
	if len(f) >= 3 && f[0] == "FS" {
		t, err := newTree()
		if t != nil {
			defer t.remove()
		}
		if err != nil {
			fmt.Println("scratch tree:", err)
			return
		}
		var sc *scenario
		if strings.HasPrefix(f[2], "scen:") {
			for _, x := range scenarios() {
				if x.name == strings.TrimPrefix(f[2], "scen:") {
					x := x
					sc = &x
				}
			}
		}
		if sc != nil {
			unprivilegedChild = sc.unpriv
			oldB, oldD := t.base, t.baseDirs
			if err := sc.setup(t); err != nil {
				fmt.Println("scenario:", err)
				return
			}
			t.base, t.baseDirs, _ = t.snapshot()
			defer func() { t.base, t.baseDirs = oldB, oldD; sc.undo(t) }()
		}
		ch, err := startChild(f[1], t.work)
		if err != nil {
			fmt.Println("child:", err)
			return
		}
		defer ch.stop()
		fr := &fsRunner{c: c, t: t, ch: ch, cfg: f[1], conf: cfgOf(f[1]), baseStr: "@", kOf: map[string]string{}}
		if sc != nil {
			fr.scen = sc.name
		}
		for rel, content := range t.base {
			fr.kOf[token(content)] = t.nameFromWork(rel)
		}
		var reqs []fsReq
		spec := f[len(f)-1]
		if len(f) >= 4 && (f[2] == "S" || f[2] == "L") { // "FS cfg S name k" / "FS cfg L name"
			r := fsReq{op: f[2][0], hasArg: f[3] != "~", k: 1}
			if r.hasArg {
				r.name = string(Unhx(f[3]))
			}
			reqs = append(reqs, r)
		} else {
			for _, rs := range strings.Split(spec, "+") {
				p := strings.Split(rs, ":")
				switch p[0] {
				case "S", "L":
					r := fsReq{op: p[0][0], hasArg: len(p) > 1 && p[1] != "~", k: 1}
					if r.hasArg {
						r.name = string(Unhx(p[1]))
					}
					reqs = append(reqs, r)
				case "I", "X", "R":
					reqs = append(reqs, fsReq{op: p[0][0]})
				}
			}
		}
		if err := fr.do(reqs, false); err != nil {
			fmt.Println(err)
		}
		return
	}
	if len(f) >= 6 && f[0] == "SCR" {
		t, err := newTree()
		if t != nil {
			defer t.remove()
		}
		if err != nil {
			fmt.Println("scratch tree:", err)
			return
		}
		k := 5000
		scriptStage(c, t, func() int { k++; return k }, strings.Join(f[:6], " "))
		return
	}
	if len(f) >= 2 && f[0] == "REG" {
		t, err := newTree()
		if t != nil {
			defer t.remove()
		}
		if err != nil {
			fmt.Println("scratch tree:", err)
			return
		}
		regOne(c, t, f[1])
		return
	}
	fmt.Println("bad replay case")
}
