package main

import (
	"bufio"
	"bytes"
	"context"
	"fmt"
	"os"
	"strings"

	"fortio.org/log"
	"grol.io/grol/eval"
	"grol.io/grol/extensions"
	"grol.io/grol/repl"
)

func run(lines []string, off bool, dbg bool) []string {
	eval.VerifCacheOff = off
	s := eval.NewState()
	opts := repl.Options{All: true, ShowEval: true, NoColor: true, NilAndErr: true}
	var res []string
	for _, line := range lines {
		out := &strings.Builder{}
		s.Out = out
		s.LogOut = out
		s.NoLog = true
		var lb bytes.Buffer
		if dbg {
			log.SetOutput(&lb)
			log.SetLogLevelQuiet(log.Debug)
		}
		_, p, errs, _ := repl.EvalOne(context.Background(), s, line, out, opts)
		log.SetLogLevelQuiet(log.Critical)
		r := fmt.Sprintf("%q panic=%v errs=%v", out.String(), p, errs)
		if dbg {
			for _, l := range strings.Split(lb.String(), "\n") {
				if strings.Contains(l, "Cache ") {
					r += "\n      " + l
				}
			}
			r += fmt.Sprintf("\n      cache=%d", len(eval.VerifCacheEntries(s)))
		}
		res = append(res, r)
	}
	return res
}

func main() {
	log.SetLogLevelQuiet(log.Critical)
	_ = extensions.Init(nil)
	dbg := len(os.Args) > 1
	sc := bufio.NewScanner(os.Stdin)
	var lines []string
	flush := func() {
		if len(lines) == 0 {
			return
		}
		on := run(lines, false, dbg)
		off := run(lines, true, false)
		for i, l := range lines {
			m := "  "
			if strings.SplitN(on[i], "\n", 2)[0] != off[i] {
				m = "!!"
			}
			fmt.Printf("%s %-50s on=%s\n   %-50s off=%s\n", m, l, on[i], "", off[i])
		}
		fmt.Println("---")
		lines = nil
	}
	for sc.Scan() {
		line := sc.Text()
		if line == "---" {
			flush()
			continue
		}
		if line != "" {
			lines = append(lines, line)
		}
	}
	flush()
}
