package main

import (
	"bufio"
	"context"
	"fmt"
	"os"
	"strings"

	"fortio.org/log"
	"grol.io/grol/eval"
	"grol.io/grol/extensions"
	"grol.io/grol/repl"
)

func run(lines []string, off bool) []string {
	eval.VerifCacheOff = off
	s := eval.NewState()
	opts := repl.Options{All: true, ShowEval: true, NoColor: true, NilAndErr: true}
	var res []string
	for _, line := range lines {
		out := &strings.Builder{}
		s.Out, s.LogOut, s.NoLog = out, out, true
		_, p, errs, _ := repl.EvalOne(context.Background(), s, line, out, opts)
		r := fmt.Sprintf("%q panic=%v errs=%d", out.String(), p, len(errs))
		if !off && os.Getenv("SHOWCACHE") != "" {
			for _, e := range eval.VerifCacheEntries(s) {
				r += fmt.Sprintf("\n      %s %T %v -> %v", e.Key.Fn, e.Key.Args[1], e.Key.Args, e.Value.Result.Inspect())
			}
		}
		res = append(res, r)
	}
	return res
}

func main() {
	log.SetLogLevelQuiet(log.Critical)
	_ = extensions.Init(nil)
	sc := bufio.NewScanner(os.Stdin)
	var lines []string
	flush := func() {
		on, off := run(lines, false), run(lines, true)
		for i, l := range lines {
			m := "  "
			if on[i] != off[i] {
				m = "!!"
			}
			fmt.Printf("%s %-45s on=%s\n   %-45s off=%s\n", m, l, on[i], "", off[i])
		}
		fmt.Println("---")
		lines = nil
	}
	for sc.Scan() {
		if sc.Text() == "---" {
			flush()
		} else if sc.Text() != "" {
			lines = append(lines, sc.Text())
		}
	}
	flush()
}
