package main

// C03: formatting is a deterministic fixpoint.
// Direct oracle: f(f(x)) == f(x) byte for byte in both modes; repeated formatting, formatting after
// other inputs were parsed (token interning history) and formatting in a fresh process give the same
// bytes; normal-mode output ends with exactly one newline.
// Correspondence: f(x) and f(f(x)) computed by the extracted Coq lexer+parser+printer models.

import (
	"bufio"
	"bytes"
	"fmt"
	"os"
	"os/exec"
	"path/filepath"
	"strings"

	"grol.io/grol/eval"
	"grol.io/grol/object"

	"verifharness/common"
	. "verifharness/common"
)

// quoteCase (round 12): the text of a QUOTED tree. quote(e) copies the tree (ast.Modify) and prints the copy; the text must be
// the same in every run (12 fresh interpreters), and formatting that text must leave it unchanged (it is formatter output).
// A copy that walks a map literal through its Go map instead of its key order prints the pairs in a different order each time.
func quoteCase(c *Ctx, src []byte) {
	c.Eval()
	cs := "QUOTE " + Hx(src)
	defer func() {
		if r := recover(); r != nil {
			c.Fail("quote-print-panic", cs, fmt.Sprint(r))
		}
	}()
	first := ""
	for i := 0; i < 12; i++ {
		st := eval.NewState()
		res, err := eval.EvalString(st, "quote("+string(src)+")", false)
		if err != nil || res == nil || res.Type() != object.QUOTE {
			c.Count("quote=not-a-quote")
			return
		}
		txt := res.Inspect()
		if i == 0 {
			first = txt
		} else if txt != first {
			c.Fail("quote-text-nondeterministic", cs, fmt.Sprintf("src=%q run 1: %q run %d: %q", src, first, i+1, txt))
			return
		}
	}
	c.Count("quote=printed")
	body := strings.TrimSuffix(strings.TrimPrefix(first, "quote("), ")")
	if e1, ok := EntryFormat([]byte(body), true); ok {
		if e2, _ := EntryFormat(e1, true); !bytes.Equal(e1, e2) {
			c.Fail("quote-text-not-a-fixpoint", cs, fmt.Sprintf("src=%q quoted=%q formatted=%q again=%q", src, body, e1, e2))
		}
	}
}

func main() {
	if len(os.Args) > 1 && os.Args[1] == "-child" {
		child()
		return
	}
	common.Main("C03", run)
}

// child mode: read hex sources from stdin, print "<hex normal> <hex compact>" per line
func child() {
	sc := bufio.NewScanner(os.Stdin)
	sc.Buffer(make([]byte, 1<<20), 1<<24)
	for sc.Scan() {
		src := Unhx(strings.TrimSpace(sc.Text()))
		prog, ok := ParseClean(src)
		if !ok {
			fmt.Println("notclean")
			continue
		}
		n, _ := Format(prog, false)
		cm, _ := Format(prog, true)
		fmt.Printf("%s %s\n", Hx(n), Hx(cm))
	}
}

type st struct{ fixpoint, notfix, notclean, known int }

var forChild [][]byte
var forChildOut [][2][]byte

func fmt2(src []byte, compact bool) (string, []byte, []byte) {
	prog, ok := ParseClean(src)
	if !ok {
		return "notclean", nil, nil
	}
	t1, pan := Format(prog, compact)
	if pan {
		return "printpanic", nil, nil
	}
	prog2, ok2 := ParseClean(t1)
	if !ok2 {
		return Hx(t1) + "|rejected", t1, nil
	}
	t2, pan2 := Format(prog2, compact)
	if pan2 {
		return Hx(t1) + "|printpanic", t1, nil
	}
	return Hx(t1) + "|" + Hx(t2), t1, t2
}

func one(c *Ctx, src []byte, toModel bool, s *st) {
	c.Eval()
	prog, ok := ParseClean(src)
	if !ok {
		s.notclean++
		return
	}
	cs := "FMT2 " + Hx(src)
	var obs [2]string
	var t1s [2][]byte
	for i, compact := range []bool{false, true} {
		mode := []string{"normal", "compact"}[i]
		var t1, t2 []byte
		obs[i], t1, t2 = fmt2(src, compact)
		t1s[i] = t1
		if t1 == nil {
			c.Fail("format-panic:"+mode, cs, string(src))
			continue
		}
		// determinism: format the same tree again, and a re-parse of the same source, five times
		for k := 0; k < 5; k++ {
			again, _ := Format(prog, compact)
			p2, _ := ParseClean(src)
			again2, _ := Format(p2, compact)
			if !bytes.Equal(again, t1) || !bytes.Equal(again2, t1) {
				c.Fail("nondeterministic:"+mode, cs, fmt.Sprintf("%q vs %q", t1, again))
				break
			}
		}
		if !compact {
			if len(t1) == 0 || t1[len(t1)-1] != '\n' || (len(t1) > 1 && t1[len(t1)-2] == '\n') {
				c.Fail("normal-mode-final-newline", cs, fmt.Sprintf("%q", t1))
			}
		}
		// the same through the entry point a user reaches (`grol -format [-compact]`: repl.EvalAll, format only): what it writes is
		// what the printer returned, and feeding that back writes the same bytes again
		if e1, ok1 := EntryFormat(src, compact); !ok1 {
			c.Fail("entry-point-rejects-clean-source:"+mode, cs, fmt.Sprintf("src=%q", src))
		} else {
			c.Count("entry-point-formatted")
			if !bytes.Equal(e1, t1) {
				c.Fail("entry-point-output-differs-from-printer:"+mode, cs, fmt.Sprintf("src=%q entry=%q printer=%q", src, e1, t1))
			}
			if t2 != nil && bytes.Equal(t1, t2) { // (non-fixpoints of the printer itself are classified below)
				if e2, ok2 := EntryFormat(e1, compact); !ok2 || !bytes.Equal(e1, e2) {
					c.Fail("idempotence-entry-point:"+mode, cs, fmt.Sprintf("src=%q f=%q ff=%q", src, e1, e2))
				} else if e3, _ := EntryFormat(e2, compact); !bytes.Equal(e3, e2) {
					c.Fail("idempotence-entry-point:third-pass:"+mode, cs, fmt.Sprintf("src=%q ff=%q fff=%q", src, e2, e3))
				}
			}
		}
		if t2 == nil || !bytes.Equal(t1, t2) {
			s.notfix++
			sig := "idempotence-unclassified:" + mode
			// only the patterns that are recorded C03 findings can explain a non-fixpoint (a + (b + c) reaches its fixpoint
			// after the first formatting)
			for _, p := range KnownPatterns(prog) {
				if p == "statement-starts-with-prefix-operator" || p == "number-dot-index" || p == "comment-in-expression-position" || p == "bare-return-followed-by-statement" {
					sig = "idempotence:" + p
					s.known++
					break
				}
			}
			c.Fail(sig, cs, fmt.Sprintf("mode=%s src=%q f=%q ff=%q", mode, src, t1, t2))
		} else {
			s.fixpoint++
		}
	}
	c.NonTrivial(string(t1s[0]))
	if len(forChild) < 400 {
		forChild = append(forChild, src)
		forChildOut = append(forChildOut, [2][]byte{t1s[0], t1s[1]})
	}
	if toModel {
		if !StringsInQuoteDomain(src, false) {
			c.Case(fmt.Sprintf("FMT2 %s %s", Hx(src), Convs(src, t1s[0], t1s[1])), "N=U C=U")
		} else {
			c.Case(fmt.Sprintf("FMT2 %s %s", Hx(src), Convs(src, t1s[0], t1s[1])), fmt.Sprintf("N=%s C=%s", obs[0], obs[1]))
		}
	}
}

func run(c *Ctx) {
	c.Rule = "grammar-generated programs with comments next to every statement kind and blocks opening on the same line, the operator matrix of C02's corpus, " +
		"the shipped examples and mutations; each formatted twice in both modes, 5 repetitions, after an interning history of unrelated inputs, and in a fresh process; " +
		"19 x 15 (poison, victim) pairs in the four mode orders: the victim formatted right after the poison vs alone in a fresh process. " +
		"non-trivial = distinct normal-mode outputs"
	if c.ReplayCase != "" {
		f := strings.Fields(c.ReplayCase)
		var s st
		if len(f) == 2 && f[0] == "FMT2" {
			one(c, Unhx(f[1]), true, &s)
		}
		if len(f) == 2 && f[0] == "QUOTE" {
			quoteCase(c, Unhx(f[1]))
		}
		if len(f) == 2 && f[0] == "SHEBANG" {
			src := Unhx(f[1])
			for _, compact := range []bool{false, true} {
				e1, ok1 := EntryFormat(src, compact)
				e2, _ := EntryFormat(e1, compact)
				fmt.Printf("compact=%v ok=%v entry=%q again=%q\n", compact, ok1, e1, e2)
				if !compact && (len(e1) == 0 || e1[len(e1)-1] != '\n' || (len(e1) > 1 && e1[len(e1)-2] == '\n')) || !bytes.Equal(e1, e2) {
					c.Fail("shebang-replay", c.ReplayCase, fmt.Sprintf("%q -> %q -> %q", src, e1, e2))
				}
			}
		}
		return
	}
	var s st
	for _, src := range []string{"p = `^\\d+$`", "p = \"^\\\\d+$\"", "q = \"raw\"; r = `raw`", "a;-b", "(1).x", "a // t\n+b", "a +\n// c\n b", "func f(){return // c\na}", "a+(b+c)", "x // t\n/* b */ y", "if a { // c\nb}", "// only\n", "", "/* a */ /* b */ x",
		"func f(){\n// c\n}", "a // t1\n// t2\nb", "{1:2} // t", "x = [1,\n2]", "for i=0:3 { /* in */ }",
		"if a { 1 /* yes */ } else { 2 /* no */ }", "if x {1} else { // c\n if y {2} }", "func f() { x /* why */ }\nb = 2", "/* c */ if a {b}",
		"if a {1} else { /* c */ if b {2} else {3} }", "for i=0:3 { a /* e */ }\nb",
		"x = 1 // first value \r\ny = 2 //\t\r\n", "// c \r\n// d\t \r\nx", "m = {(a && b):\"both\", (a || b):\"any\"}", "m = {(1:3):\"low\", 4:\"high\"}", "{(a == b):(c : d)}",
		"func f() {\n\tif x {\n\t\t/* a\n\n\t\t   b */\n\t\ty\n\t}\n}", "if a {\n/* one\ntwo\n\nthree */\nb}", "for i = 2 { if i { /*\n * s\n *\n */ i } }"} {
		one(c, []byte(src), true, &s)
	}
	// round 12: string literals whose runes print as \u escapes (non-printable U+0080..U+00FF and above: NEL, NBSP, soft hyphen,
	// C1 controls, U+2028, a zero-width space, BOM), written raw and as \u / \U / \x escapes, alone and next to ASCII: what the
	// first formatting writes as an escape must read back as the same string. The model's quoting covers bytes only: direct oracle.
	for _, u := range []string{"\"\\u00ad\"", "\"a\\u0085b\"", "\"\\u00a0\"", "\"\\u0080\\u009f\"", "\"\\u00ff\\u0100\"", "\"\\u2028\"", "\"\\ufeff\"", "\"\\U0001f600\"",
		"\"a\u0085b\"", "\"\u00ad\"", "\"\u00a0x\"", "\"\u200b\"", "\"\u2028\"", "\"\ufeffz\"", "`raw\u00ad`", "\"\\xc2\\xad\"", "\"\\u00e9\\u00ad\\u00e9\"", "x = [\"\\u009b\", \"\u0091\"]"} {
		one(c, []byte(u), false, &s)
		one(c, []byte("s = "+u+" // c\nt = "+u), false, &s)
	}
	// round 12: quoted trees (map literals of 2..12 pairs with keys of several types, nested, inside arrays, calls and lambdas)
	for _, q := range []string{`{3:1, 1:2}`, `{"b":1, "a":2, "c":3}`, `{9:0, 8:0, 7:0, 6:0, 5:0, 4:0, 3:0, 2:0, 1:0}`, `{"k":{2:1, 1:2, 0:3}, "j":[{5:5, 4:4, 3:3}]}`,
		`f({"z":1, "y":2, "x":3, "w":4})`, `x => {x:1, "s":2, 1.5:3, true:4, [1]:5}`, `[{b:1, a:2}, {a:1, b:2}]`, `m = {12:1, 11:2, 10:3, 9:4, 8:5, 7:6, 6:7, 5:8, 4:9, 3:10, 2:11, 1:12}`,
		`if c {{2:2, 1:1}} else {{1:1, 2:2}}`, `{}`, `{1:1}`, `a + b * c`, `[3, 2, 1]`, `func(a, b) {{b:a, a:b}}`} {
		quoteCase(c, []byte(q))
	}
	// adjacent literals and operators against sign-leading operands (common.DelicatePrograms, shared with C02): a second
	// formatting pass must not glue what the first one kept apart
	dl := DelicatePrograms(c.Thorough())
	for _, src := range dl {
		one(c, []byte(src), false, &s)
	}
	c.Dist["delicate-literal-and-operator-programs"] = len(dl)
	eb := ElseBlockPrograms(c.Thorough())
	for _, src := range eb {
		one(c, []byte(src), true, &s)
	}
	c.Dist["else-block-shape-programs"] = len(eb)
	n := 1200
	if c.Thorough() {
		n = 50000
	}
	// interning history: other inputs are parsed in between (token interning state)
	for i := 0; i < n; i++ {
		g := &Gen{R: c.R, O: GenOpts{AvoidKnown: i%6 != 0, Comments: i%2 == 0, MaxDepth: 4}}
		p := g.Program()
		if i%5 == 3 { // a CRLF file, line comments ending in blanks before the CR (and, every other time, before a bare LF)
			p = strings.ReplaceAll(p, "\n", []string{"\r\n", " \r\n", "\t \r\n", " \n"}[c.R.Intn(4)])
		}
		one(c, []byte(p), true, &s)
	}
	// shebang scripts through the entry point (`grol -format script`): the #! line is not part of the program; whatever the entry
	// point does with it, the output is the printer's for the rest of the file, ends with exactly one newline in normal mode
	// (also when nothing follows the #! line) and is a fixpoint
	nsh := 0
	for _, sb := range []string{"#!/usr/bin/env grol\n", "#!/bin/grol -s\n", "#!\n"} { // (a #! line without an end is not a script: the entry point reports a parse error)
		for _, body := range []string{"", "\n", "\n\n", "x = 1", "x = 1\n", "// c\n", "func f(a) {\n\ta + 1\n}\nf(2)\n", "/* a */ y = [1,\n2]\n\n"} {
			src := []byte(sb + body)
			rest := []byte(body)
			if !strings.HasSuffix(sb, "\n") {
				rest = nil // the #! line has no end: the whole input is that line
			}
			for i, compact := range []bool{false, true} {
				mode := []string{"normal", "compact"}[i]
				cs := "SHEBANG " + Hx(src)
				c.Eval()
				nsh++
				e1, ok1 := EntryFormat(src, compact)
				prog, okp := ParseClean(rest)
				if !ok1 || !okp {
					c.Fail("shebang-script-rejected:"+mode, cs, fmt.Sprintf("src=%q entry ok=%v body parses=%v", src, ok1, okp))
					continue
				}
				want, _ := Format(prog, compact)
				if !bytes.Equal(e1, want) {
					c.Fail("shebang-entry-output-differs-from-printer:"+mode, cs, fmt.Sprintf("src=%q entry=%q printer(body)=%q", src, e1, want))
				}
				if !compact && (len(e1) == 0 || e1[len(e1)-1] != '\n' || (len(e1) > 1 && e1[len(e1)-2] == '\n')) {
					c.Fail("normal-mode-final-newline:shebang", cs, fmt.Sprintf("src=%q entry=%q", src, e1))
				}
				if e2, ok2 := EntryFormat(e1, compact); !ok2 || !bytes.Equal(e1, e2) {
					c.Fail("idempotence-entry-point:shebang:"+mode, cs, fmt.Sprintf("src=%q f=%q ff=%q", src, e1, e2))
				}
			}
		}
	}
	c.Dist["shebang-entry-inputs"] = nsh
	files, _ := filepath.Glob("/repo/examples/*.gr")
	more, _ := filepath.Glob("/repo/tests/*.gr")
	for _, f := range append(files, more...) {
		b, err := os.ReadFile(f)
		if err != nil {
			continue
		}
		one(c, b, len(b) < 4000, &s)
	}
	// fresh process, and a different parsing history: the same inputs formatted by a child process in the
	// same order and in REVERSE order (token interning / any process-wide state must not matter)
	exe, _ := os.Executable()
	for _, rev := range []bool{false, true} {
		idx := make([]int, len(forChild))
		for i := range idx {
			idx[i] = i
			if rev {
				idx[i] = len(forChild) - 1 - i
			}
		}
		cmd := exec.Command(exe, "-child")
		var in bytes.Buffer
		for _, i := range idx {
			in.WriteString(Hx(forChild[i]) + "\n")
		}
		cmd.Stdin = &in
		out, err := cmd.Output()
		if err != nil {
			c.Fail("fresh-process-run", "child", err.Error())
			continue
		}
		lines := strings.Split(strings.TrimSpace(string(out)), "\n")
		for k, ln := range lines {
			if k >= len(idx) {
				break
			}
			i := idx[k]
			want := Hx(forChildOut[i][0]) + " " + Hx(forChildOut[i][1])
			if ln != want {
				sig := "fresh-process-differs"
				if rev {
					sig = "history-dependent-output"
				}
				c.Fail(sig, "FMT2 "+Hx(forChild[i]), fmt.Sprintf("child %s parent %s", ln, want))
			}
			c.Eval()
		}
		c.Dist[fmt.Sprintf("fresh-process-compared(reversed=%v)", rev)] = len(lines)
	}
	// what one input leaves behind must not reach the next one formatted by the same process: every (poison, victim) pair,
	// the victim formatted right after the poison, against the victim formatted alone by a fresh process
	poisons := []string{"x = 42 // the answer", "n--", "i++", "f = func(){1}", "[1]", "a // c", "/* c */", "x /* t */", "if a {b}", "{1:2}", "a =>  a",
		"func f() { x /* why */ }", "x = -1", "a[1]", "\"s\"", "// only", "a;", "m = {1:[2]}", "- b"}
	victims := []string{"-x + 1", "++j", "func fact(n) { if n <= 1 { return 1 }\n n }", "(a)", "[1,2]", "{1:2}", "// c\nx", "a", "if a {b} else {c}",
		"()=>y", "--k", "+1", "x = [1]\n[2]", "for i = 3 {i}", "/* c */ a"}
	base := map[string]string{}
	for _, v := range victims {
		cmd := exec.Command(exe, "-child")
		cmd.Stdin = strings.NewReader(Hx([]byte(v)) + "\n")
		out, err := cmd.Output()
		if err != nil {
			c.Fail("fresh-process-run", "child", err.Error())
			continue
		}
		base[v] = strings.TrimSpace(string(out))
	}
	pairs := 0
	for _, p := range poisons {
		pp, okp := ParseClean([]byte(p))
		for _, v := range victims {
			pv, okv := ParseClean([]byte(v))
			if !okp || !okv || base[v] == "" || base[v] == "notclean" {
				continue
			}
			for _, order := range [][2]bool{{false, false}, {true, true}, {false, true}, {true, false}} {
				_, _ = Format(pp, order[0])
				got, _ := Format(pv, order[1])
				want := strings.Fields(base[v])
				idx := 0
				if order[1] {
					idx = 1
				}
				if len(want) == 2 && Hx(got) != want[idx] {
					c.Fail("history-dependent-output:after-one-input", "PAIR "+Hx([]byte(p))+" "+Hx([]byte(v)),
						fmt.Sprintf("after formatting %q (compact=%v), %q (compact=%v) gives %q; alone in a fresh process %q", p, order[0], v, order[1], got, Unhx(want[idx])))
				}
				pairs++
				c.Eval()
			}
		}
	}
	c.Dist["poison-victim-pairs"] = pairs
	c.Dist["fixpoint"] = s.fixpoint
	c.Dist["not-fixpoint"] = s.notfix
	c.Dist["not-fixpoint-known-pattern"] = s.known
	c.Dist["src=notclean"] = s.notclean
}
