package main

import (
	"context"
	"fmt"
	"os"
	"runtime/debug"
	"strings"
	"time"

	"fortio.org/log"
	"grol.io/grol/eval"
	"grol.io/grol/extensions"
	"grol.io/grol/lexer"
	"grol.io/grol/object"
	"grol.io/grol/parser"
)

func run(src string) (res string) {
	defer func() {
		if r := recover(); r != nil {
			res = fmt.Sprintf("PANIC %T: %v", r, r)
			if os.Getenv("STACK") != "" {
				debug.PrintStack()
			}
		}
	}()
	p := parser.New(lexer.New(src))
	prog := p.ParseProgram()
	if len(p.Errors()) > 0 {
		return "PARSE-ERR " + strings.Join(p.Errors(), "|")
	}
	s := eval.NewState()
	s.Out = &strings.Builder{}
	s.LogOut = s.Out
	s.NoLog = true
	s.MaxDepth = 200
	cancel := s.SetContext(context.Background(), 2*time.Second)
	defer cancel()
	s.DefineMacros(prog)
	var pr any = prog
	if s.NumMacros() > 0 {
		pr = s.ExpandMacros(prog)
	}
	o := s.Eval(pr)
	if o == nil {
		return "NILOBJ"
	}
	if o.Type() == object.ERROR {
		return "ERR " + o.Inspect()
	}
	return "VAL " + o.Type().String() + " " + trunc(o.Inspect())
}
func trunc(s string) string {
	if len(s) > 200 {
		return s[:200] + "..."
	}
	return s
}

func main() {
	log.SetLogLevelQuiet(log.Fatal)
	debug.SetMemoryLimit(512 << 20)
	if err := extensions.Init(&extensions.Config{HasLoad: true, HasSave: true}); err != nil {
		panic(err)
	}
	for _, a := range os.Args[1:] {
		fmt.Printf("%-60s => %s\n", a, run(a))
	}
}
