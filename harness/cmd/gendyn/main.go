// gendyn: the run-time side of the translator.  It links against the tree under test (build tag verif) and prints, as
// JSON, tables that the syntactic translator /verif/gen otherwise reads off the source text: the token types with their
// names and fixed literals, ast.Precedences, the parser's registration tables (names of the registered parse functions),
// and the lexer's byte predicates tabulated over all 256 bytes.  /verif/gen cross-checks its own reading against these
// and falls back to them when a construct is written in a form it does not parse (a table-driven registration loop,
// a predicate written as a switch or a lookup table, a map built by a function).
package main

import (
	"encoding/json"
	"fmt"
	"os"
	"sort"
	"strings"

	"grol.io/grol/ast"
	"grol.io/grol/lexer"
	"grol.io/grol/parser"
	"grol.io/grol/token"
)

type tokInfo struct {
	Type    int    `json:"type"`
	Name    string `json:"name"`
	HasLit  bool   `json:"has_lit"`
	Literal string `json:"literal"` // hex
}

type out struct {
	Tokens    []tokInfo         `json:"tokens"`
	Prec      map[string]int    `json:"prec"`
	Prefix    map[string]string `json:"prefix"`
	Infix     map[string]string `json:"infix"`
	Postfix   map[string]string `json:"postfix"`
	ByteClass map[string][]int  `json:"byteclass"` // name -> the bytes for which the predicate holds
	Errors    []string          `json:"errors"`
}

func main() {
	var o out
	o.Prec, o.Prefix, o.Infix, o.Postfix, o.ByteClass = map[string]int{}, map[string]string{}, map[string]string{}, map[string]string{}, map[string][]int{}
	token.Init()
	for i := 0; i < 4096; i++ {
		t := token.Type(i)
		name := t.String()
		if strings.HasPrefix(name, "Type(") {
			break
		}
		ti := tokInfo{Type: i, Name: name}
		func() {
			defer func() { _ = recover() }()
			if tk := token.ByType(t); tk != nil {
				ti.HasLit, ti.Literal = true, fmt.Sprintf("%x", tk.Literal())
			}
		}()
		o.Tokens = append(o.Tokens, ti)
	}
	for t, p := range ast.Precedences {
		o.Prec[fmt.Sprint(int(t))] = int(p)
	}
	pre, in, post := parser.VerifParseTables()
	for t, n := range pre {
		o.Prefix[fmt.Sprint(int(t))] = n
	}
	for t, n := range in {
		o.Infix[fmt.Sprint(int(t))] = n
	}
	for t, n := range post {
		o.Postfix[fmt.Sprint(int(t))] = n
	}
	for name, f := range lexer.VerifByteClasses() {
		var l []int
		for b := 0; b < 256; b++ {
			if f(byte(b)) {
				l = append(l, b)
			}
		}
		sort.Ints(l)
		o.ByteClass[name] = l
	}
	enc := json.NewEncoder(os.Stdout)
	enc.SetIndent("", " ")
	_ = enc.Encode(o)
}
