module verifharness

go 1.23.8

require (
	fortio.org/log v1.17.2
	fortio.org/terminal v0.30.0
	grol.io/grol v0.0.0
)

require (
	fortio.org/cli v1.10.0 // indirect
	fortio.org/safecast v1.0.0 // indirect
	fortio.org/sets v1.3.0 // indirect
	fortio.org/struct2env v0.4.2 // indirect
	fortio.org/term v0.29.0-fortio-1 // indirect
	fortio.org/version v1.0.4 // indirect
	github.com/kortschak/goroutine v1.1.2 // indirect
	github.com/rivo/uniseg v0.4.7 // indirect
	golang.org/x/crypto/x509roots/fallback v0.0.0-20250406160420-959f8f3db0fb // indirect
	golang.org/x/image v0.26.0 // indirect
	golang.org/x/sys v0.31.0 // indirect
)

replace grol.io/grol => /repo
