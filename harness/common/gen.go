package common

// Grammar-driven generator of grol source text (shared by C02, C03, C13, C14, C15).
// Every random choice comes from the run's single PRNG.

import (
	"fmt"
	"strings"
)

type GenOpts struct {
	AvoidKnown bool // avoid constructs recorded as known formatter findings
	Comments   bool // emit comments between statements
	MaxDepth   int
}

type Gen struct {
	R *Rng
	O GenOpts
}

var genIdents = []string{"a", "b", "c", "x", "y", "foo", "i", "n", "s", "_z1"}
var genInts = []string{"0", "1", "2", "42", "007", "0x1F", "0b101", "1_000", "9223372036854775807", "10"}
var genFloats = []string{"1.5", ".5", "2.", "1e3", "1.5e-3", "0.25", "3.", "1_0.5"}
var genStrings = []string{`"s"`, `""`, `"a b"`, `"a\"b"`, `"\\"`, `"\n\t"`, "`raw`", "`a\"b`", `"\x07\x08"`, `"\x00"`, `"\xff"`, `"tab\there"`, `"\x7f"`, `"it's"`, `"\x1b[0m"`,
	// raw bytes that are not valid UTF-8 (strconv.Quote prints them as \xNN, which must read back as that one byte), and valid multi-byte text
	"\"caf\xe9\"", "\"\xff\xfe\"", "`raw\x80`", "\"\xc3\"", "\"h\xc3\xa9llo\"", "\"\xe6\x97\xa5\xe6\x9c\xac\"", "\"\xf0\x9f\x98\x80 \xed\xa0\x80\""}

var BinOps = []string{"+", "-", "*", "/", "%", "==", "!=", "<", "<=", ">", ">=", "<<", ">>", "&&", "||", "&", "|", "^", ":", "=", ":="}
var PrefixOps = []string{"!", "-", "+", "~", "^", "++", "--"}

func (g *Gen) pick(l []string) string { return l[g.R.Intn(len(l))] }

// Pick is pick for the harness binaries.
func (g *Gen) Pick(l []string) string { return g.pick(l) }

func (g *Gen) Ident() string { return g.pick(genIdents) }

func (g *Gen) Leaf() string {
	switch g.R.Intn(10) {
	case 0, 1, 2, 3:
		return g.Ident()
	case 4, 5:
		return g.pick(genInts)
	case 6:
		return g.pick(genFloats)
	case 7:
		return g.pick(genStrings)
	case 8:
		return g.pick([]string{"true", "false"})
	default:
		return g.Ident() + g.pick([]string{"++", "--"})
	}
}

func (g *Gen) maybeParen(s string, pct int) string {
	if g.R.Pct(pct) {
		return "(" + s + ")"
	}
	return s
}

func (g *Gen) args(d int) string {
	n := g.R.Intn(4)
	var a []string
	for i := 0; i < n; i++ {
		a = append(a, g.Expr(d-1))
	}
	return strings.Join(a, g.pick([]string{",", ", "}))
}

func (g *Gen) params() []string {
	n := g.R.Intn(4)
	var p []string
	for i := 0; i < n; i++ {
		p = append(p, genIdents[i])
	}
	if n > 0 && g.R.Pct(15) {
		p = append(p, "..")
	}
	return p
}

func (g *Gen) Block(d int) string {
	return "{" + g.Stmts(d-1, 1+g.R.Intn(3), true) + "}"
}

// Expr generates an expression of nesting depth <= d.
func (g *Gen) Expr(d int) string {
	if d <= 0 {
		return g.Leaf()
	}
	switch k := g.R.Intn(24); {
	case k < 4:
		return g.Leaf()
	case k < 11: // infix; parenthesise operands at random so that both needed and redundant parentheses occur
		op := g.pick(BinOps)
		l, r := g.Expr(d-1), g.Expr(d-1)
		if op == "=" || op == ":=" {
			l = g.pick([]string{g.Ident(), g.Ident() + "[" + g.Expr(d-1) + "]", g.Ident() + "." + g.Ident()})
		}
		sp := g.pick([]string{" ", ""})
		if op == ":" && !g.R.Pct(30) {
			return g.Ident() + "[" + l + sp + op + sp + r + "]"
		}
		rp := 55
		if g.O.AvoidKnown && op == "+" {
			r = g.Leaf() // a + (b + c) is a recorded finding: keep the right operand of + atomic
		}
		return g.maybeParen(l, 40) + sp + op + sp + g.maybeParenRight(r, rp, op)
	case k < 13:
		op := g.pick(PrefixOps)
		e := g.Expr(d - 1)
		if op == "++" || op == "--" {
			return op + g.Ident()
		}
		return op + g.maybeParen(e, 50)
	case k < 15:
		f := g.pick([]string{g.Ident(), g.Ident(), g.Ident() + "." + g.Ident(), "(" + g.Expr(d-1) + ")"})
		return f + "(" + g.args(d) + ")"
	case k < 17:
		base := g.pick([]string{g.Ident(), g.Ident(), "(" + g.Expr(d-1) + ")", "[1,2,3]"})
		switch g.R.Intn(5) {
		case 0:
			if g.O.AvoidKnown {
				base = g.Ident() // (1).x prints as 1.x: recorded finding
			}
			return base + "." + g.Ident()
		case 1:
			return base + "[" + g.Expr(d-1) + ":" + g.Expr(d-1) + "]"
		case 2:
			return base + "[" + g.Expr(d-1) + ":]"
		default:
			return base + "[" + g.Expr(d-1) + "]"
		}
	case k < 18:
		return "[" + g.args(d) + "]"
	case k < 19:
		n := g.R.Intn(3)
		var kv []string
		for i := 0; i < n; i++ {
			key := g.pick([]string{g.pick(genStrings), g.pick(genInts), g.Ident()})
			if g.R.Pct(30) { // a parenthesised operator expression as key: operators looser than, equal to and tighter than `:`
				key = "(" + g.Leaf() + " " + g.pick([]string{"&&", "||", ":", "==", "+", "<", "=", "*"}) + " " + g.Leaf() + ")"
			}
			val := g.Expr(d - 1)
			if g.R.Pct(20) {
				val = "(" + g.Leaf() + " " + g.pick([]string{"&&", "||", ":", "==", "+"}) + " " + g.Leaf() + ")"
			}
			kv = append(kv, key+":"+val)
		}
		return "{" + strings.Join(kv, ",") + "}"
	case k < 21: // lambda forms
		p := g.params()
		switch g.R.Intn(4) {
		case 0:
			if len(p) == 1 && p[0] != ".." {
				return p[0] + " => " + g.Expr(d-1)
			}
			return "(" + strings.Join(p, ",") + ") => " + g.Expr(d-1)
		case 1:
			return "(" + strings.Join(p, ",") + ") => " + g.Block(d)
		case 2:
			return "func(" + strings.Join(p, ", ") + ") " + g.Block(d)
		default:
			return "(" + strings.Join(p, ",") + ") => " + g.Expr(d-1)
		}
	case k < 22:
		s := "if " + g.Expr(d-1) + " " + g.Block(d)
		if g.R.Pct(50) {
			if g.R.Pct(30) {
				s += " else if " + g.Expr(d-1) + " " + g.Block(d)
			}
			if g.O.Comments && g.R.Pct(25) {
				// an else block that holds only a comment and an if: compact mode drops the comment
				s += " else { " + g.pick([]string{"// ce\n", "/* ce */ ", "/* ce */\n"}) + "if " + g.Expr(d-1) + " " + g.Block(d) + g.pick([]string{"", " // te\n", " /* te */"}) + " }"
				return s
			}
			s += " else " + g.Block(d)
		}
		return s
	case k < 23:
		b := g.pick([]string{"len", "first", "rest", "print", "println", "error", "catch", "log"})
		if b == "println" && g.R.Pct(30) {
			return "println()"
		}
		if b == "print" || b == "println" || b == "log" || b == "error" {
			return b + "(" + g.Expr(d-1) + g.pick([]string{"", ", " + g.Expr(d-1)}) + ")"
		}
		return b + "(" + g.Expr(d-1) + ")"
	default:
		return "(" + g.Expr(d-1) + ")"
	}
}

func (g *Gen) maybeParenRight(r string, pct int, op string) string {
	return g.maybeParen(r, pct)
}

// Stmt generates one statement.
func (g *Gen) Stmt(d int, inBlock bool) string {
	switch k := g.R.Intn(20); {
	case k < 10:
		e := g.Expr(d)
		if g.O.AvoidKnown && startsWithPrefixOp(e) {
			e = g.Ident() + " = " + e // a statement starting with - + ^ ++ -- after another one is a recorded finding
		}
		return e
	case k < 12:
		return g.Ident() + g.pick([]string{" = ", "=", " := "}) + g.Expr(d)
	case k < 13 && inBlock:
		if g.R.Pct(30) {
			return "return"
		}
		e := g.Expr(d)
		return "return " + e
	case k < 14 && inBlock:
		return g.pick([]string{"break", "continue"})
	case k < 16:
		switch g.R.Intn(4) {
		case 0:
			return "for " + g.Expr(d-1) + " " + g.Block(d)
		case 1:
			return "for " + g.Ident() + " = " + g.pick(genInts) + ":" + g.pick(genInts) + " " + g.Block(d)
		case 2:
			return "for " + g.Ident() + " := " + g.Expr(d-1) + " " + g.Block(d)
		default:
			return "for " + g.pick(genInts) + " " + g.Block(d)
		}
	case k < 18:
		return "func " + g.pick([]string{"f", "g", "fact", "h2"}) + "(" + strings.Join(g.params(), ", ") + ") " + g.Block(d)
	case k < 19:
		return g.Ident() + " = macro(" + strings.Join(g.params()[:0], ",") + "x) {quote(unquote(x) " + g.pick([]string{"+", "*", "-"}) + " " + g.Leaf() + ")}"
	default:
		e := g.Expr(d)
		if g.O.AvoidKnown && startsWithPrefixOp(e) {
			e = g.Ident() + " = " + e
		}
		return e
	}
}

// startsWithPrefixOp: the leftmost token of the expression text (ignoring opening parentheses, which the
// formatter may drop) is one of - + ^ ++ --.
func startsWithPrefixOp(e string) bool {
	t := strings.TrimLeft(e, "( ")
	return len(t) > 0 && strings.ContainsRune("-+^", rune(t[0]))
}

// Stmts generates n statements joined by newlines or semicolons, optionally with comments.
func (g *Gen) Stmts(d, n int, inBlock bool) string {
	var b strings.Builder
	for i := 0; i < n; i++ {
		if g.O.Comments && g.R.Pct(20) {
			if g.R.Pct(50) {
				fmt.Fprintf(&b, "// c%d\n", i)
			} else {
				// one-line and multi-line block comments (continuation lines indented or not, an empty line inside, a line of stars)
				body := g.pick([]string{fmt.Sprintf(" b%d ", i), fmt.Sprintf(" b%d ", i), fmt.Sprintf(" b%d\n   more ", i), fmt.Sprintf(" b%d\n\n\tafter blank\n", i), fmt.Sprintf("\n * b%d\n *\n * x\n ", i), fmt.Sprintf(" b%d\n\t\tdeep\nflush ", i)})
				fmt.Fprintf(&b, "/*%s*/%s", body, g.pick([]string{"\n", " ", "\n"}))
			}
		}
		b.WriteString(g.Stmt(d, inBlock))
		if g.O.Comments && g.R.Pct(12) {
			fmt.Fprintf(&b, " // t%d\n", i)
			continue
		}
		if g.O.Comments && g.R.Pct(10) {
			// a block comment after the statement on the same line (also right before a closing brace)
			fmt.Fprintf(&b, " /* e%d */", i)
			if i == n-1 {
				continue
			}
		}
		if i < n-1 || g.R.Pct(50) {
			b.WriteString(g.pick([]string{"\n", ";", "; ", "\n\n", " ;\n"}))
		}
	}
	return b.String()
}

// Program generates a whole program.
func (g *Gen) Program() string {
	d := 1 + g.R.Intn(g.O.MaxDepth)
	return g.Stmts(d, 1+g.R.Intn(5), false)
}
