//go:build verif

package common

// Canonical dump of grol values (DESIGN Appendix B `value`), shared by the C11 and C12 harnesses, plus a
// small constructor set for building real objects from a neutral description.
//
//	value ::= I<dec> | F<16 hex digits of the IEEE bits> | B0 | B1 | N | S<hex> | A[v,...] | M{k:v,...}
//	        | U<hex cache key> (function) | X<hex name> (extension) | Q<hex Inspect()> (quote)
//	        | C<hex Inspect()> (macro) | E<hex message> (error) | R<hex Inspect()> (return value)
//
// Produced from the concrete Go types, so Integer 1 and Float 1 differ (Inspect would hide that); maps in
// stored order (object.VerifMapPairs, build tag verif); every NaN is printed with the bits of math.NaN().
// No spaces occur in a value, so values are fields of a case line.

import (
	"fmt"
	"math"
	"strings"

	"grol.io/grol/object"
)

const nanBits = 0x7ff8000000000001

func hx(s string) string { return Hx([]byte(s)) }

// Canon renders an object; `?<GoType>` for anything outside the value grammar (never equal to a model line).
func Canon(o object.Object) string {
	var b strings.Builder
	canon(&b, o)
	return b.String()
}

func canon(b *strings.Builder, o object.Object) {
	switch v := o.(type) {
	case object.Integer:
		fmt.Fprintf(b, "I%d", v.Value)
	case object.Float:
		bits := math.Float64bits(v.Value)
		if v.Value != v.Value {
			bits = nanBits
		}
		fmt.Fprintf(b, "F%016x", bits)
	case object.Boolean:
		if v.Value {
			b.WriteString("B1")
		} else {
			b.WriteString("B0")
		}
	case object.Null:
		b.WriteString("N")
	case object.String:
		b.WriteString("S" + hx(v.Value))
	case object.SmallArray, object.BigArray:
		b.WriteString("A[")
		for i, e := range object.Elements(o) {
			if i > 0 {
				b.WriteString(",")
			}
			canon(b, e)
		}
		b.WriteString("]")
	case object.Map: // SmallMap, *BigMap, and the *SmallMap of the C11 defect
		b.WriteString("M{")
		ps := object.VerifMapPairs(v)
		for i := 0; i+1 < len(ps); i += 2 {
			if i > 0 {
				b.WriteString(",")
			}
			canon(b, ps[i])
			b.WriteString(":")
			canon(b, ps[i+1])
		}
		b.WriteString("}")
	case object.Function:
		b.WriteString("U" + hx(v.CacheKey))
	case object.Extension:
		b.WriteString("X" + hx(v.Name))
	case object.Quote:
		b.WriteString("Q" + hx(v.Inspect()))
	case object.Macro:
		b.WriteString("C" + hx(v.Inspect()))
	case *object.Macro:
		b.WriteString("C" + hx(v.Inspect()))
	case object.Error:
		b.WriteString("E" + hx(v.Value))
	case object.ReturnValue:
		b.WriteString("R" + hx(v.Inspect()))
	default:
		fmt.Fprintf(b, "?%T", o)
	}
}

// MapRep is the representation tag of a map object: s = SmallMap value, b = *BigMap,
// p = *SmallMap (a small map behind a pointer: the type switches of object.Rest/Range/Elements do not know it).
func MapRep(o object.Object) string {
	switch o.(type) {
	case object.SmallMap:
		return "s"
	case *object.BigMap:
		return "b"
	case *object.SmallMap:
		return "p"
	}
	return "?"
}

// ParseCanon rebuilds a real object from its canonical dump, for the kinds that can be built through the
// public API without an evaluator: I F B N S A M E.  Maps are built with NewMapSize(n)+Set in the given order.
func ParseCanon(s string) (object.Object, bool) {
	p := &cparser{s: s}
	o := p.value()
	if p.bad || p.i != len(s) {
		return nil, false
	}
	return o, true
}

type cparser struct {
	s   string
	i   int
	bad bool
}

func (p *cparser) until(stop string) string {
	j := p.i
	for j < len(p.s) && !strings.ContainsRune(stop, rune(p.s[j])) {
		j++
	}
	r := p.s[p.i:j]
	p.i = j
	return r
}

func (p *cparser) value() object.Object {
	if p.i >= len(p.s) {
		p.bad = true
		return object.NULL
	}
	c := p.s[p.i]
	p.i++
	switch c {
	case 'I':
		var v int64
		if _, err := fmt.Sscanf(p.until(",:]}"), "%d", &v); err != nil {
			p.bad = true
		}
		return object.Integer{Value: v}
	case 'F':
		var bits uint64
		if _, err := fmt.Sscanf(p.until(",:]}"), "%x", &bits); err != nil {
			p.bad = true
		}
		return object.Float{Value: math.Float64frombits(bits)}
	case 'B':
		t := p.until(",:]}")
		return object.NativeBoolToBooleanObject(t == "1")
	case 'N':
		return object.NULL
	case 'S':
		return object.String{Value: string(Unhx(p.until(",:]}")))}
	case 'E':
		return object.Error{Value: string(Unhx(p.until(",:]}")))}
	case 'A':
		if p.i >= len(p.s) || p.s[p.i] != '[' {
			p.bad = true
			return object.NULL
		}
		p.i++
		var els []object.Object
		for p.i < len(p.s) && p.s[p.i] != ']' {
			els = append(els, p.value())
			if p.i < len(p.s) && p.s[p.i] == ',' {
				p.i++
			}
			if p.bad {
				return object.NULL
			}
		}
		p.i++
		return object.NewArray(els)
	case 'M':
		if p.i >= len(p.s) || p.s[p.i] != '{' {
			p.bad = true
			return object.NULL
		}
		p.i++
		var ks, vs []object.Object
		for p.i < len(p.s) && p.s[p.i] != '}' {
			k := p.value()
			if p.i >= len(p.s) || p.s[p.i] != ':' {
				p.bad = true
				return object.NULL
			}
			p.i++
			v := p.value()
			ks, vs = append(ks, k), append(vs, v)
			if p.i < len(p.s) && p.s[p.i] == ',' {
				p.i++
			}
			if p.bad {
				return object.NULL
			}
		}
		p.i++
		m := object.NewMapSize(len(ks))
		for i := range ks {
			m = m.Set(ks[i], vs[i])
		}
		return m
	}
	p.bad = true
	return object.NULL
}
