package common

// Persistent interpreter sessions driven through repl.EvalOne, with the state projections of the
// verif hooks (object/verif_access.go, eval/verif_access.go) and two harness-side extension
// functions used by the C05 / C10 harnesses:
//
//	vprobe()  records numReg of the current environment and whether State.Out is the session
//	          writer (returns nil; DontCache so that bodies containing it are always executed)
//	vpanic()  panics inside the evaluator (a run-time panic raised while a program runs)
//
// Purely additive file (see AGENT_GUIDE: harness/common/x_<topic>.go).

import (
	"bytes"
	"context"
	"fmt"
	"io"
	"strings"
	"sync"
	"time"

	"fortio.org/log"
	"grol.io/grol/eval"
	"grol.io/grol/object"
	"grol.io/grol/repl"
)

type Sess struct {
	S      *eval.State
	Buf    *bytes.Buffer
	probes []string
	Opts   repl.Options
}

// SessObs is what one input of a session shows, plus the control projection after it.
type SessObs struct {
	Out      string
	Errs     []string
	Panicked bool
	NumReg   int  // registers allocated in the root environment after the input
	AtRoot   bool // State.env == State.rootEnv
	Depth0   bool // State.depth == 0
	OutIs    bool // State.Out is the session writer
	Probes   string
}

var (
	sessOnce sync.Once
	curSess  *Sess
)

func sessInit() {
	log.SetLogLevelQuiet(log.Critical)
	log.SetOutput(io.Discard) // "Caught panic" lines of repl.EvalOne
	err := object.CreateFunction(object.Extension{
		Name: "vprobe", MinArgs: 0, MaxArgs: 0, DontCache: true,
		Callback: func(st any, _ string, _ []object.Object) object.Object {
			s, ok := st.(*eval.State)
			if ok && curSess != nil && curSess.S == s {
				o := 1
				if s.VerifOutIs(curSess.Buf) {
					o = 0
				}
				curSess.probes = append(curSess.probes, fmt.Sprintf("%d.%d", s.VerifCurNumReg(), o))
			}
			return object.NULL
		},
	})
	if err != nil {
		panic(err)
	}
	err = object.CreateFunction(object.Extension{
		Name: "vpanic", MinArgs: 0, MaxArgs: 0, DontCache: true,
		Callback: func(_ any, _ string, _ []object.Object) object.Object {
			panic("verif: run-time panic raised inside the evaluator")
		},
	})
	if err != nil {
		panic(err)
	}
}

// NewSess creates a fresh interpreter state writing to its own buffer.
func NewSess(noReg bool, maxDepth int) *Sess {
	sessOnce.Do(sessInit)
	x := &Sess{S: eval.NewState(), Buf: &bytes.Buffer{}}
	x.S.Out = x.Buf
	x.S.LogOut = x.Buf
	x.S.NoReg = noReg
	if maxDepth > 0 {
		x.S.MaxDepth = maxDepth
	}
	x.Opts = repl.Options{ShowEval: true, NoColor: true, All: true, MaxDuration: 20 * time.Second}
	return x
}

// NewBlankSess is NewSess on eval.NewBlankState(): the session kind of an embedder that wants no extensions and
// no pre-seeded identifiers (vprobe / vpanic are not available in it).
func NewBlankSess(noReg bool, maxDepth int) *Sess {
	sessOnce.Do(sessInit)
	x := &Sess{S: eval.NewBlankState(), Buf: &bytes.Buffer{}}
	x.S.Out = x.Buf
	x.S.LogOut = x.Buf
	x.S.NoReg = noReg
	if maxDepth > 0 {
		x.S.MaxDepth = maxDepth
	}
	x.Opts = repl.Options{ShowEval: true, NoColor: true, All: true, MaxDuration: 20 * time.Second}
	return x
}

// Run submits one input; maxDur <= 0 keeps the session default.
func (x *Sess) Run(input string, maxDur time.Duration) SessObs {
	curSess = x
	x.Buf.Reset()
	x.probes = x.probes[:0]
	o := x.Opts
	if maxDur > 0 {
		o.MaxDuration = maxDur
	}
	_, panicked, errs, _ := repl.EvalOne(context.Background(), x.S, input, x.Buf, o)
	pr := "-"
	if len(x.probes) > 0 {
		pr = strings.Join(x.probes, ",")
	}
	return SessObs{
		Out: x.Buf.String(), Errs: errs, Panicked: panicked,
		NumReg: x.S.VerifNumReg(), AtRoot: x.S.VerifAtRoot(), Depth0: x.S.VerifDepth() == 0,
		OutIs: x.S.VerifOutIs(x.Buf), Probes: pr,
	}
}

// Class is the outcome class of an input: v (no error), e (error reported), p (recovered panic).
func (o SessObs) Class() string {
	switch {
	case o.Panicked:
		return "p"
	case len(o.Errs) > 0:
		return "e"
	default:
		return "v"
	}
}

func b01x(b bool) string {
	if b {
		return "1"
	}
	return "0"
}

// ModelField renders the observation in the format printed by ocaml/skelio.ml:
// <outcome>:<root numReg>:<env is root><depth is 0><out is session writer>:<probes>
func (o SessObs) ModelField() string {
	return fmt.Sprintf("%s:%d:%s%s%s:%s", o.Class(), o.NumReg, b01x(o.AtRoot), b01x(o.Depth0), b01x(o.OutIs), o.Probes)
}
