package common

// Deterministic program families around literals whose text is delicate for the printer (shared by C02 and C03):
// adjacent literals, and every operator against sign-leading operands.

import (
	"fmt"
	"strings"
)

var delicateLeaves = []string{"\"s\"", "\"tick ` tock\"", "`raw`", "`a\"b`", "\"a`+`b\"", "`c`", "\"\"", "``", "`multi\nline`", "\"q\\\"q\"", "1", "007", "0x1F", "1.5", ".5", "2.", "1e3",
	"9223372036854775807", "9223372036854775808", "-9223372036854775808", "-1", "- 1", "-1.5", "+1", "--a", "++a", "a--", "a++", "-a", "!a", "~a", "^a", "-(-a)", "-(-1)", "-(1)", "a", "_z1", "true", "nil",
	"[]", "{}", "()=>1", "f()", "a.b", "a[0]", "(a)", "(-1)", "-9223372036854775807", "-0", "-0.0", "1_000"}

// DelicatePrograms returns
//   - adjacent literals: every ordered pair of leaf forms as consecutive statements (newline, `;`, blank line), as neighbouring
//     array elements and call arguments, as the two sides of a map pair and as if / else branches - what the printer decides for
//     one literal must not depend on the token that follows or precedes it (the parser is one token ahead of the node it builds);
//   - every binary and prefix operator against every sign-leading or otherwise delicate operand, on both sides, bare and
//     parenthesised (two minus signs, a minus and a decrement, a literal whose text starts with a sign must stay apart).
func DelicatePrograms(thorough bool) []string {
	var out []string
	leaves := delicateLeaves
	for i, l1 := range leaves {
		for j, l2 := range leaves {
			if !thorough && (i*7+j)%4 != 0 && !(strings.ContainsAny(l1[:1], "\"`") && strings.ContainsAny(l2[:1], "\"`")) {
				continue
			}
			for k, tpl := range []string{"%s\n%s", "%s;%s", "x = %s\ny = %s", "[%s, %s]", "f(%s, %s)", "{%s: %s}", "if c {%s} else {%s}", "%s\n\n%s\n%s"} {
				if !thorough && k >= 3 && (i+j+k)%3 != 0 {
					continue
				}
				src := fmt.Sprintf(tpl, l1, l2)
				if k == 7 {
					src = fmt.Sprintf(tpl, l1, l2, l1)
				}
				out = append(out, src)
			}
		}
	}
	for _, l := range leaves {
		for _, op := range BinOps {
			for k, tpl := range []string{"a %s %s", "%[2]s %[1]s a", "a %s (%s)", "x = a%s%s", "f(a %s %s)", "()=>a %s %s"} {
				if !thorough && k >= 3 && (len(l)+len(op)+k)%3 != 0 {
					continue
				}
				out = append(out, fmt.Sprintf(tpl, op, l))
			}
			// the delicate operand as the LEFTMOST LEAF of a tighter right operand (a grandchild of the operator: a rule that
			// looks at the direct child only does not see it), and as the rightmost leaf of a tighter left operand
			if strings.ContainsAny(l[:1], "-+!~^") || l == "a--" || l == "a++" {
				for k, tpl := range []string{"x = a %s %s * c", "x = a %s %s / 2", "y = a %s %s %% 4", "a %s %s[0]", "a %s %s.x + 1", "a %s %s(1)", "a %s %s << 1 * c", "c * %[2]s %[1]s a", "x = a %s (%s * c)", "x = a %s %s * c %[1]s %[2]s"} {
					if !thorough && (len(l)+len(op)+k)%2 != 0 {
						continue
					}
					out = append(out, fmt.Sprintf(tpl, op, l))
				}
			}
		}
		for _, op := range PrefixOps {
			for _, tpl := range []string{"%s%s", "%s(%s)", "%s %s", "a = %s%s", "b %s%s"} {
				out = append(out, fmt.Sprintf(tpl, op, l))
			}
		}
	}
	return out
}
