package common

// Canonical textual dump of grol syntax trees, covering every exported field of every node type
// (so `x[1:]` vs `x[1:nil]`, nil children and statement counts are visible, which ast.DebugString hides).
//
//   node ::= nil | (Id T L) | (Int T L v) | (Float T L bits) | (Str T L) | (Bool T L b) | (Cmt T L p n)
//          | (Ctl T L) | (Ret T L node) | (Stmts list) | (Pre T L node) | (Post T L T' L') | (In T L node node)
//          | (For T L node node) | (If T L node node node) | (Bi T L list) | (Fn T L name list node v l)
//          | (Call T L node list) | (Arr T L list) | (Idx T L node node) | (Map T L [k v k v ...]) | (Mac T L list node)
//          | (Reg T L)            (object.Register used as a node by the register optimisation)
//   list ::= nil | [node ...]        T = token type ordinal (decimal), L = hex of literal ("-" if empty)
//   name ::= - | (T L)

import (
	"fmt"
	"math"
	"reflect"
	"strings"

	"grol.io/grol/ast"
	"grol.io/grol/token"
)

// skipComments: drop comment statements while dumping (compact mode omits them). Not goroutine safe.
var skipComments bool

// maskCommentFlags: the two layout flags of comments are not part of C02's structural identity
// (their stability is C03's subject).
var maskCommentFlags bool

// DumpNoComments dumps a tree without its comment statements (and with comment flags masked).
func DumpNoComments(n ast.Node) string {
	skipComments, maskCommentFlags = true, true
	defer func() { skipComments, maskCommentFlags = false, false }()
	return DumpAST(n)
}

// DumpNoFlags dumps a tree with the comment layout flags masked.
func DumpNoFlags(n ast.Node) string {
	maskCommentFlags = true
	defer func() { maskCommentFlags = false }()
	return DumpAST(n)
}

func tk(t *token.Token) string {
	if t == nil {
		return "-1 -"
	}
	return fmt.Sprintf("%d %s", t.Type(), Hx([]byte(t.Literal())))
}

func isNilNode(n ast.Node) bool {
	if n == nil {
		return true
	}
	v := reflect.ValueOf(n)
	return v.Kind() == reflect.Ptr && v.IsNil()
}

func DumpList(l []ast.Node, wf bool) string {
	if l == nil {
		if wf {
			return "[]"
		}
		return "nil"
	}
	parts := make([]string, len(l))
	for i, n := range l {
		parts[i] = DumpAST(n)
	}
	return "[" + strings.Join(parts, " ") + "]"
}

func b01(b bool) string {
	if b {
		return "1"
	}
	return "0"
}

func stm(s *ast.Statements) string {
	if s == nil {
		return "nil"
	}
	return DumpAST(s)
}

// DumpAST renders a node. Unknown node types are rendered as (Unknown <GoType>).
func DumpAST(n ast.Node) string {
	if isNilNode(n) {
		return "nil"
	}
	switch x := n.(type) {
	case *ast.Identifier:
		return "(Id " + tk(x.Token) + ")"
	case *ast.IntegerLiteral:
		return fmt.Sprintf("(Int %s %d)", tk(x.Token), x.Val)
	case *ast.FloatLiteral:
		return fmt.Sprintf("(Float %s %d)", tk(x.Token), math.Float64bits(x.Val))
	case *ast.StringLiteral:
		return "(Str " + tk(x.Token) + ")"
	case *ast.Boolean:
		return "(Bool " + tk(x.Token) + " " + b01(x.Val) + ")"
	case *ast.Comment:
		if maskCommentFlags {
			return "(Cmt " + tk(x.Token) + " - -)"
		}
		return "(Cmt " + tk(x.Token) + " " + b01(x.SameLineAsPrevious) + " " + b01(x.SameLineAsNext) + ")"
	case *ast.ControlExpression:
		return "(Ctl " + tk(x.Token) + ")"
	case *ast.ReturnStatement:
		return "(Ret " + tk(x.Token) + " " + DumpAST(x.ReturnValue) + ")"
	case *ast.Statements:
		if skipComments {
			var l []ast.Node
			for _, e := range x.Statements {
				if _, isC := e.(*ast.Comment); !isC {
					l = append(l, e)
				}
			}
			return "(Stmts " + DumpList(l, true) + ")"
		}
		return "(Stmts " + DumpList(x.Statements, true) + ")"
	case *ast.PrefixExpression:
		return "(Pre " + tk(x.Token) + " " + DumpAST(x.Right) + ")"
	case *ast.PostfixExpression:
		return "(Post " + tk(x.Token) + " " + tk(x.Prev) + ")"
	case *ast.InfixExpression:
		return "(In " + tk(x.Token) + " " + DumpAST(x.Left) + " " + DumpAST(x.Right) + ")"
	case *ast.ForExpression:
		return "(For " + tk(x.Token) + " " + DumpAST(x.Condition) + " " + stm(x.Body) + ")"
	case *ast.IfExpression:
		return "(If " + tk(x.Token) + " " + DumpAST(x.Condition) + " " + stm(x.Consequence) + " " + stm(x.Alternative) + ")"
	case *ast.Builtin:
		return "(Bi " + tk(x.Token) + " " + DumpList(x.Parameters, false) + ")"
	case *ast.FunctionLiteral:
		name := "-"
		if x.Name != nil {
			name = "(" + tk(x.Name.Token) + ")"
		}
		return "(Fn " + tk(x.Token) + " " + name + " " + DumpList(x.Parameters, false) + " " + stm(x.Body) + " " + b01(x.Variadic) + " " + b01(x.IsLambda) + ")"
	case *ast.CallExpression:
		return "(Call " + tk(x.Token) + " " + DumpAST(x.Function) + " " + DumpList(x.Arguments, false) + ")"
	case *ast.ArrayLiteral:
		return "(Arr " + tk(x.Token) + " " + DumpList(x.Elements, false) + ")"
	case *ast.IndexExpression:
		return "(Idx " + tk(x.Token) + " " + DumpAST(x.Left) + " " + DumpAST(x.Index) + ")"
	case *ast.MapLiteral:
		var parts []string
		for _, k := range x.Order {
			parts = append(parts, DumpAST(k), DumpAST(x.Pairs[k]))
		}
		return "(Map " + tk(x.Token) + " [" + strings.Join(parts, " ") + "])"
	case *ast.MacroLiteral:
		return "(Mac " + tk(x.Token) + " " + DumpList(x.Parameters, false) + " " + stm(x.Body) + ")"
	default:
		if t := n.Value(); t != nil && t.Type() == token.REGISTER {
			return "(Reg " + tk(t) + ")"
		}
		return fmt.Sprintf("(Unknown %T)", n)
	}
}
