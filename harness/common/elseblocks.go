package common

// ElseBlockPrograms (round 11): the shapes of an `else` block, exhaustively for up to three statements. The printer
// turns `else { if .. }` into `else if ..` exactly when the block is ONE statement and that statement is an `if`
// (in compact mode: after dropping comments); every other block keeps its braces and all of its statements.
// Statements: an if, an if with else, an if whose else is again a block of ifs, an identifier, a call, a line comment,
// a block comment; 1..3 of them, in every order; at top level, inside a function body and inside another else.
func ElseBlockPrograms(thorough bool) []string {
	stm := []string{"if b {1}", "if c {2} else {3}", "if d {4} else {if e {5}; if g {6}}", "x", "f(y)", "// lc\n", "/* bc */"}
	sep := func(s string) string {
		if len(s) > 1 && s[0] == '/' && s[1] == '/' {
			return s
		}
		return s + "\n"
	}
	var blocks []string
	n := len(stm)
	for i := 0; i < n; i++ {
		blocks = append(blocks, sep(stm[i]))
		for j := 0; j < n; j++ {
			blocks = append(blocks, sep(stm[i])+sep(stm[j]))
			for k := 0; k < n; k++ {
				if !thorough && (i+2*j+3*k)%3 != 0 && !(i < 3 && j < 3 && k < 3) {
					continue
				}
				blocks = append(blocks, sep(stm[i])+sep(stm[j])+sep(stm[k]))
			}
		}
	}
	var out []string
	for bi, b := range blocks {
		out = append(out, "if a {0} else {\n"+b+"}")
		switch bi % 3 {
		case 0:
			out = append(out, "func t(a, b) {\nif a {0} else {\n"+b+"}\n}")
		case 1:
			out = append(out, "if z {9} else {\nif a {0} else {\n"+b+"}\n}")
		default:
			out = append(out, "r = if a {0} else {\n"+b+"}\nr")
		}
	}
	return out
}
