package common

// Front-end observation shared by the C02/C03/C08/C15 harnesses: the real lexer's token stream
// (fed to the model parser until the Lexer model is linked in), the number-conversion oracle, and
// the canonical observation of the real parser + formatter.

import (
	"fmt"
	"math"
	"reflect"
	"strconv"
	"strings"

	"grol.io/grol/ast"
	"grol.io/grol/lexer"
	"grol.io/grol/parser"
	"grol.io/grol/token"
)

func newLexer(src []byte, lineMode bool) *lexer.Lexer {
	if lineMode {
		return lexer.NewLineMode(string(src))
	}
	return lexer.NewBytes(src)
}

// LexTokens returns the token field and the conversion field of a FRONT case.
func LexTokens(src []byte, lineMode bool) (string, string) {
	l := newLexer(src, lineMode)
	var toks, convs []string
	seen := map[string]bool{}
	for i := 0; i < len(src)+3; i++ {
		t := l.NextToken()
		toks = append(toks, fmt.Sprintf("%d.%s.%d.%d", t.Type(), Hx([]byte(t.Literal())), B2i(l.HadWhitespace()), B2i(l.HadNewline())))
		if t.Type() == token.INT || t.Type() == token.FLOAT {
			lit := t.Literal()
			if !seen[lit] {
				seen[lit] = true
				is, fs := "ie", "fe"
				if v, err := strconv.ParseInt(lit, 0, 64); err == nil {
					is = fmt.Sprintf("i%d", v)
				}
				if v, err := strconv.ParseFloat(lit, 64); err == nil {
					fs = fmt.Sprintf("f%d", math.Float64bits(v))
				}
				convs = append(convs, Hx([]byte(lit))+"."+is+"."+fs)
			}
		}
		if t.Type() == token.EOF || t.Type() == token.EOL {
			break
		}
	}
	c := "-"
	if len(convs) > 0 {
		c = strings.Join(convs, ",")
	}
	return strings.Join(toks, ","), c
}

func B2i(b bool) int {
	if b {
		return 1
	}
	return 0
}

// ErrKinds classifies parser error messages into the model's error kinds.
func ErrKinds(errs []string) string {
	if len(errs) == 0 {
		return "-"
	}
	var k []string
	for _, e := range errs {
		switch {
		case strings.Contains(e, "expected next token to be"):
			k = append(k, "P")
		case strings.Contains(e, "no prefix parse function"):
			k = append(k, "X")
		case strings.Contains(e, "could not parse"):
			k = append(k, "F")
		case strings.Contains(e, "lambda parameters must be identifiers"):
			k = append(k, "L")
		default:
			k = append(k, "?")
		}
	}
	return strings.Join(k, ",")
}

// PrintMode formats a program; "PANIC" if the printer panics.
func PrintMode(prog *ast.Statements, compact, allParens bool) (res string) {
	defer func() {
		if r := recover(); r != nil {
			res = "PANIC"
		}
	}()
	ps := ast.NewPrintState()
	ps.Compact = compact
	ps.AllParens = allParens
	return Hx([]byte(prog.PrettyPrint(ps).String()))
}

type FrontResult struct {
	Panic    string // non-empty: the parser panicked with this message
	Errors   []string
	Cont     bool
	Prog     *ast.Statements
	Obs      string // canonical observation line (without case id)
	Parser   *parser.Parser
	TreeDump string
}

// Front runs the real lexer+parser (+ the formatter on a clean tree) under recover().
func Front(src []byte, lineMode bool) (fr FrontResult) {
	defer func() {
		if r := recover(); r != nil {
			fr.Panic = fmt.Sprint(r)
			if strings.Contains(fr.Panic, "parseComment for line comment") {
				fr.Obs = "PANIC comment"
			} else {
				fr.Obs = "PANIC nil"
			}
		}
	}()
	p := parser.New(newLexer(src, lineMode))
	prog := p.ParseProgram()
	fr.Parser = p
	fr.Errors = p.Errors()
	fr.Cont = p.ContinuationNeeded()
	fr.Prog = prog
	head := fmt.Sprintf("E=%s K=%d", ErrKinds(fr.Errors), B2i(fr.Cont))
	if len(fr.Errors) > 0 || fr.Cont {
		fr.Obs = head
		return fr
	}
	fr.TreeDump = strings.ReplaceAll(DumpList(prog.Statements, true), " ", "")
	w := 1
	if HasNilChild(prog) {
		w = 0
	}
	if !StringsInQuoteDomain(src, lineMode) {
		// strconv.Quote on valid multi-byte UTF-8 is outside the printer model's byte universe
		fr.Obs = fmt.Sprintf("%s TREE=%s W=%d N=U C=U P=U", head, fr.TreeDump, w)
		return fr
	}
	fr.Obs = fmt.Sprintf("%s TREE=%s W=%d N=%s C=%s P=%s", head, fr.TreeDump, w,
		PrintMode(prog, false, false), PrintMode(prog, true, false), PrintMode(prog, true, true))
	return fr
}

// Convs returns the number-conversion oracle field for all INT/FLOAT literals of the given texts.
func Convs(texts ...[]byte) string {
	var convs []string
	seen := map[string]bool{}
	for _, src := range texts {
		l := lexer.NewBytes(src)
		for i := 0; i < len(src)+3; i++ {
			t := l.NextToken()
			if t.Type() == token.INT || t.Type() == token.FLOAT {
				lit := t.Literal()
				if !seen[lit] {
					seen[lit] = true
					is, fs := "ie", "fe"
					if v, err := strconv.ParseInt(lit, 0, 64); err == nil {
						is = fmt.Sprintf("i%d", v)
					}
					if v, err := strconv.ParseFloat(lit, 64); err == nil {
						fs = fmt.Sprintf("f%d", math.Float64bits(v))
					}
					convs = append(convs, Hx([]byte(lit))+"."+is+"."+fs)
				}
			}
			if t.Type() == token.EOF || t.Type() == token.EOL {
				break
			}
		}
	}
	if len(convs) == 0 {
		return "-"
	}
	return strings.Join(convs, ",")
}

// QuoteInDomain mirrors Printer.quote_in_domain: no lead byte 0xC2..0xF4 directly followed by a
// continuation byte 0x80..0xBF (so the string holds no valid multi-byte UTF-8 sequence).
func QuoteInDomain(s string) bool {
	for i := 0; i+1 < len(s); i++ {
		if s[i] >= 194 && s[i] <= 244 && s[i+1] >= 128 && s[i+1] <= 191 {
			return false
		}
	}
	return true
}

// StringsInQuoteDomain: every STRING token of the input is in the go_quote model's domain.
func StringsInQuoteDomain(src []byte, lineMode bool) bool {
	l := newLexer(src, lineMode)
	for i := 0; i < len(src)+3; i++ {
		t := l.NextToken()
		if t.Type() == token.STRING && !QuoteInDomain(t.Literal()) {
			return false
		}
		if t.Type() == token.EOF || t.Type() == token.EOL {
			break
		}
	}
	return true
}

// HasNilChild reports whether a tree contains a nil child where the AST has a child slot
// (reflection walk over every exported Node / []Node / *Statements / map field).
func HasNilChild(n ast.Node) bool {
	if isNilNode(n) {
		return true
	}
	v := reflect.ValueOf(n)
	if v.Kind() == reflect.Ptr {
		v = v.Elem()
	}
	if v.Kind() != reflect.Struct {
		return false
	}
	nodeT := reflect.TypeOf((*ast.Node)(nil)).Elem()
	switch x := n.(type) {
	case *ast.ReturnStatement:
		return x.ReturnValue != nil && HasNilChild(x.ReturnValue) // a bare return is legal
	case *ast.InfixExpression:
		if x.Right == nil { // legal only for the open range x[n:]
			return x.Token.Type() != token.COLON || HasNilChild(x.Left)
		}
	case *ast.IfExpression:
		if x.Alternative == nil {
			return HasNilChild(x.Condition) || x.Consequence == nil || HasNilChild(x.Consequence)
		}
	case *ast.FunctionLiteral:
		if x.Body == nil {
			return true
		}
		for _, p := range x.Parameters {
			if HasNilChild(p) {
				return true
			}
		}
		return HasNilChild(x.Body)
	case *ast.MapLiteral:
		for _, k := range x.Order {
			if HasNilChild(k) || HasNilChild(x.Pairs[k]) {
				return true
			}
		}
		return false
	}
	for i := 0; i < v.NumField(); i++ {
		f := v.Field(i)
		ft := v.Type().Field(i)
		if !ft.IsExported() || ft.Name == "Base" {
			continue
		}
		switch {
		case f.Type() == nodeT:
			if f.IsNil() || HasNilChild(f.Interface().(ast.Node)) {
				return true
			}
		case f.Kind() == reflect.Ptr && f.Type().Elem().Name() == "Statements":
			if f.IsNil() || HasNilChild(f.Interface().(ast.Node)) {
				return true
			}
		case f.Kind() == reflect.Slice && f.Type().Elem() == nodeT:
			for j := 0; j < f.Len(); j++ {
				e := f.Index(j)
				if e.IsNil() || HasNilChild(e.Interface().(ast.Node)) {
					return true
				}
			}
		}
	}
	return false
}
