package common

// The formatter as a user reaches it: repl.EvalAll / repl.EvalOne with FormatOnly (`grol -format`, `grol -format -compact`),
// i.e. whatever the entry point does to the text before parsing and to the printed text afterwards, not only
// ast.Node.PrettyPrint.

import (
	"bytes"

	"grol.io/grol/eval"
	"grol.io/grol/repl"
)

// EntryFormat formats src through repl.EvalAll in format-only mode. ok is false when the entry point reported errors or panicked.
func EntryFormat(src []byte, compact bool) (out []byte, ok bool) {
	defer func() {
		if r := recover(); r != nil {
			out, ok = nil, false
		}
	}()
	var b bytes.Buffer
	o := repl.Options{All: true, FormatOnly: true, NoColor: true, Compact: compact}
	errs := repl.EvalAll(eval.NewState(), bytes.NewReader(src), &b, o)
	return b.Bytes(), len(errs) == 0
}
