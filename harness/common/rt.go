package common

// Print->parse round trip on the real packages, and pattern detection used to give failures a
// narrow signature.

import (
	"fmt"

	"grol.io/grol/ast"
	"grol.io/grol/lexer"
	"grol.io/grol/parser"
	"grol.io/grol/token"
)

// ParseClean parses in file mode under recover(); ok only without errors/continuation/panic.
func ParseClean(src []byte) (prog *ast.Statements, ok bool) {
	defer func() {
		if r := recover(); r != nil {
			prog, ok = nil, false
		}
	}()
	p := parser.New(lexer.NewBytes(src))
	prog = p.ParseProgram()
	if len(p.Errors()) > 0 || p.ContinuationNeeded() {
		return prog, false
	}
	return prog, true
}

func Format(prog *ast.Statements, compact bool) (out []byte, panicked bool) {
	defer func() {
		if r := recover(); r != nil {
			out, panicked = nil, true
		}
	}()
	ps := ast.NewPrintState()
	ps.Compact = compact
	return []byte(prog.PrettyPrint(ps).String()), false
}

// RoundTrip classifies print->parse of src in one mode:
// same | differs | rejected | printpanic | notclean ; also returns the printed text.
func RoundTrip(src []byte, compact bool) (string, []byte) {
	prog, ok := ParseClean(src)
	if !ok {
		return "notclean", nil
	}
	txt, pan := Format(prog, compact)
	if pan {
		return "printpanic", nil
	}
	prog2, ok2 := ParseClean(txt)
	if !ok2 {
		return "rejected", txt
	}
	var d1, d2 string
	if compact {
		d1, d2 = DumpNoComments(prog), DumpNoFlags(prog2)
	} else {
		d1, d2 = DumpNoFlags(prog), DumpNoFlags(prog2)
	}
	if d1 == d2 {
		return "same", txt
	}
	return "differs", txt
}

// CommentTexts returns the literals of the comment tokens of src in order (file mode).
func CommentTexts(src []byte) []string {
	l := newLexer(src, false)
	var out []string
	for i := 0; i < len(src)+3; i++ {
		t := l.NextToken()
		if t.Type() == token.LINECOMMENT || t.Type() == token.BLOCKCOMMENT {
			out = append(out, t.Literal())
		}
		if t.Type() == token.EOF || t.Type() == token.EOL {
			break
		}
	}
	return out
}

// KnownPatterns lists the constructs present in a tree that are recorded known findings of the
// formatter (see known_findings.json); a round-trip failure of a program containing one of them is
// attributed to it, any other failure is reported under a generic (unlisted) signature.
func KnownPatterns(n ast.Node) []string {
	set := map[string]bool{}
	walkPatterns(n, set)
	var out []string
	for _, k := range []string{"plus-in-plus-right-operand", "statement-starts-with-prefix-operator", "number-dot-index", "comment-in-expression-position", "bare-return-followed-by-statement"} {
		if set[k] {
			out = append(out, k)
		}
	}
	return out
}

func leftmostToken(n ast.Node) token.Type {
	switch x := n.(type) {
	case *ast.InfixExpression:
		if isNilNode(x.Left) {
			return token.ILLEGAL
		}
		return leftmostToken(x.Left)
	case *ast.IndexExpression:
		if isNilNode(x.Left) {
			return token.ILLEGAL
		}
		if _, isPre := x.Left.(*ast.PrefixExpression); isPre {
			return token.LPAREN // printed parenthesised
		}
		return leftmostToken(x.Left)
	case *ast.CallExpression:
		if isNilNode(x.Function) {
			return token.ILLEGAL
		}
		if _, isPre := x.Function.(*ast.PrefixExpression); isPre {
			return token.LPAREN
		}
		return leftmostToken(x.Function)
	case *ast.PrefixExpression:
		return x.Type()
	case *ast.PostfixExpression:
		return token.IDENT
	}
	if isNilNode(n) || n.Value() == nil {
		return token.ILLEGAL
	}
	return n.Value().Type()
}

func walkPatterns(n ast.Node, set map[string]bool) {
	if isNilNode(n) {
		return
	}
	if _, isC := n.(*ast.Comment); isC {
		set["comment-in-expression-position"] = true // statement-level comments do not reach this function
		return
	}
	list := func(l []ast.Node) {
		for _, e := range l {
			walkPatterns(e, set)
		}
	}
	switch x := n.(type) {
	case *ast.Statements:
		seen := 0
		for idx, s := range x.Statements {
			if _, isC := s.(*ast.Comment); isC {
				seen++ // a comment is a prefix parse function too: the next statement can merge with it
				continue
			}
			// the recorded finding: a bare return, a LINE comment right after it (the only way the parser accepts a statement
			// after a bare return in the same block), then another statement
			if r, isRet := s.(*ast.ReturnStatement); isRet && r.ReturnValue == nil && idx+1 < len(x.Statements) {
				if cm, isC := x.Statements[idx+1].(*ast.Comment); isC && cm.Value().Type() == token.LINECOMMENT {
					for _, later := range x.Statements[idx+2:] {
						if _, isC := later.(*ast.Comment); !isC {
							set["bare-return-followed-by-statement"] = true
						}
					}
				}
			}
			if seen > 0 && !isNilNode(s) {
				switch leftmostToken(s) {
				case token.MINUS, token.PLUS, token.BITXOR, token.INCR, token.DECR:
					set["statement-starts-with-prefix-operator"] = true
				}
			}
			seen++
			walkPatterns(s, set)
		}
	case *ast.InfixExpression:
		if r, ok := x.Right.(*ast.InfixExpression); ok && x.Type() == token.PLUS && r.Type() == token.PLUS {
			set["plus-in-plus-right-operand"] = true
		}
		walkPatterns(x.Left, set)
		walkPatterns(x.Right, set)
	case *ast.IndexExpression:
		if x.Type() == token.DOT && !isNilNode(x.Left) {
			if _, isInt := x.Left.(*ast.IntegerLiteral); isInt {
				set["number-dot-index"] = true
			}
			if _, isF := x.Left.(*ast.FloatLiteral); isF {
				set["number-dot-index"] = true
			}
		}
		walkPatterns(x.Left, set)
		walkPatterns(x.Index, set)
	case *ast.PrefixExpression:
		walkPatterns(x.Right, set)
	case *ast.ReturnStatement:
		walkPatterns(x.ReturnValue, set)
	case *ast.ForExpression:
		walkPatterns(x.Condition, set)
		if x.Body != nil {
			walkPatterns(x.Body, set)
		}
	case *ast.IfExpression:
		walkPatterns(x.Condition, set)
		if x.Consequence != nil {
			walkPatterns(x.Consequence, set)
		}
		if x.Alternative != nil {
			walkPatterns(x.Alternative, set)
		}
	case *ast.Builtin:
		list(x.Parameters)
	case *ast.FunctionLiteral:
		list(x.Parameters)
		if x.Body != nil {
			walkPatterns(x.Body, set)
		}
	case *ast.MacroLiteral:
		list(x.Parameters)
		if x.Body != nil {
			walkPatterns(x.Body, set)
		}
	case *ast.CallExpression:
		walkPatterns(x.Function, set)
		list(x.Arguments)
	case *ast.ArrayLiteral:
		list(x.Elements)
	case *ast.MapLiteral:
		for _, k := range x.Order {
			walkPatterns(k, set)
			walkPatterns(x.Pairs[k], set)
		}
	}
}

// RTSig builds the signature of a round-trip failure.
func RTSig(prog *ast.Statements, mode, outcome string) string {
	if prog != nil {
		for _, p := range KnownPatterns(prog) {
			if p == "bare-return-followed-by-statement" && mode != "compact" {
				continue // that finding is about compact mode dropping the comment
			}
			return "roundtrip:" + p
		}
	}
	return fmt.Sprintf("roundtrip-unclassified:%s:%s", mode, outcome)
}
