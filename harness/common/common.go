// Harness: runs the real grol packages (built from /repo's working tree, -tags verif) on generated
// cases; writes, into -out:
//
//	cases.txt   one case per line (fed unchanged to the extracted Coq model runner)
//	impl.txt    the implementation's canonical observation line per case id
//	oracle.json direct (model-free) oracle results, input distribution, samples
package common

import (
	"encoding/hex"
	"encoding/json"
	"flag"
	"fmt"
	"os"
	"path/filepath"
	"sort"
	"strings"
)

// ---- PRNG: one xorshift64* state, every random choice derives from it ----
type Rng struct{ s uint64 }

func NewRng(seed uint64) *Rng {
	if seed == 0 {
		seed = 0x9E3779B97F4A7C15
	}
	r := &Rng{seed ^ 0xD1B54A32D192ED03}
	for i := 0; i < 4; i++ {
		r.Next()
	}
	return r
}
func (r *Rng) Next() uint64 {
	r.s ^= r.s >> 12
	r.s ^= r.s << 25
	r.s ^= r.s >> 27
	return r.s * 2685821657736338717
}
func (r *Rng) Intn(n int) int {
	if n <= 0 {
		return 0
	}
	return int(r.Next() % uint64(n))
}
func (r *Rng) Bool() bool     { return r.Next()&1 == 1 }
func (r *Rng) Pct(p int) bool { return r.Intn(100) < p }

// Pick returns one element of l.
func (r *Rng) Pick(l []string) string { return l[r.Intn(len(l))] }

// ---- run context ----
type Failure struct {
	Sig    string `json:"sig"`    // narrow signature, matched against known_findings.json
	Case   string `json:"case"`   // concrete failing input / history (replayable)
	Detail string `json:"detail"` // observed vs expected
}

type Ctx struct {
	Prop, Tier string
	Seed       uint64
	Out        string
	R          *Rng
	cases      *os.File
	impl       *os.File
	nCases     int
	Evals      int
	nontrivial map[string]bool
	Rule       string
	Samples    []string
	Dist       map[string]int
	Failures   []Failure
	Extra      map[string]any
	ReplayCase string
}

func (c *Ctx) Thorough() bool { return c.Tier == "thorough" }

// Case registers one correspondence case: `line` goes to cases.txt (prefixed by the id) and
// `obs` to impl.txt.
func (c *Ctx) Case(line, obs string) string {
	id := fmt.Sprintf("c%d", c.nCases)
	c.nCases++
	fmt.Fprintf(c.cases, "%s %s\n", id, line)
	fmt.Fprintf(c.impl, "%s %s\n", id, obs)
	if len(c.Samples) < 5 || (c.nCases%997 == 0 && len(c.Samples) < 12) {
		c.Samples = append(c.Samples, line+" => "+obs)
	}
	return id
}
func (c *Ctx) Eval()                 { c.Evals++ }
func (c *Ctx) NonTrivial(key string) { c.nontrivial[key] = true }
func (c *Ctx) Count(k string)        { c.Dist[k]++ }
func (c *Ctx) Fail(sig, cs, d string) {
	if len(c.Failures) < 2000 {
		c.Failures = append(c.Failures, Failure{sig, cs, d})
	}
}

func Hx(b []byte) string {
	if len(b) == 0 {
		return "-"
	}
	return hex.EncodeToString(b)
}
func Unhx(s string) []byte {
	if s == "-" || s == "" {
		return nil
	}
	b, err := hex.DecodeString(s)
	if err != nil {
		panic(err)
	}
	return b
}

// Main is the entry point shared by every per-property harness binary (harness/cmd/<id>).
func Main(prop string, f func(*Ctx)) {
	tier := flag.String("tier", "quick", "quick|thorough")
	seed := flag.Uint64("seed", 1, "seed")
	out := flag.String("out", "", "output directory")
	replay := flag.String("replay-case", "", "re-run a single case string through the direct oracle")
	flag.String("prop", prop, "ignored (compat)")
	flag.Parse()
	if err := os.MkdirAll(*out, 0o755); err != nil {
		panic(err)
	}
	c := &Ctx{Prop: prop, Tier: *tier, Seed: *seed, Out: *out, R: NewRng(*seed),
		nontrivial: map[string]bool{}, Dist: map[string]int{}, Extra: map[string]any{}, ReplayCase: *replay}
	var err error
	if c.cases, err = os.Create(filepath.Join(*out, "cases.txt")); err != nil {
		panic(err)
	}
	if c.impl, err = os.Create(filepath.Join(*out, "impl.txt")); err != nil {
		panic(err)
	}
	f(c)
	c.cases.Close()
	c.impl.Close()
	keys := make([]string, 0, len(c.Dist))
	for k := range c.Dist {
		keys = append(keys, k)
	}
	sort.Strings(keys)
	res := map[string]any{
		"property": c.Prop, "tier": c.Tier, "seed": c.Seed,
		"cases": c.nCases, "evaluations": c.Evals + c.nCases, "distinct_nontrivial": len(c.nontrivial),
		"rule": c.Rule, "samples": c.Samples, "dist": c.Dist, "failures": c.Failures, "extra": c.Extra,
	}
	if c.Failures == nil {
		res["failures"] = []Failure{}
	}
	b, _ := json.MarshalIndent(res, "", " ")
	if err := os.WriteFile(filepath.Join(*out, "oracle.json"), b, 0o644); err != nil {
		panic(err)
	}
	var ds []string
	for _, k := range keys {
		ds = append(ds, fmt.Sprintf("%s=%d", k, c.Dist[k]))
	}
	if len(ds) > 40 {
		ds = ds[:40]
	}
	fmt.Printf("harness %s: cases=%d evals=%d nontrivial=%d failures=%d %s\n", c.Prop, c.nCases, c.Evals+c.nCases,
		len(c.nontrivial), len(c.Failures), strings.Join(ds, " "))
}
