package common

import (
	"fmt"
	"os"
	"os/exec"
	"path/filepath"
	"runtime/debug"
)

// RepoDir is the tree the harness was built against (the replace directive of its go.mod).
func RepoDir() string {
	if bi, ok := debug.ReadBuildInfo(); ok {
		for _, d := range bi.Deps {
			if d.Path == "grol.io/grol" && d.Replace != nil && d.Replace.Path != "" {
				return d.Replace.Path
			}
		}
	}
	if v := os.Getenv("VERIF_REPO"); v != "" {
		return v
	}
	return "/repo"
}

// BuildGrol builds the production binary (no verif tag) of that tree into the run directory: the entry points of main.go
// (several file arguments, -c, -format, shebang mode) are only reachable through it.
func BuildGrol(c *Ctx, name string) (string, error) {
	outDir, err := filepath.Abs(c.Out)
	if err != nil {
		return "", err
	}
	bin := filepath.Join(outDir, name)
	cmd := exec.Command("go", "build", "-trimpath", "-o", bin, ".")
	cmd.Dir = RepoDir()
	cmd.Env = append(os.Environ(), "GOFLAGS=-mod=mod", "GOPROXY=off", "CGO_ENABLED=0")
	if out, err := cmd.CombinedOutput(); err != nil {
		return "", fmt.Errorf("go build in %s: %v: %s", cmd.Dir, err, out)
	}
	return bin, nil
}
