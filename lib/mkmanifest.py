#!/usr/bin/env python3
"""Regenerates MANIFEST.json from lib/propcfg.py (texts live there, next to the build config)."""
import json, os, sys
ROOT = os.path.dirname(os.path.dirname(os.path.abspath(__file__)))
sys.path.insert(0, os.path.join(ROOT, "lib"))
from propcfg import PROPS, PENDING
ids = [json.loads(l)["id"] for l in open(os.path.join(ROOT, "properties.jsonl"))]
checks = []
for pid in ids:
    if pid not in PROPS:
        continue
    c = PROPS[pid]
    checks.append(dict(
        property_id=pid,
        quick_cmd="./check %s --tier quick" % pid,
        thorough_cmd="./check %s --tier thorough" % pid,
        evidence_file="evidence/%s.json" % pid,
        replay_cmd_template="./check %s --replay {path}" % pid,
        engine="coq-proof+correspondence",
        level_claimed=dict(category=c.get("level", "proof"), text=c["level_text"], design_ref=c.get("design_ref", "DESIGN.md section 4, " + pid)),
        level_note=c["level_note"],
        technique=c.get("technique", "machine-checked proof in Coq 8.16.1 about an executable model; differential correspondence of the extracted model against /repo; direct oracle as failing-input search"),
    ))
man = dict(
    version=1,
    setup_cmd="./check --setup",
    hooks=dict(guard="verif", enable="go build -tags verif (the harness module replaces grol.io/grol with /repo); the two run-time table hooks of 5c56fdf additionally need -tags verif,verifdyn (only harness/cmd/gendyn is built that way, see e8bfb29)",
               baseline_off_cmd="cd /repo && GOFLAGS=-mod=mod GOPROXY=off go test -vet=off -count=1 ./...",
               source_commits=[l.split()[0] for l in open(os.path.join(ROOT, "MANIFEST.hooks")) if l.strip() and not l.startswith("#")],
               add_only=True),
    engines=[dict(name="coq-proof+correspondence", path="check", serves_properties=[c["property_id"] for c in checks],
                  kind_free_text="Coq models + theorems (coq/), Go->Coq table translator (gen/), extracted OCaml model runner (ocaml/), Go differential harness and direct oracles (harness/)")],
    checks=checks,
    notes="See DESIGN.md. Fixed defects and recorded findings: known_findings.json.",
    not_applicable=[dict(property_id=p, reason=PENDING.get(p, "check under construction at this commit: not yet registered (not a claim that the technique cannot apply)")) for p in ids if p not in PROPS],
)
json.dump(man, open(os.path.join(ROOT, "MANIFEST.json"), "w"), indent=1)
print("MANIFEST.json: %d checks, %d not claimed" % (len(checks), len(man["not_applicable"])))
