"""C20 configuration (see lib/propcfg.py for the meaning of the keys)."""
CFG = dict(
    models=[("model", "Trie")],
    proofs=[("proofs", "Trie_proofs"), ("proofs", "Trie_order")],
    extract="Extract_Trie", module="trie_model", driver="drv_C20.ml", ocaml_extra=["nathelpers.ml"],
    trusted_base=["Go: byte indexing of strings, append, string([]byte); fortio.org/terminal.Terminal{Out} as a plain writer"],
    level_text="Proved in Coq for every insertion sequence and every query (no bound on sizes): C20_membership (Contains holds exactly for the inserted non-empty words), C20_prefix_query (PrefixAll returns exactly the inserted words starting with the prefix, strictly increasing in byte order, and the reported length is that of their longest common prefix), C20_completion (the completed line extends the typed text and is a prefix of every candidate). 'In any order' is explicit: C20_order_independent and C20_membership_order_independent (two insertion sequences with the same elements - any reordering, with or without repetitions - give the same words, the same length and the same membership answers; via: a strictly sorted list is determined by its elements, the longest-common-prefix length is unique). The theorems are about coq/model/Trie.v (faithful to trie.go incl. the shared end marker and the min..max scan); the model is tied to /repo by running the extracted model and the real trie + completion callback on every insertion order of small word sets (exhaustive) and random longer words, and a Go map+sort oracle runs beside it.",
    level_note="Trusted: Coq kernel, extraction (ExtrOcamlBasic), OCaml driver, Go harness, translator; axioms: none (Print Assumptions: closed). The Go trie itself is modelled, not verified; terminal IO of the completion callback is outside the model.",
    assumptions=["the trie is only reached through Insert/Contains/Prefix/PrefixAll/All/AllBytes (children/min/max/valid unexported)",
                 "children array modelled as an association list with array-store semantics; the for-loop over min..max as a list of byte values"],
)

