"""C14 configuration."""
CFG = dict(
    disabled=True,
    models=[("gen", "Gen_Consts"), ("gen", "Gen_Token"), ("gen", "Gen_Prec"), ("gen", "Gen_ParserTables"), ("gen", "Gen_ByteClass"), ("gen", "Gen_Cmp"),
            ("model", "Ast"), ("model", "Lexer"), ("model", "Parser"), ("model", "Printer"), ("model", "AstWf"), ("model", "Frontend"),
            ("model", "Values"), ("model", "Cmp"), ("model", "Maps"), ("model", "SaveLoad")],
    proofs=[("proofs", "SaveLoad_proofs")],
    extract="Extract_SaveLoad", module="saveload_model", driver="drv_C14.ml", ocaml_extra=["zhelpers.ml", "astio.ml"],
    trusted_base=[],
    assumptions=[],
    level_text="",
    level_note="",
)
