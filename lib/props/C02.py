"""C02 configuration."""
CFG = dict(
    models=[("gen", "Gen_Consts"), ("gen", "Gen_Token"), ("gen", "Gen_Prec"), ("gen", "Gen_ParserTables"), ("gen", "Gen_ByteClass"),
            ("model", "Ast"), ("model", "Lexer"), ("model", "Parser"), ("model", "Printer"), ("model", "AstWf"), ("model", "Frontend")],
    proofs=[("proofs", "Ast_ind"), ("proofs", "Front_tables"), ("proofs", "Printer_proofs")],
    extract="Extract_Front", module="front_model", driver="drv_front.ml", ocaml_extra=["zhelpers.ml", "astio.ml"],
    trusted_base=["number conversion strconv.ParseInt/ParseFloat is an oracle argument of the parser model, supplied per case by the harness",
                  "strconv.Quote modelled on the byte universe without valid multi-byte UTF-8 sequences; Unicode strings go through the direct oracle only",
                  "structural identity of trees ignores the two layout flags of comments (C03's subject)"],
    assumptions=["tables, precedences and byte classes are regenerated from /repo on every run",
                 "round trip = parse in file mode, print (normal / compact), parse again, compare trees (comments dropped in compact mode)"],
    level_text="The full statement C02_roundtrip_holds (every accepted source, both print modes) is stated in coq/props/C02.v and REFUTED on the faithful model by computed witnesses for five recorded finding classes (C02_refuted_*), each of which replays on the implementation; 11 other defect classes found by this check were repaired by fix: commits and are regression examples proved by vm_compute (C02_fixed_cases_roundtrip). Printer totality is proved for all trees (C08). The round-trip claim for the rest of the grammar is decided per run: the operator-pair matrix (every parent form x every child form, both modes) and generated programs are classified same/differs/rejected by the implementation AND by the extracted Coq lexer+parser+printer models, which must agree case by case, and any failure outside the five listed signatures is a violation.", design_ref="DESIGN.md section 4 C02 and section 7",
    level_note="Trusted: Coq kernel, extraction, OCaml driver, Go harness, translator; no axioms. The Go lexer/parser/printer are modelled, not verified; model/implementation agreement is checked on every run on the operator matrix and generated programs.",
)
