"""C07 configuration (see lib/propcfg.py for the meaning of the keys)."""
CFG = dict(
    models=[("gen", "Gen_PanicSites"), ("model", "Arith"), ("model", "PanicSites")],
    proofs=[("proofs", "Arith_proofs"), ("proofs", "PanicSites_proofs"), ("proofs", "Arith_bits_proofs")],
    extract="Extract_Arith", module="arith_model", driver="drv_C07.ml", ocaml_extra=["zhelpers.ml"],
    trusted_base=[
        "Go semantics assumed by the primitives of coq/model/Arith.v: int64 wrap-around, truncated / and % (min/-1 wraps), shift counts >= 64 give 0 and negative counts panic, "
        "slice/index bound checks, makeslice panics iff cap < 0 or 16*cap > 2^48 (linux/amd64 heap address bits), strings.Repeat panics iff count < 0 or len*count > MaxInt; `int` is 64 bits",
        "the panic-site inventory gen/gen_panicsites.go is a syntactic over-approximation (explicit panic, / % << >> with non-constant right operand, slice and index expressions, "
        "single-value type assertions, make with computed size, strings.Repeat); nil dereferences and panics inside library calls are not inventoried, only searched by the sweep",
        "the classification coq/model/PanicSites.v (which check dominates each site) is a manual audit of the source; its classes Unreachable / FrontEnd / OtherProperty are not theorems",
        "harness: fresh eval.State per program, extensions.Init(HasLoad, HasSave, restricted IO: exec/run are not registered), stdin = /dev/null, cwd = scratch directory, "
        "debug.SetMemoryLimit(640 MiB) so that FreeMemory() stays in [2^28, 2^30] while the model is given 2^29",
    ],
    level_text="Proved in Coq, for ALL operands (no bound): the repaired integer operators + - * / % << >> & | ^ and range construction a:b never end in a Go run-time panic "
               "(C07_int_ops_never_panic: value, language error or the memory guard); range index x[l:r] hands Go's slice expression bounds with 0 <= lo <= hi <= len or returns an error "
               "(C07_slice_bounds_safe); x[i] and x[i]=v only index inside [0,len) (C07_index_safe, C07_index_assign_safe); array and string repeat never reach makeslice / strings.Repeat with a "
               "size they reject (C07_repeat_never_panics); the memory guard is sound over the mathematical integers (C07_size_guard_sound); applyExtension's validation loop guarantees arity in "
               "[MinArgs, MaxArgs] and, for every position with a declared type other than ANY, an argument of exactly that type after dereferencing and int->float promotion "
               "(C07_apply_extension_validates). Each statement is REFUTED for the code as pinned (C07_refuted_pinned_*: 1/0, 1%0, 1<<-1, \"abc\"[-5:2], [1,2]*2^62, \"abc\"*6148914691236517206, "
               "0:2^62, the wrapped guard product) and those witnesses are replayed on the real packages first. "
               "'No Go panic from ANY program' is therefore proved for these modelled operations only. For the rest of eval/ object/ ast/ parser/ lexer/ repl/ every panic-capable site "
               "(explicit panic, integer / % << >>, slice and index expressions, unchecked type assertions, make with a computed size, strings.Repeat) is inventoried from the source on every run and "
               "must be covered by the audited classification, obligation C07_panic_sites_accounted by vm_compute (a new site breaks it by name); whether an inventoried site is reachable from "
               "program text is DECIDED BY THE SWEEP, not by a theorem: type-directed programs with a wrong operand kind for every operator / builtin / control form, boundary operands, wild "
               "grammar-generated programs, byte mutations of the shipped examples and tests, and every registered extension applied to every kind of value with 0..max+1 arguments, all evaluated "
               "like repl.EvalOne under recover(); any panic other than the two guards is a failure with signature go-panic:<run-time error class>:<grol function> or ext-panic:<name>:<argument kinds>. "
               "The model is tied to /repo by the correspondence (integer operator x operand pairs incl. all boundary values, slice/index/assignment triples exhaustive for len <= 6 and bounds in "
               "[-8,8] plus int64 extremes, repeat/concat sizes, validation of random and of all registered extension signatures): model and implementation agree on every case. ADDED (theorem growth): C07_int_ops_closed - on int64 operands EVERY integer operator, the bitwise & | ^ included (which Go does not wrap), yields an int64, and a range has int64 bounds in order, so a Val of the model always denotes a value Go's int64 can hold; it rests on C07_int64_is_sign_extension (z is an int64 iff every bit from 63 on repeats bit 63), proved for all Z.",
    level_note="Trusted: Coq kernel, extraction (ExtrOcamlBasic), OCaml driver, Go harness, translator; axioms: none (Print Assumptions: closed). The evaluator as a whole is NOT modelled: "
               "closures, environments, macros, printing, extension callbacks are covered by the inventory + sweep only. Float arithmetic cannot panic in Go and is not modelled. "
               "Cmp (quote(1)==quote(2)) and the register file belong to C12 / C05 and are listed there.",
    assumptions=[
        "a memory limit below 2^48 bytes is configured (free <= max_alloc): with no GOMEMLIMIT a size that passes the guard can still make makeslice panic or the allocation fail fatally",
        "container lengths are >= 0 and indices / counts are int64 values (the theorems quantify over all Z for the operands, over len >= 0 for lengths)",
        "64-bit platform (int = int64); memory budget read once per guard call (the model's `free` is the better of the two FreeMemory() readings of MustBeOk)",
    ],
)
