"""C07 configuration (see lib/propcfg.py for the meaning of the keys)."""
CFG = dict(
    disabled=True,
    models=[("gen", "Gen_PanicSites"), ("model", "Arith"), ("model", "PanicSites")],
    proofs=[("proofs", "Arith_proofs"), ("proofs", "PanicSites_proofs")],
    extract="Extract_Arith", module="arith_model", driver="drv_C07.ml", ocaml_extra=["zhelpers.ml"],
    trusted_base=[],
    level_text="",
    level_note="",
    assumptions=[],
)
