"""C03 configuration."""
CFG = dict(
    models=[("gen", "Gen_Consts"), ("gen", "Gen_Token"), ("gen", "Gen_Prec"), ("gen", "Gen_ParserTables"), ("gen", "Gen_ByteClass"),
            ("model", "Ast"), ("model", "Lexer"), ("model", "Parser"), ("model", "Printer"), ("model", "AstWf"), ("model", "Frontend"), ("model", "TokPrint")],
    proofs=[("proofs", "Ast_ind"), ("proofs", "Front_tables"), ("proofs", "Printer_proofs"), ("proofs", "Parser_eqns"), ("proofs", "Parser_proofs"), ("proofs", "Parser_mono"), ("proofs", "Roundtrip_expr")],
    extract="Extract_Front", module="front_model", driver="drv_front.ml", ocaml_extra=["zhelpers.ml", "astio.ml"],
    trusted_base=["number conversion strconv.ParseInt/ParseFloat is an oracle argument of the parser model",
                  "strconv.Quote modelled on the byte universe without valid multi-byte UTF-8 sequences",
                  "token interning and Go map iteration order are not modelled (the model has neither): they are exercised on the implementation only"],
    assumptions=["tables, precedences and byte classes are regenerated from /repo on every run"],
    level_text="Proved without bound for the expression fragment of coq/model/TokPrint.v (C03_fragment_fixpoint: re-parsing the tokens of formatted text and formatting again emits the same tokens, both modes; corollary of C02's fragment theorem). The full statement C03_idempotent is stated and REFUTED on the faithful model by computed witnesses for the finding classes shared with C02 (the formatted text parses to a different tree); fixpoint examples incl. comments are proved by vm_compute; determinism is a theorem of the model by construction (C03_format_is_a_function) and, for what the model cannot express (interning history, map iteration order, process), checked on the implementation. Per run, f(x) and f(f(x)) in both modes are computed by the implementation and by the extracted Coq models and must agree byte for byte; f(f(x)) = f(x), repeated and fresh-process formatting and the single final newline are checked on every generated program; any failure outside the listed signatures is a violation.",
    level_note="Trusted: Coq kernel, extraction, OCaml driver, Go harness, translator; no axioms. Go code modelled, not verified.",
)
