"""C15 configuration."""
CFG = dict(
    models=[("gen", "Gen_Consts"), ("gen", "Gen_Token"), ("gen", "Gen_Prec"), ("gen", "Gen_ParserTables"), ("gen", "Gen_ByteClass"),
            ("model", "Ast"), ("model", "Lexer"), ("model", "Parser"), ("model", "Printer"), ("model", "AstWf"), ("model", "Frontend"), ("model", "TokPrint")],
    proofs=[("proofs", "Ast_ind"), ("proofs", "Front_tables"), ("proofs", "Printer_proofs")],
    extract="Extract_Front", module="front_model", driver="drv_front.ml", ocaml_extra=["zhelpers.ml", "astio.ml"],
    trusted_base=["number conversion strconv.ParseInt/ParseFloat is an oracle argument of the parser model",
                  "session evaluation (part 3 of the property) is observed on the implementation only (repl.EvalOne on one eval.State); no evaluator model is involved in this check"],
    assumptions=["tables, precedences and byte classes are regenerated from /repo on every run",
                 "'complete program' = accepted in file mode with all brackets closed; 'open prefix' = token-boundary cut with unclosed ( [ { or ending in a binary operator, or a byte cut inside a string / block comment"],
    level_text="Model-level statements in coq/props/C15.v: the mode-equivalence statement C15_linemode_same_tree is stated in full (not yet proved in general - it needs a simulation over the whole parser model) and checked by vm_compute on representative complete programs; open prefixes of every open construct ask for continuation without error (computed examples incl. the repaired `()` case). The quantified claims are decided per run: for every generated complete program the implementation must give the same tree in both modes; for EVERY token-boundary cut inside an open construct (and byte cuts inside strings/comments) line mode must ask for more input without error; every such (errors, continuation, tree) observation is compared with the extracted Coq lexer+parser models; and generated scripts fed in all 2^(n-1) splits to one session must give the same output and globals as in one go.", level="proof",
    level_note="Trusted: Coq kernel, extraction, OCaml driver, Go harness, translator; no axioms. Go code modelled, not verified.",
)
