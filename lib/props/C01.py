"""C01 configuration (see lib/propcfg.py for the meaning of the keys)."""
CFG = dict(
    models=[("model", "Ast"), ("model", "RefValues"), ("model", "RefEval")],
    proofs=[("proofs", "RefEval_proofs")],
    extract="Extract_RefEval", module="refeval_model", driver="drv_C01.ml", ocaml_extra=["zhelpers.ml", "astio.ml"],
    trusted_base=["TODO"],
    level_text="TODO",
    level_note="TODO",
    assumptions=["TODO"],
)
