"""C16 configuration (see lib/propcfg.py for the meaning of the keys)."""
CFG = dict(
    models=[("gen", "Gen_Consts"), ("gen", "Gen_Token"), ("gen", "Gen_ByteClass"), ("model", "Lexer")],
    proofs=[("proofs", "Lexer_proofs")],
    extract="Extract_Lexer", module="lexer_model", driver="drv_C16.ml", ocaml_extra=["nathelpers.ml", "zhelpers.ml"],
    trusted_base=[
        "Go: string(byte)/strings.Builder.WriteRune = UTF-8 encoding (utf8.AppendRune), strings.TrimSpace, slicing of []byte; "
        "modelled by hand (encode_rune, trim_space) and compared with the real functions on every generated case",
        "the switch of NextToken (which bytes lead to which return statement) is hand-modelled (Lexer.classify); the tables it "
        "consults (single/two character tokens, keywords, byte predicates, single-character escapes) are generated from the Go source",
    ],
    level_text="Proved in Coq for every byte string and both lexer modes (no length bound), about coq/model/Lexer.v = lexer.go after five "
               "repairs (malformed exponent, second dot, NUL byte, unterminated string in file mode; plus the \\a\\b\\f\\v escapes added for C02): "
               "C16_whitespace_is_space_tab_lf_cr (the whitespace class is part of the property: the generated isWhiteSpace is exactly {space, tab, LF, CR} on all 256 byte values), "
               "C16_tiling (lex_all = body ++ [end marker]; tokens in input order from 0, spans non-empty, pairwise disjoint, inside the input, "
               "only whitespace between them, every non-whitespace byte before the end marker covered; the end marker stands at the end of input "
               "or, line mode only, on an unterminated string = continuation), C16_tiling_file_mode (file mode: every non-whitespace byte is in "
               "exactly one token), C16_literal_is_span (identifiers, keywords, numbers, operators), C16_string_span (delimiters + body, literal = "
               "decoded body, relation str_body incl. \\x \\u \\U as UTF-8), C16_line_comment_span (// to newline/end, literal = TrimSpace(span), a prefix), "
               "C16_block_comment_span (to the first */ or the end of input), C16_illegal_span, C16_end_marker (<= |s|+1 tokens, then returned by every "
               "later call), C16_keywords_not_idents, C16_no_abnormal_token (no nil token, no slice panic), C16_intern_functional_injective (explicit "
               "interning table: same object iff same (type, literal) after any history). C16_token_stream (the unbounded sequence of NextToken results of a fresh lexer, no fuel: call k returns the k-th element of lex_all, and from the last one on every call returns the end marker - \"keeps returning it\" on the real call sequence), C16_fuel_irrelevant (any fuel above |s|-pos gives the same list), C16_flags (HadWhitespace <-> the token is separated from the previous one, HadNewline <-> a newline byte lies in that gap), C16_equal_tokens_share_object (a process lexing ANY list of inputs in any modes: two delivered tokens are the same object iff same type and literal - interning-table objects for value tokens, the Init-made object per constant type, literal of a constant type unique by the generated tables). All full, none partial. Tie: byte predicates, token tables, "
               "keywords and escapes are regenerated from the Go source; model and lexer.NextToken/Pos/HadWhitespace/HadNewline agree on every "
               "string of length <= 2 over all 256 bytes and of length <= 3 (quick) / 4 (thorough) over a 29-symbol alphabet (incl. \\v \\f) in both modes, every byte value between tokens of every kind, random "
               "longer inputs and mutated examples; a model-free oracle judging with its own fixed whitespace set {space, tab, LF, CR} (rebuild the input from gaps + token texts, per-kind literal/span relation, "
               "sticky end marker, pointer identity) runs beside it.",
    level_note="Trusted: Coq kernel, extraction (ExtrOcamlBasic), OCaml driver, Go harness, translator; axioms: none (Print Assumptions: closed). "
               "The Go lexer itself is modelled, not verified. Side conditions on the generated data (p(0)=false for every loop predicate, every "
               "byte the switch sends to a constant token has a table entry of operator type, keyword types are not IDENT, notEOL stops only at "
               "newline/NUL) are re-proved by vm_compute/reflexivity on every run.",
    assumptions=["bytes are N (no <256 bound needed by the theorems); positions are nat",
                 "the interning theorem is about an explicit table model (association list, objects numbered in allocation order), "
                 "tied to token.Intern by the pointer-identity oracle over the whole run",
                 "lexer reached through New/NewBytes/NewLineMode + NextToken only (fields unexported)"],
)
