"""C16 configuration (see lib/propcfg.py for the meaning of the keys)."""
CFG = dict(
    disabled=True,
    models=[("gen", "Gen_ByteClass"), ("model", "Lexer")],
    proofs=[],
    extract="Extract_Lexer", module="lexer_model", driver="drv_C16.ml", ocaml_extra=["nathelpers.ml", "zhelpers.ml"],
    trusted_base=[],
    level_text="under construction",
    level_note="",
    assumptions=[],
)
