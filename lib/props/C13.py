"""C13 configuration."""
CFG = dict(
    models=[("gen", "Gen_Consts"), ("model", "Ast"), ("model", "Modify"), ("model", "Macro"), ("model", "MacroSpec")],
    proofs=[("proofs", "Ast_ind"), ("proofs", "Macro_proofs")],
    extract="Extract_Macro", module="macro_model", driver="drv_C13.ml", ocaml_extra=["zhelpers.ml", "astio.ml"],
    trusted_base=["trees are produced by the REAL parser and handed to the macro model as canonical dumps (harness/common/astdump.go, ocaml/astio.ml)",
                  "evaluation inside a macro body is modelled only for the quoted-template fragment (body = quote(T), unquote arguments are identifiers); other macros are SKIPped by the driver",
                  "pointer sharing between expansions and the stored definition is not expressible over Gallina values: checked on the implementation only (repeated use of the same macro in later inputs)"],
    assumptions=["macro names are lower-case identifiers that are not extension names (Environment.Set refuses others)"],
    level_text="Proved in Coq for all trees, environments and call sites (no bound): on the models of ast.Modify (Modify.v) and of DefineMacros/ExpandMacros/quote/unquote (Macro.v), expansion of quoted-template macros IS the plain bottom-up substitution: C13_modify_is_bottom_up_rewrite (ast.Modify never gives up or panics on a well-formed tree and equals the structural rewrite), C13_template_is_substitution, C13_expansion_everywhere (every call site at any depth, incl. callee position after fix 2e49243), C13_call_site_rule (the replacement is the template with unquote(parameter) replaced by the argument TREE - arguments are not evaluated: the expansion model has no evaluator), C13_definitions_unchanged_by_uses. Macros outside the quoted-template fragment are outside the theorems and SKIPped by the model runner. Per run the extracted model is compared with eval.State.ExpandMacros on generated sessions (tree dumps), and the implementation is checked against hand-substituted programs (tree, printed form in both modes, evaluation output).", design_ref="DESIGN.md section 4 C13",
    level_note="Trusted: Coq kernel, extraction, OCaml driver, Go harness, translator; no axioms. Go code modelled, not verified.",
)
