"""C17 configuration (see lib/propcfg.py for the meaning of the keys)."""
CFG = dict(
    models=[("gen", "Gen_IOSites"), ("model", "Sanitize")],
    proofs=[("proofs", "Sanitize_proofs"), ("proofs", "Sanitize_prog_proofs"), ("proofs", "IOSites_audit")],
    extract="Extract_Sanitize", module="sanitize_model", driver="drv_C17.ml", ocaml_extra=[],
    trusted_base=[
        "Go/OS: os.Create / os.Open resolve a name without separators relative to the current directory (no symbolic link planted "
        "beforehand in the working directory); strings.TrimSuffix, ranging over []byte(string), string concatenation; "
        "os.Create that fails leaves the file system unchanged (the OS answer is an arbitrary argument `ok` of the model)",
        "IO-site inventory: syntax only (go/ast, go/build/constraint, no type checker); references to os, os/exec, os/user, io/ioutil, io/fs, "
        "net*, syscall, path/filepath, plugin, golang.org/x/sys through the file's import names, in files built for linux/amd64 without the tags "
        "verif/wasm; file access inside third-party packages (fortio.org/terminal history file, fortio.org/log) is covered by the import list only",
        "harness: content of a saved file is identified by its last `v=<k>` line, an image by the PNG signature; the OS answer for os.Create "
        "(directory exists, not a directory, name <= 255 bytes, no NUL) is computed by the harness from the scratch tree",
    ],
    level_text="Proved in Coq for every byte string as file name, every configuration (HasLoad, HasSave, LoadSaveEmptyOnly, UnrestrictedIOs), every "
               "request sequence, every initial file system and every OS answer (no bound): C17_sanitize_plain / _plain_chars (restricted IO: an accepted "
               "name is b++\".gr\" with b only letters, digits, underscores - no slash, backslash, dot, NUL, space, tilde, non-ASCII), "
               "C17_sanitize_empty_only (only \".gr\"), C17_sanitize_is_function_of_name (+ _config_irrelevance), C17_rejected_no_effect, "
               "C17_confined (every name handed to the OS is in the allowed set {plain names | \".gr\", \"grol.png\"}, no process is spawned, every "
               "file outside that set is unchanged, every new file is inside it), C17_no_exec_when_restricted (+ exec/run calls are undefined "
               "and without effect), C17_registered_spec. Adaptive programs (the next request is any function of the outcomes so far, contents returned by load included - which is how a loaded file issues its own requests; run_prog, request lists are the special case): C17_read_noninterference (two file systems that agree on the allowed names and differ arbitrarily elsewhere give every restricted program the same outcomes and the same OS calls and still agree afterwards: nothing outside the allowed set can be read), C17_adaptive_confined (the three confinement conclusions for every adaptive program), C17_request_lists_are_programs; C17_sanitize_characterisation (restricted, not empty-only: a name is accepted iff it is b or b.gr with b letters/digits/underscores, and then as b.gr) and C17_sanitize_idempotent. The theorems are about coq/model/Sanitize.v, faithful to sanitizeFileName (TrimSuffix, "
               "lexer.IsAlphaNum, the flag order), saveFunc/loadFunc/image.save and the registration conditions. Tie: (T) the translator "
               "regenerates the inventory of every file/process/network reference of /repo and the suffix constant; C17_io_inventory_audited, "
               "C17_third_party_imports_audited, C17_suffix_constant, C17_audited_sites_policy are proof obligations that break when a new IO site appears; "
               "(C) the real sanitizeFileName is compared with the extracted model on every string up to length 4 (quick) / 5 (thorough) over the "
               "property's 12-symbol alphabet with and without .gr under all four IO-flag combinations, on all 256 byte values and on random longer "
               "names, and the length-6 sweep (thorough) is compared with a Go re-statement; 16 child processes (one per configuration) give the "
               "registration table; 7 child processes run save/load/image.save/exec/run programs through repl.EvalStringWithOption inside a "
               "scratch tree with decoys, the tree is diffed after every case and compared with the model's file system. The production binary is also run under strace on script files located in the parent, a sibling and a subdirectory of the working directory (plain and -s mode, relative and absolute path) with decoy libraries next to the script. A model-free oracle "
               "states the property directly on those observations.",
    level_note="Trusted: Coq kernel, extraction (ExtrOcamlBasic), OCaml driver, Go harness, translator; axioms: none (Print Assumptions: closed "
               "under the global context for all 20 theorems). Modelled, not verified: the Go code; the kernel's path resolution (symbolic links "
               "already present in the working directory), the interactive REPL's history file and command-line files of main.go are outside "
               "the model (they are not chosen by the grol program); AutoSave's fixed temporary file .grol*.tmp -> .gr is observed by the direct "
               "oracle only (C18 owns it).",
    assumptions=[
        "restricted IO means extensions.Config.UnrestrictedIOs == false as installed by the first extensions.Init of the process (later Init calls are no-ops)",
        "a grol program reaches the file system only through registered extension functions; the IO-site inventory obligation is the check of that premise",
        "the working directory contains no symbolic link or special file named like an allowed name when the program starts",
        "file contents are abstract tokens in the model; what SaveGlobals writes is not part of C17",
    ],
)
