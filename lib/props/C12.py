"""C12 configuration (see lib/propcfg.py for the meaning of the keys)."""
CFG = dict(
    disabled=False,
    models=[("gen", "Gen_Consts"), ("gen", "Gen_Cmp"), ("model", "Values"), ("model", "Cmp")],
    proofs=[("proofs", "Cmp_proofs")],
    extract="Extract_Cmp", module="cmp_model", driver="drv_C12.ml", ocaml_extra=["zhelpers.ml", "valio.ml"],
    trusted_base=[],
    level_text="",
    level_note="",
    assumptions=[],
)
