"""C09 configuration (see lib/propcfg.py for the meaning of the keys)."""
CFG = dict(
    models=[("model", "Arith"), ("model", "Guards")],
    proofs=[("proofs", "Arith_proofs"), ("proofs", "Guards_proofs"), ("proofs", "Guards_cancel_proofs")],
    extract="Extract_Guards", module="guards_model", driver="drv_C09.ml", ocaml_extra=["zhelpers.ml"],
    trusted_base=[
        "coq/model/Guards.v abstracts the evaluator to its dynamic call tree (one node per evalInternal entry, flag = entered through State.Eval or directly, kind = stops on / absorbs an error "
        "of a child); that eval.go calls Eval / evalInternal where the model's `shape` says so is read from the source and tied by the depth correspondence, not proved",
        "context expiry is an oracle of the machine (the entry count after which Context.Err() is non-nil); Go's context / timer implementation and the scheduler are trusted",
        "child-process observations (exit status, wall time of repl.EvalStringWithOption, VmHWM from /proc) are measurements on a shared sandbox: thresholds deadline + 1.5 s, 3 x GOMEMLIMIT + 96 MiB",
        "Go semantics of the primitives of coq/model/Arith.v (see C07)",
    ],
    level_text="Proved in Coq about the guard logic, for every call tree, every cancellation instant and every fuel: State.depth always equals the number of open Eval activations and stays in "
               "[0, MaxDepth+1] (C09_depth_invariant); a run about to nest one more Eval than the limit allows takes the max-depth guard step, so descent is never unbounded whatever lies below "
               "(C09_depth_exceeded_is_guard), and on a whole run the guard fires exactly when the program needs more than MaxDepth+1 nested Eval activations (C09_guard_fires_iff_need) while a finite "
               "uncancelled run halts within 3*size+3 steps with the depth restored (C09_run_terminates); once the context is cancelled every node evaluation returns the context error at once "
               "without visiting its children (C09_cancel_is_immediate) and the number of further evaluator entries is at most one per frame of the continuation that stops on error plus the "
               "remaining children of frames that absorb errors (C09_cancel_bounded, C09_cancel_bounded_stop); the repaired memory guard is sound over the mathematical integers and every "
               "array/string repeat, range and concatenation that is built passed it with its true size (C09_size_guard_sound, C09_repeat_guard_sound, C09_string_repeat_guard_sound, "
               "C09_range_guard_sound, C09_concat_guard_sound, C09_string_concat_guard_sound) - REFUTED for the pinned arithmetic by [1,2,3]*6148914691236517206 (C09_size_guard_refuted_pinned). "
               "Tie: for recursion / mutual recursion / nested closure templates with random wrappers around the recursive call, recursion counts 0..120 and depth limits 10..400 (around the "
               "observed threshold, at 10, 400 and random) the extracted machine predicts whether the real evaluator panics with 'max depth'; huge repeat / range / concat operands in child "
               "processes under GOMEMLIMIT agree with the size model. "
               "SUPPORT, NOT PROOF (no Gallina model can exhibit wall-clock time, the Go stack, resident memory or the scheduler): child processes run repl.EvalStringWithOption with "
               "MaxDepth 10..400 (thorough ..20000), MaxDuration 1 ms..200 ms (thorough ..1 s) and GOMEMLIMIT=200MiB on non-terminating loops, unbounded / mutual / closure recursion, huge "
               "repeat / range / concat operands, growth loops, cancellation-instant sweeps and deeply nested source; exit status 0, wall <= deadline + 1.5 s and peak RSS <= 3 x limit + 96 MiB are "
               "checked, with a hard kill timeout and an address-space rlimit as backstop. The runtime part is NOT clean: six design-level findings are recorded (nesting of blocks is not counted "
               "by the depth guard -> Go stack overflow; quadratic formatted text for nested blocks / lambdas; front end outside deadline and budget; regsub quadratic and uninterruptible; "
               "error construction walking the whole stack at the default depth). ADDED (theorem growth): C09_run_terminates_any_cancellation - for EVERY cancellation instant (never, before the first entry, at any later entry), every depth limit and every finite call tree the run halts within fuel_for t steps, in the depth guard or with the outermost call returned, State.depth back to 0 and between 1 and size t evaluator entries made (the clause 'evaluation of any program returns ... all cancellation instants' was proved for uncancelled runs only); C09_cancelled_from_start - a context cancelled before the first entry costs exactly one entry and returns the context error whatever the program.",
    level_note="Trusted: Coq kernel, extraction (ExtrOcamlBasic), OCaml driver, Go harness, translator; axioms: none (Print Assumptions: closed). The theorems are about the abstract machine; "
               "that the evaluator IS such a machine (every loop re-enters evalInternal, every recursion goes through Eval) is argued from the source in notes/C09.md and checked by the "
               "correspondence and the child sweep only. Extension callbacks are Go code outside the machine.",
    assumptions=[
        "the call tree of the run (what would be evaluated without cancellation and guards) is finite for the termination theorem; the invariants hold for any fuel on any tree",
        "Context.Err() is monotone (once non-nil it stays non-nil) and is consulted exactly at evalInternal entry",
        "a memory limit below 2^48 bytes is configured; container lengths are >= 0",
        "Go-level loops that do not re-enter the evaluator (append loop of array repeat, strings.Repeat, range construction, extension callbacks) are bounded only by sizes that passed the guard",
    ],
)
