"""C08 configuration."""
CFG = dict(
    models=[("gen", "Gen_Consts"), ("gen", "Gen_Token"), ("gen", "Gen_Prec"), ("gen", "Gen_ParserTables"), ("gen", "Gen_ByteClass"),
            ("model", "Ast"), ("model", "Lexer"), ("model", "Parser"), ("model", "Printer"), ("model", "AstWf"), ("model", "Frontend")],
    proofs=[("proofs", "Ast_ind"), ("proofs", "Front_tables"), ("proofs", "Printer_proofs")],
    extract="Extract_Front", module="front_model", driver="drv_front.ml", ocaml_extra=["zhelpers.ml", "astio.ml"],
    trusted_base=["number conversion strconv.ParseInt(lit,0,64) / ParseFloat(lit,64) is an oracle argument of the parser model, supplied per case by the harness",
                  "strconv.Quote modelled on the byte universe without valid multi-byte UTF-8 sequences (cases outside it compare trees only)",
                  "parser error wording is not modelled: errors are compared by kind and order"],
    assumptions=["parser registration tables, precedences, token tables and lexer byte classes are regenerated from /repo on every run",
                 "the model parser consumes the token stream of the Lexer model (C16), including the whitespace/newline flags"],
    level_text="Coq theorems on the front-end models (Lexer.v, Parser.v, Printer.v are transliterations of lexer.go / parser.go / ast.go; tables and precedences are regenerated from /repo each run): C08_tables_known (every registered parse function is modelled), C08_printer_tokens_have_prec, C08_print_total (a tree without missing children prints in all four mode combinations without panic, for every tree, by induction). The whole-front-end claims (no panic, errors-or-continuation-or-tree, clean tree has no nil child) are decided on the implementation by the exhaustive sweep of all token sequences up to length 3 (quick) / 4 (thorough) over a 46-token alphabet in both lexer modes plus random soup, truncations and byte mutations, and the model agrees with the implementation on every one of those cases (errors by kind, continuation flag, tree dump, nil-freeness, printed bytes in three modes).",
    level_note="Trusted: Coq kernel, extraction, OCaml driver, Go harness, translator; no axioms. strconv number parsing and strconv.Quote outside the stated byte universe are oracles. The Go parser is modelled, not verified: model/implementation agreement is checked on every run over ~200k inputs.",
)
