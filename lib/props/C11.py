"""C11 configuration (see lib/propcfg.py for the meaning of the keys)."""
CFG = dict(
    disabled=False,
    models=[("gen", "Gen_Consts"), ("gen", "Gen_Cmp"), ("model", "Values"), ("model", "Cmp"), ("model", "Maps")],
    proofs=[("proofs", "Cmp_proofs"), ("proofs", "Maps_proofs")],
    extract="Extract_Maps", module="maps_model", driver="drv_C11.ml", ocaml_extra=["nathelpers.ml", "zhelpers.ml", "valio.ml"],
    trusted_base=[],
    level_text="",
    level_note="",
    assumptions=[],
)
