"""C11 configuration (see lib/propcfg.py for the meaning of the keys)."""
CFG = dict(
    models=[("gen", "Gen_Consts"), ("gen", "Gen_Cmp"), ("model", "Values"), ("model", "Cmp"), ("model", "Maps")],
    proofs=[("proofs", "Cmp_proofs"), ("proofs", "Maps_proofs")],
    extract="Extract_Maps", module="maps_model", driver="drv_C11.ml", ocaml_extra=["nathelpers.ml", "zhelpers.ml", "valio.ml"],
    trusted_base=[
        "Go: slices.BinarySearchFunc (its loop is transcribed in Maps.bs_loop), slices.Insert, copy, append on []keyValuePair as list operations; the fixed array of a SmallMap as the list of its first len pairs",
        "object_MaxSmallMap from the translator (Gen_Consts.v); the key order is the model of object.Cmp (C12, same trusted base)",
        "ocaml/valio.ml and the Inspect() text of keys/values in ocaml/drv_C11.ml (FormatInt, shortest FormatFloat 'f', strconv.Quote of plain ASCII): driver code, compared with the real Inspect on every case",
        "hook object.VerifMapPairs (build tag verif): stored pairs of a map in storage order",
    ],
    level_text="Proved in Coq for every key order that is a total preorder, instantiated with the model of object.Cmp (a total preorder by C12), for all keys, values and operation sequences (no bound): C11_invariant (Inv := keys strictly increasing /\\ a SmallMap holds at most MaxSmallMap pairs; holds for NewMapSize(n), preserved by every operation); C11_operations_refine (Get, Set, Delete, Append, First, Len, Rest, Range, map literal each equal the operation of a strictly sorted association list with one entry per key class; the stored key object of a class is the first one set); maps_are_finite_maps (lifted over arbitrary sequences of set / get / delete / m+r / l+m / first / rest / range / len / literal: after every operation the result and the whole content in iteration order equal those of the reference, for every size hint, and the run fails exactly where a range is out of bounds); C11_history_independent (two maps with the same content are indistinguishable by any continuation, whatever their representation or history); C11_insertion_order_irrelevant; binary_search_is_linear; C11_reference_is_finite_map (get-after-set, get-after-delete, equivalent keys are one key, sortedness preserved). The theorems are about coq/model/Maps.v (faithful: linear search with early exit, the binary search loop with explicit failure, promotion at the fifth key, Rest/Range demotion, Delete never demoting, Append's two paths, NewMapSize); the model is tied to /repo by exhaustive breadth-first exploration of every reachable map state (representation tag + content) over 5 (quick) / 7 (thorough) key classes of mixed types plus an alias key and an absent key, every operation from every state through the Go API and the extracted model, and by long random sequences over 32 keys; a Go reference map and the same operation through grol source (also keys() and for-iteration) run beside it.",
    level_note="Trusted: Coq kernel, extraction (ExtrOcamlBasic), OCaml driver, Go harness, translator; axioms: none (Print Assumptions: closed under the global context for all seven theorems). The Go code is modelled, not verified. One defect of the pinned tree was repaired (SmallMap.Append returned a *SmallMap when the right operand was empty) and the repaired code is what is modelled.",
    assumptions=[
        "slots of a SmallMap's array at and beyond len are never read by any method and are not modelled",
        "sharing / capacity of a BigMap's backing array (Rest and Range of a big map alias it) is C06's subject; here maps are values",
        "Range is only used with 0 <= lo <= hi <= len (evalIndexRangeExpression clamps); outside that the model says GoPanic and the harness does not go there",
        "the memory guard MustBeOk in Append's large path is not modelled (C09)",
        "the key order never panics and is a total preorder: C12's theorems (same run of the translator)",
    ],
)
