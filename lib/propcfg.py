"""Per-property configuration consumed by ./check.
models/proofs: (directory, file stem) of the Coq files the property depends on, in build order.
"""
COMMON_TB = [
    "Coq 8.16.1 kernel + coqc (full .vo build); vm_compute used for computed side conditions and witnesses; no native_compute",
    "translator /verif/gen (Go, go/ast, stdlib only) regenerating coq/gen/Gen_*.v from /repo on every run",
    "extraction: ExtrOcamlBasic only (Extract Inductive bool/option/unit/list/prod/sumbool/sumor), nat/N/Z/positive kept as Coq datatypes, no Extract Constant; OCaml 4.13.1; hand-written driver ocaml/drv_*.ml + helpers.ml",
    "Go harness /verif/harness (replace grol.io/grol => /repo, -tags verif), case generators, canonicalisation and diff in ./check",
    "modelled, not verified: the Go code itself; theorems are about coq/model/*.v, tied to /repo by the differential correspondence of this run",
]

PROPS = {}

PROPS["C20"] = dict(
    models=[("model", "Trie")],
    proofs=[("proofs", "Trie_proofs")],
    extract="Extract_Trie", module="trie_model", driver="drv_C20.ml",
    trusted_base=COMMON_TB + ["Go: byte indexing of strings, append, string([]byte); fortio.org/terminal.Terminal{Out} as a plain writer"],
    level_text="Proved in Coq for every insertion sequence and every query (no bound on sizes): C20_membership (Contains holds exactly for the inserted non-empty words), C20_prefix_query (PrefixAll returns exactly the inserted words starting with the prefix, strictly increasing in byte order, and the reported length is that of their longest common prefix), C20_completion (the completed line extends the typed text and is a prefix of every candidate). The theorems are about coq/model/Trie.v (faithful to trie.go incl. the shared end marker and the min..max scan); the model is tied to /repo by running the extracted model and the real trie + completion callback on every insertion order of small word sets (exhaustive) and random longer words, and a Go map+sort oracle runs beside it.",
    level_note="Trusted: Coq kernel, extraction (ExtrOcamlBasic), OCaml driver, Go harness, translator; axioms: none (Print Assumptions: closed). The Go trie itself is modelled, not verified; terminal IO of the completion callback is outside the model.",
    assumptions=["the trie is only reached through Insert/Contains/Prefix/PrefixAll/All/AllBytes (children/min/max/valid unexported)",
                 "children array modelled as an association list with array-store semantics; the for-loop over min..max as a list of byte values"],
)

# properties not (yet) claimed: reason shown under not_applicable in MANIFEST.json
PENDING = {}
