"""Per-property configuration consumed by ./check.
Each property has its own file lib/props/Cxx.py defining CFG = dict(...) with the keys:
  models, proofs : lists of (directory, file stem) of the Coq files the property depends on (build targets)
  extract, module, driver : coq/extract/<extract>.v produces <module>.ml; ocaml/<driver> is the OCaml driver
  ocaml_extra   : optional list of files under ocaml/ prepended to the driver after helpers.ml (e.g. "astio.ml")
  trusted_base, assumptions : lists of strings (COMMON_TB is prepended to trusted_base)
  level_text, level_note, technique : MANIFEST texts
  level         : evidence level (default "proof")
  disabled      : True while the check is under construction (not registered)
"""
COMMON_TB = [
    "Coq 8.16.1 kernel + coqc (full .vo build); vm_compute used for computed side conditions and witnesses; no native_compute",
    "translator /verif/gen (Go, go/ast, stdlib only) regenerating coq/gen/Gen_*.v from /repo on every run",
    "extraction: ExtrOcamlBasic only (Extract Inductive bool/option/unit/list/prod/sumbool/sumor), nat/N/Z/positive kept as Coq datatypes, no Extract Constant; OCaml 4.13.1; hand-written driver ocaml/drv_*.ml + helpers.ml",
    "Go harness /verif/harness (replace grol.io/grol => /repo, -tags verif), case generators, canonicalisation and diff in ./check",
    "modelled, not verified: the Go code itself; theorems are about coq/model/*.v, tied to /repo by the differential correspondence of this run",
]

PROPS = {}

import glob, importlib.util, os
_here = os.path.dirname(os.path.abspath(__file__))
for _f in sorted(glob.glob(os.path.join(_here, "props", "C*.py"))):
    _pid = os.path.basename(_f)[:-3]
    _spec = importlib.util.spec_from_file_location("propcfg_" + _pid, _f)
    _m = importlib.util.module_from_spec(_spec)
    _spec.loader.exec_module(_m)
    _c = dict(_m.CFG)
    if _c.get("disabled"):
        continue
    _c["trusted_base"] = COMMON_TB + list(_c.get("trusted_base", []))
    PROPS[_pid] = _c

# properties not (yet) claimed: reason shown under not_applicable in MANIFEST.json
PENDING = {}
