#!/bin/bash
# usage: runall.sh tier  -> runs every check, prints one line each
cd /verif
T=${1:-quick}
for i in $(seq -w 1 20); do P=C$i
  S=$(date +%s); ./check $P --tier $T > /tmp/runall-$P.out 2>&1; rc=$?
  echo "$P rc=$rc $(( $(date +%s)-S ))s $(grep -c '^VIOLATION' /tmp/runall-$P.out) viol; $(grep 'done in' /tmp/runall-$P.out | sed 's/.*done in//')"
done
