#!/usr/bin/env python3
"""Keeps a confirmed seeded change under seeded/<P>-<i>/: patch.diff, the demonstration, meta.json.
usage: lib/seedkeep.py P i "<caught-by text>" ["<strengthening done>"]"""
import json, os, shutil, sys
P, I, caught = sys.argv[1], sys.argv[2], sys.argv[3]
strength = sys.argv[4] if len(sys.argv) > 4 else ""
TAG = os.environ.get("SEEDTAG", "")
src = "/tmp/seed%s-%s-out" % (TAG, P)
KEEP = str(int(I) + 2 * (int(TAG) - 1)) if TAG else I   # second round: seeds 3 and 4
dst = os.path.join(os.path.dirname(os.path.dirname(os.path.abspath(__file__))), "seeded", "%s-%s" % (P, KEEP))
shutil.rmtree(dst, ignore_errors=True)
os.makedirs(dst)
shutil.copy(os.path.join(src, "patch%s.diff" % I), os.path.join(dst, "patch.diff"))
d = os.path.join(src, "demo%s" % I)
if os.path.isdir(d):
    shutil.copytree(d, os.path.join(dst, "demo"), ignore=shutil.ignore_patterns("go.sum"))
sh = os.path.join(src, "demo%s.sh" % I)
if os.path.exists(sh):
    shutil.copy(sh, os.path.join(dst, "demo.sh"))
meta_txt = open(os.path.join(src, "meta%s.txt" % I)).read() if os.path.exists(os.path.join(src, "meta%s.txt" % I)) else ""
meta = dict(
    property=P, seed="%s-%s" % (P, KEEP),
    author="fresh sub-agent given only the property text and a scratch worktree of /repo (nothing from /verif)",
    breaks_and_needs=meta_txt.strip()[:6000],
    confirmed_by_coordinator=["git apply patch.diff in a scratch worktree; go build ./... && go test -count=1 ./... green",
                              "demonstration exits non-zero with the patch, 0 without (lib/seedconfirm.sh)",
                              "lib/seedrun.sh %s seeded/%s-%s/patch.diff  (check run against the patched scratch tree)" % (P, P, KEEP)],
    caught_by=caught, strengthening=strength,
    base_commit=os.environ.get("SEEDBASE", ""), base_note="written against /repo at base_commit; if the patch no longer applies to HEAD: SEEDRUN_BASE=<base_commit> bash lib/seedrun.sh ...",
    demo_note="the demo's go.mod replaces grol.io/grol with a scratch worktree path (/tmp/seed%s-%s); copy /repo/go.sum next to it" % (TAG, P),
)
json.dump(meta, open(os.path.join(dst, "meta.json"), "w"), indent=1)
print("kept", dst)
