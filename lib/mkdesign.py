#!/usr/bin/env python3
"""Assembles DESIGN.md = design/head.md + section 4 (notes/Cxx.md, as built) + design/tail.md."""
import os, json
ROOT = os.path.dirname(os.path.dirname(os.path.abspath(__file__)))
ids = [json.loads(l)["id"] for l in open(os.path.join(ROOT, "properties.jsonl"))]
out = [open(os.path.join(ROOT, "design/head.md")).read().rstrip() + "\n\n"]
out.append("## 4. Per property, as built\n\n"
           "One subsection per property, written when its check was built (source: `notes/Cxx.md`). The design-time text of this "
           "section (what was planned before any code existed) is kept in `design/design_time_per_property.md`; where the two "
           "differ, this section is what the code does.\n\n")
for i in ids:
    p = os.path.join(ROOT, "notes", i + ".md")
    if os.path.exists(p):
        lines, first = [], True
        for ln in open(p).read().rstrip().split("\n"):
            if ln.startswith("#"):
                title = ln.lstrip("#").strip()
                if first:
                    ln, first = "### " + title, False
                else:
                    ln = "#### " + title
            lines.append(ln)
        out.append("\n".join(lines) + "\n\n")
    else:
        out.append("### %s — (notes not written yet)\n\n" % i)
out.append("---------------------------------------------------------------------------------------------\n\n")
def seed_table():
    rows = ["| seed | what the change does (first line of the author's note) | outcome against the check |", "|---|---|---|"]
    sd = os.path.join(ROOT, "seeded")
    missed = 0
    names = sorted(os.listdir(sd)) if os.path.isdir(sd) else []
    for n in names:
        mp = os.path.join(sd, n, "meta.json")
        if not os.path.exists(mp):
            continue
        m = json.load(open(mp))
        what = " ".join([ln.strip() for ln in m.get("breaks_and_needs", "").split("\n") if ln.strip()][:3])
        what = what.replace("|", "/")
        if len(what) > 330:
            what = what[:327] + "..."
        caught = m.get("caught_by", "").replace("|", "/")
        st = m.get("strengthening")
        if st:
            missed += 1
            caught += " **Strengthening:** " + st.replace("|", "/")
        if m.get("superseded_note"):
            caught += " **Now:** " + m["superseded_note"].replace("|", "/")
        rows.append("| `%s` | %s | %s |" % (n, what, caught))
    per_round = {}
    for n in names:
        mp = os.path.join(sd, n, "meta.json")
        if not os.path.exists(mp):
            continue
        m = json.load(open(mp))
        r = (int(n.split("-")[1]) + 1) // 2
        a = per_round.setdefault(r, [0, 0])
        a[0] += 1
        a[1] += 1 if m.get("strengthening") else 0
    rounds = "; ".join("round %d: %d changes, %d needed strengthening" % (r, a[0], a[1]) for r, a in sorted(per_round.items()))
    head = (("%d seeded changes are kept (two per property and round, every round from 20 fresh sub-agents; seeds 1-2 are round 1, "
            "3-4 round 2, and so on; round 12, seeds 23-24, was run for ten properties - C01 C02 C03 C04 C06 C10 C13 C14 C15 C20: " + rounds.replace("%", "%%") + "; later rounds asked for subtler changes, away from the anchored functions: other "
            "entry points, interactions of two features, state surviving between inputs, error paths, conversions; each confirmed by `lib/seedconfirm.sh`: the "
            "repository builds and its tests pass with the patch, the author's demonstration fails with it and passes without it). "
            "%d of them were NOT caught by the first version of the check they target (the check exited 0, or died without a "
            "failing input); in every such case the generator / oracle of that check was strengthened - never loosened - until the "
            "change is reported with a failing input, and the unchanged tree still exits 0. `lib/seedrun.sh Cxx seeded/<id>/patch.diff` "
            "re-runs one against a scratch copy of /repo.\n\n") % (len(rows) - 2, missed))
    return head + "\n".join(rows) + "\n"

out.append(open(os.path.join(ROOT, "design/tail.md")).read().replace("SEEDED_TABLE_PLACEHOLDER", seed_table()))
def findings_appendix():
    kf = json.load(open(os.path.join(ROOT, "known_findings.json")))
    rows = ["\n## Appendix C. Recorded findings and repaired defects (generated from `known_findings.json`)\n",
            "Genuine defects of grol that are RECORDED rather than repaired (the check prints `KNOWN-FINDING: property=<id> ...` for each "
            "and exits 0; a failure whose signature is not listed is a violation). The per-property subsections of section 4 discuss them; "
            "this table is the complete list, by signature.\n",
            "| property | signature | what fails | witness |", "|---|---|---|---|"]
    for f in kf.get("findings", []):
        rows.append("| %s | `%s` | %s | %s |" % (f.get("property", ""), f.get("sig", ""), str(f.get("what", "")).replace("|", "/").replace("\n", " "),
                                               ("`" + str(f.get("witness", "")).replace("|", "/").replace("\n", " ").replace("`", "'")[:300] + "`") if f.get("witness") else ""))
    rows.append("\nDefects REPAIRED in `/repo` by a `fix:` commit (a fixed entry suppresses nothing: the check passes on the repaired tree and "
                "reports the violation again if it returns):\n")
    rows += ["| property | commit | what failed |", "|---|---|---|"]
    for f in kf.get("fixed", []):
        rows.append("| %s | `%s` | %s |" % (f.get("property", ""), f.get("commit", ""), str(f.get("what", "")).replace("|", "/").replace("\n", " ")))
    return "\n".join(rows) + "\n"

out.append(findings_appendix())
open(os.path.join(ROOT, "DESIGN.md"), "w").write("".join(out))
print("DESIGN.md assembled")
