#!/usr/bin/env python3
"""Assembles DESIGN.md = design/head.md + section 4 (notes/Cxx.md, as built) + design/tail.md."""
import os, json
ROOT = os.path.dirname(os.path.dirname(os.path.abspath(__file__)))
ids = [json.loads(l)["id"] for l in open(os.path.join(ROOT, "properties.jsonl"))]
out = [open(os.path.join(ROOT, "design/head.md")).read().rstrip() + "\n\n"]
out.append("## 4. Per property, as built\n\n"
           "One subsection per property, written when its check was built (source: `notes/Cxx.md`). The design-time text of this "
           "section (what was planned before any code existed) is kept in `design/design_time_per_property.md`; where the two "
           "differ, this section is what the code does.\n\n")
for i in ids:
    p = os.path.join(ROOT, "notes", i + ".md")
    if os.path.exists(p):
        lines, first = [], True
        for ln in open(p).read().rstrip().split("\n"):
            if ln.startswith("#"):
                title = ln.lstrip("#").strip()
                if first:
                    ln, first = "### " + title, False
                else:
                    ln = "#### " + title
            lines.append(ln)
        out.append("\n".join(lines) + "\n\n")
    else:
        out.append("### %s — (notes not written yet)\n\n" % i)
out.append("---------------------------------------------------------------------------------------------\n\n")
out.append(open(os.path.join(ROOT, "design/tail.md")).read())
open(os.path.join(ROOT, "DESIGN.md"), "w").write("".join(out))
print("DESIGN.md assembled")
