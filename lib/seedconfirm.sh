#!/bin/bash
# Confirms a seeded change: applies /tmp/seed-<P>-out/patch<i>.diff in the scratch worktree /tmp/seed-<P>, checks that the repo builds
# and its tests pass, that the demo fails with the patch and passes without it.   usage: lib/seedconfirm.sh P i
P=$1; I=$2; TAG=${SEEDTAG:-}; WT=/tmp/seed$TAG-$P; OUT=/tmp/seed$TAG-$P-out
export GOFLAGS=-mod=mod GOPROXY=off
cd $WT && git checkout -q -- . && git apply $OUT/patch$I.diff || { echo "APPLY-FAILED"; exit 2; }
T=$( (go build ./... && go test -count=1 ./... ) 2>&1 | grep -c "^FAIL\|cannot\|error" )
rundemo() { if [ -f $OUT/demo$I.sh ]; then (GROL_DIR=$WT timeout 600 bash $OUT/demo$I.sh $WT >/tmp/seeddemo.out 2>&1; echo $?); elif [ -d $OUT/demo$I ]; then (cd $OUT/demo$I && timeout 600 go run . >/tmp/seeddemo.out 2>&1; echo $?); else echo nodemo; fi; }
D1=$(rundemo)
git checkout -q -- .
D0=$(rundemo)
echo "$P patch$I: tests_fail_lines=$T demo_with_patch_exit=$D1 demo_without_patch_exit=$D0"
