#!/bin/bash
# Re-runs every kept seeded change against the current checks and the current /repo HEAD.
# usage: lib/seedall.sh [jobs]     -> one line per seed in /tmp/seedall.out: <seed> <outcome>
#   caught-with-input | caught-no-input | MISSED | stale (patch no longer applies to HEAD)
J=${1:-4}
cd /verif
one() {
  d=$1; id=$(basename $d); P=${id%-*}
  WT=/tmp/seedall-wt-$id
  git -C /repo worktree add -q --detach $WT HEAD 2>/dev/null || { echo "$id worktree-failed"; return; }
  if ! git -C $WT apply --check /verif/$d/patch.diff 2>/dev/null && ! git -C $WT apply --3way --check /verif/$d/patch.diff 2>/dev/null; then echo "$id stale"; git -C /repo worktree remove --force $WT; return; fi
  git -C /repo worktree remove --force $WT
  out=$(bash lib/seedrun.sh $P $d/patch.diff quick 2>&1)
  if echo "$out" | grep -q "^VIOLATION.*no-failing-input-found"; then echo "$id caught-no-input"
  elif echo "$out" | grep -q "^VIOLATION"; then echo "$id caught-with-input $(echo "$out" | grep -o "'sig': '[^']*'" | head -1)"
  elif echo "$out" | grep -q "exit=0"; then echo "$id MISSED"
  else echo "$id unclear: $(echo "$out" | tail -2 | tr '\n' ' ' | cut -c1-200)"; fi
}
export -f one
ls -d seeded/C*-* | sort | xargs -P $J -I{} bash -c 'one {}' > /tmp/seedall.out 2>&1
sort /tmp/seedall.out
