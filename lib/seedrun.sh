#!/bin/bash
# Runs one check against a scratch copy of /repo with a seeded patch applied, from a scratch copy of /verif
# (so that neither /repo nor /verif's generated files are disturbed).   usage: lib/seedrun.sh Cxx patch.diff [tier]
set -u
PID=$1; PATCH=$(readlink -f "$2"); TIER=${3:-quick}
WT=/tmp/seedwt-$PID-$$; VC=/tmp/verifcopy-$PID-$$
git -C /repo worktree add -q --detach "$WT" "${SEEDRUN_BASE:-HEAD}" || exit 2
if ! git -C "$WT" apply "$PATCH" 2>/dev/null && ! git -C "$WT" apply --3way "$PATCH"; then echo "PATCH DOES NOT APPLY"; git -C /repo worktree remove --force "$WT"; exit 2; fi
mkdir -p "$VC" && rsync -a --exclude run --exclude .git --exclude 'ocaml/build' /verif/ "$VC"/
( cd "$VC" && VERIF_REPO="$WT" timeout 3000 ./check "$PID" --tier "$TIER" > "$VC/out.txt" 2>&1; echo "exit=$?" >> "$VC/out.txt" )
grep -E "^VIOLATION|^KNOWN-FINDING|done in|exit=" "$VC/out.txt" | cut -c1-300
REPLAY=$(grep -oE "replay=[^ ]+" "$VC/out.txt" | head -1 | cut -d= -f2)
if [ -n "$REPLAY" ] && [ -f "$VC/$REPLAY" ]; then python3 -c "
import json,sys
o=json.load(open('$VC/$REPLAY'))
print('replay:', {k:(str(v)[:300]) for k,v in o.items() if k in ('kind','sig','case','detail','name')})"; fi
git -C /repo worktree remove --force "$WT"; if [ -n "${SEEDRUN_KEEP:-}" ]; then mkdir -p "$SEEDRUN_KEEP"; cp "$VC/out.txt" "$SEEDRUN_KEEP/$PID.out.txt"; fi; rm -rf "$VC"
