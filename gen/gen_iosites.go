// Translator piece for C17: the inventory of every reference to a file / process / network package
// in the Go files of /repo that are part of a normal (non-test, tags verif and wasm off) build.
//
// Output coq/gen/Gen_IOSites.v:
//
//	grol_file_extension : list N            bytes of extensions.GrolFileExtension
//	repl_autosave_file  : list N            bytes of repl.AutoSaveFile (resolved through the constant it names)
//	io_sites            : list (string * string * string * string)
//	     (package directory, enclosing function, "<import path>.<Name>", use)
//	     use = "ref"                       the name is mentioned without being called (os.Stdin, *exec.Cmd, ...)
//	         | "call(<a1>,<a2>,...)"       a call; every argument is classified
//	              lit:<s>                  string literal
//	              const:<pkg>.<N>=<s>      named string constant and its value
//	              sanitized                a variable whose only assignment in the function is `v, err := sanitizeFileName(...)`
//	              other:<source text>      anything else
//	third_party_imports : list (string * string)   (package directory, import path) for imports outside the
//	                                                standard library and outside grol.io/grol
//
// Only syntax is read (go/ast); a package is recognised through the import name of the file.
// A dot-import or blank import of a watched package is reported as an entry of its own.
package main

import (
	"bytes"
	"fmt"
	"go/ast"
	"go/build/constraint"
	"go/parser"
	"go/printer"
	"go/token"
	"io/fs"
	"path/filepath"
	"sort"
	"strconv"
	"strings"
)

func init() { extraGens = append(extraGens, genIOSites) }

func ioWatched(path string) bool {
	switch path {
	case "os", "os/exec", "os/user", "io/ioutil", "io/fs", "syscall", "path/filepath", "plugin", "net":
		return true
	}
	return strings.HasPrefix(path, "net/") || strings.HasPrefix(path, "golang.org/x/sys")
}

type ioFile struct {
	dir  string // package directory relative to the repo ("main" for the root)
	name string
	f    *ast.File
}

var ioKnownOS = map[string]bool{"aix": true, "android": true, "darwin": true, "dragonfly": true, "freebsd": true, "illumos": true,
	"ios": true, "js": true, "netbsd": true, "openbsd": true, "plan9": true, "solaris": true, "wasip1": true, "windows": true, "linux": true}
var ioKnownArch = map[string]bool{"386": true, "amd64": true, "arm": true, "arm64": true, "loong64": true, "mips": true, "mips64": true,
	"mips64le": true, "mipsle": true, "ppc64": true, "ppc64le": true, "riscv64": true, "s390x": true, "wasm": true}

// the configuration a normal grol binary is built with: linux/amd64, no extra tags
func ioTag(t string) bool {
	switch t {
	case "linux", "amd64", "unix", "gc":
		return true
	}
	return strings.HasPrefix(t, "go1.")
}

func ioFileIncluded(name string, f *ast.File) (bool, string) {
	stem := strings.TrimSuffix(name, ".go")
	parts := strings.Split(stem, "_")
	if n := len(parts); n >= 2 {
		last := parts[n-1]
		if (ioKnownOS[last] && last != "linux") || (ioKnownArch[last] && last != "amd64") {
			return false, "file name suffix _" + last
		}
	}
	for _, cg := range f.Comments {
		if cg.Pos() >= f.Package {
			break
		}
		for _, c := range cg.List {
			if constraint.IsGoBuild(c.Text) {
				e, err := constraint.Parse(c.Text)
				if err != nil {
					fatal("iosites: bad build constraint in %s: %v", name, err)
				}
				if !e.Eval(ioTag) {
					return false, c.Text
				}
			}
		}
	}
	return true, ""
}

func coqStr(s string) string {
	var b strings.Builder
	b.WriteByte('"')
	for i := 0; i < len(s); i++ {
		c := s[i]
		switch {
		case c == '"':
			b.WriteString("\"\"")
		case c == '\n' || c == '\t':
			b.WriteByte(' ')
		case c < 32 || c > 126:
			b.WriteByte('?')
		default:
			b.WriteByte(c)
		}
	}
	b.WriteByte('"')
	return b.String()
}

func genIOSites() {
	fset := token.NewFileSet()
	var files []ioFile
	var excluded []string
	err := filepath.WalkDir(repo, func(p string, d fs.DirEntry, err error) error {
		if err != nil {
			return err
		}
		base := d.Name()
		if d.IsDir() {
			if p != repo && (strings.HasPrefix(base, ".") || strings.HasPrefix(base, "_") || base == "testdata" || base == "vendor") {
				return filepath.SkipDir
			}
			return nil
		}
		if !strings.HasSuffix(base, ".go") || strings.HasSuffix(base, "_test.go") {
			return nil
		}
		f, err := parser.ParseFile(fset, p, nil, parser.ParseComments)
		if err != nil {
			fatal("iosites: parse %s: %v", p, err)
		}
		rel, _ := filepath.Rel(repo, filepath.Dir(p))
		if rel == "." {
			rel = "main"
		}
		if ok, why := ioFileIncluded(base, f); !ok {
			// files that need the tag verif are the verification hooks (MANIFEST.hooks); not listed, so that a new hook
			// does not change the generated file
			if why != "//go:build verif" {
				excluded = append(excluded, fmt.Sprintf("%s/%s  (%s)", rel, base, why))
			}
			return nil
		}
		files = append(files, ioFile{rel, base, f})
		return nil
	})
	if err != nil {
		fatal("iosites: walk: %v", err)
	}
	sort.SliceStable(files, func(i, j int) bool {
		if files[i].dir != files[j].dir {
			return files[i].dir < files[j].dir
		}
		return files[i].name < files[j].name
	})

	// ---- string constants "<package clause name>.<Name>" -> value (resolved through other constants)
	type pending struct {
		key  string
		file *ast.File
		e    ast.Expr
	}
	strConsts := map[string]string{}
	var todo []pending
	for _, fl := range files {
		for _, d := range fl.f.Decls {
			gd, ok := d.(*ast.GenDecl)
			if !ok || gd.Tok != token.CONST {
				continue
			}
			for _, s := range gd.Specs {
				vs := s.(*ast.ValueSpec)
				for j, id := range vs.Names {
					if j < len(vs.Values) {
						todo = append(todo, pending{fl.f.Name.Name + "." + id.Name, fl.f, vs.Values[j]})
					}
				}
			}
		}
	}
	importName := func(f *ast.File, local string) (string, bool) { // local name -> import path
		for _, im := range f.Imports {
			path, _ := strconv.Unquote(im.Path.Value)
			name := path[strings.LastIndex(path, "/")+1:]
			if im.Name != nil {
				name = im.Name.Name
			}
			if name == local {
				return path, true
			}
		}
		return "", false
	}
	resolveStr := func(f *ast.File, e ast.Expr) (string, string, bool) { // (const key or "", value, ok)
		switch x := e.(type) {
		case *ast.BasicLit:
			if x.Kind == token.STRING {
				s, err := strconv.Unquote(x.Value)
				return "", s, err == nil
			}
		case *ast.Ident:
			if x.Obj != nil && x.Obj.Kind != ast.Con {
				return "", "", false
			}
			k := f.Name.Name + "." + x.Name
			v, ok := strConsts[k]
			return k, v, ok
		case *ast.SelectorExpr:
			if id, ok := x.X.(*ast.Ident); ok && id.Obj == nil {
				if path, ok := importName(f, id.Name); ok {
					k := path[strings.LastIndex(path, "/")+1:] + "." + x.Sel.Name
					v, ok := strConsts[k]
					return k, v, ok
				}
			}
		}
		return "", "", false
	}
	for pass := 0; pass < 4; pass++ {
		for _, p := range todo {
			if _, v, ok := resolveStr(p.file, p.e); ok {
				strConsts[p.key] = v
			}
		}
	}
	ext, ok := strConsts["extensions.GrolFileExtension"]
	if !ok {
		fatal("iosites: extensions.GrolFileExtension not found")
	}
	auto, ok := strConsts["repl.AutoSaveFile"]
	if !ok {
		fatal("iosites: repl.AutoSaveFile not found")
	}

	// ---- the inventory
	var sites, third, mentions []string
	seenThird := map[string]bool{}
	src := func(e ast.Expr) string {
		var b bytes.Buffer
		_ = printer.Fprint(&b, fset, e)
		return strings.Join(strings.Fields(b.String()), " ")
	}
	for _, fl := range files {
		f := fl.f
		watched := map[string]string{} // local name -> import path
		for _, im := range f.Imports {
			path, _ := strconv.Unquote(im.Path.Value)
			first := strings.SplitN(path, "/", 2)[0]
			if strings.Contains(first, ".") && !strings.HasPrefix(path, "grol.io/grol") {
				k := fl.dir + "\x00" + path
				if !seenThird[k] {
					seenThird[k] = true
					third = append(third, fmt.Sprintf("(%s, %s)", coqStr(fl.dir), coqStr(path)))
				}
			}
			if !ioWatched(path) {
				continue
			}
			name := path[strings.LastIndex(path, "/")+1:]
			if im.Name != nil {
				name = im.Name.Name
			}
			if name == "." || name == "_" {
				sites = append(sites, fmt.Sprintf("(%s, %s, %s, %s)", coqStr(fl.dir), coqStr("<import>"), coqStr(path+"."+name), coqStr("dot-or-blank-import")))
				continue
			}
			watched[name] = path
		}
		if len(watched) == 0 {
			continue
		}
		var stack []ast.Node
		// singleDef: the one and only definition of the local variable `name` inside fn.  It must be a declaration
		// (`:=` or var) in fn itself; any other assignment, ++/--, &name, range variable, a parameter or named result
		// of that name, or a second declaration (shadowing) makes the answer "unknown".  idx = -1: name is bound to
		// rhs itself; idx >= 0: name is the idx-th result of the call rhs.
		singleDef := func(fn ast.Node, name string) (rhs ast.Expr, idx int, ok bool) {
			if fn == nil {
				return nil, 0, false
			}
			var ft *ast.FuncType
			switch x := fn.(type) {
			case *ast.FuncDecl:
				ft = x.Type
			case *ast.FuncLit:
				ft = x.Type
			}
			// decls: declarations without a value in fn (`var x T`, a named result): the variable starts as the zero
			// value and then stands for its single later assignment (`x, err = f()` in any statement shape)
			assigns, decls, plain, bad := 0, 0, 0, false
			if ft != nil {
				for k, fl := range []*ast.FieldList{ft.Params, ft.Results} {
					if fl == nil {
						continue
					}
					for _, fld := range fl.List {
						for _, id := range fld.Names {
							if id.Name == name {
								if k == 0 {
									bad = true // a parameter: its value comes from the caller
								} else {
									decls++
								}
							}
						}
					}
				}
			}
			ast.Inspect(fn, func(n ast.Node) bool {
				switch x := n.(type) {
				case *ast.AssignStmt:
					for i, l := range x.Lhs {
						if id, isId := l.(*ast.Ident); isId && id.Name == name {
							assigns++
							if x.Tok == token.ASSIGN {
								plain++
							}
							switch {
							case x.Tok != token.DEFINE && x.Tok != token.ASSIGN:
								bad = true // += and the like
							case len(x.Rhs) == len(x.Lhs):
								rhs, idx = x.Rhs[i], -1
							case len(x.Rhs) == 1:
								rhs, idx = x.Rhs[0], i
							default:
								bad = true
							}
						}
					}
				case *ast.IncDecStmt:
					if id, isId := x.X.(*ast.Ident); isId && id.Name == name {
						bad = true
					}
				case *ast.UnaryExpr:
					if id, isId := x.X.(*ast.Ident); isId && x.Op == token.AND && id.Name == name {
						bad = true
					}
				case *ast.ValueSpec:
					for i, id := range x.Names {
						if id.Name == name {
							if len(x.Values) == 0 {
								decls++
								continue
							}
							assigns++
							switch {
							case len(x.Values) == len(x.Names):
								rhs, idx = x.Values[i], -1
							case len(x.Values) == 1:
								rhs, idx = x.Values[0], i
							default:
								bad = true
							}
						}
					}
				case *ast.RangeStmt:
					for _, e := range []ast.Expr{x.Key, x.Value} {
						if id, isId := e.(*ast.Ident); isId && id.Name == name {
							bad = true
						}
					}
				}
				return true
			})
			// either one `:=` / `var x = e` and nothing else, or one value-less declaration in fn followed by one `=`
			// (a `=` without a declaration in fn assigns a variable of an enclosing scope: unknown)
			if bad || assigns != 1 || rhs == nil || decls > 1 || (plain == 1) != (decls == 1) {
				return nil, 0, false
			}
			return rhs, idx, true
		}
		// "<import path>.<Name>" when e is a reference to a watched package, else ""
		watchedSel := func(e ast.Expr) string {
			if sel, isSel := e.(*ast.SelectorExpr); isSel {
				if id, isId := sel.X.(*ast.Ident); isId && id.Obj == nil {
					if path, w := watched[id.Name]; w {
						return path + "." + sel.Sel.Name
					}
				}
			}
			return ""
		}
		// Arguments are described by where their value comes from, not by how the local variables are called:
		// a local variable with a single definition stands for that definition (hoisting / renaming do not matter).
		var classifyD func(fn ast.Node, e ast.Expr, depth int) string
		classifyArgs := func(fn ast.Node, args []ast.Expr, depth int) string {
			var as []string
			for _, a := range args {
				as = append(as, classifyD(fn, a, depth))
			}
			return strings.Join(as, ",")
		}
		classifyD = func(fn ast.Node, e ast.Expr, depth int) string {
			if k, v, ok := resolveStr(f, e); ok {
				if k == "" {
					return "lit:" + v
				}
				return "const:" + k + "=" + v
			}
			if depth > 6 {
				return "other:" + src(e)
			}
			if pe, isP := e.(*ast.ParenExpr); isP {
				return classifyD(fn, pe.X, depth+1)
			}
			if id, isId := e.(*ast.Ident); isId {
				rhs, idx, ok := singleDef(fn, id.Name)
				if !ok {
					return "other:" + src(e)
				}
				if idx < 0 {
					return classifyD(fn, rhs, depth+1)
				}
				if ce, isCall := rhs.(*ast.CallExpr); isCall {
					if fid, isF := ce.Fun.(*ast.Ident); isF && fid.Name == "sanitizeFileName" && idx == 0 {
						return "sanitized"
					}
					if w := watchedSel(ce.Fun); w != "" {
						return fmt.Sprintf("result%d:%s(%s)", idx, w, classifyArgs(fn, ce.Args, depth+1))
					}
				}
				return "other:" + src(e)
			}
			// X.Name() of a local *os.File: described by the call that produced the file
			if ce, isCall := e.(*ast.CallExpr); isCall && len(ce.Args) == 0 {
				if sel, isSel := ce.Fun.(*ast.SelectorExpr); isSel && sel.Sel.Name == "Name" {
					if id, isId := sel.X.(*ast.Ident); isId {
						if rhs, idx, ok := singleDef(fn, id.Name); ok && idx == 0 {
							if oc, isC := rhs.(*ast.CallExpr); isC {
								if w := watchedSel(oc.Fun); w != "" {
									return fmt.Sprintf("nameof:%s(%s)", w, classifyArgs(fn, oc.Args, depth+1))
								}
							}
						}
					}
				}
			}
			return "other:" + src(e)
		}
		classify := func(fn ast.Node, e ast.Expr) string { return classifyD(fn, e, 0) }
		ast.Inspect(f, func(n ast.Node) bool {
			if n == nil {
				stack = stack[:len(stack)-1]
				return true
			}
			stack = append(stack, n)
			sel, ok := n.(*ast.SelectorExpr)
			if !ok {
				return true
			}
			id, ok := sel.X.(*ast.Ident)
			if !ok || id.Obj != nil {
				return true
			}
			path, ok := watched[id.Name]
			if !ok {
				return true
			}
			// enclosing function
			fname, lit := "<package level>", false
			var fnNode ast.Node
			for i := len(stack) - 1; i >= 0; i-- {
				switch x := stack[i].(type) {
				case *ast.FuncLit:
					lit = true
					if fnNode == nil {
						fnNode = x
					}
				case *ast.FuncDecl:
					fname = x.Name.Name
					if x.Recv != nil && len(x.Recv.List) > 0 {
						fname = src(x.Recv.List[0].Type) + "." + fname
					}
					if fnNode == nil {
						fnNode = x
					}
					i = -1
				}
			}
			if lit {
				fname += "/lit"
			}
			use := "ref"
			// `*pkg.T` as the declared type of a variable, parameter, result or field, or in a type assertion, is only
			// a mention: the variable starts nil and a non-nil value can only come from a call, a composite literal,
			// new() or a value-typed declaration - which all remain entries of the inventory.
			if len(stack) >= 3 {
				if st, isStar := stack[len(stack)-2].(*ast.StarExpr); isStar {
					switch par := stack[len(stack)-3].(type) {
					case *ast.ValueSpec:
						if par.Type == ast.Expr(st) {
							use = "ptrtype"
						}
					case *ast.Field:
						if par.Type == ast.Expr(st) {
							use = "ptrtype"
						}
					case *ast.TypeAssertExpr:
						if par.Type == ast.Expr(st) {
							use = "ptrtype"
						}
					}
				}
			}
			if use == "ptrtype" {
				mentions = append(mentions, fmt.Sprintf("(%s, %s, %s, %s)", coqStr(fl.dir), coqStr(fname), coqStr(path+"."+sel.Sel.Name), coqStr(use)))
				return true
			}
			if len(stack) >= 2 {
				if ce, ok := stack[len(stack)-2].(*ast.CallExpr); ok && ce.Fun == ast.Expr(sel) {
					var as []string
					for _, a := range ce.Args {
						as = append(as, classify(fnNode, a))
					}
					use = "call(" + strings.Join(as, ",") + ")"
				}
			}
			sites = append(sites, fmt.Sprintf("(%s, %s, %s, %s)", coqStr(fl.dir), coqStr(fname), coqStr(path+"."+sel.Sel.Name), coqStr(use)))
			return true
		})
	}
	if len(sites) == 0 {
		fatal("iosites: no IO site found at all (translator broken?)")
	}
	sort.Strings(third)
	sort.Strings(mentions)
	sort.Strings(sites) // a multiset: moving code around inside /repo does not change the inventory

	var b strings.Builder
	b.WriteString("(* C17: inventory of references to file / process / network packages (see gen/gen_iosites.go for the format). *)\n")
	b.WriteString("(* files left out because they are not part of a linux/amd64 build without the tags verif and wasm\n   (besides the //go:build verif hook files):\n")
	for _, e := range excluded {
		b.WriteString("     " + strings.ReplaceAll(e, "*)", "* )") + "\n")
	}
	b.WriteString("*)\n")
	b.WriteString("Local Open Scope string_scope.\n\n")
	fmt.Fprintf(&b, "(* extensions.GrolFileExtension = %q *)\nDefinition grol_file_extension : list N := %s.\n", ext, bytesLit(ext))
	fmt.Fprintf(&b, "(* repl.AutoSaveFile = %q *)\nDefinition repl_autosave_file : list N := %s.\n\n", auto, bytesLit(auto))
	fmt.Fprintf(&b, "Definition io_sites : list (string * string * string * string) :=\n  [%s].\n\n", strings.Join(sites, ";\n   "))
	b.WriteString("(* pointer-type mentions (`*pkg.T` as a declared type): informational, part of no obligation *)\n")
	if len(mentions) == 0 {
		b.WriteString("Definition io_pointer_type_mentions : list (string * string * string * string) := [].\n\n")
	} else {
		fmt.Fprintf(&b, "Definition io_pointer_type_mentions : list (string * string * string * string) :=\n  [%s].\n\n", strings.Join(mentions, ";\n   "))
	}
	if len(third) == 0 {
		b.WriteString("Definition third_party_imports : list (string * string) := [].\n")
	} else {
		fmt.Fprintf(&b, "Definition third_party_imports : list (string * string) :=\n  [%s].\n", strings.Join(third, ";\n   "))
	}
	emit("Gen_IOSites.v", b.String())
}
