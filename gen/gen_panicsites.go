// Panic-capable site inventory (C07): a syntactic over-approximation of the places in the non-test,
// non-hook Go files of eval/ object/ ast/ parser/ lexer/ repl/ where a Go run-time panic can originate:
//
//	panic      explicit panic(...) call
//	div        integer-or-float `/` `%` `/=` `%=` whose divisor is not a literal / named constant
//	shift      `<<` `>>` `<<=` `>>=` whose count is not a literal / named constant
//	slice      slice expression x[a:b] with at least one bound that is not the literal 0
//	index      index expression x[i] with a non-literal index (maps included: syntactic over-approximation)
//	indexc     index expression x[k] with a literal index (k beyond len panics as well)
//	assert     single-value type assertion x.(T)  (comma-ok forms and type switches are not sites)
//	make       make(T, n...) with a non-literal size
//	repeat     strings.Repeat / bytes.Repeat
//
// Emitted as coq/gen/Gen_PanicSites.v: one entry per (package, file, enclosing function, kind) with the
// number of such sites.  coq/model/PanicSites.v holds the audited classification; the obligation
// `panic_sites_accounted` (vm_compute) fails as soon as a site appears that the audit does not cover.
package main

import (
	"fmt"
	"go/ast"
	"go/token"
	"sort"
	"strings"
)

func init() { extraGens = append(extraGens, genPanicSites) }

type psKey struct{ pkg, file, fn, kind string }

func isVerifOnlyFile(f *ast.File) bool {
	for _, cg := range f.Comments {
		if cg.Pos() > f.Package {
			break
		}
		for _, c := range cg.List {
			t := strings.TrimSpace(c.Text)
			if strings.HasPrefix(t, "//go:build") && strings.Contains(t, "verif") && !strings.Contains(t, "!verif") {
				return true
			}
		}
	}
	return false
}

func psIsConst(pkg string, e ast.Expr) bool {
	switch x := e.(type) {
	case *ast.BasicLit:
		return true
	case *ast.ParenExpr:
		return psIsConst(pkg, x.X)
	case *ast.Ident:
		_, ok := consts[pkg+"."+x.Name]
		return ok
	case *ast.SelectorExpr:
		if id, ok := x.X.(*ast.Ident); ok {
			_, ok2 := consts[id.Name+"."+x.Sel.Name]
			return ok2
		}
	case *ast.BinaryExpr:
		return psIsConst(pkg, x.X) && psIsConst(pkg, x.Y)
	case *ast.UnaryExpr:
		return psIsConst(pkg, x.X)
	}
	return false
}

func psIsZeroLit(e ast.Expr) bool {
	b, ok := e.(*ast.BasicLit)
	return ok && b.Kind == token.INT && b.Value == "0"
}

func recvName(fd *ast.FuncDecl) string {
	if fd.Recv == nil || len(fd.Recv.List) == 0 {
		return fd.Name.Name
	}
	t := fd.Recv.List[0].Type
	for {
		switch x := t.(type) {
		case *ast.StarExpr:
			t = x.X
			continue
		case *ast.IndexExpr:
			t = x.X
			continue
		case *ast.Ident:
			return x.Name + "." + fd.Name.Name
		}
		break
	}
	return fd.Name.Name
}

func genPanicSites() {
	counts := map[psKey]int{}
	for _, d := range []string{"eval", "object", "ast", "parser", "lexer", "repl"} {
		p := pkgs[d]
		for fname, f := range p.files {
			if isVerifOnlyFile(f) {
				continue
			}
			for _, decl := range f.Decls {
				fn := "<init>"
				if fd, ok := decl.(*ast.FuncDecl); ok {
					fn = recvName(fd)
				}
				psWalk(p.name, fname, fn, decl, counts)
			}
		}
	}
	keys := make([]psKey, 0, len(counts))
	for k := range counts {
		keys = append(keys, k)
	}
	sort.Slice(keys, func(i, j int) bool {
		a, b := keys[i], keys[j]
		if a.pkg != b.pkg {
			return a.pkg < b.pkg
		}
		if a.file != b.file {
			return a.file < b.file
		}
		if a.fn != b.fn {
			return a.fn < b.fn
		}
		return a.kind < b.kind
	})
	if len(keys) < 20 {
		fatal("panic site inventory suspiciously small (%d)", len(keys))
	}
	var b strings.Builder
	b.WriteString("(* Panic-capable sites of eval/ object/ ast/ parser/ lexer/ repl/ (non-test, non-hook files):\n" +
		"   (package, file, enclosing function, kind, number of sites).  See gen/gen_panicsites.go for the kinds. *)\n")
	b.WriteString("Open Scope string_scope.\n")
	b.WriteString("Definition panic_sites : list (string * string * string * string * Z) :=\n  [")
	total := 0
	for i, k := range keys {
		if i > 0 {
			b.WriteString(";\n   ")
		}
		fmt.Fprintf(&b, "(%q, %q, %q, %q, %d%%Z)", k.pkg, k.file, k.fn, k.kind, counts[k])
		total += counts[k]
	}
	b.WriteString("].\n")
	fmt.Fprintf(&b, "Definition panic_sites_total : Z := %d%%Z.\n", total)
	emit("Gen_PanicSites.v", b.String())
}

// psWalk visits one top-level declaration keeping a parent stack (needed to tell comma-ok assertions apart).
func psWalk(pkg, file, fn string, root ast.Node, counts map[psKey]int) {
	var stack []ast.Node
	add := func(kind string) { counts[psKey{pkg, file, fn, kind}]++ }
	ast.Inspect(root, func(n ast.Node) bool {
		if n == nil {
			stack = stack[:len(stack)-1]
			return true
		}
		var parent ast.Node
		if len(stack) > 0 {
			parent = stack[len(stack)-1]
		}
		stack = append(stack, n)
		switch x := n.(type) {
		case *ast.CallExpr:
			if id, ok := x.Fun.(*ast.Ident); ok {
				switch id.Name {
				case "panic":
					add("panic")
				case "make":
					for _, a := range x.Args[1:] {
						if !psIsConst(pkg, a) {
							add("make")
							break
						}
					}
				}
			}
			if se, ok := x.Fun.(*ast.SelectorExpr); ok && se.Sel.Name == "Repeat" {
				if id, ok := se.X.(*ast.Ident); ok && (id.Name == "strings" || id.Name == "bytes") {
					add("repeat")
				}
			}
		case *ast.BinaryExpr:
			switch x.Op {
			case token.QUO, token.REM:
				if !psIsConst(pkg, x.Y) {
					add("div")
				}
			case token.SHL, token.SHR:
				if !psIsConst(pkg, x.Y) {
					add("shift")
				}
			}
		case *ast.AssignStmt:
			switch x.Tok {
			case token.QUO_ASSIGN, token.REM_ASSIGN:
				if !psIsConst(pkg, x.Rhs[0]) {
					add("div")
				}
			case token.SHL_ASSIGN, token.SHR_ASSIGN:
				if !psIsConst(pkg, x.Rhs[0]) {
					add("shift")
				}
			}
		case *ast.SliceExpr:
			trivial := true
			for _, bnd := range []ast.Expr{x.Low, x.High, x.Max} {
				if bnd != nil && !psIsZeroLit(bnd) {
					trivial = false
				}
			}
			if !trivial {
				add("slice")
			}
		case *ast.IndexExpr:
			if _, isLit := x.Index.(*ast.BasicLit); isLit {
				add("indexc")
			} else {
				add("index")
			}
		case *ast.TypeAssertExpr:
			if x.Type == nil { // x.(type) of a type switch
				break
			}
			commaOk := false
			switch p := parent.(type) {
			case *ast.AssignStmt:
				commaOk = len(p.Lhs) == 2 && len(p.Rhs) == 1
			case *ast.ValueSpec:
				commaOk = len(p.Names) == 2 && len(p.Values) == 1
			}
			if !commaOk {
				add("assert")
			}
		}
		return true
	})
}
