// Panic-capable site inventory (C07): a syntactic over-approximation of the places in the non-test,
// non-hook Go files of eval/ object/ ast/ parser/ lexer/ repl/ where a Go run-time panic can originate:
//
//	panic      explicit panic(...) call
//	div        integer-or-float `/` `%` `/=` `%=` whose divisor is not a literal / named constant
//	shift      `<<` `>>` `<<=` `>>=` whose count is not a literal / named constant
//	slice      slice expression x[a:b] with at least one bound that is not the literal 0
//	index      index expression x[i] with a non-literal index (maps included: syntactic over-approximation)
//	indexc     index expression x[k] with a literal index (k beyond len panics as well)
//	assert     single-value type assertion x.(T)  (comma-ok forms and type switches are not sites)
//	make       make(T, n...) with a non-literal size
//	repeat     strings.Repeat / bytes.Repeat
//
// Not sites (each a syntactic pattern that cannot panic; they keep equivalent rewrites of a function from
// producing "new" sites): make with sizes built from constants, len(..) and cap(..); x[i] where i is the key
// of an enclosing `for i := range x` or the counter of `for i := c; i < len(x); i++` and neither i nor x is
// assigned in the loop body; m[k] on a local m := make(map..) / map literal that is never reassigned;
// t[b] on a package-level [256]T array with b a byte-typed parameter or local.
//
// Emitted as coq/gen/Gen_PanicSites.v: one entry per (package, file, enclosing function, kind) with the
// number of such sites.  coq/model/PanicSites.v holds the audited classification; the obligation
// `panic_sites_accounted` (vm_compute) fails as soon as a site appears that the audit does not cover.
package main

import (
	"fmt"
	"go/ast"
	"go/token"
	"sort"
	"strings"
)

func init() { extraGens = append(extraGens, genPanicSites) }

type psKey struct{ pkg, file, fn, kind string }

func isVerifOnlyFile(f *ast.File) bool {
	for _, cg := range f.Comments {
		if cg.Pos() > f.Package {
			break
		}
		for _, c := range cg.List {
			t := strings.TrimSpace(c.Text)
			if strings.HasPrefix(t, "//go:build") && strings.Contains(t, "verif") && !strings.Contains(t, "!verif") {
				return true
			}
		}
	}
	return false
}

func psIsConst(pkg string, e ast.Expr) bool {
	switch x := e.(type) {
	case *ast.BasicLit:
		return true
	case *ast.ParenExpr:
		return psIsConst(pkg, x.X)
	case *ast.Ident:
		_, ok := consts[pkg+"."+x.Name]
		return ok
	case *ast.SelectorExpr:
		if id, ok := x.X.(*ast.Ident); ok {
			_, ok2 := consts[id.Name+"."+x.Sel.Name]
			return ok2
		}
	case *ast.BinaryExpr:
		return psIsConst(pkg, x.X) && psIsConst(pkg, x.Y)
	case *ast.UnaryExpr:
		return psIsConst(pkg, x.X)
	}
	return false
}

func psIsZeroLit(e ast.Expr) bool {
	b, ok := e.(*ast.BasicLit)
	return ok && b.Kind == token.INT && b.Value == "0"
}

func recvName(fd *ast.FuncDecl) string {
	if fd.Recv == nil || len(fd.Recv.List) == 0 {
		return fd.Name.Name
	}
	t := fd.Recv.List[0].Type
	for {
		switch x := t.(type) {
		case *ast.StarExpr:
			t = x.X
			continue
		case *ast.IndexExpr:
			t = x.X
			continue
		case *ast.Ident:
			return x.Name + "." + fd.Name.Name
		}
		break
	}
	return fd.Name.Name
}


// psNonNeg: an expression that is >= 0 by construction (sizes for make).
func psNonNeg(pkg string, e ast.Expr) bool {
	switch x := e.(type) {
	case *ast.ParenExpr:
		return psNonNeg(pkg, x.X)
	case *ast.BasicLit:
		return x.Kind == token.INT
	case *ast.CallExpr:
		if id, ok := x.Fun.(*ast.Ident); ok && (id.Name == "len" || id.Name == "cap") && len(x.Args) == 1 {
			return true
		}
	case *ast.BinaryExpr:
		if x.Op == token.ADD || x.Op == token.MUL {
			return psNonNeg(pkg, x.X) && psNonNeg(pkg, x.Y)
		}
	}
	return psIsConst(pkg, e)
}

// psStable: an identifier or a chain of field selections on one (no calls, no indexing): its text names one location.
func psStable(e ast.Expr) (string, bool) {
	switch x := e.(type) {
	case *ast.Ident:
		return x.Name, true
	case *ast.SelectorExpr:
		if b, ok := psStable(x.X); ok {
			return b + "." + x.Sel.Name, true
		}
	}
	return "", false
}

// psAssigned: body assigns to (or takes the address of, or ++/--) the location named by text, or to a prefix of it.
func psAssigned(body ast.Node, text string) bool {
	found := false
	hit := func(e ast.Expr) {
		if t, ok := psStable(e); ok && (t == text || strings.HasPrefix(text, t+".")) {
			found = true
		}
	}
	ast.Inspect(body, func(n ast.Node) bool {
		switch x := n.(type) {
		case *ast.AssignStmt:
			for _, l := range x.Lhs {
				hit(l)
			}
		case *ast.IncDecStmt:
			hit(x.X)
		case *ast.UnaryExpr:
			if x.Op == token.AND {
				hit(x.X)
			}
		case *ast.RangeStmt:
			if x.Key != nil {
				hit(x.Key)
			}
			if x.Value != nil {
				hit(x.Value)
			}
		}
		return !found
	})
	return found
}

// psLoopBounded: ie = x[i] sits in the body of a loop on the stack that keeps 0 <= i < len(x).
func psLoopBounded(stack []ast.Node, ie *ast.IndexExpr, locals map[string]bool, root ast.Node) bool {
	id, ok := ie.Index.(*ast.Ident)
	if !ok {
		return false
	}
	xid, ok := ie.X.(*ast.Ident) // only a local of this function: nothing called from the loop body can shorten it,
	if !ok || !locals[xid.Name] { // unless a closure of this function assigns it (checked below)
		return false
	}
	xt := xid.Name
	closureAssigns := false
	ast.Inspect(root, func(n ast.Node) bool {
		if fl, ok := n.(*ast.FuncLit); ok && psAssigned(fl.Body, xt) {
			closureAssigns = true
		}
		return !closureAssigns
	})
	if closureAssigns {
		return false
	}
	for k := len(stack) - 1; k >= 0; k-- {
		switch l := stack[k].(type) {
		case *ast.RangeStmt:
			key, isId := l.Key.(*ast.Ident)
			if !isId || key.Name != id.Name || l.Tok != token.DEFINE {
				continue
			}
			if rt, ok := psStable(l.X); !ok || rt != xt {
				return false
			}
			return !psAssigned(l.Body, id.Name) && !psAssigned(l.Body, xt)
		case *ast.ForStmt:
			init, ok1 := l.Init.(*ast.AssignStmt)
			cond, ok2 := l.Cond.(*ast.BinaryExpr)
			post, ok3 := l.Post.(*ast.IncDecStmt)
			if !ok1 || !ok2 || !ok3 || init.Tok != token.DEFINE || len(init.Lhs) != 1 || len(init.Rhs) != 1 {
				continue
			}
			iv, isId := init.Lhs[0].(*ast.Ident)
			if !isId || iv.Name != id.Name {
				continue
			}
			lit, isLit := init.Rhs[0].(*ast.BasicLit)
			pv, isP := post.X.(*ast.Ident)
			cl, isC := cond.X.(*ast.Ident)
			if !isLit || lit.Kind != token.INT || !isP || pv.Name != id.Name || post.Tok != token.INC || !isC || cl.Name != id.Name || cond.Op != token.LSS {
				return false
			}
			call, isCall := cond.Y.(*ast.CallExpr)
			if !isCall || len(call.Args) != 1 {
				return false
			}
			if f, ok := call.Fun.(*ast.Ident); !ok || f.Name != "len" {
				return false
			}
			if rt, ok := psStable(call.Args[0]); !ok || rt != xt {
				return false
			}
			return !psAssigned(l.Body, id.Name) && !psAssigned(l.Body, xt)
		case *ast.FuncLit:
			return false
		}
	}
	return false
}

// psLocals: names declared inside the function (parameters, results, := and var, range variables).
func psLocals(root ast.Node) map[string]bool {
	out := map[string]bool{}
	ast.Inspect(root, func(n ast.Node) bool {
		switch x := n.(type) {
		case *ast.Field:
			for _, id := range x.Names {
				out[id.Name] = true
			}
		case *ast.AssignStmt:
			if x.Tok == token.DEFINE {
				for _, l := range x.Lhs {
					if id, ok := l.(*ast.Ident); ok {
						out[id.Name] = true
					}
				}
			}
		case *ast.ValueSpec:
			for _, id := range x.Names {
				out[id.Name] = true
			}
		case *ast.RangeStmt:
			if x.Tok == token.DEFINE {
				for _, e := range []ast.Expr{x.Key, x.Value} {
					if id, ok := e.(*ast.Ident); ok {
						out[id.Name] = true
					}
				}
			}
		}
		return true
	})
	return out
}

// psLocalMaps: the local variables of a function that are created as a map (make(map..) or a map literal) by := or var and
// never assigned again: indexing them cannot panic.
func psLocalMaps(root ast.Node) map[string]bool {
	isMapMaker := func(e ast.Expr) bool {
		switch x := e.(type) {
		case *ast.CompositeLit:
			_, ok := x.Type.(*ast.MapType)
			return ok
		case *ast.CallExpr:
			if id, ok := x.Fun.(*ast.Ident); ok && id.Name == "make" && len(x.Args) >= 1 {
				_, ok2 := x.Args[0].(*ast.MapType)
				return ok2
			}
		}
		return false
	}
	defs, assigns := map[string]int{}, map[string]int{}
	ast.Inspect(root, func(n ast.Node) bool {
		switch x := n.(type) {
		case *ast.AssignStmt:
			for i, l := range x.Lhs {
				id, ok := l.(*ast.Ident)
				if !ok {
					continue
				}
				assigns[id.Name]++
				if x.Tok == token.DEFINE && len(x.Lhs) == len(x.Rhs) && isMapMaker(x.Rhs[i]) {
					defs[id.Name]++
				}
			}
		case *ast.ValueSpec:
			for i, id := range x.Names {
				assigns[id.Name]++
				if i < len(x.Values) && isMapMaker(x.Values[i]) {
					defs[id.Name]++
				}
			}
		case *ast.UnaryExpr:
			if id, ok := x.X.(*ast.Ident); ok && x.Op == token.AND {
				assigns[id.Name] += 2
			}
		case *ast.RangeStmt:
			for _, e := range []ast.Expr{x.Key, x.Value} {
				if id, ok := e.(*ast.Ident); ok {
					assigns[id.Name] += 2
				}
			}
		case *ast.Field: // parameters and results shadowing would confuse the name-based reading
			for _, id := range x.Names {
				assigns[id.Name] += 2
			}
		}
		return true
	})
	out := map[string]bool{}
	for name, d := range defs {
		if d == 1 && assigns[name] == 1 {
			out[name] = true
		}
	}
	return out
}

// psByteVars: parameters and var-declared locals of a function whose declared type is byte / uint8.
func psByteVars(root ast.Node) map[string]bool {
	out := map[string]bool{}
	isByte := func(t ast.Expr) bool {
		id, ok := t.(*ast.Ident)
		return ok && (id.Name == "byte" || id.Name == "uint8")
	}
	ast.Inspect(root, func(n ast.Node) bool {
		switch x := n.(type) {
		case *ast.Field:
			if x.Type != nil && isByte(x.Type) {
				for _, id := range x.Names {
					out[id.Name] = true
				}
			}
		case *ast.ValueSpec:
			if x.Type != nil && isByte(x.Type) {
				for _, id := range x.Names {
					out[id.Name] = true
				}
			}
		}
		return true
	})
	// a name that is also assigned by := somewhere is not reliably a byte
	ast.Inspect(root, func(n ast.Node) bool {
		if a, ok := n.(*ast.AssignStmt); ok && a.Tok == token.DEFINE {
			for _, l := range a.Lhs {
				if id, ok := l.(*ast.Ident); ok {
					delete(out, id.Name)
				}
			}
		}
		return true
	})
	return out
}

// psByteTables: package-level variables declared as [256]T arrays (indexing them with a byte cannot panic).
func psByteTables(p *pkgInfo) map[string]bool {
	out := map[string]bool{}
	is256 := func(t ast.Expr) bool {
		at, ok := t.(*ast.ArrayType)
		if !ok || at.Len == nil {
			return false
		}
		l, ok := at.Len.(*ast.BasicLit)
		return ok && l.Value == "256"
	}
	for _, f := range p.files {
		for _, d := range f.Decls {
			gd, ok := d.(*ast.GenDecl)
			if !ok || gd.Tok != token.VAR {
				continue
			}
			for _, sp := range gd.Specs {
				vs := sp.(*ast.ValueSpec)
				for i, id := range vs.Names {
					if vs.Type != nil && is256(vs.Type) {
						out[id.Name] = true
					} else if i < len(vs.Values) {
						if cl, ok := vs.Values[i].(*ast.CompositeLit); ok && cl.Type != nil && is256(cl.Type) {
							out[id.Name] = true
						}
					}
				}
			}
		}
	}
	return out
}

func genPanicSites() {
	counts := map[psKey]int{}
	for _, d := range []string{"eval", "object", "ast", "parser", "lexer", "repl"} {
		p := pkgs[d]
		psTables = psByteTables(p)
		for fname, f := range p.files {
			if isVerifOnlyFile(f) {
				continue
			}
			for _, decl := range f.Decls {
				fn := "<init>"
				if fd, ok := decl.(*ast.FuncDecl); ok {
					fn = recvName(fd)
				}
				psWalk(p.name, fname, fn, decl, counts)
			}
		}
	}
	keys := make([]psKey, 0, len(counts))
	for k := range counts {
		keys = append(keys, k)
	}
	sort.Slice(keys, func(i, j int) bool {
		a, b := keys[i], keys[j]
		if a.pkg != b.pkg {
			return a.pkg < b.pkg
		}
		if a.file != b.file {
			return a.file < b.file
		}
		if a.fn != b.fn {
			return a.fn < b.fn
		}
		return a.kind < b.kind
	})
	if len(keys) < 20 {
		fatal("panic site inventory suspiciously small (%d)", len(keys))
	}
	var b strings.Builder
	b.WriteString("(* Panic-capable sites of eval/ object/ ast/ parser/ lexer/ repl/ (non-test, non-hook files):\n" +
		"   (package, file, enclosing function, kind, number of sites).  See gen/gen_panicsites.go for the kinds. *)\n")
	b.WriteString("Open Scope string_scope.\n")
	b.WriteString("Definition panic_sites : list (string * string * string * string * Z) :=\n  [")
	total := 0
	for i, k := range keys {
		if i > 0 {
			b.WriteString(";\n   ")
		}
		fmt.Fprintf(&b, "(%q, %q, %q, %q, %d%%Z)", k.pkg, k.file, k.fn, k.kind, counts[k])
		total += counts[k]
	}
	b.WriteString("].\n")
	fmt.Fprintf(&b, "Definition panic_sites_total : Z := %d%%Z.\n", total)
	emit("Gen_PanicSites.v", b.String())
}

// psWalk visits one top-level declaration keeping a parent stack (needed to tell comma-ok assertions apart).
var psTables map[string]bool

func psWalk(pkg, file, fn string, root ast.Node, counts map[psKey]int) {
	var stack []ast.Node
	localMaps, byteVars, locals := psLocalMaps(root), psByteVars(root), psLocals(root)
	add := func(kind string) { counts[psKey{pkg, file, fn, kind}]++ }
	ast.Inspect(root, func(n ast.Node) bool {
		if n == nil {
			stack = stack[:len(stack)-1]
			return true
		}
		var parent ast.Node
		if len(stack) > 0 {
			parent = stack[len(stack)-1]
		}
		stack = append(stack, n)
		switch x := n.(type) {
		case *ast.CallExpr:
			if id, ok := x.Fun.(*ast.Ident); ok {
				switch id.Name {
				case "panic":
					add("panic")
				case "make":
					for _, a := range x.Args[1:] {
						if !psNonNeg(pkg, a) {
							add("make")
							break
						}
					}
				}
			}
			if se, ok := x.Fun.(*ast.SelectorExpr); ok && se.Sel.Name == "Repeat" {
				if id, ok := se.X.(*ast.Ident); ok && (id.Name == "strings" || id.Name == "bytes") {
					add("repeat")
				}
			}
		case *ast.BinaryExpr:
			switch x.Op {
			case token.QUO, token.REM:
				if !psIsConst(pkg, x.Y) {
					add("div")
				}
			case token.SHL, token.SHR:
				if !psIsConst(pkg, x.Y) {
					add("shift")
				}
			}
		case *ast.AssignStmt:
			switch x.Tok {
			case token.QUO_ASSIGN, token.REM_ASSIGN:
				if !psIsConst(pkg, x.Rhs[0]) {
					add("div")
				}
			case token.SHL_ASSIGN, token.SHR_ASSIGN:
				if !psIsConst(pkg, x.Rhs[0]) {
					add("shift")
				}
			}
		case *ast.SliceExpr:
			trivial := true
			for _, bnd := range []ast.Expr{x.Low, x.High, x.Max} {
				if bnd != nil && !psIsZeroLit(bnd) {
					trivial = false
				}
			}
			if !trivial {
				add("slice")
			}
		case *ast.IndexExpr:
			if id, ok := x.X.(*ast.Ident); ok && localMaps[id.Name] {
				break
			}
			if id, ok := x.X.(*ast.Ident); ok && psTables[id.Name] {
				if b, ok := x.Index.(*ast.Ident); ok && byteVars[b.Name] {
					break
				}
			}
			if psLoopBounded(stack[:len(stack)-1], x, locals, root) {
				break
			}
			if _, isLit := x.Index.(*ast.BasicLit); isLit {
				add("indexc")
			} else {
				add("index")
			}
		case *ast.TypeAssertExpr:
			if x.Type == nil { // x.(type) of a type switch
				break
			}
			commaOk := false
			switch p := parent.(type) {
			case *ast.AssignStmt:
				commaOk = len(p.Lhs) == 2 && len(p.Rhs) == 1
			case *ast.ValueSpec:
				commaOk = len(p.Names) == 2 && len(p.Values) == 1
			}
			if !commaOk {
				add("assert")
			}
		}
		return true
	})
}
