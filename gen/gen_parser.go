package main

// Gen_Prec.v        : ast.Precedences (token type -> priority) and the Priority constants
// Gen_ParserTables.v: the registerPrefix / registerInfix / registerPostfix calls of parser.New
//                     as (token type ordinal, parse function name) lists.

import (
	"fmt"
	"go/ast"
	"strings"
)

func init() { extraGens = append(extraGens, genPrec, genParserTables) }

func genPrec() {
	p := pkgs["ast"]
	var entries []string
	read := map[int64]int64{}
	found := false
	for _, f := range p.files {
		ast.Inspect(f, func(n ast.Node) bool {
			vs, ok := n.(*ast.ValueSpec)
			if !ok || len(vs.Names) != 1 || vs.Names[0].Name != "Precedences" || len(vs.Values) != 1 {
				return true
			}
			cl, ok := vs.Values[0].(*ast.CompositeLit)
			if !ok {
				return true
			}
			found = true
			for _, e := range cl.Elts {
				kv, ok := e.(*ast.KeyValueExpr)
				if !ok {
					fatal("Precedences: unexpected element")
				}
				k, ok1 := evalConst("ast", kv.Key, 0)
				v, ok2 := evalConst("ast", kv.Value, 0)
				if !ok1 || !ok2 {
					fatal("Precedences: cannot evaluate entry")
				}
				entries = append(entries, fmt.Sprintf("(%d%%Z, %d%%Z)", k, v))
				read[k] = v
			}
			return false
		})
	}
	if !found {
		fatal("ast.Precedences not found")
	}
	var b strings.Builder
	b.WriteString("(* ast.Precedences: (token type ordinal, priority) in source order *)\n")
	fmt.Fprintf(&b, "Definition precedences : list (Z * Z) :=\n  [%s].\n", strings.Join(entries, ";\n   "))
	checkPrec(read)
	emit("Gen_Prec.v", b.String())
}

func genParserTables() {
	p := pkgs["parser"]
	tabs := map[string][]string{}
	read := map[string]map[int64]string{"registerPrefix": {}, "registerInfix": {}, "registerPostfix": {}}
	for _, f := range p.files {
		ast.Inspect(f, func(n ast.Node) bool {
			ce, ok := n.(*ast.CallExpr)
			if !ok || len(ce.Args) != 2 {
				return true
			}
			sel, ok := ce.Fun.(*ast.SelectorExpr)
			if !ok {
				return true
			}
			name := sel.Sel.Name
			if name != "registerPrefix" && name != "registerInfix" && name != "registerPostfix" {
				return true
			}
			tv, ok := evalConst("parser", ce.Args[0], 0)
			if !ok {
				fatal("%s: cannot evaluate token type", name)
			}
			fn, ok := ce.Args[1].(*ast.SelectorExpr)
			if !ok {
				fatal("%s: parse function is not a method value", name)
			}
			tabs[name] = append(tabs[name], fmt.Sprintf("(%d%%Z, %q%%string)", tv, fn.Sel.Name))
			read[name][tv] = fn.Sel.Name // a later call overrides an earlier one
			return true
		})
	}
	var b strings.Builder
	for _, k := range []string{"registerPrefix", "registerInfix", "registerPostfix"} {
		if len(tabs[k]) == 0 {
			fatal("no %s calls found", k)
		}
		nm := map[string]string{"registerPrefix": "prefix_fns", "registerInfix": "infix_fns", "registerPostfix": "postfix_fns"}[k]
		fmt.Fprintf(&b, "(* %s calls of parser.New, in source order (a later call overrides an earlier one) *)\n", k)
		fmt.Fprintf(&b, "Definition %s : list (Z * string) :=\n  [%s].\n\n", nm, strings.Join(tabs[k], ";\n   "))
	}
	checkParserTables(read)
	emit("Gen_ParserTables.v", b.String())
}
