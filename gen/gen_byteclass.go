// Translator, lexer byte classes: the boolean functions `func f(ch byte) bool { return <expr over ch> }` of
// /repo/lexer/lexer.go are translated into Gallina `N -> bool` definitions (Gen_ByteClass.v), and the table of
// single character escapes of readString (`case 'n': ch = '\n'`) into an association list. coq/model/Lexer.v
// imports this file, so editing a predicate or an escape in Go changes the model (and re-checks the proofs).
//
// Supported expression language (anything else aborts the translation, which fails the check):
//
//	ch, character and integer literals, == != < <= > >=, || && !, parentheses, calls g(ch) of another predicate.
package main

import (
	"fmt"
	"go/ast"
	"go/token"
	"sort"
	"strconv"
	"strings"
)

func init() { extraGens = append(extraGens, genByteClass) }

// the predicates the lexer model needs (all must be found)
var byteClassWanted = []string{"isWhiteSpace", "isLetter", "isDigit", "isDigitOrUnderscore", "isHexDigit", "isBinaryDigit", "IsAlphaNum", "notEOL"}

type bcFunc struct {
	name  string
	param string
	body  ast.Expr
	deps  []string
}

func bcLit(e *ast.BasicLit) (string, bool) {
	switch e.Kind {
	case token.CHAR:
		s, err := strconv.Unquote(e.Value)
		if err != nil || len(s) != 1 { // a single byte
			return "", false
		}
		return fmt.Sprintf("%d%%N", s[0]), true
	case token.INT:
		v, err := strconv.ParseInt(e.Value, 0, 64)
		if err != nil || v < 0 || v > 255 {
			return "", false
		}
		return fmt.Sprintf("%d%%N", v), true
	}
	return "", false
}

func bcOperand(f *bcFunc, e ast.Expr) (string, bool) {
	switch x := e.(type) {
	case *ast.ParenExpr:
		return bcOperand(f, x.X)
	case *ast.Ident:
		if x.Name == f.param {
			return "ch", true
		}
	case *ast.BasicLit:
		return bcLit(x)
	}
	return "", false
}

func bcExpr(f *bcFunc, e ast.Expr) (string, bool) {
	switch x := e.(type) {
	case *ast.ParenExpr:
		return bcExpr(f, x.X)
	case *ast.UnaryExpr:
		if x.Op == token.NOT {
			s, ok := bcExpr(f, x.X)
			return "(negb " + s + ")", ok
		}
	case *ast.CallExpr:
		id, ok := x.Fun.(*ast.Ident)
		if !ok || len(x.Args) != 1 {
			return "", false
		}
		a, ok := bcOperand(f, x.Args[0])
		if !ok || a != "ch" {
			return "", false
		}
		f.deps = append(f.deps, id.Name)
		return "(" + id.Name + " ch)", true
	case *ast.BinaryExpr:
		switch x.Op {
		case token.LOR, token.LAND:
			a, ok1 := bcExpr(f, x.X)
			b, ok2 := bcExpr(f, x.Y)
			op := "orb"
			if x.Op == token.LAND {
				op = "andb"
			}
			return "(" + op + " " + a + " " + b + ")", ok1 && ok2
		case token.EQL, token.NEQ, token.LSS, token.LEQ, token.GTR, token.GEQ:
			a, ok1 := bcOperand(f, x.X)
			b, ok2 := bcOperand(f, x.Y)
			if !ok1 || !ok2 {
				return "", false
			}
			switch x.Op {
			case token.EQL:
				return "(N.eqb " + a + " " + b + ")", true
			case token.NEQ:
				return "(negb (N.eqb " + a + " " + b + "))", true
			case token.LSS:
				return "(N.ltb " + a + " " + b + ")", true
			case token.LEQ:
				return "(N.leb " + a + " " + b + ")", true
			case token.GTR:
				return "(N.ltb " + b + " " + a + ")", true
			case token.GEQ:
				return "(N.leb " + b + " " + a + ")", true
			}
		}
	}
	return "", false
}

// bcEval evaluates a translated predicate body on one byte (cross-check against the run-time table)
func bcEval(funcs map[string]*bcFunc, f *bcFunc, e ast.Expr, b int, depth int) (bool, bool) {
	if depth > 64 {
		return false, false
	}
	operand := func(x ast.Expr) (int, bool) {
		for {
			p, ok := x.(*ast.ParenExpr)
			if !ok {
				break
			}
			x = p.X
		}
		switch v := x.(type) {
		case *ast.Ident:
			if v.Name == f.param {
				return b, true
			}
		case *ast.BasicLit:
			switch v.Kind {
			case token.CHAR:
				s, err := strconv.Unquote(v.Value)
				if err == nil && len(s) == 1 {
					return int(s[0]), true
				}
			case token.INT:
				n, err := strconv.ParseInt(v.Value, 0, 64)
				if err == nil {
					return int(n), true
				}
			}
		}
		return 0, false
	}
	switch x := e.(type) {
	case *ast.ParenExpr:
		return bcEval(funcs, f, x.X, b, depth+1)
	case *ast.UnaryExpr:
		v, ok := bcEval(funcs, f, x.X, b, depth+1)
		return !v, ok && x.Op == token.NOT
	case *ast.CallExpr:
		id, ok := x.Fun.(*ast.Ident)
		if !ok || funcs[id.Name] == nil || funcs[id.Name].body == nil {
			return false, false
		}
		g := funcs[id.Name]
		return bcEval(funcs, g, g.body, b, depth+1)
	case *ast.BinaryExpr:
		switch x.Op {
		case token.LOR, token.LAND:
			l, ok1 := bcEval(funcs, f, x.X, b, depth+1)
			r, ok2 := bcEval(funcs, f, x.Y, b, depth+1)
			if x.Op == token.LOR {
				return l || r, ok1 && ok2
			}
			return l && r, ok1 && ok2
		default:
			l, ok1 := operand(x.X)
			r, ok2 := operand(x.Y)
			if !ok1 || !ok2 {
				return false, false
			}
			switch x.Op {
			case token.EQL:
				return l == r, true
			case token.NEQ:
				return l != r, true
			case token.LSS:
				return l < r, true
			case token.LEQ:
				return l <= r, true
			case token.GTR:
				return l > r, true
			case token.GEQ:
				return l >= r, true
			}
		}
	}
	return false, false
}

func genByteClass() {
	file := pkgs["lexer"].files["lexer.go"]
	if file == nil {
		fatal("lexer/lexer.go not found")
	}
	funcs := map[string]*bcFunc{}
	texts := map[string]string{}
	for _, d := range file.Decls {
		fd, ok := d.(*ast.FuncDecl)
		if !ok || fd.Recv != nil || fd.Body == nil || fd.Type.Params == nil || len(fd.Type.Params.List) != 1 ||
			fd.Type.Results == nil || len(fd.Type.Results.List) != 1 || len(fd.Body.List) != 1 {
			continue
		}
		p := fd.Type.Params.List[0]
		pt, ok1 := p.Type.(*ast.Ident)
		rt, ok2 := fd.Type.Results.List[0].Type.(*ast.Ident)
		ret, ok3 := fd.Body.List[0].(*ast.ReturnStmt)
		if !ok1 || !ok2 || !ok3 || pt.Name != "byte" || rt.Name != "bool" || len(p.Names) != 1 || len(ret.Results) != 1 {
			continue
		}
		f := &bcFunc{name: fd.Name.Name, param: p.Names[0].Name, body: ret.Results[0]}
		s, ok := bcExpr(f, f.body)
		if !ok {
			if _, has := dynPredicate(f.name); has {
				continue // written in a form outside the translated language: tabulated at run time below
			}
			fatal("byte predicate %s: expression outside the translated language", f.name)
		}
		funcs[f.name] = f
		texts[f.name] = s
	}
	// cross-check of what was read: the Go expression evaluated on all 256 bytes = the predicate at run time
	if dyn != nil {
		for n, f := range funcs {
			set, has := dyn.ByteClass[n]
			if !has {
				continue
			}
			in := map[int]bool{}
			for _, b := range set {
				in[b] = true
			}
			for b := 0; b < 256; b++ {
				v, ok := bcEval(funcs, f, f.body, b, 0)
				if ok && v != in[b] {
					fatal("byte predicate %s: the expression read from the source gives %v on byte %d, the predicate at run time %v", n, v, b, in[b])
				}
			}
		}
	}
	var fromDyn []string
	for _, w := range byteClassWanted {
		if funcs[w] == nil {
			if e, has := dynPredicate(w); has { // a switch, a lookup table, ...: the tabulated predicate, as a disjunction of intervals
				funcs[w] = &bcFunc{name: w}
				texts[w] = e
				fromDyn = append(fromDyn, w)
				continue
			}
			fatal("byte predicate %s not found in lexer/lexer.go", w)
		}
	}
	// a translated predicate may call one that was tabulated
	for _, f := range funcs {
		for _, d := range f.deps {
			if funcs[d] == nil {
				if e, has := dynPredicate(d); has {
					funcs[d] = &bcFunc{name: d}
					texts[d] = e
					fromDyn = append(fromDyn, d)
				}
			}
		}
	}
	if len(fromDyn) > 0 {
		sort.Strings(fromDyn)
		status["Gen_ByteClass.v"] = "ok (run-time tables for " + strings.Join(fromDyn, ", ") + ": written in a form outside the translated expression language)"
	}
	// emit in dependency order
	var order []string
	state := map[string]int{}
	var visit func(n string)
	visit = func(n string) {
		f := funcs[n]
		if f == nil {
			fatal("byte predicate calls %s which is not a translated predicate", n)
		}
		switch state[n] {
		case 1:
			fatal("recursive byte predicate %s", n)
		case 2:
			return
		}
		state[n] = 1
		for _, d := range f.deps {
			visit(d)
		}
		state[n] = 2
		order = append(order, n)
	}
	names := make([]string, 0, len(funcs))
	for n := range funcs {
		names = append(names, n)
	}
	sort.Strings(names)
	for _, n := range names {
		visit(n)
	}
	var b strings.Builder
	b.WriteString("(* byte predicates of lexer/lexer.go, translated from their Go return expressions *)\n")
	for _, n := range order {
		fmt.Fprintf(&b, "Definition %s (ch : N) : bool :=\n  %s.\n", n, texts[n])
	}

	// single character escapes of readString: the inner `switch ch` whose clauses are `ch = '<c>'`
	var simple []string
	var special []string
	found := false
	for _, d := range file.Decls {
		fd, ok := d.(*ast.FuncDecl)
		if !ok || fd.Name.Name != "readString" || fd.Body == nil {
			continue
		}
		ast.Inspect(fd.Body, func(n ast.Node) bool {
			sw, ok := n.(*ast.SwitchStmt)
			if !ok || sw.Tag == nil {
				return true
			}
			if id, ok := sw.Tag.(*ast.Ident); !ok || id.Name != "ch" {
				return true
			}
			found = true
			for _, c := range sw.Body.List {
				cc := c.(*ast.CaseClause)
				if cc.List == nil {
					fatal("readString escape switch has a default clause: not modelled")
				}
				for _, ce := range cc.List {
					bl, ok := ce.(*ast.BasicLit)
					if !ok {
						fatal("readString escape switch: case is not a literal")
					}
					k, ok := bcLit(bl)
					if !ok {
						fatal("readString escape switch: case literal not a byte")
					}
					if len(cc.Body) == 1 {
						if as, ok := cc.Body[0].(*ast.AssignStmt); ok && as.Tok == token.ASSIGN && len(as.Lhs) == 1 && len(as.Rhs) == 1 {
							l, ok1 := as.Lhs[0].(*ast.Ident)
							r, ok2 := as.Rhs[0].(*ast.BasicLit)
							if ok1 && ok2 && l.Name == "ch" {
								if v, ok := bcLit(r); ok {
									simple = append(simple, fmt.Sprintf("(%s, %s)", k, v))
									continue
								}
							}
						}
					}
					special = append(special, k)
				}
			}
			return false
		})
	}
	if !found || len(simple) == 0 {
		fatal("readString escape switch not found")
	}
	b.WriteString("\n(* readString: `case '<k>': ch = '<v>'` clauses of the escape switch: (k, v) *)\n")
	fmt.Fprintf(&b, "Definition simple_escapes : list (N * N) :=\n  [%s].\n", strings.Join(simple, "; "))
	b.WriteString("\n(* readString: the other clauses of the escape switch (hand modelled: \\u \\U \\x) *)\n")
	fmt.Fprintf(&b, "Definition special_escapes : list N :=\n  [%s].\n", strings.Join(special, "; "))
	emit("Gen_ByteClass.v", b.String())
}
