// The run-time side of the translator: tables printed by harness/cmd/gendyn (a program linked against the tree under
// test) are used to (a) cross-check what the syntactic pieces read off the source text and (b) replace a piece whose
// source is written in a form the syntactic reader does not parse (a registration loop over a slice literal, a
// predicate written as a switch or a lookup table, a map built by a function).  A piece that fails without a run-time
// replacement is recorded in gen_status.json; only the properties whose models import that generated file are affected.
package main

import (
	"encoding/hex"
	"encoding/json"
	"fmt"
	"os"
	"path/filepath"
	"reflect"
	"runtime"
	"sort"
	"strconv"
	"strings"
)

type dynTok struct {
	Type    int    `json:"type"`
	Name    string `json:"name"`
	HasLit  bool   `json:"has_lit"`
	Literal string `json:"literal"`
}

type dynData struct {
	Tokens    []dynTok          `json:"tokens"`
	Prec      map[string]int    `json:"prec"`
	Prefix    map[string]string `json:"prefix"`
	Infix     map[string]string `json:"infix"`
	Postfix   map[string]string `json:"postfix"`
	ByteClass map[string][]int  `json:"byteclass"`
}

var (
	dynFile string
	dyn     *dynData
	status  = map[string]string{} // generated file -> "ok" | "ok (run-time tables: <reason>)" | "FAILED: <reason>"
)

func loadDyn() {
	if dynFile == "" {
		return
	}
	b, err := os.ReadFile(dynFile)
	if err != nil {
		fmt.Fprintf(os.Stderr, "gen: run-time tables not available (%v): syntactic reading only\n", err)
		return
	}
	var d dynData
	if err := json.Unmarshal(b, &d); err != nil || len(d.Tokens) == 0 {
		fmt.Fprintf(os.Stderr, "gen: run-time tables unreadable (%v): syntactic reading only\n", err)
		return
	}
	dyn = &d
}

func funcName(f func()) string {
	n := runtime.FuncForPC(reflect.ValueOf(f).Pointer()).Name()
	if i := strings.LastIndex(n, "."); i >= 0 {
		n = n[i+1:]
	}
	return n
}

func pieceFile(g func()) string {
	switch funcName(g) {
	case "genPrec":
		return "Gen_Prec.v"
	case "genParserTables":
		return "Gen_ParserTables.v"
	case "genByteClass":
		return "Gen_ByteClass.v"
	case "genCmp":
		return "Gen_Cmp.v"
	case "genIOSites":
		return "Gen_IOSites.v"
	case "genPanicSites":
		return "Gen_PanicSites.v"
	case "genAutoSave":
		return "Gen_AutoSave.v"
	}
	return funcName(g)
}

func pieceDyn(g func()) func() bool {
	switch funcName(g) {
	case "genPrec":
		return dynPrec
	case "genParserTables":
		return dynParserTables
	}
	return nil // genByteClass falls back per predicate, inside
}

// runPiece runs one syntactic piece; if it aborts, the run-time replacement (if any) is used; otherwise the failure is
// recorded and the other pieces still run.
func runPiece(file string, syn func(), repl func() bool) {
	var ferr string
	func() {
		guarded = true
		defer func() {
			guarded = false
			if r := recover(); r != nil {
				fe, is := r.(fatalErr)
				if !is {
					panic(r)
				}
				ferr = fe.msg
			}
		}()
		syn()
	}()
	if ferr == "" {
		if _, set := status[file]; !set {
			status[file] = "ok"
		}
		return
	}
	os.Remove(filepath.Join(outDir, file))
	if repl != nil && dyn != nil {
		ok := false
		func() {
			guarded = true
			defer func() {
				guarded = false
				if r := recover(); r != nil {
					if fe, is := r.(fatalErr); is {
						ferr += "; run-time replacement: " + fe.msg
						return
					}
					panic(r)
				}
			}()
			ok = repl()
		}()
		if ok {
			status[file] = "ok (run-time tables; the source text was not readable: " + ferr + ")"
			fmt.Fprintf(os.Stderr, "gen: %s: %s -> taken from the run-time tables\n", file, ferr)
			return
		}
	}
	status[file] = "FAILED: " + ferr
	fmt.Fprintf(os.Stderr, "gen: %s: %s\n", file, ferr)
}

func finish() {
	b, _ := json.MarshalIndent(status, "", " ")
	_ = os.WriteFile(filepath.Join(outDir, "gen_status.json"), b, 0o644)
	for _, v := range status {
		if strings.HasPrefix(v, "FAILED") {
			os.Exit(3) // partial: see gen_status.json
		}
	}
}

// ---------------------------------------------------------------- tokens
func dynRange(lo, hi string) (int, int, bool) {
	l, h := -1, -1
	for _, t := range dyn.Tokens {
		if t.Name == lo {
			l = t.Type
		}
		if t.Name == hi {
			h = t.Type
		}
	}
	return l, h, l >= 0 && h >= 0
}

func dynTokenTables() (single map[int64]byte, double map[int64][2]byte, kws map[int64]string, ok bool) {
	single, double, kws = map[int64]byte{}, map[int64][2]byte{}, map[int64]string{}
	sl, sh, ok1 := dynRange("startSingleCharTokens", "endSingleCharTokens")
	ml, mh, ok2 := dynRange("startMultiCharTokens", "endMultiCharTokens")
	il, ih, ok3 := dynRange("startIdentityTokens", "endIdentityTokens")
	if !ok1 || !ok2 || !ok3 {
		return nil, nil, nil, false
	}
	for _, t := range dyn.Tokens {
		if !t.HasLit {
			continue
		}
		lit, err := hex.DecodeString(t.Literal)
		if err != nil {
			return nil, nil, nil, false
		}
		switch {
		case t.Type > sl && t.Type < sh && len(lit) == 1:
			single[int64(t.Type)] = lit[0]
		case t.Type > ml && t.Type < mh && len(lit) == 2:
			double[int64(t.Type)] = [2]byte{lit[0], lit[1]}
		case t.Type > il && t.Type < ih:
			kws[int64(t.Type)] = string(lit)
		}
	}
	return single, double, kws, true
}

// checkTokens compares what genToken read (type -> literal) with the run-time tables.
func checkTokens(single map[int64]byte, double map[int64][2]byte, kws map[int64]string) {
	if dyn == nil {
		return
	}
	ds, dd, dk, ok := dynTokenTables()
	if !ok {
		return
	}
	if !reflect.DeepEqual(single, ds) || !reflect.DeepEqual(double, dd) || !reflect.DeepEqual(kws, dk) {
		fatal("token tables read from the source differ from the run-time tables (single %d/%d, double %d/%d, identity %d/%d entries)",
			len(single), len(ds), len(double), len(dd), len(kws), len(dk))
	}
	for _, t := range dyn.Tokens {
		if v, ok := consts["token."+t.Name]; !ok || v != int64(t.Type) {
			fatal("token constant %s: read %d from the source, %d at run time", t.Name, v, t.Type)
		}
	}
}

func dynToken() bool {
	single, double, kws, ok := dynTokenTables()
	if !ok {
		return false
	}
	var b strings.Builder
	keys := func(m any) []int64 {
		var ks []int64
		for _, k := range reflect.ValueOf(m).MapKeys() {
			ks = append(ks, k.Int())
		}
		sort.Slice(ks, func(i, j int) bool { return ks[i] < ks[j] })
		return ks
	}
	var s1, s2, s3, s4 []string
	for _, k := range keys(single) {
		s1 = append(s1, fmt.Sprintf("(%d%%Z, %d%%N)", k, single[k]))
	}
	for _, k := range keys(double) {
		s2 = append(s2, fmt.Sprintf("(%d%%Z, (%d%%N, %d%%N))", k, double[k][0], double[k][1]))
	}
	for _, k := range keys(kws) {
		s3 = append(s3, fmt.Sprintf("(%s, %d%%Z)", bytesLit(kws[k]), k))
	}
	for _, t := range dyn.Tokens {
		s4 = append(s4, fmt.Sprintf("(%d%%Z, %q%%string)", t.Type, t.Name))
	}
	b.WriteString("(* the fixed literals of the one-character token types, as token.ByType reports them at run time: (type ordinal, byte) *)\n")
	fmt.Fprintf(&b, "Definition single_char_tokens : list (Z * N) :=\n  [%s].\n\n", strings.Join(s1, ";\n   "))
	b.WriteString("(* ... of the two-character token types *)\n")
	fmt.Fprintf(&b, "Definition two_char_tokens : list (Z * (N * N)) :=\n  [%s].\n\n", strings.Join(s2, ";\n   "))
	b.WriteString("(* identity tokens (keywords and builtins): (literal bytes, type ordinal) *)\n")
	fmt.Fprintf(&b, "Definition keyword_tokens : list (list N * Z) :=\n  [%s].\n\n", strings.Join(s3, ";\n   "))
	fmt.Fprintf(&b, "Definition token_type_names : list (Z * string) :=\n  [%s].\n", strings.Join(s4, ";\n   "))
	emit("Gen_Token.v", b.String())
	return true
}

// ---------------------------------------------------------------- precedences, parser tables
func sortedIntKeys(m any) []int64 {
	var ks []int64
	for _, k := range reflect.ValueOf(m).MapKeys() {
		v, err := strconv.ParseInt(k.String(), 10, 64)
		if err != nil {
			fatal("run-time tables: bad key %q", k.String())
		}
		ks = append(ks, v)
	}
	sort.Slice(ks, func(i, j int) bool { return ks[i] < ks[j] })
	return ks
}

func checkPrec(read map[int64]int64) {
	if dyn == nil {
		return
	}
	d := map[int64]int64{}
	for _, k := range sortedIntKeys(dyn.Prec) {
		d[k] = int64(dyn.Prec[strconv.FormatInt(k, 10)])
	}
	if !reflect.DeepEqual(read, d) {
		fatal("ast.Precedences read from the source differs from the run-time map (%d vs %d entries)", len(read), len(d))
	}
}

func dynPrec() bool {
	var e []string
	for _, k := range sortedIntKeys(dyn.Prec) {
		e = append(e, fmt.Sprintf("(%d%%Z, %d%%Z)", k, dyn.Prec[strconv.FormatInt(k, 10)]))
	}
	if len(e) == 0 {
		return false
	}
	var b strings.Builder
	b.WriteString("(* ast.Precedences as it is at run time: (token type ordinal, priority), by token type *)\n")
	fmt.Fprintf(&b, "Definition precedences : list (Z * Z) :=\n  [%s].\n", strings.Join(e, ";\n   "))
	emit("Gen_Prec.v", b.String())
	return true
}

func checkParserTables(read map[string]map[int64]string) {
	if dyn == nil {
		return
	}
	for k, dm := range map[string]map[string]string{"registerPrefix": dyn.Prefix, "registerInfix": dyn.Infix, "registerPostfix": dyn.Postfix} {
		d := map[int64]string{}
		for _, t := range sortedIntKeys(dm) {
			d[t] = dm[strconv.FormatInt(t, 10)]
		}
		if !reflect.DeepEqual(read[k], d) {
			fatal("%s table read from the source differs from the parser's run-time table (%d vs %d entries)", k, len(read[k]), len(d))
		}
	}
}

func dynParserTables() bool {
	var b strings.Builder
	for _, p := range []struct {
		nm, what string
		m        map[string]string
	}{{"prefix_fns", "prefix", dyn.Prefix}, {"infix_fns", "infix", dyn.Infix}, {"postfix_fns", "postfix", dyn.Postfix}} {
		var e []string
		for _, t := range sortedIntKeys(p.m) {
			e = append(e, fmt.Sprintf("(%d%%Z, %q%%string)", t, p.m[strconv.FormatInt(t, 10)]))
		}
		if len(e) == 0 {
			return false
		}
		fmt.Fprintf(&b, "(* the %s parse functions registered by parser.New, as found in a fresh parser at run time, by token type *)\n", p.what)
		fmt.Fprintf(&b, "Definition %s : list (Z * string) :=\n  [%s].\n\n", p.nm, strings.Join(e, ";\n   "))
	}
	emit("Gen_ParserTables.v", b.String())
	return true
}

// ---------------------------------------------------------------- byte predicates
// canonical Gallina expression of a set of bytes: a disjunction of intervals in increasing order
func dynPredicate(name string) (string, bool) {
	if dyn == nil {
		return "", false
	}
	set, ok := dyn.ByteClass[name]
	if !ok {
		return "", false
	}
	in := [256]bool{}
	for _, b := range set {
		if b >= 0 && b < 256 {
			in[b] = true
		}
	}
	var terms []string
	for i := 0; i < 256; {
		if !in[i] {
			i++
			continue
		}
		j := i
		for j+1 < 256 && in[j+1] {
			j++
		}
		if i == j {
			terms = append(terms, fmt.Sprintf("(N.eqb ch %d%%N)", i))
		} else {
			terms = append(terms, fmt.Sprintf("(andb (N.leb %d%%N ch) (N.leb ch %d%%N))", i, j))
		}
		i = j + 1
	}
	if len(terms) == 0 {
		return "false", true
	}
	e := terms[0]
	for _, t := range terms[1:] {
		e = "(orb " + e + " " + t + ")"
	}
	return e, true
}
