// Translator piece for C18: the operation skeleton of repl.AutoSave.
//
// From /repo/repl/repl.go (func AutoSave) it extracts, in source order,
//   * the prelude: every statement before the first file-affecting call (the `!options.AutoSave` and
//     "nothing changed" early returns and the UpdateNumSet bookkeeping), as normalised source text;
//   * the skeleton: the ordered file-affecting calls (os.CreateTemp with its dir+pattern arguments, the
//     SaveGlobals write and its destination, Close/Sync on the handle, os.Rename / os.Remove with their
//     arguments), each with the file-affecting calls found in the `if err != nil { ... }` block that follows it;
//   * the state-file name (repl.AutoSaveFile, resolved through string constants);
//   * what eval.State.UpdateNumSet and State.SaveGlobals return and store (symbolic summary, see summarize);
//   * how Environment.SaveGlobals writes: the Fprintf calls on its destination (one Write per binding).
// Anything the walker does not recognise (a nested / conditional / deferred file operation, an os.* call it has
// no constructor for, an extra return between the steps) is emitted as OpOther "<text>", so the generated
// skeleton then differs from the one the model is written for and the named obligation
// AutoSave_proofs.skeleton_matches breaks.
package main

import (
	"bytes"
	"fmt"
	"go/ast"
	"go/printer"
	"go/token"
	"strconv"
	"strings"
)

func init() { extraGens = append(extraGens, genAutoSave) }

// ---- string constants (only what AutoSave needs): pkgdir.Name -> value
func stringConst(pkgDir, name string, depth int) (string, bool) {
	p := pkgs[pkgDir]
	if p == nil || depth > 8 {
		return "", false
	}
	for _, f := range p.files {
		for _, d := range f.Decls {
			gd, ok := d.(*ast.GenDecl)
			if !ok || gd.Tok != token.CONST {
				continue
			}
			for _, s := range gd.Specs {
				vs := s.(*ast.ValueSpec)
				for i, id := range vs.Names {
					if id.Name != name || i >= len(vs.Values) {
						continue
					}
					return stringExpr(pkgDir, vs.Values[i], depth+1)
				}
			}
		}
	}
	return "", false
}

func stringExpr(pkgDir string, e ast.Expr, depth int) (string, bool) {
	switch x := e.(type) {
	case *ast.BasicLit:
		if x.Kind == token.STRING {
			s, err := strconv.Unquote(x.Value)
			return s, err == nil
		}
	case *ast.Ident:
		return stringConst(pkgDir, x.Name, depth)
	case *ast.SelectorExpr:
		if id, ok := x.X.(*ast.Ident); ok {
			return stringConst(id.Name, x.Sel.Name, depth) // package dir == package name in /repo
		}
	case *ast.ParenExpr:
		return stringExpr(pkgDir, x.X, depth)
	case *ast.BinaryExpr:
		if x.Op == token.ADD {
			a, ok1 := stringExpr(pkgDir, x.X, depth)
			b, ok2 := stringExpr(pkgDir, x.Y, depth)
			return a + b, ok1 && ok2
		}
	}
	return "", false
}

func srcText(fset *token.FileSet, n ast.Node) string {
	var b bytes.Buffer
	_ = printer.Fprint(&b, fset, n)
	return strings.Join(strings.Fields(b.String()), " ")
}

// coqText: a text payload of OpOther / FUnknown as a byte list (Coq's string type is kept out of the extracted
// model because its extraction would shadow OCaml's string), with the text in a comment.
func coqText(s string) string {
	c := strings.ReplaceAll(strings.ReplaceAll(s, "(*", "( *"), "*)", "* )")
	return bytesLit(s) + " (* " + c + " *)"
}

func coqString(s string) string {
	return "\"" + strings.ReplaceAll(s, "\"", "\"\"") + "\"%string"
}

func findFunc(pkgDir, recv, name string) (*ast.FuncDecl, *token.FileSet) {
	p := pkgs[pkgDir]
	if p == nil {
		return nil, nil
	}
	for _, f := range p.files {
		for _, d := range f.Decls {
			fd, ok := d.(*ast.FuncDecl)
			if !ok || fd.Name.Name != name || fd.Body == nil {
				continue
			}
			r := ""
			if fd.Recv != nil && len(fd.Recv.List) == 1 {
				t := fd.Recv.List[0].Type
				if st, ok := t.(*ast.StarExpr); ok {
					t = st.X
				}
				if id, ok := t.(*ast.Ident); ok {
					r = id.Name
				}
			}
			if r == recv {
				return fd, p.fset
			}
		}
	}
	return nil, nil
}

type asWalker struct {
	fset   *token.FileSet
	handle string // variable bound to the *os.File by os.CreateTemp / os.Create
	// inside an inlined callee: parameter name -> Coq fref term of the argument it was called with
	// (the caller's handle, handle.Name(), or a constant path)
	refs map[string]string
	sym  *symRun // symbolic values of local variables, for the canonical rendering of the prelude
}

func (w *asWalker) fref(e ast.Expr) string {
	if id, ok := e.(*ast.Ident); ok {
		if t, ok := w.refs[id.Name]; ok {
			return t
		}
	}
	if ce, ok := e.(*ast.CallExpr); ok && len(ce.Args) == 0 {
		if se, ok := ce.Fun.(*ast.SelectorExpr); ok && se.Sel.Name == "Name" {
			if id, ok := se.X.(*ast.Ident); ok && w.handle != "" && id.Name == w.handle {
				return "FHandle"
			}
		}
	}
	if id, ok := e.(*ast.Ident); ok && w.handle != "" && id.Name == w.handle {
		return "FHandle"
	}
	if s, ok := stringExpr("repl", e, 0); ok {
		return "(FConst " + bytesLit(s) + ")"
	}
	return "(FUnknown " + coqText(srcText(w.fset, e)) + ")"
}

func isVerifOrLog(ce *ast.CallExpr) bool {
	switch f := ce.Fun.(type) {
	case *ast.Ident:
		return strings.HasPrefix(f.Name, "verif")
	case *ast.SelectorExpr:
		if id, ok := f.X.(*ast.Ident); ok && id.Name == "log" {
			return true
		}
	}
	return false
}

// op returns the Coq term for a file-affecting call, or "" if the call is not one.
func (w *asWalker) op(ce *ast.CallExpr) string {
	if fd := samePkgCallee(ce); fd != nil && !isVerifOrLog(ce) && calleeHasOps(fd, 0, nil) {
		return "(OpOther " + coqText("call performing file operations in a position that cannot be inlined: "+srcText(w.fset, ce)) + ")"
	}
	se, ok := ce.Fun.(*ast.SelectorExpr)
	if !ok {
		// a plain function receiving the handle
		for _, a := range ce.Args {
			if id, ok := a.(*ast.Ident); ok && w.handle != "" && id.Name == w.handle {
				return "(OpOther " + coqText(srcText(w.fset, ce)) + ")"
			}
		}
		return ""
	}
	recv, _ := se.X.(*ast.Ident)
	if recv != nil && recv.Name == "os" {
		switch se.Sel.Name {
		case "CreateTemp":
			if len(ce.Args) == 2 {
				d, ok1 := stringExpr("repl", ce.Args[0], 0)
				p, ok2 := stringExpr("repl", ce.Args[1], 0)
				if ok1 && ok2 {
					return "(OpCreateTemp " + bytesLit(d) + " " + bytesLit(p) + ")"
				}
			}
		case "Create":
			if len(ce.Args) == 1 {
				return "(OpCreate " + w.fref(ce.Args[0]) + ")"
			}
		case "Rename":
			if len(ce.Args) == 2 {
				return "(OpRename " + w.fref(ce.Args[0]) + " " + w.fref(ce.Args[1]) + ")"
			}
		case "Remove":
			if len(ce.Args) == 1 {
				return "(OpRemove " + w.fref(ce.Args[0]) + ")"
			}
		case "Getenv", "Getpid", "Exit", "Getwd", "IsNotExist", "IsExist", "Stat", "Lstat", "Open", "ReadFile":
			return "" // not file-affecting
		}
		return "(OpOther " + coqText(srcText(w.fset, ce)) + ")"
	}
	if recv != nil && w.handle != "" && recv.Name == w.handle {
		switch se.Sel.Name {
		case "Name", "Fd", "Stat":
			return ""
		case "Close":
			return "OpClose"
		case "Sync":
			return "OpSync"
		}
		return "(OpOther " + coqText(srcText(w.fset, ce)) + ")"
	}
	if se.Sel.Name == "SaveGlobals" && len(ce.Args) >= 1 {
		return "(OpSave " + w.fref(ce.Args[0]) + ")"
	}
	for _, a := range ce.Args { // any other call receiving the handle (fmt.Fprintf(f, ...), io.Copy(f, ...), ...)
		if id, ok := a.(*ast.Ident); ok && w.handle != "" && id.Name == w.handle {
			return "(OpOther " + coqText(srcText(w.fset, ce)) + ")"
		}
	}
	return ""
}

// opsIn lists the file-affecting calls below n in source order (arguments before the call that uses them).
func (w *asWalker) opsIn(n ast.Node) []string {
	var out []string
	var visit func(n ast.Node)
	visit = func(n ast.Node) {
		ast.Inspect(n, func(x ast.Node) bool {
			if x == nil {
				return false
			}
			if fl, ok := x.(*ast.FuncLit); ok {
				out = append(out, "(OpOther "+coqText("func literal: "+srcText(w.fset, fl))+")")
				return false
			}
			ce, ok := x.(*ast.CallExpr)
			if !ok {
				return true
			}
			for _, a := range ce.Args {
				visit(a)
			}
			visit(ce.Fun)
			if o := w.op(ce); o != "" && !isVerifOrLog(ce) {
				out = append(out, o)
			}
			return false
		})
	}
	visit(n)
	return out
}

func isErrNotNil(e ast.Expr) bool {
	be, ok := e.(*ast.BinaryExpr)
	if !ok || be.Op != token.NEQ {
		return false
	}
	a, ok1 := be.X.(*ast.Ident)
	b, ok2 := be.Y.(*ast.Ident)
	return ok1 && ok2 && a.Name == "err" && b.Name == "nil"
}

func hasReturn(n ast.Node) bool {
	found := false
	ast.Inspect(n, func(x ast.Node) bool {
		if _, ok := x.(*ast.ReturnStmt); ok {
			found = true
		}
		if _, ok := x.(*ast.FuncLit); ok {
			return false
		}
		return !found
	})
	return found
}

// preludeText renders a prelude statement; `if c { log...; return x }` becomes "if c return x" so that
// editing a log message does not disturb the obligation.
func preludeText(fset *token.FileSet, st ast.Stmt) string {
	ifs, ok := st.(*ast.IfStmt)
	if !ok || ifs.Init != nil || ifs.Else != nil {
		return srcText(fset, st)
	}
	var rest []ast.Stmt
	for _, b := range ifs.Body.List {
		if es, ok := b.(*ast.ExprStmt); ok {
			if ce, ok := es.X.(*ast.CallExpr); ok && isVerifOrLog(ce) {
				continue
			}
		}
		rest = append(rest, b)
	}
	if len(rest) == 1 {
		if r, ok := rest[0].(*ast.ReturnStmt); ok {
			return "if " + srcText(fset, ifs.Cond) + " " + srcText(fset, r)
		}
	}
	return srcText(fset, st)
}

type asStep struct {
	op    string
	onerr []string
}

type asCollector struct {
	steps   []asStep
	prelude []string
}

const maxInlineDepth = 2

// samePkgCallee resolves a call to a function (or uniquely named method) of package repl declared with a body.
func samePkgCallee(ce *ast.CallExpr) *ast.FuncDecl {
	p := pkgs["repl"]
	if p == nil {
		return nil
	}
	name, method := "", false
	switch f := ce.Fun.(type) {
	case *ast.Ident:
		name = f.Name
	case *ast.SelectorExpr:
		if x, ok := f.X.(*ast.Ident); ok {
			for _, file := range p.files { // a package-qualified call is not a method call
				for _, im := range file.Imports {
					path, _ := strconv.Unquote(im.Path.Value)
					base := path[strings.LastIndex(path, "/")+1:]
					if (im.Name != nil && im.Name.Name == x.Name) || (im.Name == nil && base == x.Name) {
						return nil
					}
				}
			}
		}
		name, method = f.Sel.Name, true
	default:
		return nil
	}
	var found *ast.FuncDecl
	for _, file := range p.files {
		for _, d := range file.Decls {
			fd, ok := d.(*ast.FuncDecl)
			if !ok || fd.Body == nil || fd.Name.Name != name || (fd.Recv != nil) != method {
				continue
			}
			if found != nil {
				return nil // ambiguous (twin files, several receiver types): not inlined
			}
			found = fd
		}
	}
	return found
}

// calleeHasOps: does the body of fd (callees inlined) contain a file-affecting call?
var hasOpsMemo = map[*ast.FuncDecl]int{} // 1 = being computed, 2 = no, 3 = yes

func calleeHasOps(fd *ast.FuncDecl, depth int, stack []string) bool {
	switch hasOpsMemo[fd] {
	case 1, 2: // re-entered (recursive function): the outer computation decides
		return false
	case 3:
		return true
	}
	hasOpsMemo[fd] = 1
	w := &asWalker{fset: pkgs["repl"].fset, refs: map[string]string{}}
	col := &asCollector{}
	w.walk(fd.Body.List, col, false, 0, []string{fd.Name.Name})
	if len(col.steps) > 0 {
		hasOpsMemo[fd] = 3
		return true
	}
	hasOpsMemo[fd] = 2
	return false
}

func returnsError(fd *ast.FuncDecl) bool {
	if fd.Type.Results == nil {
		return false
	}
	for _, r := range fd.Type.Results.List {
		if id, ok := r.Type.(*ast.Ident); ok && id.Name == "error" {
			return true
		}
	}
	return false
}

// flatten rewrites `if x := call(); err != nil { ... }` (Init form, condition exactly err != nil, no else) into the
// statement followed by the plain `if err != nil { ... }` block the walker knows.
func flatten(stmts []ast.Stmt) []ast.Stmt {
	var out []ast.Stmt
	for _, st := range stmts {
		if ifs, ok := st.(*ast.IfStmt); ok && ifs.Init != nil && ifs.Else == nil && isErrNotNil(ifs.Cond) {
			switch ifs.Init.(type) {
			case *ast.AssignStmt, *ast.ExprStmt:
				out = append(out, ifs.Init, &ast.IfStmt{If: ifs.If, Cond: ifs.Cond, Body: ifs.Body})
				continue
			}
		}
		out = append(out, st)
	}
	return out
}

// callOf returns the call when the statement is exactly `... := call(...)`, `... = call(...)` or `call(...)`.
func callOf(st ast.Stmt) *ast.CallExpr {
	switch s := st.(type) {
	case *ast.AssignStmt:
		if len(s.Rhs) == 1 {
			if ce, ok := s.Rhs[0].(*ast.CallExpr); ok {
				return ce
			}
		}
	case *ast.ExprStmt:
		if ce, ok := s.X.(*ast.CallExpr); ok {
			return ce
		}
	}
	return nil
}

func assignsErr(st ast.Stmt) bool {
	if as, ok := st.(*ast.AssignStmt); ok {
		for _, l := range as.Lhs {
			if id, ok := l.(*ast.Ident); ok && id.Name == "err" {
				return true
			}
		}
	}
	return false
}

// walk appends the skeleton of a statement list to col.  hasPrior: file operations already happened before this
// list (in the caller).  A call, standing alone in a statement, to a function of the same package that performs
// file operations is INLINED (up to maxInlineDepth levels): its statements are walked in place with its parameters
// bound to the handle / path arguments, its own `if err != nil { ...; return ..., err }` blocks are the error
// blocks of its steps, and the caller's error block after the call is appended to every inlined step.  What cannot
// be inlined faithfully (recursion, too deep, the error of the inlined call not checked by the caller, a call nested
// in an expression or in a compound statement) becomes OpOther.
func (w *asWalker) walk(stmts []ast.Stmt, col *asCollector, hasPrior bool, depth int, stack []string) {
	fset := w.fset
	stmts = flatten(stmts)
	other := func(what string) string { return "(OpOther " + coqText(what) + ")" }
	var group []int      // indices in col.steps produced by the previous statement
	groupInlined := false // ... by an inlined call (its caller-side error block applies to all of them)
	unchecked := false    // the previous statement's error result has not been looked at yet
	flushUnchecked := func() {
		if unchecked && len(group) > 0 {
			for _, g := range group {
				col.steps[g].onerr = append(col.steps[g].onerr, other("error not checked right after the call"))
			}
		}
		unchecked = false
	}
	for i, st := range stmts {
		prior := hasPrior || len(col.steps) > 0
		// skip verif hooks and logging statements everywhere
		if es, ok := st.(*ast.ExprStmt); ok {
			if ce, ok := es.X.(*ast.CallExpr); ok && isVerifOrLog(ce) && len(w.opsIn(ce)) == 0 {
				continue
			}
		}
		// the error block of the preceding step(s)
		if ifs, ok := st.(*ast.IfStmt); ok && len(group) > 0 && ifs.Init == nil && ifs.Else == nil && isErrNotNil(ifs.Cond) {
			blockOps := w.opsIn(ifs.Body)
			if n := len(ifs.Body.List); n == 0 {
				blockOps = append(blockOps, other("error ignored: "+srcText(fset, ifs)))
			} else if _, isRet := ifs.Body.List[n-1].(*ast.ReturnStmt); !isRet {
				blockOps = append(blockOps, other("error block does not return: "+srcText(fset, ifs)))
			}
			targets := group[len(group)-1:]
			if groupInlined {
				targets = group
			}
			for _, g := range targets {
				col.steps[g].onerr = append(col.steps[g].onerr, blockOps...)
			}
			unchecked = false
			group = nil
			continue
		}
		flushUnchecked()
		group, groupInlined = nil, false
		// bind the handle variable
		if as, ok := st.(*ast.AssignStmt); ok && len(as.Rhs) == 1 {
			if ce, ok := as.Rhs[0].(*ast.CallExpr); ok {
				if se, ok := ce.Fun.(*ast.SelectorExpr); ok {
					if id, ok := se.X.(*ast.Ident); ok && id.Name == "os" && (se.Sel.Name == "CreateTemp" || se.Sel.Name == "Create" || se.Sel.Name == "OpenFile") {
						if lhs, ok := as.Lhs[0].(*ast.Ident); ok {
							w.handle = lhs.Name
							delete(w.refs, lhs.Name)
						}
					}
				}
			}
		}
		// a call standing alone in the statement to a function of this package that performs file operations: inline
		if ce := callOf(st); ce != nil && !isVerifOrLog(ce) {
			if fd := samePkgCallee(ce); fd != nil {
				passesHandle := false
				for _, a := range ce.Args {
					if r := w.fref(a); r == "FHandle" {
						passesHandle = true
					}
				}
				if calleeHasOps(fd, depth, stack) || passesHandle {
					argOps := 0
					for _, a := range ce.Args {
						argOps += len(w.opsIn(a))
					}
					recursive := false
					for _, n := range stack {
						recursive = recursive || n == fd.Name.Name
					}
					before := len(col.steps)
					switch {
					case recursive || depth >= maxInlineDepth || argOps > 0 || ce.Ellipsis.IsValid():
						col.steps = append(col.steps, asStep{op: other("call not inlined (recursion, nesting depth or file operations in its arguments): " + srcText(fset, ce))})
					default:
						w2 := &asWalker{fset: fset, refs: map[string]string{}}
						pi := 0
						if fd.Type.Params != nil {
							for _, f := range fd.Type.Params.List {
								for _, nm := range f.Names {
									if pi < len(ce.Args) {
										a := ce.Args[pi]
										r := w.fref(a)
										if !strings.HasPrefix(r, "(FUnknown") {
											w2.refs[nm.Name] = r
											if id, ok := a.(*ast.Ident); ok && r == "FHandle" && (id.Name == w.handle || w.refs[id.Name] == "FHandle") {
												w2.handle = nm.Name // the *os.File itself is passed: method calls on the parameter are handle operations
											}
										}
									}
									pi++
								}
							}
						}
						pj := 0
						if fd.Type.Params != nil {
							for _, f := range fd.Type.Params.List {
								for _, nm := range f.Names {
									if pj < len(ce.Args) {
										w2.symEnv().params[nm.Name] = w.symEnv().expr(ce.Args[pj])
									}
									pj++
								}
							}
						}
						sub := &asCollector{}
						w2.walk(fd.Body.List, sub, prior, depth+1, append(append([]string{}, stack...), fd.Name.Name))
						if !prior {
							col.prelude = append(col.prelude, sub.prelude...)
						}
						col.steps = append(col.steps, sub.steps...)
					}
					for g := before; g < len(col.steps); g++ {
						group = append(group, g)
					}
					groupInlined = true
					// the callee reports failures through its error result: the caller must look at it next
					unchecked = returnsError(fd)
					if unchecked && !assignsErr(st) {
						flushUnchecked() // result dropped on the floor
					}
					continue
				}
			}
		}
		// a local that merely names the handle's path or a constant path (`tmpName := f.Name()`): no I/O, remember it
		if as, ok := st.(*ast.AssignStmt); ok && len(as.Lhs) == 1 && len(as.Rhs) == 1 && len(w.opsIn(as)) == 0 {
			if id, ok := as.Lhs[0].(*ast.Ident); ok && id.Name != "_" {
				if r := w.fref(as.Rhs[0]); !strings.HasPrefix(r, "(FUnknown") {
					w.refs[id.Name] = r
				} else {
					delete(w.refs, id.Name)
				}
			}
		}
		var ops []string
		plain := false
		switch s := st.(type) {
		case *ast.AssignStmt, *ast.ExprStmt:
			ops = w.opsIn(s)
			plain = true
		case *ast.DeferStmt:
			if o := w.opsIn(s.Call); len(o) > 0 {
				ops = []string{other(srcText(fset, s))}
			}
		case *ast.ReturnStmt:
			// `return call(...)` as the last statement: the call's error goes straight to the caller, which is the
			// same as `x, err := call(...); if err != nil { return ..., err }; return x, nil`
			if o := w.opsIn(s); len(o) > 0 {
				if ce, ok := s.Results[0].(*ast.CallExpr); ok && i == len(stmts)-1 && len(s.Results) == 1 && samePkgCallee(ce) == nil {
					ops = o
				} else {
					ops = []string{other("nested: " + srcText(fset, st))}
				}
			}
		default: // compound statement: any file operation inside is conditional / repeated
			if o := w.opsIn(st); len(o) > 0 {
				ops = []string{other("nested: " + srcText(fset, st))}
			} else if prior && hasReturn(st) && i != len(stmts)-1 {
				ops = []string{other("early return between steps: " + srcText(fset, st))}
			}
		}
		if len(ops) == 0 {
			if !prior {
				col.prelude = append(col.prelude, w.preludeLines(st)...)
			} else if _, ok := st.(*ast.ReturnStmt); ok && i != len(stmts)-1 {
				col.steps = append(col.steps, asStep{op: other("early return between steps: " + srcText(fset, st))})
			}
			continue
		}
		for _, o := range ops {
			col.steps = append(col.steps, asStep{op: o})
			group = append(group, len(col.steps)-1)
		}
		// a fallible call whose error is assigned must be checked by the next statement; `_ = f()` / bare `f()` is an
		// error that is never looked at
		if plain {
			unchecked = true
			if !assignsErr(st) {
				flushUnchecked()
			}
		}
	}
	flushUnchecked()
}

// ---- symbolic summary of a small straight-line method: independent of local variable names, of the name of the
// private field(s) it stores into, of single versus tuple assignment, of named versus explicit results, and of
// zero-argument one-line helper methods of the same receiver type (inlined).  Anything else in the body (branches,
// loops, other statements) makes the summary start with "unrecognised:" followed by the source text.
type symRun struct {
	pkg    string
	fset   *token.FileSet
	recv   string
	rtype  string
	params map[string]string
	vars   map[string]string
	fields map[string]string // stored field -> canonical name
	asts   map[string]ast.Expr // local -> the expression it was last assigned (single-valued assignments)
	subs   map[string][2]string // rendered difference "(a - b)" -> its operands
	rec    func(string)         // when set: every call evaluated is reported once, in evaluation order
	order  []string
	ok     bool
	depth  int
}

func recvOf(fd *ast.FuncDecl) (name, typ string) {
	if fd.Recv == nil || len(fd.Recv.List) != 1 {
		return "", ""
	}
	t := fd.Recv.List[0].Type
	if st, ok := t.(*ast.StarExpr); ok {
		t = st.X
	}
	if id, ok := t.(*ast.Ident); ok {
		typ = id.Name
	}
	if len(fd.Recv.List[0].Names) == 1 {
		name = fd.Recv.List[0].Names[0].Name
	}
	return
}

func (r *symRun) expr(e ast.Expr) string {
	switch x := e.(type) {
	case *ast.Ident:
		if x.Name == r.recv && r.recv != "" {
			return "s"
		}
		if v, ok := r.vars[x.Name]; ok {
			return v
		}
		if v, ok := r.params[x.Name]; ok {
			return v
		}
		return x.Name
	case *ast.BasicLit:
		return x.Value
	case *ast.ParenExpr:
		return r.expr(x.X)
	case *ast.SelectorExpr:
		if id, ok := x.X.(*ast.Ident); ok && id.Name == r.recv && r.recv != "" {
			if v, ok := r.vars["s."+x.Sel.Name]; ok {
				return v
			}
			if c, ok := r.fields[x.Sel.Name]; ok {
				return "init(" + c + ")"
			}
			return "s." + x.Sel.Name
		}
		return r.expr(x.X) + "." + x.Sel.Name
	case *ast.UnaryExpr:
		return x.Op.String() + r.expr(x.X)
	case *ast.BinaryExpr:
		a, b := r.expr(x.X), r.expr(x.Y)
		v := "(" + a + " " + x.Op.String() + " " + b + ")"
		if x.Op == token.SUB {
			if r.subs == nil {
				r.subs = map[string][2]string{}
			}
			r.subs[v] = [2]string{a, b}
		}
		return v
	case *ast.CallExpr:
		if res, ok := r.inlineFunc(x); ok && len(res) == 1 {
			return res[0]
		}
		// zero-argument one-line helper of the same receiver type: inline its returned expression
		if se, ok := x.Fun.(*ast.SelectorExpr); ok && len(x.Args) == 0 && r.depth < 2 {
			if id, ok := se.X.(*ast.Ident); ok && id.Name == r.recv && r.recv != "" {
				if fd, _ := findFunc(r.pkg, r.rtype, se.Sel.Name); fd != nil && len(fd.Body.List) == 1 {
					if ret, ok := fd.Body.List[0].(*ast.ReturnStmt); ok && len(ret.Results) == 1 {
						hn, _ := recvOf(fd)
						sub := &symRun{pkg: r.pkg, fset: r.fset, recv: hn, rtype: r.rtype, params: map[string]string{}, vars: map[string]string{}, fields: r.fields, ok: true, depth: r.depth + 1}
						for k, v := range r.vars { // current values of the receiver's fields are visible to the helper
							if strings.HasPrefix(k, "s.") {
								sub.vars[k] = v
							}
						}
						v := sub.expr(ret.Results[0])
						r.ok = r.ok && sub.ok
						return v
					}
				}
			}
		}
		args := make([]string, len(x.Args))
		for i, a := range x.Args {
			args[i] = r.expr(a)
		}
		v := r.expr(x.Fun) + "(" + strings.Join(args, ", ") + ")"
		if r.rec != nil && !isVerifOrLog(x) {
			r.rec("eval " + v)
		}
		return v
	}
	return "?" + srcText(r.fset, e)
}

// inlineFunc evaluates a call to a plain function of the same package whose body is straight-line (assignments to
// locals, then one return): parameters bound to the argument values, calls made inside reported through rec.
func (r *symRun) inlineFunc(ce *ast.CallExpr) ([]string, bool) {
	id, ok := ce.Fun.(*ast.Ident)
	if !ok || r.depth >= 2 || r.rec == nil {
		return nil, false
	}
	fd, _ := findFunc(r.pkg, "", id.Name)
	if fd == nil || len(fd.Body.List) == 0 || ce.Ellipsis.IsValid() {
		return nil, false
	}
	for i, st := range fd.Body.List { // shape check first: nothing is evaluated (or reported) unless it fits
		switch x := st.(type) {
		case *ast.AssignStmt:
			if x.Tok != token.DEFINE && x.Tok != token.ASSIGN {
				return nil, false
			}
			for _, l := range x.Lhs {
				if _, ok := l.(*ast.Ident); !ok {
					return nil, false
				}
			}
			if len(x.Rhs) != len(x.Lhs) && len(x.Rhs) != 1 {
				return nil, false
			}
		case *ast.ReturnStmt:
			if i != len(fd.Body.List)-1 || len(x.Results) == 0 {
				return nil, false
			}
		case *ast.ExprStmt:
			if c, ok := x.X.(*ast.CallExpr); !ok || !isVerifOrLog(c) {
				return nil, false
			}
		default:
			return nil, false
		}
	}
	if _, ok := fd.Body.List[len(fd.Body.List)-1].(*ast.ReturnStmt); !ok {
		return nil, false
	}
	sub := &symRun{pkg: r.pkg, fset: r.fset, params: map[string]string{}, vars: map[string]string{}, fields: map[string]string{}, ok: true, depth: r.depth + 1, rec: r.rec}
	if r.subs == nil {
		r.subs = map[string][2]string{}
	}
	sub.subs = r.subs
	pi := 0
	if fd.Type.Params != nil {
		for _, f := range fd.Type.Params.List {
			for _, nm := range f.Names {
				if pi < len(ce.Args) {
					sub.params[nm.Name] = r.expr(ce.Args[pi])
				}
				pi++
			}
		}
	}
	for _, st := range fd.Body.List {
		switch x := st.(type) {
		case *ast.AssignStmt:
			sub.assign(x)
		case *ast.ReturnStmt:
			var res []string
			for _, e := range x.Results {
				res = append(res, sub.expr(e))
			}
			return res, true
		}
	}
	return nil, false
}

// assign evaluates an assignment to local identifiers (each right-hand side once)
func (r *symRun) assign(x *ast.AssignStmt) {
	var vals []string
	if len(x.Rhs) == len(x.Lhs) {
		for _, e := range x.Rhs {
			vals = append(vals, r.expr(e))
		}
	} else {
		if ce, ok := x.Rhs[0].(*ast.CallExpr); ok {
			if res, ok := r.inlineFunc(ce); ok && len(res) == len(x.Lhs) {
				vals = res
			}
		}
		if vals == nil {
			v := r.expr(x.Rhs[0])
			for k := range x.Lhs {
				vals = append(vals, fmt.Sprintf("%s#%d", v, k))
			}
		}
	}
	for k, l := range x.Lhs {
		if id, ok := l.(*ast.Ident); ok && id.Name != "_" {
			r.vars[id.Name] = vals[k]
		}
	}
}

func summarize(pkgDir string, fd *ast.FuncDecl) []string {
	p := pkgs[pkgDir]
	rn, rt := recvOf(fd)
	r := &symRun{pkg: pkgDir, fset: p.fset, recv: rn, rtype: rt, params: map[string]string{}, vars: map[string]string{}, fields: map[string]string{}, ok: true}
	pi := 0
	if fd.Type.Params != nil {
		for _, f := range fd.Type.Params.List {
			for _, nm := range f.Names {
				r.params[nm.Name] = fmt.Sprintf("ARG%d", pi)
				pi++
			}
		}
	}
	// fields of the receiver that are stored into, in source order
	ast.Inspect(fd.Body, func(n ast.Node) bool {
		if as, ok := n.(*ast.AssignStmt); ok {
			for _, l := range as.Lhs {
				if se, ok := l.(*ast.SelectorExpr); ok {
					if id, ok := se.X.(*ast.Ident); ok && id.Name == rn && rn != "" {
						if _, seen := r.fields[se.Sel.Name]; !seen {
							r.fields[se.Sel.Name] = ""
							r.order = append(r.order, se.Sel.Name)
						}
					}
				}
			}
		}
		return true
	})
	for i, f := range r.order {
		if len(r.order) == 1 {
			r.fields[f] = "FIELD"
		} else {
			r.fields[f] = fmt.Sprintf("FIELD%d", i+1)
		}
	}
	var named []string
	if fd.Type.Results != nil {
		for _, f := range fd.Type.Results.List {
			for _, nm := range f.Names {
				named = append(named, nm.Name)
			}
		}
	}
	var results []string
	returned := false
	for i, st := range fd.Body.List {
		switch x := st.(type) {
		case *ast.ExprStmt:
			if ce, ok := x.X.(*ast.CallExpr); ok && isVerifOrLog(ce) {
				continue
			}
			r.ok = false
		case *ast.AssignStmt:
			if x.Tok != token.ASSIGN && x.Tok != token.DEFINE {
				r.ok = false
				break
			}
			var vals []string
			if len(x.Rhs) == len(x.Lhs) {
				for _, e := range x.Rhs {
					vals = append(vals, r.expr(e))
				}
			} else if len(x.Rhs) == 1 {
				v := r.expr(x.Rhs[0])
				for k := range x.Lhs {
					vals = append(vals, fmt.Sprintf("%s#%d", v, k))
				}
			} else {
				r.ok = false
				break
			}
			for k, l := range x.Lhs {
				switch lx := l.(type) {
				case *ast.Ident:
					if lx.Name != "_" {
						r.vars[lx.Name] = vals[k]
					}
				case *ast.SelectorExpr:
					if id, ok := lx.X.(*ast.Ident); ok && id.Name == rn && rn != "" {
						r.vars["s."+lx.Sel.Name] = vals[k]
					} else {
						r.ok = false
					}
				default:
					r.ok = false
				}
			}
		case *ast.ReturnStmt:
			if i != len(fd.Body.List)-1 {
				r.ok = false
				break
			}
			returned = true
			if len(x.Results) == 0 {
				for _, nm := range named {
					if v, ok := r.vars[nm]; ok {
						results = append(results, v)
					} else {
						results = append(results, "zero")
					}
				}
			} else {
				for _, e := range x.Results {
					results = append(results, r.expr(e))
				}
			}
		default:
			r.ok = false
		}
	}
	if !r.ok || (!returned && fd.Type.Results != nil && len(fd.Type.Results.List) > 0) {
		out := []string{"unrecognised:"}
		for _, st := range fd.Body.List {
			out = append(out, srcText(p.fset, st))
		}
		return out
	}
	// `a, b := f(x); return a, b` is `return f(x)`
	if len(results) > 1 {
		base, all := strings.TrimSuffix(results[0], "#0"), true
		for i, v := range results {
			all = all && v == fmt.Sprintf("%s#%d", base, i)
		}
		if all {
			results = []string{base}
		}
	}
	var out []string
	for i, v := range results {
		out = append(out, fmt.Sprintf("result%d = %s", i, v))
	}
	for _, f := range r.order {
		out = append(out, r.fields[f]+" := "+r.vars["s."+f])
	}
	return out
}

// ---- canonical prelude: the statements before the first file operation, rendered by what they do.
// Locals are replaced by their symbolic values (so `u := a - b; if u == 0` and `if a == b` read the same), the
// function's parameters are ARGi, every call evaluated is listed once, in order, as "eval <call>", an early return is
// "if <condition> return <results>"; pure assignments and log calls leave no line.  `x - y == 0` is `x == y` and the
// operands of == / != are put in a fixed order.
func (w *asWalker) symEnv() *symRun {
	if w.sym == nil {
		w.sym = &symRun{pkg: "repl", fset: w.fset, params: map[string]string{}, vars: map[string]string{}, fields: map[string]string{}, ok: true}
	}
	return w.sym
}

func (r *symRun) resolveAST(e ast.Expr) ast.Expr {
	for i := 0; i < 8; i++ {
		switch x := e.(type) {
		case *ast.ParenExpr:
			e = x.X
			continue
		case *ast.Ident:
			if a, ok := r.asts[x.Name]; ok {
				e = a
				continue
			}
		}
		break
	}
	return e
}

func isZeroLit(e ast.Expr) bool {
	if p, ok := e.(*ast.ParenExpr); ok {
		return isZeroLit(p.X)
	}
	b, ok := e.(*ast.BasicLit)
	return ok && b.Kind == token.INT && b.Value == "0"
}

func (r *symRun) cond(e ast.Expr) string {
	switch x := e.(type) {
	case *ast.ParenExpr:
		return r.cond(x.X)
	case *ast.UnaryExpr:
		if x.Op == token.NOT {
			return "!" + r.cond(x.X)
		}
	case *ast.BinaryExpr:
		switch x.Op {
		case token.LAND, token.LOR:
			return "(" + r.cond(x.X) + " " + x.Op.String() + " " + r.cond(x.Y) + ")"
		case token.EQL, token.NEQ:
			a, b := x.X, x.Y
			if isZeroLit(a) {
				a, b = b, a
			}
			l, rr := r.expr(a), r.expr(b)
			if isZeroLit(b) { // d == 0 with d = p - q  (wrap-around integers: the same as p == q)
				if pq, ok := r.subs[l]; ok {
					l, rr = pq[0], pq[1]
				}
			}
			if rr < l {
				l, rr = rr, l
			}
			return "(" + l + " " + x.Op.String() + " " + rr + ")"
		}
	}
	return r.expr(e)
}

func (w *asWalker) preludeLines(st ast.Stmt) []string {
	r := w.symEnv()
	var lines []string
	r.rec = func(l string) { lines = append(lines, l) }
	defer func() { r.rec = nil }()
	switch x := st.(type) {
	case *ast.DeclStmt: // var x T : pure
		if gd, ok := x.Decl.(*ast.GenDecl); ok && gd.Tok == token.VAR {
			pure := true
			for _, sp := range gd.Specs {
				if vs, ok := sp.(*ast.ValueSpec); ok && len(vs.Values) > 0 {
					pure = false
				}
			}
			if pure {
				return nil
			}
		}
	case *ast.AssignStmt:
		if x.Tok != token.ASSIGN && x.Tok != token.DEFINE {
			break
		}
		allIdent := true
		for _, l := range x.Lhs {
			if _, ok := l.(*ast.Ident); !ok {
				allIdent = false
			}
		}
		if !allIdent || (len(x.Rhs) != len(x.Lhs) && len(x.Rhs) != 1) {
			break
		}
		r.assign(x)
		return lines
	case *ast.IfStmt:
		if x.Init != nil || x.Else != nil {
			break
		}
		var rest []ast.Stmt
		for _, b := range x.Body.List {
			if es, ok := b.(*ast.ExprStmt); ok {
				if ce, ok := es.X.(*ast.CallExpr); ok && isVerifOrLog(ce) {
					continue
				}
			}
			rest = append(rest, b)
		}
		if len(rest) == 1 {
			if ret, ok := rest[0].(*ast.ReturnStmt); ok {
				c := r.cond(x.Cond)
				var res []string
				for _, e := range ret.Results {
					res = append(res, r.expr(e))
				}
				return append(lines, "if "+c+" return "+strings.Join(res, ", "))
			}
		}
	}
	return []string{"stmt " + preludeText(w.fset, st)}
}

// ---- write discipline of Environment.SaveGlobals: counts that do not depend on how the line is built.
type wdState struct {
	dst       string
	unchecked int
	noNewline int
	other     int
	maxIter   int // max number of writes on a path through one iteration of the binding loop
	outside   int
}

func (d *wdState) isWriteCall(ce *ast.CallExpr) bool {
	if isVerifOrLog(ce) {
		return false
	}
	for _, a := range ce.Args {
		if id, ok := a.(*ast.Ident); ok && id.Name == d.dst {
			return true
		}
	}
	if se, ok := ce.Fun.(*ast.SelectorExpr); ok {
		if id, ok := se.X.(*ast.Ident); ok && id.Name == d.dst {
			return true
		}
	}
	return false
}

// writesIn lists the write calls directly in a simple statement / expression (not inside nested blocks)
func (d *wdState) writesIn(n ast.Node) []*ast.CallExpr {
	var out []*ast.CallExpr
	if n == nil {
		return nil
	}
	ast.Inspect(n, func(x ast.Node) bool {
		switch c := x.(type) {
		case *ast.BlockStmt, *ast.FuncLit:
			return false
		case *ast.CallExpr:
			if d.isWriteCall(c) {
				out = append(out, c)
			}
		}
		return true
	})
	return out
}

func (d *wdState) classifyWrite(ce *ast.CallExpr) {
	name := ""
	if se, ok := ce.Fun.(*ast.SelectorExpr); ok {
		if id, ok := se.X.(*ast.Ident); ok {
			name = id.Name + "." + se.Sel.Name
		}
	}
	switch name {
	case "fmt.Fprintf":
		if len(ce.Args) < 2 {
			d.noNewline++
		} else if f, ok := stringExpr("object", ce.Args[1], 0); !ok || !strings.HasSuffix(f, "\n") {
			d.noNewline++
		}
	case "fmt.Fprintln":
	case "fmt.Fprint", d.dst + ".Write", "io.WriteString", d.dst + ".WriteString":
		last := ce.Args[len(ce.Args)-1]
		if f, ok := stringExpr("object", last, 0); !ok || !strings.HasSuffix(f, "\n") {
			if be, ok := last.(*ast.BinaryExpr); ok && be.Op == token.ADD {
				if t, ok := stringExpr("object", be.Y, 0); ok && strings.HasSuffix(t, "\n") {
					return
				}
			}
			d.noNewline++
		}
	default:
		d.other++ // the writer handed to something the translator does not know
	}
}

// errChecked: `..., e := write(...)` followed by `if e != nil { ...; return ..., e }`
func errChecked(st ast.Stmt, next ast.Stmt) bool {
	as, ok := st.(*ast.AssignStmt)
	if !ok || len(as.Lhs) == 0 {
		return false
	}
	id, ok := as.Lhs[len(as.Lhs)-1].(*ast.Ident)
	if !ok || id.Name == "_" {
		return false
	}
	ifs, ok := next.(*ast.IfStmt)
	if !ok || ifs.Init != nil {
		return false
	}
	be, ok := ifs.Cond.(*ast.BinaryExpr)
	if !ok || be.Op != token.NEQ {
		return false
	}
	a, ok1 := be.X.(*ast.Ident)
	nl, ok2 := be.Y.(*ast.Ident)
	if !ok1 || !ok2 || a.Name != id.Name || nl.Name != "nil" || len(ifs.Body.List) == 0 {
		return false
	}
	ret, ok := ifs.Body.List[len(ifs.Body.List)-1].(*ast.ReturnStmt)
	if !ok {
		return false
	}
	for _, r := range ret.Results {
		found := false
		ast.Inspect(r, func(x ast.Node) bool {
			if i, ok := x.(*ast.Ident); ok && i.Name == id.Name {
				found = true
			}
			return true
		})
		if found {
			return true
		}
	}
	return false
}

// block walks a statement list; cur = writes so far on this path of the current iteration.  Returns the count on
// the fall-through path, or -1 when every path leaves the block (continue / return / break).
func (d *wdState) block(stmts []ast.Stmt, cur int, inLoop bool) int {
	stmts = flatten(stmts)
	for i, st := range stmts {
		switch x := st.(type) {
		case *ast.BlockStmt:
			if cur = d.block(x.List, cur, inLoop); cur < 0 {
				return -1
			}
		case *ast.IfStmt:
			for _, ce := range d.writesIn(x.Init) {
				d.classifyWrite(ce)
				d.unchecked++ // not the flattened `if _, err := w(); err != nil` form
				cur++
			}
			for _, ce := range d.writesIn(x.Cond) {
				d.classifyWrite(ce)
				d.unchecked++
				cur++
			}
			a := d.block(x.Body.List, cur, inLoop)
			b := cur
			switch e := x.Else.(type) {
			case *ast.BlockStmt:
				b = d.block(e.List, cur, inLoop)
			case *ast.IfStmt:
				b = d.block([]ast.Stmt{e}, cur, inLoop)
			}
			if a < 0 && b < 0 {
				return -1
			}
			cur = max(a, b)
		case *ast.RangeStmt, *ast.ForStmt:
			var body *ast.BlockStmt
			if r, ok := x.(*ast.RangeStmt); ok {
				body = r.Body
			} else {
				body = x.(*ast.ForStmt).Body
			}
			if inLoop { // a loop inside the binding loop: any write in it may repeat
				n := 0
				ast.Inspect(body, func(y ast.Node) bool {
					if ce, ok := y.(*ast.CallExpr); ok && d.isWriteCall(ce) {
						d.classifyWrite(ce)
						n++
					}
					return true
				})
				if n > 0 {
					cur += 99
				}
			} else {
				d.block(body.List, 0, true)
			}
		case *ast.BranchStmt, *ast.ReturnStmt:
			for _, ce := range d.writesIn(st) {
				d.classifyWrite(ce)
				d.unchecked++
				cur++
			}
			if inLoop {
				d.maxIter = max(d.maxIter, cur)
			}
			return -1
		case *ast.SwitchStmt, *ast.TypeSwitchStmt, *ast.SelectStmt, *ast.DeferStmt, *ast.GoStmt:
			n := 0
			ast.Inspect(st, func(y ast.Node) bool {
				if ce, ok := y.(*ast.CallExpr); ok && d.isWriteCall(ce) {
					d.classifyWrite(ce)
					n++
				}
				return true
			})
			if n > 0 {
				d.other += n // not analysed: counted as unknown uses
				cur += n
			}
		default:
			ws := d.writesIn(st)
			for _, ce := range ws {
				d.classifyWrite(ce)
				var next ast.Stmt
				if i+1 < len(stmts) {
					next = stmts[i+1]
				}
				if len(ws) != 1 || callOf(st) != ce || !errChecked(st, next) {
					d.unchecked++
				}
				if inLoop {
					cur++
				} else {
					d.outside++
				}
			}
		}
	}
	if inLoop {
		d.maxIter = max(d.maxIter, cur)
	}
	return cur
}

func writeDiscipline(fd *ast.FuncDecl) []string {
	d := &wdState{}
	if fd.Type.Params != nil && len(fd.Type.Params.List) > 0 && len(fd.Type.Params.List[0].Names) > 0 {
		d.dst = fd.Type.Params.List[0].Names[0].Name
	}
	d.block(fd.Body.List, 0, false)
	return []string{
		fmt.Sprintf("writes outside the loop over the bindings = %d", d.outside),
		fmt.Sprintf("max writes on a path through one iteration = %d", d.maxIter),
		fmt.Sprintf("writes whose error is not checked and returned right away = %d", d.unchecked),
		fmt.Sprintf("writes not ending in a newline = %d", d.noNewline),
		fmt.Sprintf("other uses of the writer = %d", d.other),
	}
}

func genAutoSave() {
	fd, fset := findFunc("repl", "", "AutoSave")
	if fd == nil {
		fatal("repl.AutoSave not found")
	}
	w := &asWalker{fset: fset, refs: map[string]string{}}
	pi := 0
	for _, f := range fd.Type.Params.List {
		for _, nm := range f.Names {
			w.symEnv().params[nm.Name] = fmt.Sprintf("ARG%d", pi)
			pi++
		}
	}
	col := &asCollector{}
	w.walk(fd.Body.List, col, false, 0, []string{"AutoSave"})
	steps, prelude := col.steps, col.prelude
	stateFile, ok := stringConst("repl", "AutoSaveFile", 0)
	if !ok {
		fatal("repl.AutoSaveFile is not a resolvable string constant")
	}

	var b strings.Builder
	b.WriteString("(* Operation skeleton of repl.AutoSave (/repo/repl/repl.go), extracted by gen/gen_autosave.go. *)\n")
	b.WriteString("Inductive fref : Type :=\n| FHandle                      (* the file opened by os.CreateTemp / os.Create: the handle or handle.Name() *)\n| FConst (name : list N)       (* a constant path *)\n| FUnknown (expr : list N).    (* source text of an argument the translator cannot resolve *)\n\n")
	b.WriteString("Inductive sop : Type :=\n| OpCreateTemp (dir pattern : list N)   (* handle, err := os.CreateTemp(dir, pattern) *)\n| OpCreate (path : fref)                (* handle, err := os.Create(path) *)\n| OpSave (dst : fref)                   (* X.SaveGlobals(dst) : one Write per saved binding *)\n| OpClose                               (* handle.Close() *)\n| OpSync                                (* handle.Sync() *)\n| OpRename (src dst : fref)             (* os.Rename(src, dst) *)\n| OpRemove (path : fref)                (* os.Remove(path) *)\n| OpOther (what : list N).              (* anything the translator has no constructor for (source text) *)\n\n")
	b.WriteString("(* one step = a file-affecting call + the file-affecting calls of the `if err != nil {...; return err}` block after it *)\nRecord sstep : Type := mkstep { st_op : sop; st_onerr : list sop }.\n\n")
	b.WriteString("Definition autosave_state_file : list N := " + bytesLit(stateFile) + ".   (* repl.AutoSaveFile = " + strconv.Quote(stateFile) + " *)\n\n")
	b.WriteString("(* statements of AutoSave before its first file-affecting call *)\nDefinition autosave_prelude : list string :=\n  [")
	for i, p := range prelude {
		if i > 0 {
			b.WriteString(";\n   ")
		}
		b.WriteString(coqString(p))
	}
	b.WriteString("].\n\n")
	b.WriteString("Definition autosave_skeleton : list sstep :=\n  [")
	for i, s := range steps {
		if i > 0 {
			b.WriteString(";\n   ")
		}
		fmt.Fprintf(&b, "mkstep %s [%s]", s.op, strings.Join(s.onerr, "; "))
	}
	b.WriteString("].\n\n")

	// eval.State.UpdateNumSet and eval.State.SaveGlobals: what they return and store, not how they are spelled
	un, _ := findFunc("eval", "State", "UpdateNumSet")
	if un == nil {
		fatal("eval.State.UpdateNumSet not found")
	}
	writeList := func(l []string) {
		for i, x := range l {
			if i > 0 {
				b.WriteString(";\n   ")
			}
			b.WriteString(coqString(x))
		}
	}
	b.WriteString("(* effect of eval.State.UpdateNumSet, from a symbolic run of its straight-line body: results in order, then\n   the stores into fields of the receiver; FIELD = the (private) field it stores into, init(FIELD) = that field's\n   value on entry, ARGi = the i-th parameter, s = the receiver *)\nDefinition updatenumset_body : list string :=\n  [")
	writeList(summarize("eval", un))
	b.WriteString("].\n\n")

	sg, _ := findFunc("eval", "State", "SaveGlobals")
	if sg == nil {
		fatal("eval.State.SaveGlobals not found")
	}
	b.WriteString("(* effect of eval.State.SaveGlobals (same notation) *)\nDefinition state_saveglobals_body : list string :=\n  [")
	writeList(summarize("eval", sg))
	b.WriteString("].\n\n")
	eg, efset := findFunc("object", "Environment", "SaveGlobals")
	if eg == nil {
		fatal("object.Environment.SaveGlobals not found")
	}
	_ = efset
	b.WriteString("(* how object.Environment.SaveGlobals uses its destination writer, whatever builds the text: the writes are\n   fmt.Fprint* / Write calls on it inside the loop over the bindings, at most one on any path through one iteration,\n   each with its error checked by the very next statement and returned, each ending in a newline *)\nDefinition saveglobals_writes : list string :=\n  [")
	writeList(writeDiscipline(eg))
	b.WriteString("].\n")
	emit("Gen_AutoSave.v", b.String())
}
