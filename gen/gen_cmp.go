// Translator piece for C12/C11: reads func Cmp of object/object.go and emits Gen_Cmp.v:
//   object_Cmp_panic_types : the type ordinals listed in those `case` clauses of Cmp's `switch ti`
//                            whose body is a panic(...) call (types Cmp refuses to compare)
//   object_Cmp_cased_types : every ordinal that has a case clause in that switch
// The model (coq/model/Cmp.v) consults object_Cmp_panic_types, and cmp_never_panics is proved from the
// computed side condition that no ordinal a value can have is in that list.
package main

import (
	"fmt"
	"go/ast"
	"strings"
)

func init() { extraGens = append(extraGens, genCmp) }

func isPanicBody(body []ast.Stmt) bool {
	if len(body) == 0 {
		return false
	}
	es, ok := body[0].(*ast.ExprStmt)
	if !ok {
		return false
	}
	ce, ok := es.X.(*ast.CallExpr)
	if !ok {
		return false
	}
	id, ok := ce.Fun.(*ast.Ident)
	return ok && id.Name == "panic"
}

func genCmp() {
	p := pkgs["object"]
	var fn *ast.FuncDecl
	for _, f := range p.files {
		for _, d := range f.Decls {
			if fd, ok := d.(*ast.FuncDecl); ok && fd.Recv == nil && fd.Name.Name == "Cmp" {
				fn = fd
			}
		}
	}
	if fn == nil || fn.Body == nil {
		fatal("object.Cmp not found")
	}
	var panics, cased []string
	found := false
	ast.Inspect(fn.Body, func(n ast.Node) bool {
		sw, ok := n.(*ast.SwitchStmt)
		if !ok {
			return true
		}
		tag, ok := sw.Tag.(*ast.Ident)
		if !ok || tag.Name != "ti" {
			return true
		}
		found = true
		for _, s := range sw.Body.List {
			cc := s.(*ast.CaseClause)
			for _, e := range cc.List {
				id, ok := e.(*ast.Ident)
				if !ok {
					fatal("object.Cmp: case expression is not a type name")
				}
				v, ok := consts["object."+id.Name]
				if !ok {
					fatal("object.Cmp: unknown type name %s", id.Name)
				}
				cased = append(cased, zlit(v))
				if isPanicBody(cc.Body) {
					panics = append(panics, zlit(v))
				}
			}
			if cc.List == nil && isPanicBody(cc.Body) { // a panicking default clause: every type not cased
				fatal("object.Cmp: panicking default clause not supported by the translator")
			}
		}
		return false
	})
	if !found {
		fatal("object.Cmp: `switch ti` not found")
	}
	var b strings.Builder
	b.WriteString("(* from func Cmp of object/object.go: ordinals in the case clauses of `switch ti` whose body panics *)\n")
	fmt.Fprintf(&b, "Definition object_Cmp_panic_types : list Z := [%s].\n", strings.Join(panics, "; "))
	b.WriteString("(* every ordinal that has a case clause in that switch *)\n")
	fmt.Fprintf(&b, "Definition object_Cmp_cased_types : list Z := [%s].\n", strings.Join(cased, "; "))
	emit("Gen_Cmp.v", b.String())
}
