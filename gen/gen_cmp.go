// Translator piece for C12/C11: reads func Cmp of object/object.go and emits Gen_Cmp.v:
//   object_Cmp_panic_types : the type ordinals listed in those `case` clauses of Cmp's `switch ti`
//                            whose body is a panic(...) call (types Cmp refuses to compare)
//   object_Cmp_cased_types : every ordinal that has a case clause in that switch
// The model (coq/model/Cmp.v) consults object_Cmp_panic_types, and cmp_never_panics is proved from the
// computed side condition that no ordinal a value can have is in that list.
package main

import (
	"fmt"
	"go/ast"
	"strings"
)

func init() { extraGens = append(extraGens, genCmp) }

func isPanicBody(body []ast.Stmt) bool {
	if len(body) == 0 {
		return false
	}
	es, ok := body[0].(*ast.ExprStmt)
	if !ok {
		return false
	}
	ce, ok := es.X.(*ast.CallExpr)
	if !ok {
		return false
	}
	id, ok := ce.Fun.(*ast.Ident)
	return ok && id.Name == "panic"
}

// cmpTypeSwitch finds, in fn or in the same-package functions it calls (two levels: Cmp may hand the work to helpers), the
// switch whose tag is an identifier and whose case expressions are all names of object type constants, at least five of them.
func cmpTypeSwitch(decls map[string]*ast.FuncDecl, fn *ast.FuncDecl, depth int, seen map[string]bool) *ast.SwitchStmt {
	if fn == nil || fn.Body == nil || seen[fn.Name.Name] {
		return nil
	}
	seen[fn.Name.Name] = true
	var res *ast.SwitchStmt
	var callees []string
	ast.Inspect(fn.Body, func(n ast.Node) bool {
		if res != nil {
			return false
		}
		switch x := n.(type) {
		case *ast.SwitchStmt:
			if _, ok := x.Tag.(*ast.Ident); !ok {
				return true
			}
			names := 0
			for _, s := range x.Body.List {
				for _, e := range s.(*ast.CaseClause).List {
					id, ok := e.(*ast.Ident)
					if !ok {
						return true
					}
					if _, ok := consts["object."+id.Name]; !ok {
						return true
					}
					names++
				}
			}
			if names >= 5 {
				res = x
				return false
			}
		case *ast.CallExpr:
			if id, ok := x.Fun.(*ast.Ident); ok {
				callees = append(callees, id.Name)
			}
		}
		return true
	})
	if res != nil || depth == 0 {
		return res
	}
	for _, c := range callees {
		if r := cmpTypeSwitch(decls, decls[c], depth-1, seen); r != nil {
			return r
		}
	}
	return nil
}

func genCmp() {
	p := pkgs["object"]
	decls := map[string]*ast.FuncDecl{}
	for _, f := range p.files {
		for _, d := range f.Decls {
			if fd, ok := d.(*ast.FuncDecl); ok && fd.Recv == nil {
				decls[fd.Name.Name] = fd
			}
		}
	}
	fn := decls["Cmp"]
	if fn == nil || fn.Body == nil {
		fatal("object.Cmp not found")
	}
	var panics, cased []string
	sw := cmpTypeSwitch(decls, fn, 2, map[string]bool{})
	if sw == nil {
		fatal("object.Cmp: the switch over the type ordinal was not found in Cmp or in the helpers it calls")
	}
	for _, s := range sw.Body.List {
		cc := s.(*ast.CaseClause)
		for _, e := range cc.List {
			id := e.(*ast.Ident)
			v := consts["object."+id.Name]
			cased = append(cased, zlit(v))
			if isPanicBody(cc.Body) {
				panics = append(panics, zlit(v))
			}
		}
		if cc.List == nil && isPanicBody(cc.Body) { // a panicking default clause: every type not cased
			fatal("object.Cmp: panicking default clause not supported by the translator")
		}
	}
	var b strings.Builder
	b.WriteString("(* from func Cmp of object/object.go: ordinals in the case clauses of `switch ti` whose body panics *)\n")
	fmt.Fprintf(&b, "Definition object_Cmp_panic_types : list Z := [%s].\n", strings.Join(panics, "; "))
	b.WriteString("(* every ordinal that has a case clause in that switch *)\n")
	fmt.Fprintf(&b, "Definition object_Cmp_cased_types : list Z := [%s].\n", strings.Join(cased, "; "))
	emit("Gen_Cmp.v", b.String())
}
