(* MODEL: trie_model *)
(* case:  <id> TRIE <w1,w2,...|-> <query> ...   query ::= C:<hex> | Q:<hex> | T:<hex>
   out :  <id> C=<0|1> | Q=<l>:<w,w,..> | T=none | T=<hex>:<l>                         *)
let () = iter_lines (fun line ->
  match split_on ' ' line with
  | id :: "TRIE" :: ws :: qs ->
    let words = if ws = "-" then [] else List.map (fun h -> bytes_of_hex (if h = "e" then "" else h)) (split_on ',' ws) in
    let t = build words in
    let outs = List.map (fun q ->
      let k = q.[0] and arg = bytes_of_hex (String.sub q 2 (String.length q - 2)) in
      match k with
      | 'C' -> if contains t arg then "C=1" else "C=0"
      | 'Q' -> let (l, res) = prefix_all t arg in
               Printf.sprintf "Q=%d:%s" (int_of_nat l) (String.concat "," (List.map hex_of_bytes res))
      | 'T' -> (match complete t arg with
                | None -> "T=none"
                | Some (w, l) -> Printf.sprintf "T=%s:%d" (hex_of_bytes w) (int_of_nat l))
      | _ -> failwith "bad query") qs in
    print_endline (String.concat " " (id :: outs))
  | _ -> ())
