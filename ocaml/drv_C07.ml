(* MODEL: arith_model *)
(* cases (see harness/cmd/C07/main.go):
     <id> IOP <token ordinal> <a> <b> <free>          -> V I<z> | V R <len> <first|-> | E | G memory | P <class>
     <id> SLICE <S|A|M|N|O> <len> <l> <r|->           -> V <i,i+1,..>|- | V N | E | P <class>       l,r ::= int | nil | f
     <id> INDEX <kind> <len> <i>                       -> V <i> | V N | V L | E | P <class>
     <id> IASSIGN <len> <i>                            -> V <pos> | E | P <class>
     <id> REP <S|A> <len> <r> <free>                   -> V <len> | E | G memory | P <class>
     <id> CONCAT <l1> <l2> <free>                      -> V <len> | G memory
     <id> EXT <min> <max> <types|-> <arg>...|-         -> V C <ty,..>|- | E       arg ::= ty:under[:ty.under+...]
     <id> SITES                                        -> SITES accounted | SITES unaccounted              *)
let pk = function
  | PDivZero -> "divide" | PNegShift -> "shift" | PSliceBounds -> "slice-bounds" | PIndexRange -> "index"
  | PMakeSlice -> "makeslice" | PRepeatCount -> "repeat-count" | PRepeatOverflow -> "repeat-overflow"
let show (f : 'a -> string) (o : 'a outcome) : string =
  match o with
  | Val a -> "V " ^ f a
  | LangError -> "E"
  | GoPanic k -> "P " ^ pk k
  | Guard GMemory -> "G memory"
  | Guard GMaxDepth -> "G depth"
let kind_of = function "S" -> CString | "A" -> CArray | "M" -> CMap | "N" -> CNil | _ -> COther
let idx_of s = if s = "nil" then XNil else if s = "f" then XOther else XInt (z_of_string s)
let range_list lo hi =
  let lo = int_of_z lo and hi = int_of_z hi in
  if hi <= lo then "-" else String.concat "," (List.init (hi - lo) (fun i -> string_of_int (lo + i)))
let earg_of s =
  match split_on ':' s with
  | [ty; un] -> { ea_ty = z_of_string ty; ea_under = z_of_string un; ea_elems = [] }
  | [ty; un; els] ->
    let es = List.map (fun e -> match split_on '.' e with
                                 | [a; b] -> (z_of_string a, z_of_string b) | _ -> failwith "bad elem") (split_on '+' els) in
    { ea_ty = z_of_string ty; ea_under = z_of_string un; ea_elems = es }
  | _ -> failwith "bad arg"
let () = iter_lines (fun line ->
  match split_on ' ' line with
  | [id; "IOP"; t; a; b; free] ->
    let r = int_infix (z_of_string free) (iop_of_token (z_of_string t)) (z_of_string a) (z_of_string b) in
    let f = function
      | RInt z -> "I" ^ string_of_z z
      | RRange (lo, hi) ->
        let n = Int64.sub (int64_of_z hi) (int64_of_z lo) in
        if Int64.equal n 0L then "R 0 -" else Printf.sprintf "R %Ld %s" n (string_of_z lo) in
    print_endline (id ^ " " ^ show f r)
  | [id; "SLICE"; k; len; l; r] ->
    let rb = if r = "-" then RAbsent else RBound (idx_of r) in
    let res = index_range (kind_of k) (z_of_string len) (idx_of l) rb in
    let f = function SRange (lo, hi) -> range_list lo hi | SNull -> "N" in
    print_endline (id ^ " " ^ show f res)
  | [id; "INDEX"; k; len; i] ->
    let res = index_expr (kind_of k) (z_of_string len) (idx_of i) in
    let f = function XElem j -> string_of_z j | XNull -> "N" | XMapLookup -> "L" in
    print_endline (id ^ " " ^ show f res)
  | [id; "IASSIGN"; len; i] ->
    print_endline (id ^ " " ^ show string_of_z (index_assign (z_of_string len) (idx_of i)))
  | [id; "REP"; k; len; r; free] ->
    let f = if k = "S" then string_repeat else array_repeat in
    print_endline (id ^ " " ^ show string_of_z (f (z_of_string free) (z_of_string len) (z_of_string r)))
  | [id; "CONCAT"; l1; l2; free] ->
    print_endline (id ^ " " ^ show string_of_z (array_concat (z_of_string free) (z_of_string l1) (z_of_string l2)))
  | id :: "EXT" :: mn :: mx :: tys :: args ->
    let types = if tys = "-" then [] else List.map z_of_string (split_on ',' tys) in
    let args = if args = ["-"] then [] else List.map earg_of args in
    let res = apply_ext_validate (z_of_string mn) (z_of_string mx) types args in
    let f l = if l = [] then "C -" else "C " ^ String.concat "," (List.map (fun a -> string_of_z a.ea_ty) l) in
    print_endline (id ^ " " ^ show f res)
  | [id; "SITES"] ->
    print_endline (id ^ (if panic_sites_accounted then " SITES accounted" else " SITES unaccounted"))
  | _ -> ())
