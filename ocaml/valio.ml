(* Reader / printer for the canonical value syntax of harness/common/x_values.go over the extracted
   Values.value (needs zhelpers.ml).  value ::= I<dec> | F<16 hex> | B0 | B1 | N | S<hex> | A[v,...] | M{k:v,...}
                                               | U<hex> | X<hex> | Q<hex> | C<hex> | E<hex> | R<hex>            *)
let fl_of_bits (bits : int64) : fl =
  let neg = Int64.compare bits 0L < 0 in
  let e = Int64.to_int (Int64.logand (Int64.shift_right_logical bits 52) 0x7ffL) in
  let frac = Int64.logand bits 0xfffffffffffffL in
  if e = 0x7ff then (if Int64.equal frac 0L then FInf neg else FNaN)
  else if e = 0 then FFin (neg, n_of_uint64 frac, z_of_int (-1074))
  else FFin (neg, n_of_uint64 (Int64.logor frac 0x10000000000000L), z_of_int (e - 1075))

(* inverse of fl_of_bits on its image (values only travel through the model, they are never computed) *)
let bits_of_fl (f : fl) : int64 =
  match f with
  | FNaN -> 0x7ff8000000000001L
  | FInf neg -> if neg then 0xfff0000000000000L else 0x7ff0000000000000L
  | FFin (neg, m, e) ->
    let m = uint64_of_n m and e = int_of_z e in
    let s = if neg then Int64.min_int else 0L in
    if Int64.compare m 0x10000000000000L < 0 then Int64.logor s m
    else Int64.logor s (Int64.logor (Int64.shift_left (Int64.of_int (e + 1075)) 52) (Int64.logand m 0xfffffffffffffL))

let rec print_value (v : value) : string =
  match v with
  | VInt z -> "I" ^ string_of_z z
  | VFloat f -> Printf.sprintf "F%016Lx" (bits_of_fl f)
  | VBool b -> if b then "B1" else "B0"
  | VNil -> "N"
  | VStr s -> "S" ^ hex_of_bytes s
  | VArr l -> "A[" ^ String.concat "," (List.map print_value l) ^ "]"
  | VMap l -> "M{" ^ String.concat "," (List.map (fun (k, x) -> print_value k ^ ":" ^ print_value x) l) ^ "}"
  | VTxt (k, s) ->
    (match k with KFunc -> "U" | KExt -> "X" | KQuote -> "Q" | KMacro -> "C" | KErr -> "E" | KRet -> "R") ^ hex_of_bytes s

exception Bad_value of string

(* parse one value starting at !pos *)
let parse_value (s : string) : value =
  let pos = ref 0 in
  let n = String.length s in
  let until_stop () =
    let st = !pos in
    while !pos < n && not (List.mem s.[!pos] [','; ':'; ']'; '}']) do incr pos done;
    String.sub s st (!pos - st) in
  let rec value () : value =
    if !pos >= n then raise (Bad_value s);
    let c = s.[!pos] in
    incr pos;
    match c with
    | 'I' -> VInt (z_of_string (until_stop ()))
    | 'F' -> VFloat (fl_of_bits (Int64.of_string ("0x" ^ until_stop ())))
    | 'B' -> VBool (until_stop () = "1")
    | 'N' -> VNil
    | 'S' -> VStr (bytes_of_hex (until_stop ()))
    | 'U' -> VTxt (KFunc, bytes_of_hex (until_stop ()))
    | 'X' -> VTxt (KExt, bytes_of_hex (until_stop ()))
    | 'Q' -> VTxt (KQuote, bytes_of_hex (until_stop ()))
    | 'C' -> VTxt (KMacro, bytes_of_hex (until_stop ()))
    | 'E' -> VTxt (KErr, bytes_of_hex (until_stop ()))
    | 'R' -> VTxt (KRet, bytes_of_hex (until_stop ()))
    | 'A' ->
      if !pos >= n || s.[!pos] <> '[' then raise (Bad_value s);
      incr pos;
      let acc = ref [] in
      while !pos < n && s.[!pos] <> ']' do
        acc := value () :: !acc;
        if !pos < n && s.[!pos] = ',' then incr pos
      done;
      incr pos;
      VArr (List.rev !acc)
    | 'M' ->
      if !pos >= n || s.[!pos] <> '{' then raise (Bad_value s);
      incr pos;
      let acc = ref [] in
      while !pos < n && s.[!pos] <> '}' do
        let k = value () in
        if !pos >= n || s.[!pos] <> ':' then raise (Bad_value s);
        incr pos;
        let x = value () in
        acc := (k, x) :: !acc;
        if !pos < n && s.[!pos] = ',' then incr pos
      done;
      incr pos;
      VMap (List.rev !acc)
    | _ -> raise (Bad_value s) in
  let v = value () in
  if !pos <> n then raise (Bad_value s);
  v
