(* MODEL: lexer_model *)
(* case:  <id> LEX <hex src>
   out :  <id> F <tok,tok,...> + <tok,tok> L <tok,...> + <tok,tok>
          tok = <type ordinal>:<hex literal>@<start>-<end>:<ws><nl>
   The token list is produced by iterating next_token (at most n+2 calls, up to and including the first end
   marker), followed by 2 more next_token calls after the end marker; lex_all must give the same list. *)
let b01 b = if b then "1" else "0"
let show (t : ltok) =
  Printf.sprintf "%d:%s@%d-%d:%s%s" (int_of_z t.lt_type) (hex_of_bytes t.lt_lit) (int_of_nat t.lt_start)
    (int_of_nat t.lt_end) (b01 t.lt_ws) (b01 t.lt_nl)
let show_list l = if l = [] then "-" else String.concat "," (List.map show l)
let run (line : bool) (src : n list) : string =
  let n = List.length src in
  let rec go i pos acc =
    if i >= n + 2 then (List.rev acc, pos, false)
    else
      let (t, pos') = next_token line src pos in
      if is_end t then (List.rev (t :: acc), pos', true)
      else if int_of_z t.lt_type < 0 then (List.rev (t :: acc), pos', false)
      else go (i + 1) pos' (t :: acc) in
  let (toks, pos, ended) = go 0 O [] in
  let post =
    if not ended then []
    else
      let (t1, p1) = next_token line src pos in
      let (t2, _) = next_token line src p1 in
      [t1; t2] in
  let all = lex_all line src in
  let s = show_list toks ^ " + " ^ show_list post in
  if show_list all = show_list toks then s else s ^ " LEXALL-MISMATCH"
let () = iter_lines (fun line ->
  match split_on ' ' line with
  | [id; "LEX"; hex] ->
    let src = bytes_of_hex hex in
    print_endline (id ^ " F " ^ run false src ^ " L " ^ run true src)
  | _ -> ())
