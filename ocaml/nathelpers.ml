(* nat helpers: only for models whose extraction contains the type nat *)
let rec nat_of_int (i : int) : nat = if i <= 0 then O else S (nat_of_int (i - 1))
let int_of_nat (x : nat) : int = let rec go acc = function O -> acc | S m -> go (acc + 1) m in go 0 x
