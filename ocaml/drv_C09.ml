(* MODEL: guards_model *)
(* cases (see harness/cmd/C09/main.go):
     <id> DEPTH <limit> <ndefs> <main> <[bf stmts]> <[bg stmts]> <n>   -> G depth | OK | FUEL
        gexpr ::= L | I(e,e) | X(e,e) | P(e) | A(e) | N(e) | R(e) | F(e,[e,..]) | Y[e,..] | B[e,..]
                | M[e:e,..] | C(e,[args],[body]) | Z(e,[args])
     <id> REP <S|A> <len> <r> <free> | RANGE <a> <b> <free> | CONCAT <l1> <l2> <free>
                                                                       -> V <n> | E | G memory | P <class>   *)
let pk = function
  | PDivZero -> "divide" | PNegShift -> "shift" | PSliceBounds -> "slice-bounds" | PIndexRange -> "index"
  | PMakeSlice -> "makeslice" | PRepeatCount -> "repeat-count" | PRepeatOverflow -> "repeat-overflow"
let show (f : 'a -> string) (o : 'a outcome) : string =
  match o with
  | Val a -> "V " ^ f a | LangError -> "E" | GoPanic k -> "P " ^ pk k
  | Guard GMemory -> "G memory" | Guard GMaxDepth -> "G depth"
let rec nat_of_int (i : int) : nat = if i <= 0 then O else S (nat_of_int (i - 1))
(* recursive descent over the compact gexpr syntax *)
let parse_gexpr (s : string) : gexpr =
  let pos = ref 0 in
  let peek () = if !pos < String.length s then s.[!pos] else '\000' in
  let eat ch = if peek () = ch then incr pos else failwith (Printf.sprintf "expected %c at %d in %s" ch !pos s) in
  let rec expr () : gexpr =
    let k = peek () in incr pos;
    match k with
    | 'L' -> GLeaf
    | 'I' -> eat '('; let a = expr () in eat ','; let b = expr () in eat ')'; GInfix (a, b)
    | 'X' -> eat '('; let a = expr () in eat ','; let b = expr () in eat ')'; GIndex (a, b)
    | 'P' -> eat '('; let a = expr () in eat ')'; GPrefix a
    | 'A' -> eat '('; let a = expr () in eat ')'; GAssign a
    | 'N' -> eat '('; let a = expr () in eat ')'; GIfNot a
    | 'R' -> eat '('; let a = expr () in eat ')'; GReturn a
    | 'F' -> eat '('; let a = expr () in eat ','; let l = list () in eat ')'; GIf (a, l)
    | 'Y' -> GArray (list ())
    | 'B' -> GBuiltin (list ())
    | 'M' -> eat '[';
      let rec kvs acc =
        if peek () = ']' then (incr pos; List.rev acc)
        else begin
          if acc <> [] then eat ',';
          let k = expr () in eat ':'; let v = expr () in kvs ((k, v) :: acc)
        end in
      GMapLit (kvs [])
    | 'C' -> eat '('; let f = expr () in eat ','; let a = list () in eat ','; let b = list () in eat ')'; GCall (f, a, b)
    | 'Z' -> eat '('; let f = expr () in eat ','; let a = list () in eat ')'; GRec (f, a)
    | c -> failwith (Printf.sprintf "bad gexpr char %c in %s" c s)
  and list () : gexpr list =
    eat '[';
    let rec items acc =
      if peek () = ']' then (incr pos; List.rev acc)
      else begin
        if acc <> [] then eat ',';
        let e = expr () in items (e :: acc)
      end in
    items [] in
  expr ()
let parse_list (s : string) : gexpr list =
  match parse_gexpr ("Y" ^ s) with GArray l -> l | _ -> failwith "bad list"
let () = iter_lines (fun line ->
  match split_on ' ' line with
  | [id; "DEPTH"; limit; ndefs; main; bf; bg; n] ->
    let t = program (nat_of_int (int_of_string ndefs)) (parse_gexpr main) (parse_list bf) (parse_list bg)
              (nat_of_int (int_of_string n)) in
    let r = match guard_fires (z_of_string limit) t with
      | Some true -> "G depth" | Some false -> "OK" | None -> "FUEL" in
    print_endline (id ^ " " ^ r)
  | [id; "REP"; k; len; r; free] ->
    let f = if k = "S" then string_repeat else array_repeat in
    print_endline (id ^ " " ^ show string_of_z (f (z_of_string free) (z_of_string len) (z_of_string r)))
  | [id; "RANGE"; a; b; free] ->
    let f = function
      | RRange (lo, hi) -> Int64.to_string (Int64.sub (int64_of_z hi) (int64_of_z lo))
      | RInt z -> "I" ^ string_of_z z in
    print_endline (id ^ " " ^ show f (int_infix (z_of_string free) IRange (z_of_string a) (z_of_string b)))
  | [id; "CONCAT"; l1; l2; free] ->
    print_endline (id ^ " " ^ show string_of_z (array_concat (z_of_string free) (z_of_string l1) (z_of_string l2)))
  | _ -> ())
