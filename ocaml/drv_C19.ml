(* MODEL: constenv_model *)
(* case:  <id> CST <R|N> <F|FL|P> <names> <event>;<event>;...
     R|N: registers on / off.   F|P: repaired code / pinned code; FL: repaired code, bindings observed after the last event only (no constant test on the register paths, containers written in place)
     names: n1,n2,...  the names whose top-level value is reported after every event
     event ::= <scope>:<attempt>      scope ::= T (top level) | F (inside func(){..}()) | G (two functions deep) | L (inside for 2 {..})
     attempt ::= AS,<name>,<expr>,<0|1 define> | IN,<name>,<delta>,<0|1 prefix> | IX,<name>,<key>,<val> | DE,<name>,<key> | DL,<name>
               | FI,<name>,<a>,<b> | FL,<name>,<count>.<val>... | CL,<name>,<val> | RD,<name>
               | CA,<name>,<y>,<key>,<val>   (func(name){y[key]=val;name}(y))
     expr ::= <val> | N:<y> (y) | S:<y>:<l>:<r> (y[l:r]) | W:<y> ([y]) | X:<y>:<key> (y[key]) | R:<y> (func(){y}())
            | P:<y>:<val> (y+[val]) | C:<y>:<key>:<val> (func(pp){pp[key]=val;pp}(y))
     val  ::= i<int> | f<q> (the float q/4) | z (-0.0) | n | s<hex> | b0 | b1 | a<count>.<val>... | m<count>.<key>.<val>...
     key  ::= i<int> | f<q> | z | s<hex>                                        tokens separated by '.'
   out :  <id> C:<name>=<0|1>,... | <obs> | <obs> ...     obs ::= (ok=<Inspect rendering> | err) <name>=<exact rendering or -> ...
          (a function prints as <fn>; a binding holding a function as <fn>=><exact rendering of what calling it returns>)
          (the exact rendering writes every float with a fraction: 1.0, -0.0) *)
let tokens s = String.split_on_char '.' s
let tail s = String.sub s 1 (String.length s - 1)
let parse_num (t : string) : num =
  match t.[0] with
  | 'i' -> NInt (z_of_string (tail t))
  | 'f' -> NFlt (z_of_string (tail t))
  | 'z' -> NNegZero
  | _ -> failwith ("bad number token " ^ t)
let parse_key_tok (t : string) : key =
  if t.[0] = 's' then KStr (bytes_of_hex (tail t)) else KNum (parse_num t)
let rec parse_val (ts : string list) : cval * string list =
  match ts with
  | [] -> failwith "value: no token"
  | t :: rest ->
    (match t.[0] with
     | 'i' | 'f' | 'z' -> (XNum (parse_num t), rest)
     | 'n' -> (XNil, rest)
     | 's' -> (XStr (bytes_of_hex (tail t)), rest)
     | 'b' -> (XBool (tail t = "1"), rest)
     | 'a' -> let n = int_of_string (tail t) in
       let rec go k ts acc = if k = 0 then (List.rev acc, ts) else let (v, ts') = parse_val ts in go (k - 1) ts' (v :: acc) in
       let (l, rest') = go n rest [] in (XArr l, rest')
     | 'm' -> let n = int_of_string (tail t) in
       let rec go k ts acc = if k = 0 then (List.rev acc, ts) else
         (match ts with
          | kt :: ts1 -> let (v, ts') = parse_val ts1 in go (k - 1) ts' ((parse_key_tok kt, v) :: acc)
          | [] -> failwith "map: no key") in
       let (l, rest') = go n rest [] in (XMap l, rest')
     | _ -> failwith ("bad value token " ^ t))
let parse_cval (s : string) : cval = fst (parse_val (tokens s))
let name_of s = List.init (String.length s) (fun i -> n_of_int (Char.code s.[i]))
(* expr ::= <val> | N:<y> | S:<y>:<l>:<r> | W:<y> | X:<y>:<key> | R:<y> | P:<y>:<val> | C:<y>:<key>:<val>
          | Q:<y>:<val> (y+val) | T:<y>:<l>:<r>:<val> (y[l:r]+val) | M:<id>:<n>:<val> (func(){n=val;func(){n}}()) | K:<id>:<val> (mk(val), mk=func(mkn){func(){mkn}})
          | G:<g> (g()) | B:<id>:<n>:<val> (func(n){[()=>n, writers...]}(val): a bundle of closures over the parameter n)
          id: unique per occurrence
   event W:<g>,<inner>: one closure of the bundle g called at top level (after the maker returned) *)
let parse_expr (s : string) : expr =
  if String.length s > 1 && s.[1] = ':' then
    (match String.split_on_char ':' s with
     | ["N"; y] -> EName (name_of y)
     | ["S"; y; l; r] -> ESlice (name_of y, z_of_string l, z_of_string r)
     | ["W"; y] -> EWrap (name_of y)
     | ["X"; y; k] -> EIndex (name_of y, parse_key_tok k)
     | ["R"; y] -> ERet (name_of y)
     | ["P"; y; v] -> EAppend (name_of y, parse_cval v)
     | ["C"; y; k; v] -> ECallSet (name_of y, parse_key_tok k, parse_cval v)
     | ["Q"; y; v] -> EPlus (EName (name_of y), parse_cval v)
     | ["T"; y; l; r; v] -> EPlus (ESlice (name_of y, z_of_string l, z_of_string r), parse_cval v)
     | ["M"; id; n; v] -> EMkClo (nat_of_int (int_of_string id), name_of n, parse_cval v)
     | ["K"; id; v] -> EMaker (nat_of_int (int_of_string id), parse_cval v)
     | ["B"; id; n; v] -> EMkParam (nat_of_int (int_of_string id), name_of n, parse_cval v)
     | ["G"; g] -> ECallClo (name_of g)
     | _ -> failwith ("bad expr " ^ s))
  else ELit (parse_cval s)
let parse_attempt s =
  match String.split_on_char ',' s with
  | ["AS"; n; ex; d] -> AAssign (name_of n, parse_expr ex, d = "1")
  | ["IN"; n; d; p] -> AIncr (name_of n, z_of_string d, p = "1")
  | ["IX"; n; k; v] -> AIdxSet (name_of n, parse_key_tok k, parse_cval v)
  | ["DE"; n; k] -> ADelElem (name_of n, parse_key_tok k)
  | ["DL"; n] -> ADelete (name_of n)
  | ["FI"; n; a; b] -> AForInt (name_of n, z_of_string a, z_of_string b)
  | ["FL"; n; l] ->
    (match tokens l with
     | c :: ts -> let rec go k ts acc = if k = 0 then List.rev acc else let (v, ts') = parse_val ts in go (k - 1) ts' (v :: acc) in
       AForList (name_of n, go (int_of_string c) ts [])
     | [] -> failwith "FL")
  | ["CL"; n; v] -> ACall (name_of n, parse_cval v)
  | ["CA"; n; y; k; v] -> ACallAlias (name_of n, name_of y, parse_key_tok k, parse_cval v)
  | ["RD"; n] -> ARead (name_of n)
  | _ -> failwith ("bad attempt " ^ s)
(* W:<g>,<inner>   inner ::= RD | AS,<val>,<0|1> | PM,<val> | FI,<a>,<b> | FL,<count>.<val>... | IX,<key>,<val> | DE,<key> | IN,<delta> *)
let parse_inner fs =
  match fs with
  | ["RD"] -> IRead
  | ["AS"; v; d] -> IAssign (parse_cval v, d = "1")
  | ["PM"; v] -> IParam (parse_cval v)
  | ["FI"; a; b] -> ILoopInt (z_of_string a, z_of_string b)
  | ["FL"; l] ->
    (match tokens l with
     | c :: ts -> let rec go k ts acc = if k = 0 then List.rev acc else let (v, ts') = parse_val ts in go (k - 1) ts' (v :: acc) in
       ILoopList (go (int_of_string c) ts [])
     | [] -> failwith "FL")
  | ["IX"; k; v] -> IIdxSet (parse_key_tok k, parse_cval v)
  | ["DE"; k] -> IDelElem (parse_key_tok k)
  | ["IN"; d] -> IIncr (z_of_string d)
  | _ -> failwith "bad inner"
let parse_event s =
  if s.[0] = 'W' then
    (match String.split_on_char ',' (String.sub s 2 (String.length s - 2)) with
     | g :: fs -> EvClo (name_of g, parse_inner fs)
     | [] -> failwith "bad W event") else
  let sc = (match s.[0] with 'T' -> STop | 'F' -> SFn | 'G' -> SFn2 | 'L' -> SLoop | _ -> failwith "scope") in
  Ev (sc, parse_attempt (String.sub s 2 (String.length s - 2)))

(* two renderings: [exact = false] is Inspect (1.0 prints as 1); [exact = true] keeps every float apart from
   the integer of the same value (1.0, -0.0): what the bindings are compared with *)
let render_flt exact (q : int) : string =
  let sign = if q < 0 then "-" else "" in
  let a = abs q in
  let ip = a / 4 and fp = a mod 4 in
  sign ^ string_of_int ip ^ (match fp with 0 -> if exact then ".0" else "" | 1 -> ".25" | 2 -> ".5" | _ -> ".75")
let render_num exact (n : num) : string =
  match n with
  | NInt z -> string_of_z z
  | NFlt q -> render_flt exact (int_of_z q)
  | NNegZero -> if exact then "-0.0" else "-0"
let render_str s = "\"" ^ String.concat "" (List.map (fun b -> String.make 1 (Char.chr (int_of_n b))) s) ^ "\""
let render_key exact (k : key) = match k with KNum n -> render_num exact n | KStr s -> render_str s
let rec render exact (v : cval) : string =
  match v with
  | XNum n -> render_num exact n
  | XNil -> "nil"
  | XStr s -> render_str s
  | XBool b -> string_of_bool b
  | XArr l -> "[" ^ String.concat "," (List.map (render exact) l) ^ "]"
  | XMap l -> "{" ^ String.concat "," (List.map (fun (k, x) -> render_key exact k ^ ":" ^ render exact x) l) ^ "}"
  | XCloLocal (_, _, _, _) | XCloOuter (_, _, _) -> "<fn>"

let () = iter_lines (fun line ->
  match split_on ' ' line with
  | [id; "CST"; reg; mode; names; evs] ->
    let r = (reg = "R") in
    let cfg = if mode = "P" then pinned_ccfg r else repo_ccfg r in
    let lazy_obs = (mode = "FL") in   (* FL: the bindings are read once, after the last event only *)
    let names = String.split_on_char ',' names in
    let env = ref [[]] in   (* one empty frame: frame is extracted as its store *)
    let dom = ref false in
    let hdr = "C:" ^ String.concat "," (List.map (fun n -> n ^ "=" ^ (if constant_name (name_of n) then "1" else "0")) names) in
    let evl = String.split_on_char ';' evs in
    let nev = List.length evl in
    let outs = List.mapi (fun idx ev ->
      let (e', res) = run_event cfg !env (parse_event ev) in
      env := e';
      let head = (match res with
        | Ok v -> "ok=" ^ render false v
        | Err -> "err"
        | Dom -> dom := true; "dom"
        | Stuck -> "STUCK") in
      let bs = List.map (fun n -> n ^ "=" ^ (match root_value e' (name_of n) with
        | Some (XCloLocal (_, _, _, w)) -> "<fn>=>" ^ render true w
        | Some (XCloOuter (_, _, m)) -> "<fn>=>" ^ (match root_value e' m with Some w -> render true w | None -> "?")
        | Some v -> render true v
        | None -> "-")) names in
      if lazy_obs && idx < nev - 1 then head else String.concat " " (head :: bs)) evl in
    if !dom then print_endline (id ^ " SKIP dom") else print_endline (id ^ " " ^ String.concat " | " (hdr :: outs))
  | _ -> ())
