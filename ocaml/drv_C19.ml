(* MODEL: constenv_model *)
(* case:  <id> CST <R|N> <F|P> <names> <event>;<event>;...
     R|N: registers on / off.   F|P: repaired code / pinned code (no constant test on the register paths, containers written in place)
     names: n1,n2,...  the names whose top-level value is reported after every event
     event ::= <scope>:<attempt>      scope ::= T (top level) | F (inside func(){..}()) | G (two functions deep) | L (inside for 2 {..})
     attempt ::= AS,<name>,<val>,<0|1 define> | IN,<name>,<delta>,<0|1 prefix> | IX,<name>,<i>,<pval> | DE,<name>,<k> | DL,<name>
               | FI,<name>,<a>,<b> | FL,<name>,<count>.<pval>... | CL,<name>,<val> | RD,<name>
     val  ::= pval | s<hex> | b0 | b1 | f<q>           (f<q>: the float q/4)
     pval ::= i<int> | n | a<count>.<pval>... | m<count>.<key>.<pval>...      tokens separated by '.'
   out :  <id> C:<name>=<0|1>,... | <obs> | <obs> ...     obs ::= (ok=<render> | err) <name>=<render or -> ...  *)
let tokens s = String.split_on_char '.' s
let rec parse_pval (ts : string list) : pval * string list =
  match ts with
  | [] -> failwith "pval: no token"
  | t :: rest ->
    let arg = String.sub t 1 (String.length t - 1) in
    (match t.[0] with
     | 'i' -> (PInt (z_of_string arg), rest)
     | 'n' -> (PNil, rest)
     | 'a' -> let n = int_of_string arg in
       let rec go k ts acc = if k = 0 then (List.rev acc, ts) else let (v, ts') = parse_pval ts in go (k - 1) ts' (v :: acc) in
       let (l, rest') = go n rest [] in (PArr l, rest')
     | 'm' -> let n = int_of_string arg in
       let rec go k ts acc = if k = 0 then (List.rev acc, ts) else
         (match ts with
          | kt :: ts1 -> let (v, ts') = parse_pval ts1 in go (k - 1) ts' ((z_of_string kt, v) :: acc)
          | [] -> failwith "map: no key") in
       let (l, rest') = go n rest [] in (PMap l, rest')
     | _ -> failwith ("bad pval token " ^ t))
let parse_cval (s : string) : cval =
  let arg () = String.sub s 1 (String.length s - 1) in
  match s.[0] with
  | 's' -> CStr (bytes_of_hex (arg ()))
  | 'b' -> CBool (arg () = "1")
  | 'f' -> CFlt (z_of_string (arg ()))
  | _ -> CV (fst (parse_pval (tokens s)))
let name_of s = List.init (String.length s) (fun i -> n_of_int (Char.code s.[i]))
let parse_attempt s =
  match String.split_on_char ',' s with
  | ["AS"; n; v; d] -> AAssign (name_of n, parse_cval v, d = "1")
  | ["IN"; n; d; p] -> AIncr (name_of n, z_of_string d, p = "1")
  | ["IX"; n; i; v] -> AIdxSet (name_of n, z_of_string i, fst (parse_pval (tokens v)))
  | ["DE"; n; k] -> ADelElem (name_of n, z_of_string k)
  | ["DL"; n] -> ADelete (name_of n)
  | ["FI"; n; a; b] -> AForInt (name_of n, z_of_string a, z_of_string b)
  | ["FL"; n; l] ->
    (match tokens l with
     | c :: ts -> let rec go k ts acc = if k = 0 then List.rev acc else let (v, ts') = parse_pval ts in go (k - 1) ts' (v :: acc) in
       AForList (name_of n, go (int_of_string c) ts [])
     | [] -> failwith "FL")
  | ["CL"; n; v] -> ACall (name_of n, parse_cval v)
  | ["RD"; n] -> ARead (name_of n)
  | _ -> failwith ("bad attempt " ^ s)
let parse_event s =
  let sc = (match s.[0] with 'T' -> STop | 'F' -> SFn | 'G' -> SFn2 | 'L' -> SLoop | _ -> failwith "scope") in
  Ev (sc, parse_attempt (String.sub s 2 (String.length s - 2)))

let rec render_p (p : pval) : string =
  match p with
  | PInt z -> string_of_z z
  | PNil -> "nil"
  | PArr l -> "[" ^ String.concat "," (List.map render_p l) ^ "]"
  | PMap l -> "{" ^ String.concat "," (List.map (fun (k, x) -> string_of_z k ^ ":" ^ render_p x) l) ^ "}"
let render_flt (q : z) : string =
  let q = int_of_z q in
  let sign = if q < 0 then "-" else "" in
  let a = abs q in
  let ip = a / 4 and fp = a mod 4 in
  sign ^ string_of_int ip ^ (match fp with 0 -> "" | 1 -> ".25" | 2 -> ".5" | _ -> ".75")
let render (v : cval) : string =
  match v with
  | CV p -> render_p p
  | CStr s -> "\"" ^ String.concat "" (List.map (fun b -> String.make 1 (Char.chr (int_of_n b))) s) ^ "\""
  | CBool b -> string_of_bool b
  | CFlt q -> render_flt q

let () = iter_lines (fun line ->
  match split_on ' ' line with
  | [id; "CST"; reg; mode; names; evs] ->
    let r = (reg = "R") in
    let cfg = if mode = "P" then pinned_ccfg r else repo_ccfg r in
    let names = String.split_on_char ',' names in
    let env = ref [[]] in   (* one empty frame: frame is extracted as its store *)
    let dom = ref false in
    let hdr = "C:" ^ String.concat "," (List.map (fun n -> n ^ "=" ^ (if constant_name (name_of n) then "1" else "0")) names) in
    let outs = List.map (fun ev ->
      let (e', res) = run_event cfg !env (parse_event ev) in
      env := e';
      let head = (match res with
        | Ok v -> "ok=" ^ render v
        | Err -> "err"
        | Dom -> dom := true; "dom"
        | Stuck -> "STUCK") in
      let bs = List.map (fun n -> n ^ "=" ^ (match root_value e' (name_of n) with Some v -> render v | None -> "-")) names in
      String.concat " " (head :: bs)) (String.split_on_char ';' evs) in
    if !dom then print_endline (id ^ " SKIP dom") else print_endline (id ^ " " ^ String.concat " | " (hdr :: outs))
  | _ -> ())
