(* Driver for the front-end models (C02, C03, C08, C15).
   case : <id> FRONT <mode F|L> <tokens> <convs>
          tokens = ty.hexlit.ws.nl,...      convs = hexlit.(i<dec>|ie).(f<u64>|fe),... | -
   out  : <id> E=<kinds|-> K=<0|1> [TREE=<dump> N=<hex|PANIC|SKIP> C=<..> P=<..>]   | <id> PANIC <n> | <id> FUEL
   kinds: P (peekError) X (no prefix fn) F (float) L (lambda params), in order of occurrence *)
let parse_tok (s : string) : ptok =
  match String.split_on_char '.' s with
  | [ty; lit; ws; nl] -> { pk = { ttype = z_of_string ty; tlit = bytes_of_hex lit }; pk_ws = (ws = "1"); pk_nl = (nl = "1") }
  | _ -> failwith ("bad token " ^ s)

let mk_conv (s : string) : numconv =
  let tbl = Hashtbl.create 16 in
  if s <> "-" then
    List.iter (fun e ->
      match String.split_on_char '.' e with
      | [lit; i; f] ->
        let iv = if i = "ie" then None else Some (z_of_string (String.sub i 1 (String.length i - 1))) in
        let fv = if f = "fe" then None else Some (n_of_uint64 (Int64.of_string ("0u" ^ String.sub f 1 (String.length f - 1)))) in
        Hashtbl.replace tbl lit (iv, fv)
      | _ -> failwith ("bad conv " ^ e)) (split_on ',' s);
  let look l = try Hashtbl.find tbl (hex_of_bytes l) with Not_found -> (None, None) in
  { conv_int = (fun l -> fst (look l)); conv_float = (fun l -> snd (look l)) }

let kind_of = function EPeek (_, _) -> "P" | ENoPrefix _ -> "X" | EFloat -> "F" | ELambdaParam -> "L"

let rec strings_ok (n : node option) : bool = true

let print_mode compact allparens stmts =
  match print_program compact allparens stmts with
  | None -> "PANIC"
  | Some b -> hex_of_bytes b

let front_line (id : string) (mode : string) (toks : string) (convs : string) : string =
  let tl = if toks = "-" then [] else List.map parse_tok (split_on ',' toks) in
  let conv = mk_conv convs in
  let endty = if mode = "L" then token_EOL else token_EOF in
  match parse_program conv (default_fuel tl) endty tl with
  | PPanic PanicCommentSameLine -> id ^ " PANIC comment"
  | PPanic PanicNilDeref -> id ^ " PANIC nil"
  | POutOfFuel -> id ^ " FUEL"
  | POk r ->
    let kinds = if r.pr_errs = [] then "-" else String.concat "," (List.map kind_of r.pr_errs) in
    let head = Printf.sprintf "%s E=%s K=%d" id kinds (if r.pr_cont then 1 else 0) in
    if r.pr_errs <> [] || r.pr_cont then head
    else if not (List.for_all (fun t -> t.pk.ttype <> token_STRING || quote_in_domain t.pk.tlit) tl) then
      Printf.sprintf "%s TREE=%s N=U C=U P=U" head (String.concat "" (String.split_on_char ' ' (dump_list (Some r.pr_tree))))
    else
      Printf.sprintf "%s TREE=%s N=%s C=%s P=%s" head
        (String.concat "" (String.split_on_char ' ' (dump_list (Some r.pr_tree))))
        (print_mode false false r.pr_tree) (print_mode true false r.pr_tree) (print_mode true true r.pr_tree)

let () = iter_lines (fun line ->
  match split_on ' ' line with
  | [id; "FRONT"; mode; toks; convs] -> print_endline (front_line id mode toks convs)
  | id :: _ -> print_endline (id ^ " BADCASE")
  | [] -> ())
