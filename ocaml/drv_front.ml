(* Driver for the front-end models (C02, C03, C08, C15).
   case : <id> FRONT <mode F|L> <hex src> <convs>      convs = hexlit.(i<dec>|ie).(f<u64>|fe),... | -
   out  : <id> E=<kinds|-> K=<0|1> [TREE=<dump> W=<nil_free 0|1> N=<hex|PANIC|U> C=<..> P=<..>]
          | <id> PANIC comment|nil | <id> FUEL
          kinds: P (peekError) X (no prefix fn) F (float) L (lambda params), in order of occurrence
   case : <id> RT <hex src> <convs>
   out  : <id> N=<same|differs|rejected|printpanic|notclean|U> C=<...>
   case : <id> FMT2 <hex src> <convs>       (C03: format twice)
   out  : <id> N=<hex of f(src)>|<hex of f(f(src))> C=<...>   or notclean / U
   case : <id> TL <hex src> <convs>         (C02: the token sequence of the fragment theorem)
   out  : <id> N=<type.hexlit,...> C=<the same>  | <id> N=notfrag C=notfrag | <id> N=notclean C=notclean
          | <id> SKIP ...  (fragment program outside the theorem's domain: recorded finding) *)
let mk_conv (s : string) : numconv =
  let tbl = Hashtbl.create 16 in
  if s <> "-" then
    List.iter (fun e ->
      match String.split_on_char '.' e with
      | [lit; i; f] ->
        let iv = if i = "ie" then None else Some (z_of_string (String.sub i 1 (String.length i - 1))) in
        let fv = if f = "fe" then None else Some (n_of_uint64 (Int64.of_string ("0u" ^ String.sub f 1 (String.length f - 1)))) in
        Hashtbl.replace tbl lit (iv, fv)
      | _ -> failwith ("bad conv " ^ e)) (split_on ',' s);
  let look l = try Hashtbl.find tbl (hex_of_bytes l) with Not_found -> (None, None) in
  { conv_int = (fun l -> fst (look l)); conv_float = (fun l -> snd (look l)) }

let kind_of = function EPeek (_, _) -> "P" | ENoPrefix _ -> "X" | EFloat -> "F" | ELambdaParam -> "L"

let print_mode compact allparens stmts =
  match print_program compact allparens stmts with
  | None -> "PANIC"
  | Some b -> hex_of_bytes b

let strings_in_domain (mode : bool) (src : n list) : bool =
  List.for_all (fun t -> t.pk.ttype <> token_STRING || quote_in_domain t.pk.tlit) (front_tokens mode src)

let nospace s = String.concat "" (String.split_on_char ' ' s)

let front_line (id : string) (mode : string) (src : string) (convs : string) : string =
  let lm = (mode = "L") in
  let b = bytes_of_hex src in
  match front_parse (mk_conv convs) lm b with
  | PPanic PanicCommentSameLine -> id ^ " PANIC comment"
  | PPanic PanicNilDeref -> id ^ " PANIC nil"
  | POutOfFuel -> id ^ " FUEL"
  | POk r ->
    let kinds = if r.pr_errs = [] then "-" else String.concat "," (List.map kind_of r.pr_errs) in
    let head = Printf.sprintf "%s E=%s K=%d" id kinds (if r.pr_cont then 1 else 0) in
    if not (clean r) then head
    else
      let tree = nospace (dump_list (Some r.pr_tree)) in
      let w = if program_nil_free r.pr_tree then 1 else 0 in
      if not (strings_in_domain lm b) then Printf.sprintf "%s TREE=%s W=%d N=U C=U P=U" head tree w
      else Printf.sprintf "%s TREE=%s W=%d N=%s C=%s P=%s" head tree w
          (print_mode false false r.pr_tree) (print_mode true false r.pr_tree) (print_mode true true r.pr_tree)

let rt_name = function
  | RtSame -> "same" | RtDiffers -> "differs" | RtRejected -> "rejected" | RtPrintPanic -> "printpanic" | RtNotClean -> "notclean"

let rt_line id src convs =
  let b = bytes_of_hex src in
  let conv = mk_conv convs in
  match front_parse conv false b with
  | POk r when clean r ->
    (* the quoting oracle is only needed once something is printed *)
    if not (strings_in_domain false b) then id ^ " N=U C=U"
    else Printf.sprintf "%s N=%s C=%s" id (rt_name (fst (roundtrip conv false b))) (rt_name (fst (roundtrip conv true b)))
  | _ -> id ^ " N=notclean C=notclean"

(* format twice: f(src) and f(f(src)) in one mode *)
let fmt2 conv compact (b : n list) : string =
  match front_parse conv false b with
  | POk r when clean r ->
    (match print_program compact false r.pr_tree with
     | None -> "printpanic"
     | Some t1 ->
       (match front_parse conv false t1 with
        | POk r2 when clean r2 ->
          (match print_program compact false r2.pr_tree with
           | None -> hex_of_bytes t1 ^ "|printpanic"
           | Some t2 -> hex_of_bytes t1 ^ "|" ^ hex_of_bytes t2)
        | _ -> hex_of_bytes t1 ^ "|rejected"))
  | _ -> "notclean"

let fmt2_line id src convs =
  let b = bytes_of_hex src in
  if not (strings_in_domain false b) then id ^ " N=U C=U"
  else let conv = mk_conv convs in
    Printf.sprintf "%s N=%s C=%s" id (fmt2 conv false b) (fmt2 conv true b)

(* body e of coq/model/TokPrint.v for a one-expression program in the fragment: what the formatter's output must lex to *)
let tl_line id src convs =
  let b = bytes_of_hex src in
  let conv = mk_conv convs in
  match front_parse conv false b with
  | POk r when clean r ->
    (match frag_prog_tokens conv r.pr_tree with
     | None -> id ^ " N=notfrag C=notfrag"
     | Some None -> id ^ " SKIP outside the theorem's domain (a following statement continues the previous one)"
     | Some (Some ts) ->
       let t = String.concat "," (List.map (fun t -> Printf.sprintf "%s.%s" (string_of_z t.ttype) (hex_of_bytes t.tlit)) ts) in
       Printf.sprintf "%s N=%s C=%s" id t t)
  | _ -> id ^ " N=notclean C=notclean"

let () = iter_lines (fun line ->
  match split_on ' ' line with
  | [id; "FRONT"; mode; src; convs] -> print_endline (front_line id mode src convs)
  | [id; "RT"; src; convs] -> print_endline (rt_line id src convs)
  | [id; "FMT2"; src; convs] -> print_endline (fmt2_line id src convs)
  | [id; "TL"; src; convs] -> print_endline (tl_line id src convs)
  | id :: _ -> print_endline (id ^ " BADCASE")
  | [] -> ())
