(* MODEL: registers_model (coq/extract/Extract_Registers.v, shared with C05) *)
(* cases:  <id> SESS <regs 0|1> <skel>|<skel>|...
     out:  one "<outcome>:<root numReg>:<flags>:<probes>" per input (see skelio.ml)  *)
let () = iter_lines (fun line ->
  match split_on ' ' line with
  | id :: "SESS" :: regs :: rest ->
    let inputs = skels_of_string (String.concat " " rest) in
    print_endline (id ^ " " ^ session_line (repaired (regs = "1")) inputs)
  | _ -> ())
