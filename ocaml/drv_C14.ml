(* Driver for the save/load model (C14).  Needs zhelpers.ml and astio.ml.
   case : <id> SAVE <maxlen> <extras: hexname,...|-> <binding> ...
          binding = <hexname>:D:<value>                                   data value in the model's domain
                  | <hexname>:F:<hexfname|->:<lambda>:<variadic>:<hex params dump>:<hex body dump>
                  | <hexname>:O:<named 0|1>:<hex Inspect() text>          anything else (opaque text)
   out  : <id> <n> <hex bytes written> | <id> PANIC
   case : <id> LINE <hex line> <convs>        convs as in drv_front.ml
   out  : <id> <hexname> <value> | <id> REJECT | <id> DECCONV ... (the model's own number conversion disagrees)
   case : <id> FUNC <hexfname|->:<lambda>:<variadic>:<hex params dump>:<hex body dump> <convs>
   out  : <id> <hex text> <same|differs|rejected> | <id> PRINTPANIC
   value ::= I<dec> | F<16 hex> | B0 | B1 | N | S<hex> | A[v,...] | M{k:v,...}   (harness/common/x_values.go) *)
let mk_conv (s : string) : numconv =
  let tbl = Hashtbl.create 16 in
  if s <> "-" then
    List.iter (fun e ->
      match String.split_on_char '.' e with
      | [lit; i; f] ->
        let iv = if i = "ie" then None else Some (z_of_string (String.sub i 1 (String.length i - 1))) in
        let fv = if f = "fe" then None else Some (n_of_uint64 (Int64.of_string ("0u" ^ String.sub f 1 (String.length f - 1)))) in
        Hashtbl.replace tbl lit (iv, fv)
      | _ -> failwith ("bad conv " ^ e)) (split_on ',' s);
  let look l = try Hashtbl.find tbl (hex_of_bytes l) with Not_found -> (None, None) in
  { conv_int = (fun l -> fst (look l)); conv_float = (fun l -> snd (look l)) }

exception Bad_value of string

let rec print_value (v : value) : string =
  match v with
  | VInt z -> "I" ^ string_of_z z
  | VFloat f -> Printf.sprintf "F%016Lx" (uint64_of_n (bits_of_fl f))
  | VBool b -> if b then "B1" else "B0"
  | VNil -> "N"
  | VStr s -> "S" ^ hex_of_bytes s
  | VArr l -> "A[" ^ String.concat "," (List.map print_value l) ^ "]"
  | VMap l -> "M{" ^ String.concat "," (List.map (fun (k, x) -> print_value k ^ ":" ^ print_value x) l) ^ "}"
  | VTxt (_, s) -> "?" ^ hex_of_bytes s

let parse_value (s : string) : value =
  let pos = ref 0 in
  let n = String.length s in
  let until_stop () =
    let st = !pos in
    while !pos < n && not (List.mem s.[!pos] [','; ':'; ']'; '}']) do incr pos done;
    String.sub s st (!pos - st) in
  let rec value () : value =
    if !pos >= n then raise (Bad_value s);
    let c = s.[!pos] in
    incr pos;
    match c with
    | 'I' -> VInt (z_of_string (until_stop ()))
    | 'F' -> VFloat (fl_of_bits (n_of_uint64 (Int64.of_string ("0x" ^ until_stop ()))))
    | 'B' -> VBool (until_stop () = "1")
    | 'N' -> VNil
    | 'S' -> VStr (bytes_of_hex (until_stop ()))
    | 'A' ->
      if !pos >= n || s.[!pos] <> '[' then raise (Bad_value s);
      incr pos;
      let acc = ref [] in
      while !pos < n && s.[!pos] <> ']' do
        acc := value () :: !acc;
        if !pos < n && s.[!pos] = ',' then incr pos
      done;
      incr pos;
      VArr (List.rev !acc)
    | 'M' ->
      if !pos >= n || s.[!pos] <> '{' then raise (Bad_value s);
      incr pos;
      let acc = ref [] in
      while !pos < n && s.[!pos] <> '}' do
        let k = value () in
        if !pos >= n || s.[!pos] <> ':' then raise (Bad_value s);
        incr pos;
        let x = value () in
        acc := (k, x) :: !acc;
        if !pos < n && s.[!pos] = ',' then incr pos
      done;
      incr pos;
      VMap (List.rev !acc)
    | _ -> raise (Bad_value s) in
  let v = value () in
  if !pos <> n then raise (Bad_value s);
  v

let string_of_hex h = String.concat "" (List.map (fun b -> String.make 1 (Char.chr (int_of_n b))) (bytes_of_hex h))

let list_of_dump (h : string) : node option list option =
  match parse_sx (string_of_hex h) with
  | A "nil" -> None
  | B l -> Some (List.map node_of_sx l)
  | _ -> failwith "params dump"

let opt_name h = if h = "-" then None else Some (bytes_of_hex h)

(* split at the first k colons *)
let split_first (k : int) (s : string) : string list =
  let rec go k s acc =
    if k = 0 then List.rev (s :: acc)
    else match String.index_opt s ':' with
      | None -> List.rev (s :: acc)
      | Some i -> go (k - 1) (String.sub s (i + 1) (String.length s - i - 1)) (String.sub s 0 i :: acc) in
  go k s []

let binding_of (b : string) : n list * sval =
  match split_first 2 b with
  | [k; "D"; v] -> (bytes_of_hex k, SData (parse_value v))
  | [k; "F"; rest] ->
    (match String.split_on_char ':' rest with
     | [nm; _lam; _var; ps; bd] -> (bytes_of_hex k, SFunc (opt_name nm, list_of_dump ps, read_ast (string_of_hex bd)))
     | _ -> failwith "F binding")
  | [k; "O"; rest] ->
    (match String.split_on_char ':' rest with
     | [named; txt] -> (bytes_of_hex k, SOpaque (named = "1", bytes_of_hex txt))
     | _ -> failwith "O binding")
  | _ -> failwith ("binding " ^ b)

let rec nat_to_int = function O -> 0 | S n -> 1 + nat_to_int n

let save_case id maxlen extras bindings =
  let ex = if extras = "-" then [] else List.map bytes_of_hex (split_on ',' extras) in
  match save_globals (z_of_string maxlen) ex (List.map binding_of bindings) with
  | None -> id ^ " PANIC"
  | Some (out, n) -> Printf.sprintf "%s %d %s" id (nat_to_int n) (hex_of_bytes out)

let rb_string = function
  | RbBinding (k, v) -> hex_of_bytes k ^ " " ^ print_value v
  | RbReject -> "REJECT"
  | RbNotLiteral -> "REJECT"
  | RbOutside -> "OUTSIDE"

let line_case id line convs =
  let b = bytes_of_hex line in
  let r = rb_string (read_back_full (mk_conv convs) b) in
  let d = rb_string (read_back_dec b) in
  if d <> "OUTSIDE" && d <> r then Printf.sprintf "%s DECCONV model-conversion gives %s, strconv gives %s" id d r
  else id ^ " " ^ r

let rt_name = function
  | RtSame -> "same" | RtDiffers -> "differs" | RtRejected -> "rejected" | RtPrintPanic -> "printpanic" | RtNotClean -> "notclean"

let func_case id desc convs =
  match String.split_on_char ':' desc with
  | [nm; _lam; var; ps; bd] ->
    (match func_roundtrip (mk_conv convs) (opt_name nm) (var = "1") (list_of_dump ps) (read_ast (string_of_hex bd)) with
     | (_, None) -> id ^ " PRINTPANIC"
     | (r, Some txt) -> Printf.sprintf "%s %s %s" id (hex_of_bytes txt) (rt_name r))
  | _ -> id ^ " BADCASE"

let () = iter_lines (fun line ->
  match split_on ' ' line with
  | id :: "SAVE" :: maxlen :: extras :: bindings -> print_endline (save_case id maxlen extras bindings)
  | [id; "LINE"; l; convs] -> print_endline (line_case id l convs)
  | [id; "FUNC"; desc; convs] -> print_endline (func_case id desc convs)
  | id :: _ -> print_endline (id ^ " BADCASE")
  | [] -> ())
