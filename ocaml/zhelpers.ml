(* Z helpers: only for models whose extraction contains the type z (Z0 | Zpos | Zneg). *)
let z_of_int64 (i : int64) : z =
  if Int64.equal i 0L then Z0
  else if Int64.compare i 0L > 0 then Zpos (pos_of_int64 i)
  else if Int64.equal i Int64.min_int then Zneg (pos_of_int64 i) (* 2^63 as unsigned *)
  else Zneg (pos_of_int64 (Int64.neg i))
let z_of_int (i : int) : z = z_of_int64 (Int64.of_int i)
(* values are assumed to fit in int64 (the models wrap explicitly) *)
let int64_of_z (x : z) : int64 =
  match x with Z0 -> 0L | Zpos p -> uint64_of_pos p | Zneg p -> Int64.neg (uint64_of_pos p)
let int_of_z (x : z) : int = Int64.to_int (int64_of_z x)
let z_of_string (s : string) : z = z_of_int64 (Int64.of_string s)
let string_of_z (x : z) : string = Int64.to_string (int64_of_z x)
