(* MODEL: maps_model *)
(* case:  <id> MAP <n0> <op;op;...|-> <op> <op> ...    every <op> applied (independently) to the state reached by the path
          <id> SEQ <n0> <op> <op> ...                  ops applied in sequence
          <id> PROG <pop> <pop> ...                    T | W=i=k=v | E=i=k (in place) | K=i | C=i=how | A=i=j | R=i | X=i=lo=hi ;
                                                       obs = the states of all variables, read once at the end
          <id> BIND <src|api> <bop> <bop> ...          T=k=v.. | S=i=k=v | D=i=k | A=i=j | R=i | X=i=lo=hi : each makes a new binding;
                                                       obs = the states of ALL bindings after the op, joined by ';'
   op  :  S=<k>=<v>  G=<k>  D=<k>  A=<n0>=<M{..}>  P=<n0>=<M{..}>  F  R  X=<lo>=<hi>  L  I  Q=<n0>=<M{..}>
          T=<k1>=<v1>=<k2>=<v2>...  (evalMapLiteral of the written pairs: the state becomes that literal)
   out :  <id> <obs> <obs> ...   obs = <s|b><content after the op>|<result>    or  P  (Go failure)
   result: - | value | none (Get) | 0/1 (Delete) | first: N or M{"key":k,"value":v} | rest: nil / map | len
           | hex of Inspect | e<0|1>c<-1|0|1> (Equals, Cmp with the operand map)                               *)
exception Skip

let state_str m = (if is_big m then "b" else "s") ^ print_value (VMap (elems m))

let build n0 lit =
  match parse_value lit with
  | VMap ps ->
    List.fold_left (fun acc (k, v) -> match acc with Val m -> mset cmp_c m k v | GoPanic -> GoPanic) (Val (mnew (z_of_int n0))) ps
  | _ -> failwith "operand is not a map"

(* Inspect() of the values used by the generators (Go: FormatInt, FormatFloat 'f' -1, strconv.Quote, ...) *)
let float_text (f : fl) : string =
  match f with
  | FNaN -> "NaN"
  | FInf neg -> if neg then "-Inf" else "+Inf"
  | _ ->
    let x = Int64.float_of_bits (bits_of_fl f) in
    let neg = Int64.compare (bits_of_fl f) 0L < 0 in
    let ax = Float.abs x in
    let body =
      if ax = 0.0 then "0" else begin
        (* shortest decimal digits that read back as x, then written without exponent *)
        let r = ref "" in
        (try for p = 1 to 17 do
             let s = Printf.sprintf "%.*e" (p - 1) ax in
             if float_of_string s = ax then (r := s; raise Exit)
           done with Exit -> ());
        if !r = "" then raise Skip;
        let epos = String.index !r 'e' in
        let mant = String.sub !r 0 epos and ex = int_of_string (String.sub !r (epos + 1) (String.length !r - epos - 1)) in
        let digits = String.concat "" (String.split_on_char '.' mant) in
        let nd = String.length digits in
        if ex >= nd - 1 then digits ^ String.make (ex - (nd - 1)) '0'
        else if ex >= 0 then String.sub digits 0 (ex + 1) ^ "." ^ String.sub digits (ex + 1) (nd - ex - 1)
        else "0." ^ String.make (- ex - 1) '0' ^ digits
      end in
    (if neg then "-" else "") ^ body
let rec inspect (v : value) : string =
  match v with
  | VInt z -> string_of_z z
  | VFloat f -> float_text f
  | VBool b -> if b then "true" else "false"
  | VNil -> "nil"
  | VStr s ->
    let b = Buffer.create 8 in
    Buffer.add_char b '"';
    List.iter (fun c -> let c = int_of_n c in
                if c < 32 || c > 126 || c = 34 || c = 92 then raise Skip else Buffer.add_char b (Char.chr c)) s;
    Buffer.add_char b '"';
    Buffer.contents b
  | VArr l -> "[" ^ String.concat "," (List.map inspect l) ^ "]"
  | VMap l -> if l = [] then "{}" else "{" ^ String.concat "," (List.map (fun (k, x) -> inspect k ^ ":" ^ inspect x) l) ^ "}"
  | VTxt (_, _) -> raise Skip
let nlist_of_string (s : string) : n list = List.init (String.length s) (fun i -> n_of_int (Char.code s.[i]))
let string_of_nlist (l : n list) : string = String.concat "" (List.map (fun c -> String.make 1 (Char.chr (int_of_n c))) l)
let hex_of_string s = if s = "" then "-" else String.concat "" (List.init (String.length s) (fun i -> Printf.sprintf "%02x" (Char.code s.[i])))

(* one operation: new state and observation *)
let apply m tok =
  let f = String.split_on_char '=' tok in
  let same r = (m, state_str m ^ "|" ^ r) in
  let moved o = match o with Val m' -> (m', state_str m' ^ "|-") | GoPanic -> (m, "P") in
  match f with
  | ["S"; k; v] -> moved (mset cmp_c m (parse_value k) (parse_value v))
  | ["G"; k] -> (match mget cmp_c m (parse_value k) with
      | Val (Some v) -> same (print_value v) | Val None -> same "none" | GoPanic -> (m, "P"))
  | ["D"; k] -> (match mdelete cmp_c m (parse_value k) with
      | Val (m', b) -> (m', state_str m' ^ "|" ^ (if b then "1" else "0")) | GoPanic -> (m, "P"))
  | ["A"; n0; lit] -> (match build (int_of_string n0) lit with Val r -> moved (mappend cmp_c m r) | GoPanic -> (m, "P"))
  | ["P"; n0; lit] -> (match build (int_of_string n0) lit with Val l -> moved (mappend cmp_c l m) | GoPanic -> (m, "P"))
  | ["F"] -> (match mfirst m with
      | None -> same "N"
      | Some (k, v) -> same ("M{S6b6579:" ^ print_value k ^ ",S76616c7565:" ^ print_value v ^ "}"))
  | ["R"] -> (match mrest m with None -> same "nil" | Some m' -> (m', state_str m' ^ "|map"))
  | ["X"; lo; hi] -> moved (mrange m (nat_of_int (int_of_string lo)) (nat_of_int (int_of_string hi)))
  | ["L"] -> same (string_of_int (int_of_nat (mlen m)))
  | ["I"] -> same (hex_of_string (string_of_nlist (minspect (fun k -> nlist_of_string (inspect k)) (fun v -> nlist_of_string (inspect v)) m)))
  | ["Q"; n0; lit] -> (match build (int_of_string n0) lit with
      | Val o ->
        let a = VMap (elems m) and b = VMap (elems o) in
        let e = match equals a b with Val true -> "1" | Val false -> "0" | GoPanic -> "P" in
        let c = match cmp a b with Val Lt -> "-1" | Val Eq -> "0" | Val Gt -> "1" | GoPanic -> "P" in
        same ("e" ^ e ^ "c" ^ c)
      | GoPanic -> (m, "P"))
  | "T" :: items ->
    let rec pairs = function
      | k :: v :: rest -> (parse_value k, parse_value v) :: pairs rest
      | [] -> []
      | _ -> failwith ("bad literal " ^ tok) in
    moved (mliteral cmp_c (pairs items))
  | _ -> failwith ("bad op " ^ tok)

let () = iter_lines (fun line ->
  match split_on ' ' line with
  | id :: "MAP" :: n0 :: path :: ops ->
    (try
       let start = mnew (z_of_int (int_of_string n0)) in
       let st = if path = "-" then start
         else List.fold_left (fun m t -> fst (apply m t)) start (String.split_on_char ';' path) in
       print_endline (String.concat " " (id :: List.map (fun t -> snd (apply st t)) ops))
     with Skip -> print_endline (id ^ " SKIP"))
  | id :: "SEQ" :: n0 :: ops ->
    (try
       let st = ref (mnew (z_of_int (int_of_string n0))) in
       let obs = List.map (fun t -> let (m', o) = apply !st t in st := m'; o) ops in
       print_endline (String.concat " " (id :: obs))
     with Skip -> print_endline (id ^ " SKIP"))
  | id :: "PROG" :: ops ->
    (* a whole program, every variable printed once at the end. W / E write variable i in place (its content becomes
       set / delete of its content: maps are values, no other variable changes); K / C copy variable i into a new one *)
    (try
       let nat s = nat_of_int (int_of_string s) in
       let rec pairs = function
         | k :: v :: rest -> (parse_value k, parse_value v) :: pairs rest
         | [] -> []
         | _ -> failwith "bad literal" in
       let st = ref [] and dead = ref false in
       let add o = match bnew cmp_c !st o with Val m -> st := !st @ [m] | GoPanic -> dead := true in
       let replace i o = match bnew cmp_c !st o with
         | Val m -> st := List.mapi (fun j x -> if j = i then m else x) !st
         | GoPanic -> dead := true in
       List.iter (fun tok -> if not !dead then
         match String.split_on_char '=' tok with
         | "T" :: items -> add (BLit (pairs items))
         | ["W"; i; k; v] -> replace (int_of_string i) (BSet (nat i, parse_value k, parse_value v))
         | ["E"; i; k] -> replace (int_of_string i) (BDel (nat i, parse_value k))
         | ["K"; i] | ["C"; i; _] -> (match List.nth_opt !st (int_of_string i) with Some m -> st := !st @ [m] | None -> dead := true)
         | ["A"; i; j] -> add (BAppend (nat i, nat j))
         | ["R"; i] -> add (BRest (nat i))
         | ["X"; i; lo; hi] -> add (BRange (nat i, nat lo, nat hi))
         | _ -> failwith ("bad program op " ^ tok)) ops;
       print_endline (id ^ " " ^ (if !dead then "P" else String.concat ";" (List.map state_str !st)))
     with Skip -> print_endline (id ^ " SKIP"))
  | id :: "BIND" :: _mode :: ops ->
    (* several bindings: each op makes a new binding from earlier ones; after each op all bindings are printed *)
    (try
       let nat s = nat_of_int (int_of_string s) in
       let rec pairs = function
         | k :: v :: rest -> (parse_value k, parse_value v) :: pairs rest
         | [] -> []
         | _ -> failwith "bad literal" in
       let parse tok = match String.split_on_char '=' tok with
         | "T" :: items -> BLit (pairs items)
         | ["S"; i; k; v] -> BSet (nat i, parse_value k, parse_value v)
         | ["D"; i; k] -> BDel (nat i, parse_value k)
         | ["A"; i; j] -> BAppend (nat i, nat j)
         | ["R"; i] -> BRest (nat i)
         | ["X"; i; lo; hi] -> BRange (nat i, nat lo, nat hi)
         | _ -> failwith ("bad binding op " ^ tok) in
       let st = ref [] and dead = ref false in
       let obs = List.map (fun t ->
           if !dead then "P" else
           match bnew cmp_c !st (parse t) with
           | Val m -> st := !st @ [m]; String.concat ";" (List.map state_str !st)
           | GoPanic -> dead := true; "P") ops in
       print_endline (String.concat " " (id :: obs))
     with Skip -> print_endline (id ^ " SKIP"))
  | _ -> ())
