(* Shared conversion helpers; textually prepended (after `open <Model>`) to every driver, because
   each extracted module declares its own copy of nat / positive / n / z. *)
let rec pos_of_int (i : int) : positive =
  if i <= 1 then XH else if i land 1 = 1 then XI (pos_of_int (i lsr 1)) else XO (pos_of_int (i lsr 1))
let rec int_of_pos (p : positive) : int =
  match p with XH -> 1 | XO q -> 2 * int_of_pos q | XI q -> 2 * int_of_pos q + 1
let n_of_int (i : int) : n = if i = 0 then N0 else Npos (pos_of_int i)
let int_of_n (x : n) : int = match x with N0 -> 0 | Npos p -> int_of_pos p
let hexval c = match c with
  | '0'..'9' -> Char.code c - 48 | 'a'..'f' -> Char.code c - 87 | 'A'..'F' -> Char.code c - 55
  | _ -> failwith "bad hex"
(* hex string -> list of bytes (as n); "-" or "" is the empty string *)
let bytes_of_hex (s : string) : n list =
  if s = "-" || s = "" then [] else
  let l = String.length s / 2 in
  List.init l (fun i -> n_of_int (16 * hexval s.[2*i] + hexval s.[2*i+1]))
let hex_of_bytes (l : n list) : string =
  if l = [] then "-" else String.concat "" (List.map (fun b -> Printf.sprintf "%02x" (int_of_n b)) l)
let split_on c s = if s = "" then [] else String.split_on_char c s
let iter_lines (f : string -> unit) : unit =
  try while true do f (input_line stdin) done with End_of_file -> ()
(* ---- Z / N from 64-bit machine values (no arithmetic on the Coq side needed) ---- *)
let rec pos_of_int64 (i : int64) : positive =   (* i treated as unsigned, i <> 0 *)
  if Int64.equal i 1L then XH
  else let rest = Int64.shift_right_logical i 1 in
       if Int64.equal (Int64.logand i 1L) 1L then XI (pos_of_int64 rest) else XO (pos_of_int64 rest)
let n_of_uint64 (i : int64) : n = if Int64.equal i 0L then N0 else Npos (pos_of_int64 i)
let rec uint64_of_pos (p : positive) : int64 =
  match p with XH -> 1L | XO q -> Int64.shift_left (uint64_of_pos q) 1
             | XI q -> Int64.logor (Int64.shift_left (uint64_of_pos q) 1) 1L
let uint64_of_n (x : n) : int64 = match x with N0 -> 0L | Npos p -> uint64_of_pos p
