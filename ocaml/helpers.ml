(* Shared conversion helpers; textually prepended (after `open <Model>`) to every driver, because
   each extracted module declares its own copy of nat / positive / n / z. *)
let rec pos_of_int (i : int) : positive =
  if i <= 1 then XH else if i land 1 = 1 then XI (pos_of_int (i lsr 1)) else XO (pos_of_int (i lsr 1))
let rec int_of_pos (p : positive) : int =
  match p with XH -> 1 | XO q -> 2 * int_of_pos q | XI q -> 2 * int_of_pos q + 1
let n_of_int (i : int) : n = if i = 0 then N0 else Npos (pos_of_int i)
let int_of_n (x : n) : int = match x with N0 -> 0 | Npos p -> int_of_pos p
let rec nat_of_int (i : int) : nat = if i <= 0 then O else S (nat_of_int (i - 1))
let int_of_nat (x : nat) : int = let rec go acc = function O -> acc | S m -> go (acc + 1) m in go 0 x
let hexval c = match c with
  | '0'..'9' -> Char.code c - 48 | 'a'..'f' -> Char.code c - 87 | 'A'..'F' -> Char.code c - 55
  | _ -> failwith "bad hex"
(* hex string -> list of bytes (as n); "-" or "" is the empty string *)
let bytes_of_hex (s : string) : n list =
  if s = "-" || s = "" then [] else
  let l = String.length s / 2 in
  List.init l (fun i -> n_of_int (16 * hexval s.[2*i] + hexval s.[2*i+1]))
let hex_of_bytes (l : n list) : string =
  if l = [] then "-" else String.concat "" (List.map (fun b -> Printf.sprintf "%02x" (int_of_n b)) l)
let split_on c s = if s = "" then [] else String.split_on_char c s
let iter_lines (f : string -> unit) : unit =
  try while true do f (input_line stdin) done with End_of_file -> ()
