(* MODEL: cmp_model *)
(* case:  <id> CMP <v1> <v2>
   out :  <id> c=<-1|0|1|P> e=<0|1|P> lt= le= gt= ge= eq= ne= (0|1|P|-) min=<v|P|-> max=<v|P|-> key=<0|1|P|-> gf=<-1|0|1|->
   c, e      : object.Cmp / object.Equals
   lt .. ne  : the operators of evalInfixExpression; min / max: the extensions on (v1, v2);
   key       : whether {v1:7}[v2] finds the entry (SmallMap.get: Cmp(stored key, key) == 0)
   gf        : for an integer/float pair, the code-shaped cmpIntFloat (negated when the float comes first)
   par clo loopl loopr : the six operators and the lookup again (7 characters), the operands reaching them as function
               parameters (registers for integers), as references from a closure, as a counted-loop variable (left / right)
   "-"       : not evaluated (error / return values cannot be operands in a program)                  *)
let cs = function Lt -> "-1" | Eq -> "0" | Gt -> "1"
let oc = function Val c -> cs c | GoPanic -> "P"
let ob = function Val true -> "1" | Val false -> "0" | GoPanic -> "P"
let ov = function Val v -> print_value v | GoPanic -> "P"
let api_only = function VTxt ((KErr | KRet), _) -> true | _ -> false
let () = iter_lines (fun line ->
  match split_on ' ' line with
  | [id; "CMP"; sa; sb] ->
    let a = parse_value sa and b = parse_value sb in
    let c = cmp a b in
    let gf = match a, b with
      | VInt i, VFloat f -> cs (cmp_int_float_go i f)
      | VFloat f, VInt i -> cs (match cmp_int_float_go i f with Lt -> Gt | Eq -> Eq | Gt -> Lt)
      | _ -> "-" in
    if api_only a || api_only b then
      Printf.printf "%s c=%s e=%s lt=- le=- gt=- ge=- eq=- ne=- min=- max=- key=- gf=%s par=- clo=- loopl=- loopr=-\n" id (oc c) (ob (equals a b)) gf
    else begin
      let key = match c with Val Eq -> "1" | Val _ -> "0" | GoPanic -> "P" in
      (* operands delivered by the evaluator (parameters / registers, references, loop variables) are the same values *)
      let seven = String.concat "" [ob (op_lt a b); ob (op_le a b); ob (op_gt a b); ob (op_ge a b); ob (op_eq a b); ob (op_ne a b); key] in
      let small = function VInt z -> let i = int64_of_z z in Int64.compare i 0L >= 0 && Int64.compare i 3L <= 0 | _ -> false in
      Printf.printf "%s c=%s e=%s lt=%s le=%s gt=%s ge=%s eq=%s ne=%s min=%s max=%s key=%s gf=%s par=%s clo=%s loopl=%s loopr=%s\n" id (oc c) (ob (equals a b))
        (ob (op_lt a b)) (ob (op_le a b)) (ob (op_gt a b)) (ob (op_ge a b)) (ob (op_eq a b)) (ob (op_ne a b))
        (ov (vmin a [b])) (ov (vmax a [b])) key gf seven seven
        (if small a then seven else "-") (if small b then seven else "-")
    end
  | _ -> ())
