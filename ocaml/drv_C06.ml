(* MODEL: containers_model *)
(* case:  <id> SEQ <mode> <slack> <op>;<op>;...
     mode  ::= F (repaired code, cow=true) | P (pinned code, cow=false)
     slack ::= extra capacity the oracle adds to every growing slice (the theorems hold for every oracle)
     op    ::= P:<prim> | F:<e>,<y>:<prim>/<prim>/... | C:<r>,<y>[,<form><wrap>]:<prim>/...      (empty body: "-")
     prim  ::= AL,x,<el>|<el>|...   x=[...]        ML,x,<k>:<el>|...   x={...}       ("-" = empty)
             | CP,x,y  x=y          IS,x,i,<el>  x[i]=el       PL,x,y,<el>  x=y+el     RP,x,y,n  x=y*n
             | SL,x,y,l,r  x=y[l:r] RS,x,y  x=rest(y)          GT,x,y,i  x=y[i]        DL,x,k  del(x[k])
             | IN,x,i  x[i]=x[i]+1  UB,x  del(x)
     el    ::= i<int> | v<var>
   out :  <id> <obs> | <obs> | ...      one obs per op:
          obs ::= ok=<result> <bindings>  |  err <bindings>       bindings ::= v<n>=<kind><render> ...
          kind: i int, n nil, s small array, b big array, S small map, B big map
   After every op the machine's reading of every binding is compared with the pure model's: a difference
   (which the theorem C06_size_independent excludes) is printed as DIVERGE. *)
let fuel = nat_of_int 200

let parse_el s =
  let n = String.sub s 1 (String.length s - 1) in
  if s.[0] = 'i' then EInt (z_of_string n) else EVar (nat_of_int (int_of_string n))
let parse_list f s = if s = "-" || s = "" then [] else List.map f (String.split_on_char '|' s)
let v s = nat_of_int (int_of_string s)
let parse_prim s =
  match String.split_on_char ',' s with
  | ["AL"; x; es] -> PArrLit (v x, parse_list parse_el es)
  | ["ML"; x; kvs] ->
    PMapLit (v x, parse_list (fun kv -> match String.split_on_char ':' kv with
      | [k; e] -> (z_of_string k, parse_el e) | _ -> failwith "bad pair") kvs)
  | ["CP"; x; y] -> PCopy (v x, v y)
  | ["IS"; x; i; e] -> PIdxSet (v x, z_of_string i, parse_el e)
  | ["PL"; x; y; e] | ["PL"; x; y; e; _] -> PPlus (v x, v y, parse_el e)   (* 5th field: how the source writes the left operand *)
  | ["RP"; x; y; n] -> PRepeat (v x, v y, z_of_string n)
  | ["SL"; x; y; l; r] -> PSlice (v x, v y, z_of_string l, z_of_string r)
  | ["RS"; x; y] -> PRest (v x, v y)
  | ["GT"; x; y; i] -> PGet (v x, v y, z_of_string i)
  | ["DL"; x; k] -> PDel (v x, z_of_string k)
  | ["IN"; x; i] -> PIncr (v x, z_of_string i)
  | ["UB"; x] -> PUnbind (v x)
  | _ -> failwith ("bad prim " ^ s)
let parse_body s = if s = "-" then [] else List.map parse_prim (String.split_on_char '/' s)
let parse_op s =
  let k = s.[0] and rest = String.sub s 2 (String.length s - 2) in
  match k with
  | 'P' -> OPrim (parse_prim rest)
  | 'F' | 'C' ->
    let i = String.index rest ':' in
    let hd = String.sub rest 0 i and body = String.sub rest (i + 1) (String.length rest - i - 1) in
    (match String.split_on_char ',' hd with
     | [a; b] -> if k = 'F' then OFor (v a, v b, parse_body body) else OCall (v a, v b, parse_body body)
     (* C:<r>,<y>,<form><wrap>: how the call is written in the source (func / lambda / named function; the body
        statements inside further parameterless functions, if, for). The machine has ONE call operation: a name
        other than a fresh local - the parameter or an outer variable, at any depth - is read and written through
        to its binding, so every written form is the same OCall. *)
     | [a; b; _] when k = 'C' -> OCall (v a, v b, parse_body body)
     | _ -> failwith "bad op head")
  | _ -> failwith ("bad op " ^ s)

let rec render (p : pval) : string =
  match p with
  | PInt z -> string_of_z z
  | PNil -> "nil"
  | PArr l -> "[" ^ String.concat "," (List.map render l) ^ "]"
  | PMap l -> "{" ^ String.concat "," (List.map (fun (k, x) -> string_of_z k ^ ":" ^ render x) l) ^ "}"
let kind (x : val0) = match x with
  | VInt _ -> "i" | VNil -> "n" | VArrS _ -> "s" | VArrB _ -> "b" | VMapS _ -> "S" | VMapB _ -> "B"
let rd h x = match read fuel h x with Some p -> render p | None -> "UNREADABLE"
let sorted l = List.sort (fun (a, _) (b, _) -> compare (int_of_nat a) (int_of_nat b)) l

let () = iter_lines (fun line ->
  match split_on ' ' line with
  | [id; "SEQ"; mode; slack; opss] ->
    let cfg = if mode = "P" then pinned_cfg else repo_cfg in
    let sl = int_of_string slack in
    let orc = fun _ _ needed -> nat_of_int (int_of_nat needed + sl) in
    (* V:... = a variadic call: the machine has no variadic functions; such sequences are judged by the harness's own
       reference semantics and its snapshot oracle only *)
    if List.exists (fun o -> String.length o > 0 && o.[0] = 'V') (String.split_on_char ';' opss)
    then print_endline (id ^ " SKIP variadic call (direct oracle only)") else
    (* Y:... = a raw statement outside the machine's values (floats, function values, extension calls): direct oracle only *)
    if List.exists (fun o -> String.length o > 0 && o.[0] = 'Y') (String.split_on_char ';' opss)
    then print_endline (id ^ " SKIP raw statement (direct oracle only)") else
    (* X:<hex of the source>:<op>&<op>... = ONE source statement whose effect is these machine statements in a row
       (closures over a local array, a memoized maker: the local / temporary is a hidden variable, number >= 16, not reported) *)
    let parse_top o =
      if String.length o > 2 && o.[0] = 'X' then
        (match String.split_on_char ':' o with
         | _ :: _ :: rest -> List.map parse_op (String.split_on_char '&' (String.concat ":" rest))
         | _ -> failwith "bad X op")
      else [parse_op o] in
    let is_x o = String.length o > 2 && o.[0] = 'X' in
    let ops = List.map (fun o -> (is_x o, parse_top o)) (String.split_on_char ';' opss) in
    let st = ref empty_state and ps = ref [] in
    let dom = ref false in
    let visible l = List.filter (fun (x, _) -> int_of_nat x < 16) l in
    let outs = List.map (fun (isx, group) ->
      let rec go ops (lst, lps) =
        match ops with
        | [] -> (lst, lps)
        | op :: rest ->
          let (st', status) = op_step cfg orc !st op in
          let (ps', pstatus) = p_op_step !ps op in
          st := st'; ps := ps';
          (match status with
           | Done _ -> go rest (status, pstatus)
           | _ -> (status, pstatus)) in
      let (status, pstatus) = go group (Failed, PFailed) in
      let st' = { !st with sstore = visible !st.sstore } and ps' = visible !ps in
      let h = st'.sheap in
      let head, phead = (match status with
        | Done (RV x) -> "ok=" ^ rd h x
        | Done (RB b) -> "ok=" ^ string_of_bool b
        | Failed -> "err"
        | OutDom -> dom := true; "dom"
        | IsStuck -> "STUCK"),
        (match pstatus with
        | PDone (PRV p) -> "ok=" ^ render p
        | PDone (PRB b) -> "ok=" ^ string_of_bool b
        | PFailed -> "err"
        | POutDom -> "dom"
        | PIsStuck -> "STUCK") in
      (* the value of an X statement (a function text, ...) is not part of the observation: only ok / err *)
      let head = if isx && String.length head > 2 && String.sub head 0 3 = "ok=" then "ok" else head in
      let phead = if isx && String.length phead > 2 && String.sub phead 0 3 = "ok=" then "ok" else phead in
      let bs = List.map (fun (x, xv) -> Printf.sprintf "v%d=%s%s" (int_of_nat x) (kind xv) (rd h xv)) (sorted st'.sstore) in
      let pbs = List.map (fun (x, p) -> Printf.sprintf "v%d=%s" (int_of_nat x) (render p)) (sorted ps') in
      let mbs = List.map (fun (x, xv) -> Printf.sprintf "v%d=%s" (int_of_nat x) (rd h xv)) (sorted st'.sstore) in
      let div = if cfg.cow && (head <> phead || mbs <> pbs) then " DIVERGE(pure: " ^ String.concat " " (phead :: pbs) ^ ")" else "" in
      String.concat " " (head :: bs) ^ div) ops in
    if !dom then print_endline (id ^ " SKIP dom")
    else print_endline (id ^ " " ^ String.concat " | " outs)
  | _ -> ())
