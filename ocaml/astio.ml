(* Reader and writer for the canonical AST dump (format: harness/common/astdump.go) over the
   extracted Ast.node type.  Requires helpers.ml and zhelpers.ml. *)
type sx = A of string | L of sx list | B of sx list   (* atom, ( ... ), [ ... ] *)

let parse_sx (s : string) : sx =
  let n = String.length s in
  let pos = ref 0 in
  let rec skip () = if !pos < n && s.[!pos] = ' ' then (incr pos; skip ()) in
  let rec item () : sx =
    skip ();
    if !pos >= n then failwith "sx: eof" else
    match s.[!pos] with
    | '(' -> incr pos; L (items ')')
    | '[' -> incr pos; B (items ']')
    | _ -> let st = !pos in
           while !pos < n && (match s.[!pos] with ' ' | '(' | ')' | '[' | ']' -> false | _ -> true) do incr pos done;
           A (String.sub s st (!pos - st))
  and items (close : char) : sx list =
    skip ();
    if !pos >= n then failwith "sx: unclosed" else
    if s.[!pos] = close then (incr pos; []) else
    let x = item () in x :: items close
  in item ()

let tok_of (t : string) (l : string) : tok = { ttype = z_of_string t; tlit = bytes_of_hex l }
let bool_of = function "1" -> true | _ -> false

let rec node_of_sx (x : sx) : node option =
  match x with
  | A "nil" -> None
  | L (A k :: A t :: A l :: rest) when k <> "Stmts" ->
    let tk = tok_of t l in
    Some (match k, rest with
      | "Id", [] -> NIdent tk
      | "Int", [A v] -> NInt (tk, z_of_string v)
      | "Float", [A b] -> NFloat (tk, n_of_uint64 (Int64.of_string ("0u" ^ b)))
      | "Str", [] -> NString tk
      | "Bool", [A b] -> NBool (tk, bool_of b)
      | "Cmt", [A p; A n] -> NComment (tk, bool_of p, bool_of n)
      | "Ctl", [] -> NControl tk
      | "Ret", [v] -> NReturn (tk, node_of_sx v)
      | "Pre", [r] -> NPrefix (tk, node_of_sx r)
      | "Post", [A pt; A pl] -> NPostfix (tk, tok_of pt pl)
      | "In", [a; b] -> NInfix (tk, node_of_sx a, node_of_sx b)
      | "For", [c; b] -> NFor (tk, node_of_sx c, node_of_sx b)
      | "If", [c; a; b] -> NIf (tk, node_of_sx c, node_of_sx a, node_of_sx b)
      | "Bi", [p] -> NBuiltin (tk, list_of_sx p)
      | "Fn", [nm; p; b; A v; A lam] ->
        let name = (match nm with A "-" -> None | L [A nt; A nl] -> Some (tok_of nt nl) | _ -> failwith "sx: fn name") in
        NFunc (tk, name, list_of_sx p, node_of_sx b, bool_of v, bool_of lam)
      | "Call", [f; a] -> NCall (tk, node_of_sx f, list_of_sx a)
      | "Arr", [e] -> NArray (tk, list_of_sx e)
      | "Idx", [a; b] -> NIndex (tk, node_of_sx a, node_of_sx b)
      | "Map", [B kv] ->
        let rec pairs = function [] -> [] | k :: v :: r -> (node_of_sx k, node_of_sx v) :: pairs r | _ -> failwith "sx: map" in
        NMap (tk, pairs kv)
      | "Mac", [p; b] -> NMacro (tk, list_of_sx p, node_of_sx b)
      | _ -> failwith ("sx: bad node " ^ k))
  | L [A "Stmts"; B l] -> Some (NStmts (List.map node_of_sx l))
  | _ -> failwith "sx: bad shape"
and list_of_sx (x : sx) : node option list option =
  match x with A "nil" -> None | B l -> Some (List.map node_of_sx l) | _ -> failwith "sx: list"

let read_ast (s : string) : node option = node_of_sx (parse_sx s)

let tk (t : tok) : string = string_of_z t.ttype ^ " " ^ hex_of_bytes t.tlit
let b01 b = if b then "1" else "0"
let rec dump_opt (x : node option) : string = match x with None -> "nil" | Some n -> dump_node n
and dump_list (x : node option list option) : string =
  match x with None -> "nil" | Some l -> "[" ^ String.concat " " (List.map dump_opt l) ^ "]"
and dump_node (n : node) : string =
  match n with
  | NIdent t -> "(Id " ^ tk t ^ ")"
  | NInt (t, v) -> "(Int " ^ tk t ^ " " ^ string_of_z v ^ ")"
  | NFloat (t, b) -> "(Float " ^ tk t ^ " " ^ Printf.sprintf "%Lu" (uint64_of_n b) ^ ")"
  | NString t -> "(Str " ^ tk t ^ ")"
  | NBool (t, b) -> "(Bool " ^ tk t ^ " " ^ b01 b ^ ")"
  | NComment (t, p, n) -> "(Cmt " ^ tk t ^ " " ^ b01 p ^ " " ^ b01 n ^ ")"
  | NControl t -> "(Ctl " ^ tk t ^ ")"
  | NReturn (t, v) -> "(Ret " ^ tk t ^ " " ^ dump_opt v ^ ")"
  | NStmts l -> "(Stmts " ^ dump_list (Some l) ^ ")"
  | NPrefix (t, r) -> "(Pre " ^ tk t ^ " " ^ dump_opt r ^ ")"
  | NPostfix (t, p) -> "(Post " ^ tk t ^ " " ^ tk p ^ ")"
  | NInfix (t, a, b) -> "(In " ^ tk t ^ " " ^ dump_opt a ^ " " ^ dump_opt b ^ ")"
  | NFor (t, c, b) -> "(For " ^ tk t ^ " " ^ dump_opt c ^ " " ^ dump_opt b ^ ")"
  | NIf (t, c, a, b) -> "(If " ^ tk t ^ " " ^ dump_opt c ^ " " ^ dump_opt a ^ " " ^ dump_opt b ^ ")"
  | NBuiltin (t, p) -> "(Bi " ^ tk t ^ " " ^ dump_list p ^ ")"
  | NFunc (t, nm, p, b, v, lam) ->
    "(Fn " ^ tk t ^ " " ^ (match nm with None -> "-" | Some x -> "(" ^ tk x ^ ")") ^ " " ^ dump_list p ^ " "
    ^ dump_opt b ^ " " ^ b01 v ^ " " ^ b01 lam ^ ")"
  | NCall (t, f, a) -> "(Call " ^ tk t ^ " " ^ dump_opt f ^ " " ^ dump_list a ^ ")"
  | NArray (t, e) -> "(Arr " ^ tk t ^ " " ^ dump_list e ^ ")"
  | NIndex (t, a, b) -> "(Idx " ^ tk t ^ " " ^ dump_opt a ^ " " ^ dump_opt b ^ ")"
  | NMap (t, kv) -> "(Map " ^ tk t ^ " [" ^ String.concat " " (List.map (fun (k, v) -> dump_opt k ^ " " ^ dump_opt v) kv) ^ "])"
  | NMacro (t, p, b) -> "(Mac " ^ tk t ^ " " ^ dump_list p ^ " " ^ dump_opt b ^ ")"
