(* Driver for C13 (macro expansion).
   case : <id> MACRO <hex of ast dump of input 1> <hex of input 2> ...   (one persistent macro environment)
   out  : <id> <r1> <r2> ...   r = hex of the dump of the expanded program (spaces removed) | SKIP | FAIL *)
let string_of_hex h = String.concat "" (List.map (fun b -> String.make 1 (Char.chr (int_of_n b))) (bytes_of_hex h))
let hex_of_string s = if s = "" then "-" else String.concat "" (List.map (fun c -> Printf.sprintf "%02x" (Char.code c)) (List.init (String.length s) (String.get s)))
let nospace s = String.concat "" (String.split_on_char ' ' s)

let () = iter_lines (fun line ->
  match split_on ' ' line with
  | id :: "MACRO" :: inputs ->
    let env = ref [] in
    let outs = List.map (fun h ->
      match read_ast (string_of_hex h) with
      | Some (NStmts stmts) ->
        let (res, e') = define_and_expand stmts !env in
        env := e';
        if not (env_in_fragment e') then "SKIP"
        else (match res with
              | Some l -> hex_of_string (nospace (dump_list (Some l)))
              | None -> "FAIL")
      | _ -> "BAD") inputs in
    (* one SKIP anywhere makes the rest of the session incomparable *)
    if List.mem "SKIP" outs then print_endline (id ^ " SKIP") else print_endline (String.concat " " (id :: outs))
  | id :: _ -> print_endline (id ^ " BADCASE")
  | [] -> ())
