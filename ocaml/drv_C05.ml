(* MODEL: registers_model *)
(* cases:  <id> MODREG <name hex> <ast dump of the body>
             out: ok=1 cnt=<Count> <dump of the rewritten body> | ok=0 | panic
           <id> SESS <regs 0|1> <skel>|<skel>|...
             out: one "<outcome>:<root numReg>:<flags>:<probes>" per input (see skelio.ml)          *)
let replace_all (s : string) (a : string) (b : string) : string =
  let la = String.length a in
  let buf = Buffer.create (String.length s) in
  let i = ref 0 in
  while !i < String.length s do
    if !i + la <= String.length s && String.sub s !i la = a then (Buffer.add_string buf b; i := !i + la)
    else (Buffer.add_char buf s.[!i]; incr i)
  done;
  Buffer.contents buf

let reg_ord = string_of_z token_REGISTER
(* an *object.Register used as a node is an NIdent with the REGISTER token type in the model *)
let to_model (dump : string) = replace_all dump ("(Reg " ^ reg_ord ^ " ") ("(Id " ^ reg_ord ^ " ")
let of_model (dump : string) = replace_all dump ("(Id " ^ reg_ord ^ " ") ("(Reg " ^ reg_ord ^ " ")

let () = iter_lines (fun line ->
  match split_on ' ' line with
  | id :: "MODREG" :: name :: rest ->
    let dump = String.concat " " rest in
    (match read_ast (to_model dump) with
     | None -> print_endline (id ^ " SKIP nil body")
     | Some body ->
       let nm = bytes_of_hex name in
       if not (wf_node body) then print_endline (id ^ " SKIP not well formed") else
       (match modify_register nm body with
        | ROk b -> Printf.printf "%s ok=1 cnt=%d %s\n" id (int_of_nat (count_occ nm body)) (of_model (dump_node b))
        | RBail -> Printf.printf "%s ok=0\n" id
        | RPanic -> Printf.printf "%s panic\n" id))
  | id :: "SESS" :: regs :: rest ->
    let inputs = skels_of_string (String.concat " " rest) in
    print_endline (id ^ " " ^ session_line (repaired (regs = "1")) inputs)
  | _ -> ())
