(* MODEL: memo_model *)
(* case:  <id> MEMO <cache 0|1> <fuel> <ndefs> <def>* <ninputs> <expr>*
     def   ::= <keyhex> <namehex | ~> <nparams> <paramhex>* <expr>
     expr  ::= L <value> | V <hex> | A <hex> <expr> | F <d> | C <expr> <n> <expr>* | R <n> <expr>*
             | B <add|sub|lt> <expr> <expr> | I <expr> <expr> <expr> | S <expr> <expr> | P <n> <expr>*
             | G <hex> | E <hex> | X <r|t> | D <hex> | K <expr>      (K e = catch(e).err; a last parameter 2e2e = ".." makes a definition variadic)
     value ::= i<z> | fz | fm | fn | fw<z> | fh<z> | s<hex> | bt | bf | n | a<n> <value>*
   out :  <id> K=<closed_hist> <seg>|<seg>...   one segment per input:
            R=<V:hexinspect | E | F> O=<hex out> L=<hex log> N=<cache entries> S=<new entries, sorted, comma separated | ->
            entry = <keyhex>(<hex of args inspect joined by ','>)=<hex res inspect>/<hex out>
          <id> SKIP <why>   when an input leaves the model's domain (OStuck) or the fuel runs out            *)
exception Parse of string

let toks = ref [||]
let pos = ref 0
let next () = if !pos >= Array.length !toks then raise (Parse "eof") else (let t = !toks.(!pos) in incr pos; t)
let int_tok () = int_of_string (next ())
let rec times n f = if n <= 0 then [] else let x = f () in x :: times (n - 1) f

let rec p_value () : value =
  let t = next () in
  let rest () = String.sub t 1 (String.length t - 1) in
  match t.[0] with
  | 'i' -> VInt (z_of_string (rest ()))
  | 'f' -> (match t.[1] with
            | 'z' -> VFlt FPosZero | 'm' -> VFlt FNegZero | 'n' -> VFlt FNaN
            | 'w' -> VFlt (FWhole (z_of_string (String.sub t 2 (String.length t - 2))))
            | 'h' -> VFlt (FHalf (z_of_string (String.sub t 2 (String.length t - 2))))
            | _ -> raise (Parse t))
  | 's' -> VStr (bytes_of_hex (rest ()))
  | 'b' -> VBool (t = "bt")
  | 'n' -> VNil
  | 'a' -> let n = int_of_string (rest ()) in VArr (times n p_value)
  | _ -> raise (Parse t)

let rec p_expr () : expr =
  match next () with
  | "L" -> ELit (p_value ())
  | "V" -> EVar (bytes_of_hex (next ()))
  | "A" -> let x = bytes_of_hex (next ()) in EAssign (x, p_expr ())
  | "F" -> EFun (nat_of_int (int_tok ()))
  | "C" -> let f = p_expr () in let n = int_tok () in ECall (f, times n p_expr)
  | "R" -> let n = int_tok () in EArr (times n p_expr)
  | "B" -> let o = (match next () with "add" -> OAdd | "sub" -> OSub | "lt" -> OLt | t -> raise (Parse t)) in
           let a = p_expr () in let b = p_expr () in EBin (o, a, b)
  | "I" -> let c = p_expr () in let a = p_expr () in let b = p_expr () in EIf (c, a, b)
  | "S" -> let a = p_expr () in let b = p_expr () in ESeq (a, b)
  | "P" -> let n = int_tok () in EPrint (times n p_expr)
  | "G" -> ELog (bytes_of_hex (next ()))
  | "E" -> EError (bytes_of_hex (next ()))
  | "X" -> EExt (match next () with "r" -> XRand1 | "t" -> XTimePos | t -> raise (Parse t))
  | "D" -> EDel (bytes_of_hex (next ()))
  | "K" -> ECatchErr (p_expr ())
  | "Z" -> raise (Parse "opaque")      (* raw grol source outside the model's language: the whole case is SKIPped *)
  | t -> raise (Parse t)

let p_def () : fdef =
  let key = bytes_of_hex (next ()) in
  let name = (match next () with "~" -> None | h -> Some (bytes_of_hex h)) in
  let np = int_tok () in
  let ps = times np (fun () -> bytes_of_hex (next ())) in
  let body = p_expr () in
  { fd_key = key; fd_name = name; fd_params = ps; fd_body = body }

let insp (v : value) : string = match inspect v with Some b -> hex_of_bytes b | None -> "?"
let comma = [n_of_int 44]
let entry_str (ce : centry) : string =
  let args = List.map (fun v -> match inspect v with Some b -> b | None -> [n_of_int 63]) ce.ce_args in
  let rec joinb = function [] -> [] | [x] -> x | x :: l -> x @ comma @ joinb l in
  Printf.sprintf "%s(%s)=%s/%s" (hex_of_bytes ce.ce_key) (hex_of_bytes (joinb args)) (insp ce.ce_res) (hex_of_bytes ce.ce_out)

let () = iter_lines (fun line ->
  match split_on ' ' line with
  | id :: "MEMO" :: rest ->
    (try
      toks := Array.of_list rest; pos := 0;
      let on = (next () = "1") in
      let fuel = nat_of_int (int_tok ()) in
      let nd = int_tok () in
      let defs = times nd p_def in
      let ni = int_tok () in
      let inputs = times ni p_expr in
      let results = run on fuel defs init_state inputs in
      let bad = List.exists (fun (r, _) -> match r.r_oc with OVal _ -> false | _ -> true) results in
      if bad then begin
        let why = List.fold_left (fun acc (r, _) -> match r.r_oc with OStuck -> "stuck" | OFuel -> if acc = "stuck" then acc else "fuel" | _ -> acc) "" results in
        print_endline (id ^ " SKIP " ^ why)
      end else begin
        let prev = ref [] in
        let segs = List.map (fun (r, st) ->
          let rs = (match r.r_oc with
                    | OVal (VErr _) -> "E"
                    | OVal v -> if has_function v then "F" else "V:" ^ insp v
                    | _ -> "?") in
          let cur = List.sort compare (List.map entry_str st.st_cache) in
          let fresh = List.filter (fun e -> not (List.mem e !prev)) cur in
          prev := cur;
          Printf.sprintf "R=%s O=%s L=%s N=%d S=%s" rs (hex_of_bytes r.r_out) (hex_of_bytes r.r_log)
            (List.length cur) (if fresh = [] then "-" else String.concat "," fresh)) results in
        print_endline (Printf.sprintf "%s K=%d %s" id (if closed_session defs inputs then 1 else 0) (String.concat "|" segs))
      end
    with Parse t -> print_endline (id ^ " SKIP parse:" ^ t))
  | _ -> ())
