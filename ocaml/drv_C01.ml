(* MODEL: refeval_model *)
(* case:  <id> EVAL <maxdepth> <hex src> <AST dump of the real parser's tree, spaces written as '_'>
   out :  <id> OUT <hex printed bytes> RES V <value> | RES E          (DESIGN Appendix B)
          <id> SKIP <why>   when the program leaves the reference's domain (inexact float, macros,
                            extensions, printer-dependent text, error-message text, out of fuel)      *)
let fuel : nat =
  let rec go acc i = if i <= 0 then acc else go (S acc) (i - 1) in go O 30000

let undump (d : string) : string = String.map (fun c -> if c = '_' then ' ' else c) d

(* printed text: st.out holds the written chunks newest first; iterative (outputs of a few MiB) *)
let hex_of_chunks (chunks : n list list) : string =
  let b = Buffer.create 4096 in
  let hexd = "0123456789abcdef" in
  List.iter (fun chunk ->
    List.iter (fun x -> let i = int_of_n x in Buffer.add_char b hexd.[i lsr 4]; Buffer.add_char b hexd.[i land 15]) chunk)
    (List.rev chunks);
  if Buffer.length b = 0 then "-" else Buffer.contents b

let rec render (b : Buffer.t) (v : value) : unit =
  match v with
  | VInt z -> Buffer.add_string b ("I" ^ string_of_z z)
  | VFloat f -> Buffer.add_string b (Printf.sprintf "F%016Lx" (uint64_of_n (bits_of_fl f)))
  | VBool true -> Buffer.add_string b "B1"
  | VBool false -> Buffer.add_string b "B0"
  | VNil -> Buffer.add_string b "N"
  | VStr s -> Buffer.add_string b ("S" ^ hex_of_bytes s)
  | VArr l ->
    Buffer.add_string b "A[";
    List.iteri (fun i x -> if i > 0 then Buffer.add_char b ','; render b x) l;
    Buffer.add_char b ']'
  | VMap m ->
    Buffer.add_string b "M{";
    List.iteri (fun i (k, x) -> if i > 0 then Buffer.add_char b ','; render b k; Buffer.add_char b ':'; render b x) m;
    Buffer.add_char b '}'
  | VFun (_, _, _, _, _, _) -> Buffer.add_string b "U"
  | VOpaque -> Buffer.add_string b "?opaque"

let eval_line (id : string) (dumphex : string) : string =
  match (try read_ast (undump dumphex) with Failure m -> None) with
  | None -> id ^ " SKIP unreadable-tree"
  | Some prog ->
    (try
      let (o, st) = eval_program fuel prog in
      let outp = "OUT " ^ hex_of_chunks st.out ^ " RES " in
      (match o with
       | OVal v ->
         if has_opaque v then id ^ " SKIP opaque-error-text"
         else (let b = Buffer.create 64 in render b v; id ^ " " ^ outp ^ "V " ^ Buffer.contents b)
       | OErr _ -> id ^ " " ^ outp ^ "E"
       | OAbort AFuel -> id ^ " SKIP fuel"
       | OAbort AInexact -> id ^ " SKIP inexact"
       | OAbort AUnk -> id ^ " SKIP unk"
       | ORet _ | OBrk | OCont -> id ^ " SKIP signal")
    with Stack_overflow -> id ^ " SKIP stack")

let () = iter_lines (fun line ->
  match split_on ' ' line with
  | id :: "EVAL" :: _maxdepth :: _src :: dump :: _ ->
    print_string (eval_line id dump); print_newline (); flush stdout
  | id :: _ -> print_string (id ^ " SKIP bad-case-line"); print_newline (); flush stdout
  | [] -> ())
