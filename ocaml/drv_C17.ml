(* MODEL: sanitize_model *)
(* cfg  ::= four characters 0/1: HasLoad HasSave LoadSaveEmptyOnly UnrestrictedIOs
   name ::= hex bytes | "-" (the empty string) | "~" (no argument at all)
   case:  <id> SAN <cfg> <name>,<name>,...            out: <id> r,r,...      r ::= "!" (error) | hex of the accepted file name
          <id> SANX <cfg> <len> <alphabet> <prefix>   every name = prefix ++ w, w over the alphabet (first position outermost), each followed by name ++ ".gr";
                                                      out: <id> one character per name: "!" error | "=" accepted unchanged | "+" accepted as name ++ suffix | ?hex? other
          <id> ALW <cfg> <name>,<name>,...            out: <id> bits          allowedb cfg name, one character per name
          <id> REG <cfg>                              out: <id> save=b load=b exec=b run=b
          <id> DEF <B> <base>                         out: <id> ok           names a baseline file system for later cases
          <id> FS <cfg> <base> <req>+<req>+...        base ::= "@" | <name>:<content>,... | =<B>
               req ::= S:<name>:<content>:<ok> | L:<name> | I:<found>:<content>:<ok> | X | R
               ok = whether os.Create of the resolved name succeeds (the OS, an argument of the model)
               out: <id> o+o+... | <name>=<content>/<allowed>,...   (files new or changed w.r.t. base, sorted by hex name; "@" if none)
               o ::= undef | rej | cfail:<name> | saved:<name> | nofile:<name> | loaded:<name>:<content>
                   | noimg | img | spawned
          <id> FSL <cfg> <base> <req>+<req>+...       same input; out: <id> per request the names handed to the OS, in order:
               a,a,... | "-"     a ::= C:<name> (os.Create) | O:<name> (os.Open) | P: (process) *)
let cfg_of s =
  { has_load = (s.[0] = '1'); has_save = (s.[1] = '1'); empty_only = (s.[2] = '1'); unrestricted = (s.[3] = '1') }
let arg_of s = if s = "~" then None else Some (bytes_of_hex s)
let b01 b = if b then "1" else "0"
let outcome_str = function
  | OUndefined -> "undef"
  | ORejected -> "rej"
  | OCreateFailed n -> "cfail:" ^ hex_of_bytes n
  | OSaved n -> "saved:" ^ hex_of_bytes n
  | ONoFile n -> "nofile:" ^ hex_of_bytes n
  | OLoaded (n, d) -> "loaded:" ^ hex_of_bytes n ^ ":" ^ hex_of_bytes d
  | OImageNotFound -> "noimg"
  | OImageSaved -> "img"
  | OSpawned -> "spawned"

let bases : (string, string) Hashtbl.t = Hashtbl.create 7

let () = iter_lines (fun line ->
  match split_on ' ' line with
  | [id; "DEF"; name; base] -> Hashtbl.replace bases name base; print_endline (id ^ " ok")
  | [id; "SAN"; cs; names] ->
    let c = cfg_of cs in
    let rs = List.map (fun nm -> match sanitize c (arg_of nm) with None -> "!" | Some f -> hex_of_bytes f) (split_on ',' names) in
    print_endline (id ^ " " ^ String.concat "," rs)
  | [id; "SANX"; cs; l; alpha; prefix] ->
    let c = cfg_of cs in
    let alpha = bytes_of_hex alpha and pre = bytes_of_hex prefix in
    let buf = Buffer.create 65536 in
    let code name = match sanitize c (Some name) with
      | None -> "!"
      | Some f -> if f = name then "=" else if f = name @ suffix then "+" else "?" ^ hex_of_bytes f ^ "?" in
    let rec go k acc =
      if k = 0 then begin
        let name = pre @ List.rev acc in
        Buffer.add_string buf (code name); Buffer.add_string buf (code (name @ dot_gr))
      end else List.iter (fun a -> go (k - 1) (a :: acc)) alpha in
    go (int_of_string l - List.length pre) [];
    print_endline (id ^ " " ^ Buffer.contents buf)
  | [id; "ALW"; cs; names] ->
    let c = cfg_of cs in
    let rs = List.map (fun nm -> b01 (allowedb c (bytes_of_hex nm))) (split_on ',' names) in
    print_endline (id ^ " " ^ String.concat "" rs)
  | [id; "REG"; cs] ->
    let c = cfg_of cs in
    let r = registered c in
    let has f = b01 (List.mem f r) in
    Printf.printf "%s save=%s load=%s exec=%s run=%s\n" id (has FSave) (has FLoad) (has FExec) (has FRun)
  | [id; ("FS" | "FSL" as kind); cs; base; reqs] ->
    let c = cfg_of cs in
    let base = if String.length base > 0 && base.[0] = '=' then Hashtbl.find bases (String.sub base 1 (String.length base - 1)) else base in
    let f0 : fs = if base = "@" then [] else
      List.map (fun e -> match split_on ':' e with
        | [n; d] -> (bytes_of_hex n, bytes_of_hex d) | _ -> failwith "bad base entry") (split_on ',' base) in
    let st = ref ((f0, []) : state) in
    let outs = List.map (fun r ->
      let (req, okb) = match split_on ':' r with
        | ["S"; a; d; ok] -> (RSave (arg_of a, bytes_of_hex d), ok = "1")
        | ["L"; a] -> (RLoad (arg_of a), true)
        | ["I"; fd; d; ok] -> (RImageSave (fd = "1", bytes_of_hex d), ok = "1")
        | ["X"] -> (RExec [], true)
        | ["R"] -> (RRun [], true)
        | _ -> failwith ("bad request " ^ r) in
      (* one request at a time = [run] on a singleton, so that each request carries its own OS answer *)
      let (st', os) = run c (fun _ -> okb) !st [req] in
      let nold = List.length (snd !st) in
      let added = List.filteri (fun i _ -> i >= nold) (snd st') in
      st := st';
      if kind = "FS" then String.concat "+" (List.map outcome_str os)
      else if added = [] then "-"
      else String.concat "," (List.map (function
             | ACreate n -> "C:" ^ hex_of_bytes n | AOpen n -> "O:" ^ hex_of_bytes n | ASpawn _ -> "P:") added))
      (split_on '+' reqs) in
    if kind = "FSL" then print_endline (id ^ " " ^ String.concat "+" outs) else
    let (f', _) = !st in
    let ch = List.map (fun (n, d) -> (hex_of_bytes n, hex_of_bytes d ^ "/" ^ b01 (allowedb c n))) (fs_changes f0 f') in
    let ch = List.sort compare ch in
    let chs = if ch = [] then "@" else String.concat "," (List.map (fun (n, d) -> n ^ "=" ^ d) ch) in
    print_endline (id ^ " " ^ String.concat "+" outs ^ " | " ^ chs)
  | _ -> ())
