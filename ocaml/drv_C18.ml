(* MODEL: autosave_model  (C18: auto-save is crash-atomic)
   case:  <id> AS <old> <extras> <bindings> <scenario>
            old      ::= absent | <hex>           ("-" = empty file)
            extras   ::= none | <hexname>:<hexcontent>,...     other files already in the directory
            bindings ::= none | <hex>,<hex>,...                 the chunks SaveGlobals writes (one per binding)
            scenario ::= CRASH <k> <torn> | FAULT <i> <partial> | FAULT2 <i> <partial> | NONE | UNCHANGED | DISABLED
                       | MEMBER <gr> <tmp> | FMEMBER <gr> <tmp> <err>
   out :  <id> GR=<absent|hex> TMP=<absent|hex> EX=<extras> [ERR=<0|1> [ERR2=<0|1>]]      |  <id> IN=<0|1>
   The model always runs the skeleton generated from /repo (autosave_skeleton) with the executable crash effect
   torn_step; the temporary file is called .grol000.tmp in the model (the real name is random). *)
(* the model appends to immutable lists (one copy of the file per write): give the GC room *)
let () = Gc.set { (Gc.get ()) with Gc.minor_heap_size = 8 * 1024 * 1024; Gc.space_overhead = 400 }
let tmp_name : n list = List.map (fun c -> n_of_int (Char.code c)) (List.of_seq (String.to_seq ".grol000.tmp"))
let opt_of s = if s = "absent" then None else Some (bytes_of_hex s)
let show_opt = function None -> "absent" | Some b -> hex_of_bytes b
let parse_extras s =
  if s = "none" then [] else
  List.map (fun e -> match String.split_on_char ':' e with
    | [n; c] -> (bytes_of_hex n, bytes_of_hex c)
    | _ -> failwith "bad extra") (split_on ',' s)
let show_extras fs extras =
  if extras = [] then "none" else
  String.concat "," (List.map (fun (n, _) -> hex_of_bytes n ^ ":" ^ show_opt (fs_get fs n)) extras)
let nat_of_int (i : int) : nat = let rec go acc i = if i <= 0 then acc else go (S acc) (i - 1) in go O i
let bit b = if b then "1" else "0"
let one = Zpos XH
let big : nat = nat_of_int 1000000   (* k beyond every action list: no crash *)

let () = iter_lines (fun line ->
  match split_on ' ' line with
  | id :: "AS" :: old :: extras :: bindings :: scen ->
    let extras = parse_extras extras in
    let fs0 = (match opt_of old with None -> [] | Some c -> [(autosave_state_file, c)]) @ extras in
    let bs = if bindings = "none" then [] else List.map bytes_of_hex (split_on ',' bindings) in
    let show fs =
      let (gr, tmp) = observe tmp_name autosave_state_file fs in
      Printf.sprintf "GR=%s TMP=%s EX=%s" (show_opt gr) (show_opt tmp) (show_extras fs extras) in
    let out = match scen with
      | ["CRASH"; k; torn] ->
        show (after torn_step tmp_name autosave_skeleton bs NoFault (nat_of_int (int_of_string k)) (nat_of_int (int_of_string torn)) fs0)
      | ["FAULT"; i; p] ->
        let f = FaultAt (nat_of_int (int_of_string i), nat_of_int (int_of_string p)) in
        let (_, err) = autosave_actions tmp_name autosave_skeleton bs f fs0 in
        show (after torn_step tmp_name autosave_skeleton bs f big O fs0) ^ " ERR=" ^ bit err
      | ["FAULT2"; i; p] ->
        let f = FaultAt (nat_of_int (int_of_string i), nat_of_int (int_of_string p)) in
        let ((_, err), last') = autosave_session tmp_name autosave_skeleton bs f fs0 true Z0 one in
        let fs1 = session_after torn_step tmp_name autosave_skeleton bs f big O fs0 true Z0 one in
        (* second AutoSave of the same session: nothing set in between, no fault injected *)
        let ((_, err2), _) = autosave_session tmp_name autosave_skeleton bs NoFault fs1 true last' one in
        let fs2 = session_after torn_step tmp_name autosave_skeleton bs NoFault big O fs1 true last' one in
        show fs2 ^ " ERR=" ^ bit err ^ " ERR2=" ^ bit err2
      | ["NONE"] ->
        let ((_, err), _) = autosave_session tmp_name autosave_skeleton bs NoFault fs0 true Z0 one in
        show (session_after torn_step tmp_name autosave_skeleton bs NoFault big O fs0 true Z0 one) ^ " ERR=" ^ bit err
      | ["UNCHANGED"] ->
        let ((_, err), _) = autosave_session tmp_name autosave_skeleton bs NoFault fs0 true one one in
        show (session_after torn_step tmp_name autosave_skeleton bs NoFault big O fs0 true one one) ^ " ERR=" ^ bit err
      | ["DISABLED"] ->
        let ((_, err), _) = autosave_session tmp_name autosave_skeleton bs NoFault fs0 false Z0 one in
        show (session_after torn_step tmp_name autosave_skeleton bs NoFault big O fs0 false Z0 one) ^ " ERR=" ^ bit err
      | ["MEMBER"; gr; tmp] ->
        (* candidate crash points from the temp file's length first (sound: AutoSave_proofs.crash_possible_fast_sound);
           the full enumeration only as a fallback on small states *)
        let o = (opt_of gr, opt_of tmp) in
        let total = List.fold_left (fun a b -> a + List.length b) 0 bs in
        "IN=" ^ bit (crash_possible_fast tmp_name autosave_state_file autosave_skeleton bs fs0 o
                     || (total <= 4096 && crash_possible tmp_name autosave_state_file autosave_skeleton bs fs0 o))
      | ["FMEMBER"; gr; tmp; err] ->
        "IN=" ^ bit (fault_possible tmp_name autosave_state_file autosave_skeleton bs fs0 (opt_of gr, opt_of tmp) (err = "1"))
      | _ -> "SKIP unknown scenario" in
    print_endline (id ^ " " ^ out)
  | _ -> ())
