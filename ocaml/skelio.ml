(* Reader of control skeletons (model/Registers.v) and printers shared by drv_C05.ml / drv_C10.ml.
   Requires helpers.ml and nathelpers.ml.
     skel ::= n | b | c | r | e | p | d        leaf: normal break continue return error panic depth-panic
            | P                                probe
            | (S skel ...)                     statements
            | (L <named><rewritable> skel ...) counted loop, one skel per iteration that starts; flags 0/1
            | (C <nint> skel)                  call binding <nint> integer arguments
            | (K skel)                         catch(..): an error result becomes a value                   *)
type ssx = SA of string | SL of ssx list

let parse_ssx (s : string) : ssx =
  let n = String.length s in
  let pos = ref 0 in
  let rec skip () = if !pos < n && s.[!pos] = ' ' then (incr pos; skip ()) in
  let rec item () : ssx =
    skip ();
    if !pos >= n then failwith "skel: eof" else
    if s.[!pos] = '(' then (incr pos; SL (items ())) else begin
      let st = !pos in
      while !pos < n && (match s.[!pos] with ' ' | '(' | ')' -> false | _ -> true) do incr pos done;
      SA (String.sub s st (!pos - st)) end
  and items () : ssx list =
    skip ();
    if !pos >= n then failwith "skel: unclosed" else
    if s.[!pos] = ')' then (incr pos; []) else
    let x = item () in x :: items ()
  in item ()

let rec skel_of_ssx (x : ssx) : skel =
  match x with
  | SA "n" -> KLeaf LNormal | SA "b" -> KLeaf LBreak | SA "c" -> KLeaf LContinue
  | SA "r" -> KLeaf LReturn | SA "e" -> KLeaf LError | SA "p" -> KLeaf LPanic | SA "d" -> KLeaf LDepth
  | SA "P" -> KProbe
  | SL (SA "S" :: l) -> KSeq (List.map skel_of_ssx l)
  | SL (SA "L" :: SA fl :: l) when String.length fl = 2 ->
    KLoop (fl.[0] = '1', fl.[1] = '1', List.map skel_of_ssx l)
  | SL [SA "K"; b] -> KCatch (skel_of_ssx b)
  | SL [SA "C"; SA k; b] -> KCall (nat_of_int (int_of_string k), skel_of_ssx b)
  | _ -> failwith "skel: bad shape"

(* one top-level skeleton per '|'-separated field (skeletons contain spaces) *)
let skels_of_string (s : string) : skel list =
  List.map (fun f -> skel_of_ssx (parse_ssx f)) (List.filter (fun f -> String.trim f <> "") (String.split_on_char '|' s))

let outcome_str (o : okind) : string =
  match o with
  | OValue -> "v" | OError -> "e"
  | OPanic PNoRegisters -> "p:noreg" | OPanic PNonLifo -> "p:nonlifo"
  | OPanic PRuntime -> "p" | OPanic PDepth -> "p"
  | OStuck -> "stuck"

let probes_str (t : (nat * nat) list) : string =
  if t = [] then "-" else
  String.concat "," (List.map (fun (a, b) -> Printf.sprintf "%d.%d" (int_of_nat a) (if int_of_nat b = 0 then 0 else 1)) t)

(* "<outcome>:<root numReg>:<env is root><depth is 0><out is session writer>:<probes>" after each input *)
let session_line (c : cfg) (inputs : skel list) : string =
  let s = ref new_session in
  let parts = List.map (fun p ->
    let ((o, s'), t) = eval_one c p !s in
    s := s';
    let m = s'.st in
    let root = (match m.envs with r :: _ -> string_of_int (int_of_nat r) | [] -> "?") in
    let flags = (if List.length m.envs = 1 then "1" else "0")
                ^ (if int_of_nat m.depth = 0 then "1" else "0")
                ^ (if int_of_nat m.outs = 0 then "1" else "0") in
    Printf.sprintf "%s:%s:%s:%s" (outcome_str o) root flags (probes_str t)) inputs in
  String.concat " " parts
