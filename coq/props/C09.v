(* C09 - execution is bounded: depth, time and memory guards always hold.
   Only the property theorems (each closed by [exact] of a lemma of proofs/Guards_proofs.v /
   proofs/Arith_proofs.v), the refutation witness for the pinned size arithmetic, non-vacuity examples and
   [Print Assumptions].

   What Coq carries: the LOGIC of the three guards on the abstract machine of model/Guards.v (dynamic call
   tree + continuation stack + State.depth + visit counter + cancellation instant) and the size arithmetic of
   model/Arith.v.  What no Gallina model can exhibit - wall-clock time, the Go stack, resident memory, the
   scheduler, the instant at which a context deadline fires - is observed by harness/cmd/C09 in child
   processes and reported as support, not as proof. *)
From Coq Require Import List ZArith Bool Lia.
From GrolGen Require Import Gen_Consts.
From GrolModel Require Import Arith Guards.
From GrolProofs Require Import Arith_proofs Guards_proofs Guards_cancel_proofs.
Import ListNotations.
Local Open Scope Z_scope.

(* at every step of every run (any tree, any cancellation instant, any fuel) 0 <= depth <= MaxDepth+1 and
   State.depth counts exactly the open Eval activations *)
Theorem C09_depth_invariant : forall maxd ca d0 t n h c,
  0 <= d0 <= maxd + 1 ->
  run maxd ca n (init d0 t) = (h, c) ->
  0 <= c_depth c <= maxd + 1 /\ c_depth c = d0 + ve_frames (c_stack c).
Proof. exact depth_invariant. Qed.

(* a run about to nest one more Eval than the limit allows takes the guard step: the descent is never
   unbounded, whatever the (arbitrarily deep) tree below *)
Theorem C09_depth_exceeded_is_guard : forall maxd ca d0 t n c k cs,
  0 <= d0 <= maxd + 1 ->
  run maxd ca n (init d0 t) = (None, c) ->
  c_mode c = Enter (T true k cs) ->
  maxd + 1 - d0 <= ve_frames (c_stack c) ->
  step maxd ca c = inl GuardDepth.
Proof. exact depth_exceeded_is_guard. Qed.

(* ... and on a whole uncancelled run the guard fires exactly when the program needs more than MaxDepth+1
   nested Eval activations (this is the prediction compared with the implementation) *)
Theorem C09_guard_fires_iff_need : forall maxd t,
  0 <= maxd -> guard_fires maxd t = Some (maxd + 1 <? need t).
Proof. exact guard_fires_iff_need. Qed.

(* an uncancelled run of a finite tree halts within fuel_for t steps; if not by the guard, depth is restored *)
Theorem C09_run_terminates : forall maxd t,
  0 <= maxd ->
  exists h c, run maxd None (fuel_for t) (init 0 t) = (Some h, c)
              /\ (h = GuardDepth \/ (h = Done ROk /\ c_depth c = 0 /\ c_visits c = size t)).
Proof. exact run_terminates. Qed.

(* "evaluation of any program returns", for ALL cancellation instants: whatever the instant at which the context is
   cancelled (never, before the first entry, at any later entry), the run of a finite call tree halts within fuel_for t
   steps - in the depth guard, or with the outermost call returned, State.depth back to 0 and at most [size t]
   evalInternal entries made *)
Theorem C09_run_terminates_any_cancellation : forall maxd ca t,
  exists h c, run maxd ca (fuel_for t) (init 0 t) = (Some h, c)
              /\ (h = GuardDepth
                  \/ (exists r, h = Done r /\ c_depth c = 0 /\ (1 <= c_visits c <= size t)%nat)).
Proof. exact run_terminates_any_cancel. Qed.

(* cancelled before the first entry: one evalInternal entry, the context error, depth untouched - whatever the program *)
Theorem C09_cancelled_from_start : forall maxd t,
  0 <= maxd ->
  exists c, run maxd (Some 0%nat) (fuel_for t) (init 0 t) = (Some (Done RErr), c)
            /\ c_visits c = 1%nat /\ c_depth c = 0.
Proof. exact cancelled_from_start. Qed.

(* once the context is cancelled every node evaluation returns the context error at once, without touching
   its children (or the depth guard fires first) *)
Theorem C09_cancel_is_immediate : forall maxd ca c t,
  c_mode c = Enter t -> cancelled ca (c_visits c) = true ->
  step maxd ca c = inl GuardDepth
  \/ step maxd ca c = inr (mk_config (Next RErr) (c_stack c) (c_depth c) (S (c_visits c))).
Proof. exact cancel_is_immediate. Qed.

(* after cancellation the number of further evalInternal entries is bounded by the continuation: one per
   open frame that stops on error, the remaining children of every frame that absorbs errors *)
Theorem C09_cancel_bounded : forall maxd ca n c h c',
  cancelled ca (c_visits c) = true -> run maxd ca n c = (h, c') ->
  (c_visits c' - c_visits c <= 1 + frames_bound (c_stack c))%nat.
Proof. exact cancel_bounded. Qed.

Theorem C09_cancel_bounded_stop : forall maxd ca n c h c',
  cancelled ca (c_visits c) = true -> all_stop (c_stack c) = true -> run maxd ca n c = (h, c') ->
  (c_visits c' - c_visits c <= 1 + length (c_stack c))%nat.
Proof. exact cancel_bounded_stop. Qed.

(* memory guard: guard_ok (len, n) -> len*n as MATHEMATICAL integers fits the budget *)
Theorem C09_size_guard_sound : forall free n,
  size_ok free n = true -> n <= small_size \/ n * object_ObjectSize < free.
Proof. exact size_ok_sound. Qed.

Theorem C09_repeat_guard_sound : forall free len r k,
  0 <= len -> free <= max_alloc ->
  array_repeat free len r = Val k ->
  0 <= r /\ k = len * r /\ (k <= small_size \/ k * object_ObjectSize < free).
Proof. exact array_repeat_sound. Qed.

Theorem C09_string_repeat_guard_sound : forall free len r k,
  0 <= len -> free <= max_alloc ->
  string_repeat free len r = Val k ->
  0 <= r /\ k = len * r
  /\ (k / object_ObjectSize <= small_size \/ (k / object_ObjectSize) * object_ObjectSize < free).
Proof. exact string_repeat_sound. Qed.

Theorem C09_range_guard_sound : forall free a b lo hi,
  in_int64 a -> in_int64 b ->
  int_infix free IRange a b = Val (RRange lo hi) ->
  lo = a /\ hi = b /\ a <= b /\ (b - a <= small_size \/ (b - a) * object_ObjectSize < free).
Proof. exact int_range_sound. Qed.

Theorem C09_concat_guard_sound : forall free l1 l2 k,
  0 <= l1 -> 0 <= l2 -> l1 + l2 <= max_int ->
  array_concat free l1 l2 = Val k ->
  k = l1 + l2 /\ (k <= small_size \/ k * object_ObjectSize < free).
Proof. exact array_concat_sound. Qed.

Theorem C09_append_elem_guard_sound : forall free l k,
  0 <= l -> l + 1 <= max_int ->
  array_append_elem free l = Val k ->
  k = l + 1 /\ (k <= small_size \/ k * object_ObjectSize < free).
Proof. exact array_append_elem_sound. Qed.

Theorem C09_string_concat_guard_sound : forall free l1 l2 k,
  0 <= l1 -> 0 <= l2 -> l1 + l2 <= max_int ->
  string_concat free l1 l2 = Val k ->
  k = l1 + l2
  /\ (k / object_ObjectSize <= small_size \/ (k / object_ObjectSize) * object_ObjectSize < free).
Proof. exact string_concat_sound. Qed.

(* refuted for the pinned arithmetic: [1,2,3]*6148914691236517206 with 200 MiB free passes the guard *)
Theorem C09_size_guard_refuted_pinned : exists free len r k,
  0 <= len /\ 0 <= free <= max_alloc /\ array_repeat_pinned free len r = Val k
  /\ ~ (k <= small_size \/ k * object_ObjectSize < free).
Proof. exact refuted_pinned_repeat_guard. Qed.

(* non-vacuity: a three-level recursion through an infix operand needs 6 nested Eval activations; limits 4 and 5 *)
Example C09_ex_depth :
  let t := program 1 (GRec GLeaf [GLeaf]) [GRec GLeaf [GInfix GLeaf GLeaf]] [GRec GLeaf [GInfix GLeaf GLeaf]] 3 in
  need t = 6 /\ guard_fires 4 t = Some true /\ guard_fires 5 t = Some false
  /\ array_repeat 209715200 3 6148914691236517206 = Guard GMemory
  /\ array_repeat 209715200 3 100 = Val 300.
Proof. vm_compute. repeat split. Qed.

(* non-vacuity: the same 3-level recursion cancelled after 7 entries returns the context error after 8 of its 46 entries *)
Example C09_ex_cancel :
  let t := program 1 (GRec GLeaf [GLeaf]) [GRec GLeaf [GInfix GLeaf GLeaf]] [GRec GLeaf [GInfix GLeaf GLeaf]] 3 in
  size t = 46%nat
  /\ fst (run 100 (Some 7%nat) (fuel_for t) (init 0 t)) = Some (Done RErr)
  /\ c_visits (snd (run 100 (Some 7%nat) (fuel_for t) (init 0 t))) = 8%nat
  /\ fst (run 100 None (fuel_for t) (init 0 t)) = Some (Done ROk).
Proof. vm_compute. repeat split. Qed.

Print Assumptions C09_run_terminates_any_cancellation.
Print Assumptions C09_cancelled_from_start.
Print Assumptions C09_depth_invariant.
Print Assumptions C09_depth_exceeded_is_guard.
Print Assumptions C09_guard_fires_iff_need.
Print Assumptions C09_run_terminates.
Print Assumptions C09_cancel_is_immediate.
Print Assumptions C09_cancel_bounded.
Print Assumptions C09_size_guard_sound.
Print Assumptions C09_repeat_guard_sound.
Print Assumptions C09_size_guard_refuted_pinned.
Print Assumptions C09_cancel_bounded_stop.
Print Assumptions C09_string_repeat_guard_sound.
Print Assumptions C09_range_guard_sound.
Print Assumptions C09_concat_guard_sound.
Print Assumptions C09_string_concat_guard_sound.
