(* C04 - automatic memoization is unobservable.
   Only the property statements (each closed by [exact] of a lemma of proofs/Memo_proofs.v / Memo_closed.v),
   refutation witnesses ([vm_compute]), non-vacuity examples and [Print Assumptions].

   The theorems are about coq/model/Memo.v, the executable model of the caching MECHANISM (applyFunction,
   Cache.Get/Set, the miss counters of Environment.Get/makeRef/SetNoChecks, TriggerNoCache, ResetCache), which the
   check ties to /repo by running the extracted model and the real evaluator on the same REPL histories with the
   cache on and off.  [run on fuel defs st inputs] evaluates the inputs one after the other in the root frame of one
   persistent state; [obs_of] is what a user observes of an input: result, bytes printed, bytes logged. *)
From Coq Require Import List ZArith NArith Bool.
From GrolGen Require Import Gen_Consts.
From GrolModel Require Import Memo.
From GrolProofs Require Import Memo_proofs Memo_closed Memo_inv.
Import ListNotations.

(* ---------------------------------------------------------------- the full statement *)
Definition cache_unobservable : Prop :=
  forall fuel defs inputs,
    finished (run true fuel defs init_state inputs) = true ->
    finished (run false fuel defs init_state inputs) = true ->
    map obs_of (run true fuel defs init_state inputs) = map obs_of (run false fuel defs init_state inputs).
(* the same without the log() stream (results and print output only) *)
Definition cache_unobservable_nolog : Prop :=
  forall fuel defs inputs,
    finished (run true fuel defs init_state inputs) = true ->
    finished (run false fuel defs init_state inputs) = true ->
    map obs_nolog (run true fuel defs init_state inputs) = map obs_nolog (run false fuel defs init_state inputs).

(* It is FALSE of the faithful model (and of /repo: both witnesses replay through the harness corpus). *)

(* func g(){1}  func f(){g()}  f()  func g(){2}  f()   -> cache on: 1, cache off: 2.
   The lookup of a function found in the root environment is not a miss, and rebinding g does not invalidate f's entry. *)
Definition wit_redef_defs : list fdef :=
  [ mkDef [107;48]%N (Some [103]%N) [] (ELit (VInt 1));
    mkDef [107;49]%N (Some [102]%N) [] (ECall (EVar [103]%N) []);
    mkDef [107;50]%N (Some [103]%N) [] (ELit (VInt 2)) ].
Definition wit_redef_inputs : list expr :=
  [ EFun 0; EFun 1; ECall (EVar [102]%N) []; EFun 2; ECall (EVar [102]%N) [] ].
Theorem C04_refuted_redefined_callee : ~ cache_unobservable_nolog.
Proof.
  intros H. specialize (H 20 wit_redef_defs wit_redef_inputs eq_refl eq_refl). vm_compute in H. discriminate.
Qed.
Theorem C04_refuted_redefined_callee_full : ~ cache_unobservable.
Proof.
  intros H. specialize (H 20 wit_redef_defs wit_redef_inputs eq_refl eq_refl). vm_compute in H. discriminate.
Qed.

(* f = func(n){log("hi") n}  f(1)  f(1)   -> the second call logs nothing with the cache on:
   log() writes to LogOut directly, it is not captured in the per-call buffer and so not replayed. *)
Definition wit_log_defs : list fdef :=
  [ mkDef [107;48]%N None [[110]%N] (ESeq (ELog [104;105]%N) (EVar [110]%N)) ].
Definition wit_log_inputs : list expr :=
  [ EAssign [102]%N (EFun 0); ECall (EVar [102]%N) [ELit (VInt 1)]; ECall (EVar [102]%N) [ELit (VInt 1)] ].
Theorem C04_refuted_log_not_replayed : ~ cache_unobservable.
Proof.
  intros H. specialize (H 20 wit_log_defs wit_log_inputs eq_refl eq_refl). vm_compute in H. discriminate.
Qed.

(* f = func(a,b,c){a+(b+c)}  f([1],2,3)  f = func(a,b,c){a+b+c}  f([1],2,3)   -> [1,5] again instead of [1,2,3].
   The cache key is the PRINTED text of the function, and the printer is not injective (recorded C02 findings:
   a+(b+c) prints a+b+c; "(if ..)+3" and "if ..; +3" print alike): two different functions share one key.
   The model takes the key text as given; here both definitions carry the same one, as on /repo. *)
Definition wit_coll_defs : list fdef :=
  [ mkDef [107]%N None [[97]%N; [98]%N; [99]%N] (EBin OAdd (EVar [97]%N) (EBin OAdd (EVar [98]%N) (EVar [99]%N)));
    mkDef [107]%N None [[97]%N; [98]%N; [99]%N] (EBin OAdd (EBin OAdd (EVar [97]%N) (EVar [98]%N)) (EVar [99]%N)) ].
Definition wit_coll_call : expr := ECall (EVar [102]%N) [ELit (VArr [VInt 1]); ELit (VInt 2); ELit (VInt 3)].
Definition wit_coll_inputs : list expr :=
  [ EAssign [102]%N (EFun 0); wit_coll_call; EAssign [102]%N (EFun 1); wit_coll_call ].
Theorem C04_refuted_printed_text_collision : ~ cache_unobservable_nolog.
Proof.
  intros H. specialize (H 20 wit_coll_defs wit_coll_inputs eq_refl eq_refl). vm_compute in H. discriminate.
Qed.

(* f = func(N){N+1}  f(1)  N = 5  f(1)   -> 2 again; without the cache the second call fails (a parameter named like an
   existing constant is an "attempt to change constant"): the lookup in the cache comes before the parameter binding, and
   that the constant did not exist at the first call is not part of the key. *)
Definition wit_cpar_defs : list fdef :=
  [ mkDef [107]%N None [[78]%N] (EBin OAdd (EVar [78]%N) (ELit (VInt 1))) ].
Definition wit_cpar_inputs : list expr :=
  [ EAssign [102]%N (EFun 0); ECall (EVar [102]%N) [ELit (VInt 1)]; EAssign [78]%N (ELit (VInt 5)); ECall (EVar [102]%N) [ELit (VInt 1)] ].
Theorem C04_refuted_constant_parameter_then_global : ~ cache_unobservable_nolog.
Proof.
  intros H. specialize (H 20 wit_cpar_defs wit_cpar_inputs eq_refl eq_refl). vm_compute in H. discriminate.
Qed.

(* v = func(){0}  f = func(){catch(v+1).err}  f()  v = 1  f()   -> true again (cache off: false): reading a function-valued
   root binding is not a miss even when it is not called; same root cause as the redefined callee. *)
Definition wit_fread_defs : list fdef :=
  [ mkDef [107;48]%N None [] (ELit (VInt 0));
    mkDef [107;49]%N None [] (ECatchErr (EBin OAdd (EVar [118]%N) (ELit (VInt 1)))) ].
Definition wit_fread_inputs : list expr :=
  [ EAssign [118]%N (EFun 0); EAssign [102]%N (EFun 1); ECall (EVar [102]%N) []; EAssign [118]%N (ELit (VInt 1)); ECall (EVar [102]%N) [] ].
Theorem C04_refuted_function_binding_read_then_rebound : ~ cache_unobservable_nolog.
Proof.
  intros H. specialize (H 20 wit_fread_defs wit_fread_inputs eq_refl eq_refl). vm_compute in H. discriminate.
Qed.

(* ---------------------------------------------------------------- what IS proved, for all histories *)

(* Every cache store happens only when the call's miss counter did not move, the result is not an error (nor
   contains a function), there are at most MaxArgs arguments and all of them are hashable.  Stated on every call
   node, at every depth, of the event log of every input of every history. *)
Theorem cache_store_discipline : forall on fuel defs st inputs,
  Forall (fun p =>
    trace_all (fun key args inner before after res out d =>
       d = DStored ->
       before = after /\ is_err res = false /\ has_function res = false /\
       (Z.of_nat (length args) <= eval_MaxArgs)%Z /\ forallb hashable args = true)
      (r_tr (fst p)))
    (run on fuel defs st inputs).
Proof. exact store_discipline_run. Qed.

(* ... and the event log misses no cache write: every entry of the cache after an evaluation was there before
   or is the payload (key text, arguments, result, output) of a DStored node of that evaluation's log. *)
Theorem cache_store_events_complete : forall fuel on defs st fr e r st',
  eval fuel on defs st fr e = (r, st') ->
  forall ce, In ce (st_cache st') -> In ce (st_cache st) \/ In ce (stores_of (r_tr r)).
Proof. exact eval_logged. Qed.

(* A hit writes exactly the recorded bytes, once, to the current writer, returns the recorded value, and changes
   nothing else (no frame, no binding, no cache entry, no miss, no log line) ... *)
Theorem cache_hit_replays_exactly : forall ev defs st fr d envd fd args v o,
  nth_error defs d = Some fd ->
  cache_get (st_cache st) (fd_key fd) args = Some (v, o) ->
  apply_fn ev true defs st fr (VFun d envd) args =
    (mkRes (OVal v) false o [] [EvCall (fd_key fd) (map fst args) [] 0 0 v o DHit] 0, st).
Proof. exact hit_replays. Qed.
(* ... and what a lookup finds is what the last store under that key recorded. *)
Theorem cache_hit_is_last_store : forall c key args v o,
  key_ok args = true ->
  cache_get (cache_put c (mkCe key (map fst args) v o)) key args = Some (v, o).
Proof. exact get_after_put. Qed.

(* What the cache holds - at every input boundary of every history, cache on or off - is never an error, never is or
   contains a function, and is keyed by at most MaxArgs hashable arguments ... *)
Theorem cache_holds_no_errors : forall on fuel defs inputs,
  Forall (fun p =>
    Forall (fun ce => is_err (ce_res ce) = false /\ has_function (ce_res ce) = false /\
                      (Z.of_nat (length (ce_args ce)) <= eval_MaxArgs)%Z /\ forallb hashable (ce_args ce) = true)
           (st_cache (snd p)))
    (run on fuel defs init_state inputs).
Proof. exact run_clean_init. Qed.
(* ... so no hit, at any depth of any evaluation of any history, ever serves an error or a function value:
   "results ... that are errors are never served from the cache". *)
Theorem errors_never_served_from_cache : forall on fuel defs inputs,
  Forall (fun p =>
    trace_all (fun key args inner before after res out d =>
       d = DHit -> is_err res = false /\ has_function res = false)
      (r_tr (fst p)))
    (run on fuel defs init_state inputs).
Proof. exact run_hits_init. Qed.

(* The run with the cache switched off (the eval.VerifCacheOff hook) is inert: no call of any history is a hit or a
   store and the cache stays empty - it is the reference "memoization disabled" semantics the property compares with. *)
Theorem cache_off_is_inert : forall fuel defs inputs,
  Forall (fun p =>
    st_cache (snd p) = [] /\
    trace_all (fun key args inner before after res out d => d <> DHit /\ d <> DStored) (r_tr (fst p)))
    (run false fuel defs init_state inputs).
Proof. exact run_off_init. Qed.

(* A DontCache extension, or del, anywhere below a call makes that call - and so every one of its callers, they
   are the enclosing nodes - not stored (nor "would be stored" in the cache-off run, nor a hit). *)
Theorem dontcache_poisons_callers : forall on fuel defs st inputs,
  Forall (fun p =>
    trace_all (fun key args inner before after res out d =>
       poison_in inner = true -> d <> DStored /\ d <> DOff /\ d <> DHit)
      (r_tr (fst p)))
    (run on fuel defs st inputs).
Proof. exact poison_run. Qed.

(* A read or a write through a reference to an outer binding that the code counts (non-constant and non-function,
   or found in an enclosing function's frame, or any write) makes the call and its callers not stored. *)
Theorem mutable_outer_read_not_stored : forall on fuel defs st inputs,
  Forall (fun p =>
    trace_all (fun key args inner before after res out d =>
       access_in inner = true -> d <> DStored /\ d <> DOff /\ d <> DHit)
      (r_tr (fst p)))
    (run on fuel defs st inputs).
Proof. exact access_run. Qed.

(* On the fragment [closed_session] (every function of the definition table has no free identifier other than
   its parameters and itself - own name or self -, no two definitions share a key text, no function literal values)
   cache on and cache off agree on every input: results, printed bytes (order and multiplicity) and log. *)
Theorem C04_partial : forall fuel defs inputs,
  closed_session defs inputs = true ->
  finished (run true fuel defs init_state inputs) = true ->
  finished (run false fuel defs init_state inputs) = true ->
  map obs_of (run true fuel defs init_state inputs) = map obs_of (run false fuel defs init_state inputs).
Proof. intros. apply closed_runs_agree; auto. apply rootrel_init. Qed.

(* ---------------------------------------------------------------- non-vacuity *)
(* fib by own name, called twice: a closed session; the runs finish; the second call is a hit; entries are stored *)
Definition n_ : ident := [110]%N.
Definition fib_ : ident := [102;105;98]%N.
Definition ex_fib_defs : list fdef :=
  [ mkDef [107]%N (Some fib_) [n_]
      (EIf (EBin OLt (EVar n_) (ELit (VInt 2))) (ESeq (EPrint [EVar n_]) (EVar n_))
           (EBin OAdd (ECall (EVar fib_) [EBin OSub (EVar n_) (ELit (VInt 1))])
                      (ECall (EVar fib_) [EBin OSub (EVar n_) (ELit (VInt 2))]))) ].
Definition ex_fib_inputs : list expr := [ EFun 0; ECall (EVar fib_) [ELit (VInt 6)]; ECall (EVar fib_) [ELit (VInt 6)] ].
Fixpoint ev_has (d0 : disp) (e : event) : bool :=
  match e with
  | EvCall _ _ inner _ _ _ _ d =>
      (match d, d0 with DHit, DHit | DStored, DStored | DMiss, DMiss => true | _, _ => false end)
      || (fix any (l : list event) : bool := match l with [] => false | x :: l' => ev_has d0 x || any l' end) inner
  | _ => false
  end.
Definition has_disp (d0 : disp) (tr : list event) : bool := existsb (ev_has d0) tr.
Example C04_ex_closed_fragment :
  closed_session ex_fib_defs ex_fib_inputs = true
  /\ finished (run true 60 ex_fib_defs init_state ex_fib_inputs) = true
  /\ finished (run false 60 ex_fib_defs init_state ex_fib_inputs) = true
  /\ map (fun p => r_oc (fst p)) (run true 60 ex_fib_defs init_state ex_fib_inputs)
     = [OVal (VFun 0 0); OVal (VInt 8); OVal (VInt 8)]
  /\ existsb (fun p => has_disp DStored (r_tr (fst p))) (run true 60 ex_fib_defs init_state ex_fib_inputs) = true
  /\ existsb (fun p => has_disp DHit (r_tr (fst p))) (run true 60 ex_fib_defs init_state ex_fib_inputs) = true.
Proof. vm_compute. repeat split. Qed.

(* the invariant is not vacuous: the cache-on run of the fib history fills the cache (and has hits, above), the
   cache-off run of the same history never does *)
Example C04_ex_cache_invariant :
  existsb (fun p => negb (Nat.eqb (length (st_cache (snd p))) 0)) (run true 60 ex_fib_defs init_state ex_fib_inputs) = true
  /\ forallb (fun p => Nat.eqb (length (st_cache (snd p))) 0) (run false 60 ex_fib_defs init_state ex_fib_inputs) = true
  /\ existsb (fun p => has_disp DStored (r_tr (fst p)) || has_disp DHit (r_tr (fst p))) (run false 60 ex_fib_defs init_state ex_fib_inputs) = false.
Proof. vm_compute. repeat split. Qed.

(* g reads the outer variable x, f calls g: both are DMiss nodes with a counted access below *)
Example C04_ex_poison :
  let defs := [ mkDef [107;48]%N None [] (EVar [120]%N); mkDef [107;49]%N None [] (ECall (EVar [103]%N) []);
                mkDef [107;50]%N None [] (EExt XRand1) ] in
  let rs := run true 20 defs init_state
              [ EAssign [120]%N (ELit (VInt 1)); EAssign [103]%N (EFun 0); EAssign [102]%N (EFun 1); ECall (EVar [102]%N) [];
                EAssign [104]%N (EFun 2); ECall (EVar [104]%N) [] ] in
  existsb (fun p => access_in (r_tr (fst p))) rs = true
  /\ existsb (fun p => poison_in (r_tr (fst p))) rs = true
  /\ existsb (fun p => has_disp DMiss (r_tr (fst p))) rs = true
  /\ existsb (fun p => has_disp DStored (r_tr (fst p))) rs = false.
Proof. vm_compute. repeat split. Qed.

Print Assumptions C04_refuted_redefined_callee.
Print Assumptions C04_refuted_redefined_callee_full.
Print Assumptions C04_refuted_log_not_replayed.
Print Assumptions C04_refuted_printed_text_collision.
Print Assumptions C04_refuted_constant_parameter_then_global.
Print Assumptions C04_refuted_function_binding_read_then_rebound.
Print Assumptions cache_store_discipline.
Print Assumptions cache_store_events_complete.
Print Assumptions cache_hit_replays_exactly.
Print Assumptions cache_hit_is_last_store.
Print Assumptions cache_holds_no_errors.
Print Assumptions errors_never_served_from_cache.
Print Assumptions cache_off_is_inert.
Print Assumptions dontcache_poisons_callers.
Print Assumptions mutable_outer_read_not_stored.
Print Assumptions C04_partial.
