(* C02 - formatting preserves the program: print then parse gives the same tree.
   Only property statements, witnesses and Print Assumptions. *)
From Coq Require Import List ZArith NArith Bool String.
From GrolGen Require Import Gen_Consts.
From GrolModel Require Import Ast Lexer Parser Printer AstWf Frontend TokPrint.
From GrolProofs Require Import Parser_mono Roundtrip_expr.
Import ListNotations.

Definition no_numbers : numconv := mkConv (fun _ => None) (fun _ => None).
Definition src (s : string) : bytes := bytes_of_string s.

(* The full statement: for every source text the parser accepts, in normal and in compact mode, the
   formatter's output is accepted again and parses to the same tree (modulo comments in compact
   mode, and modulo the layout flags of comments). *)
Definition C02_roundtrip_holds : Prop :=
  forall (conv : numconv) (compact : bool) (s : bytes),
    fst (roundtrip conv compact s) = RtSame \/ fst (roundtrip conv compact s) = RtNotClean.

(* It is FALSE of the faithful model (and of the code): the recorded findings, as computed witnesses
   that replay on the implementation (harness corpus, known_findings.json). *)
Theorem C02_refuted_plus_in_plus :
  fst (roundtrip no_numbers false (src "a+(b+c)")) = RtDiffers
  /\ fst (roundtrip no_numbers true (src "a+(b+c)")) = RtDiffers.
Proof. vm_compute. split; reflexivity. Qed.

Theorem C02_refuted_statement_starts_with_prefix_operator :
  fst (roundtrip no_numbers false (src "a;-b")) = RtDiffers
  /\ fst (roundtrip no_numbers true (src "a;++b")) = RtDiffers.
Proof. vm_compute. split; reflexivity. Qed.

Theorem C02_refuted_bare_return_followed_by_statement :
  fst (roundtrip no_numbers true (src "func f(){return // c
a}")) = RtDiffers.
Proof. vm_compute. reflexivity. Qed.

Theorem C02_refuted : ~ C02_roundtrip_holds.
Proof.
  intros H. destruct (H no_numbers false (src "a+(b+c)")) as [E|E];
    vm_compute in E; discriminate.
Qed.

(* Regression examples: the historical failures repaired by `fix:` commits now round-trip in the
   model (the same inputs run against the implementation in the harness corpus). *)
Example C02_fixed_cases_roundtrip :
  forallb (fun s => match fst (roundtrip no_numbers false (src s)), fst (roundtrip no_numbers true (src s)) with
                    | RtSame, RtSame => true | _, _ => false end)
    ["a-(b-c)"; "a/(b/c)"; "a<(b<c)"; "x[a:(b:c)]"; "a=(b=c)"; "a - -b"; "a + ++b"; "a + +b"; "a;b"; "a;(b)";
     "func f(){return a;b}"; "a;if b {c}"; "a+(b=>b)"; "x[a:]"; "(a+b)(c)"; "(a=>a)(b)"; "(a=>a)+b"; "-(-a)";
     "(-a).b"; "a||(b&&c)"; "{a:(b && c)}"; "func f(){x};()=>y"; "if b {c} else {return // t
}"]%string = true.
Proof. vm_compute. reflexivity. Qed.


(* ------------------------------------------------------------------------------------------------
   POSITIVE part, proved without bound for the expression fragment of coq/model/TokPrint.v
   (one-token operands: identifiers, integer, float and string literals, true, false, break, continue; prefix operators; binary infix operators; calls f(a, ..); index expressions a[i]; any nesting):
   the parser, run on the token sequence body(e) - the tokens of the formatter's output for e, with
   parentheses exactly where PrefixExpression/InfixExpression.PrettyPrint put them - returns exactly
   the tree of e, with no error and no continuation request, whatever the layout flags of the tokens
   (so in both print modes, which differ only in white space).  The recorded finding a + (b + c) is
   excluded by wf_ex.  The tie between body(e) and the bytes the real formatter emits is checked on
   every run (TL cases of the harness: lex(format(e)) = body(e) in both modes) and on the examples
   below inside the model. *)
Theorem C02_fragment_roundtrip : forall conv e pts,
  wf_ex conv e = true -> matches pts (body e) ->
  exists f0, forall fuel, (f0 <= fuel)%nat ->
    parse_program conv fuel token_EOF pts = POk (mkPres [Some (to_node e)] [] false true).
Proof. exact fragment_program_roundtrip. Qed.

(* ... and for a whole program that is a sequence of such statements, provided no statement after the first
   starts with a token that continues the previous one (starts_fresh: not a postfix operator or `=>`, and
   either without infix precedence or an opening parenthesis / bracket preceded by white space - the
   complement is the recorded finding statement-starts-with-prefix-operator) *)
Theorem C02_fragment_statements_roundtrip : forall conv es ptss,
  Forall2 (stmt_ok conv) es ptss ->
  (forall pts, In pts (tl ptss) -> match pts with t :: _ => starts_fresh t | [] => True end) ->
  exists f0, forall fuel, (f0 <= fuel)%nat ->
    parse_program conv fuel token_EOF (List.concat ptss)
    = POk (mkPres (map (fun e => Some (to_node e)) es) [] false true).
Proof. exact fragment_statements_roundtrip. Qed.

(* ... and with the fuel the front end really passes (default_fuel, which front_parse uses): no
   existential left - termination (C08) and the absence of panics close the other two outcomes *)
Theorem C02_fragment_statements_roundtrip_front_end_fuel : forall conv es ptss,
  Forall2 (stmt_ok conv) es ptss ->
  (forall pts, In pts (tl ptss) -> match pts with t :: _ => starts_fresh t | [] => True end) ->
  parse_program conv (default_fuel (List.concat ptss)) token_EOF (List.concat ptss)
  = POk (mkPres (map (fun e => Some (to_node e)) es) [] false true).
Proof. exact fragment_statements_roundtrip_default_fuel. Qed.

(* the same inside any context: parseExpression at level p, on the tokens printed for e in a context
   of precedence c, behaves as the expression loop entered with left = e after the last of them *)
Theorem C02_fragment_expression_in_context : forall conv e, wf_ex conv e = true -> ToksOk conv e.
Proof. exact toks_ok. Qed.

(* the result of the parser model does not depend on the fuel once there is enough *)
Theorem C02_parse_fuel_independent : forall conv f f' end_type toks r,
  (f <= f')%nat -> parse_program conv f end_type toks = POk r -> parse_program conv f' end_type toks = POk r.
Proof. exact parse_program_fuel_monotone. Qed.

(* non-vacuity and the link to the byte-level printer, by computation inside the model: for these
   sources the parsed tree is in the fragment, wf_ex holds, and lexing the printed text (both modes)
   gives exactly body(e) *)
Fixpoint toks_eqb (a b : list tok) : bool :=
  match a, b with
  | [], [] => true
  | x :: a', y :: b' => tok_eqb x y && toks_eqb a' b'
  | _, _ => false
  end.
Definition link_ok (s : string) : bool :=
  match front_parse no_numbers false (src s) with
  | POk r =>
    match pr_tree r with
    | [Some n] =>
      match of_node n with
      | Some e =>
        wf_ex no_numbers e &&
        forallb (fun compact =>
          match print_program compact false (pr_tree r) with
          | Some txt => toks_eqb (removelast (map pk (front_tokens false txt))) (plain_toks (body e))
          | None => false
          end) [false; true]
      | None => false
      end
    | _ => false
    end
  | _ => false
  end.
Example C02_fragment_link_examples :
  forallb link_ok ["a"; "-a"; "-(-a)"; "a-(b-c)"; "(a-b)-c"; "a*(b+c)"; "-(a+b)*c - d"; "!(a&&b)||c"; "a=(b=c)"; "a=b=c";
                   "a - -b"; "a + ++b"; "~(a|b)^c"; "a<(b<c)"; "a+(b*c)+d"; "((a))"; "a:b"; "(a+b)+c";
                   "f(a)"; "f()"; "f(a, b+c)(d)"; "(a+b)(c)"; "a[b]"; "a[b][c]"; "f(a)[b+c]"; "(a+b)[c]"; "-f(a)"; "(-a)(b)";
                   "f(g(a), h(b, c))*d"; "a[f(b)] + c[d]"]%string = true.
Proof. vm_compute. reflexivity. Qed.
(* and a + (b + c) is outside the fragment (the recorded finding) *)
Example C02_fragment_excludes_plus_in_plus : link_ok "a+(b+c)" = false.
Proof. vm_compute. reflexivity. Qed.

Print Assumptions C02_fragment_roundtrip.
Print Assumptions C02_fragment_statements_roundtrip.
Print Assumptions C02_fragment_statements_roundtrip_front_end_fuel.
Print Assumptions C02_fragment_expression_in_context.
Print Assumptions C02_parse_fuel_independent.
Print Assumptions C02_refuted.
Print Assumptions C02_refuted_plus_in_plus.
Print Assumptions C02_refuted_statement_starts_with_prefix_operator.
Print Assumptions C02_refuted_bare_return_followed_by_statement.
