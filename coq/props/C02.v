(* C02 - formatting preserves the program: print then parse gives the same tree.
   Only property statements, witnesses and Print Assumptions. *)
From Coq Require Import List ZArith NArith Bool String.
From GrolModel Require Import Ast Lexer Parser Printer AstWf Frontend.
Import ListNotations.

Definition no_numbers : numconv := mkConv (fun _ => None) (fun _ => None).
Definition src (s : string) : bytes := bytes_of_string s.

(* The full statement: for every source text the parser accepts, in normal and in compact mode, the
   formatter's output is accepted again and parses to the same tree (modulo comments in compact
   mode, and modulo the layout flags of comments). *)
Definition C02_roundtrip_holds : Prop :=
  forall (conv : numconv) (compact : bool) (s : bytes),
    fst (roundtrip conv compact s) = RtSame \/ fst (roundtrip conv compact s) = RtNotClean.

(* It is FALSE of the faithful model (and of the code): the recorded findings, as computed witnesses
   that replay on the implementation (harness corpus, known_findings.json). *)
Theorem C02_refuted_plus_in_plus :
  fst (roundtrip no_numbers false (src "a+(b+c)")) = RtDiffers
  /\ fst (roundtrip no_numbers true (src "a+(b+c)")) = RtDiffers.
Proof. vm_compute. split; reflexivity. Qed.

Theorem C02_refuted_statement_starts_with_prefix_operator :
  fst (roundtrip no_numbers false (src "a;-b")) = RtDiffers
  /\ fst (roundtrip no_numbers true (src "a;++b")) = RtDiffers.
Proof. vm_compute. split; reflexivity. Qed.

Theorem C02_refuted_bare_return_followed_by_statement :
  fst (roundtrip no_numbers true (src "func f(){return // c
a}")) = RtDiffers.
Proof. vm_compute. reflexivity. Qed.

Theorem C02_refuted : ~ C02_roundtrip_holds.
Proof.
  intros H. destruct (H no_numbers false (src "a+(b+c)")) as [E|E];
    vm_compute in E; discriminate.
Qed.

(* Regression examples: the historical failures repaired by `fix:` commits now round-trip in the
   model (the same inputs run against the implementation in the harness corpus). *)
Example C02_fixed_cases_roundtrip :
  forallb (fun s => match fst (roundtrip no_numbers false (src s)), fst (roundtrip no_numbers true (src s)) with
                    | RtSame, RtSame => true | _, _ => false end)
    ["a-(b-c)"; "a/(b/c)"; "a<(b<c)"; "x[a:(b:c)]"; "a=(b=c)"; "a - -b"; "a + ++b"; "a + +b"; "a;b"; "a;(b)";
     "func f(){return a;b}"; "a;if b {c}"; "a+(b=>b)"; "x[a:]"; "(a+b)(c)"; "(a=>a)(b)"; "(a=>a)+b"; "-(-a)";
     "(-a).b"; "a||(b&&c)"; "{a:(b && c)}"; "func f(){x};()=>y"; "if b {c} else {return // t
}"]%string = true.
Proof. vm_compute. reflexivity. Qed.

Print Assumptions C02_refuted.
Print Assumptions C02_refuted_plus_in_plus.
