(* C14 - saved state loads back to the same state.  Property theorems only (proofs in coq/proofs/SaveLoad_*.v).

   Model: coq/model/SaveLoad.v (inspect, func_text, save_globals, read_back = Lexer + Parser models + eval_lit).

   FULL claim        C14_value_roundtrip_all_data  (every well-formed data value)      REFUTED: C14_refuted_*
   guarded claim     C14_value_roundtrip           (in_domain: not min-int64, no float that prints like an integer)
                     stated; PROVED with one more decidable guard (C14_value_roundtrip_guarded: floats_conv, i.e. the
                     decimal conversion returns the bits of every finite float of v for its printed text), hence
                     unconditionally for values without finite floats (C14_value_roundtrip_partial); no bound on size
                     or nesting, through the lexer and parser models.  That floats_conv dec_conv holds for EVERY
                     float64 is not proved (it is ParseFloat . FormatFloat = id for the two Gallina functions): it is
                     computed on the examples (C14_roundtrip_examples) and checked on every float of every run. *)
From Coq Require Import List ZArith NArith Bool Sorting.Sorted Sorting.Permutation.
From GrolModel Require Import Ast Parser Values Cmp Maps SaveLoad.
From GrolProofs Require Import SaveLoad_proofs SaveLoad_examples SaveLoad_roundtrip SaveLoad_cycle.
Import ListNotations.

(* ------------------------------------------------------------------ statements *)
(* the full claim: every well-formed data value reads back from its saved line as itself *)
Definition C14_value_roundtrip_all_data : Prop :=
  forall k v, good_name k = true -> all_data v = true -> read_back dec_conv (save_line k v) = Some (k, v).

(* the guarded claim: the same on in_domain *)
Definition C14_value_roundtrip : Prop :=
  forall k v, good_name k = true -> in_domain v = true -> read_back dec_conv (save_line k v) = Some (k, v).

(* ------------------------------------------------------------------ refutations of the full claim *)
Theorem C14_refuted_integral_float : ~ C14_value_roundtrip_all_data.
Proof. exact roundtrip_all_data_refuted_integral_float. Qed.

Theorem C14_refuted_min_int64 : ~ C14_value_roundtrip_all_data.
Proof. exact roundtrip_all_data_refuted_min_int. Qed.

(* what the witnesses reload as (type changes): 1.0 -> INTEGER 1, -0.0 -> INTEGER 0, min-int64 -> FLOAT -2^63 *)
Theorem C14_refuted_witnesses :
  read_back_dec (save_line [120%N] one_float) = RbBinding [120%N] (VInt 1) /\
  read_back_dec (save_line [120%N] neg_zero) = RbBinding [120%N] (VInt 0) /\
  read_back_dec (save_line [121%N] min_int) = RbBinding [121%N] (VFloat (FFin true 4503599627370496 11)).
Proof. exact refutation_witnesses. Qed.

(* ------------------------------------------------------------------ the proved part of the guarded claim *)
(* the guarded claim with one more DECIDABLE guard: on the finite floats of v the decimal conversion returns the
   float's bit pattern for the printed text (floats_conv: a computation for dec_conv; for Go's strconv it is the
   documented ParseFloat(FormatFloat(v)) = v).  Everything else - lexer, parser, evaluator, nesting - is proved. *)
Theorem C14_value_roundtrip_guarded : forall k v,
  good_name k = true -> in_domain v = true -> floats_conv dec_conv v = true ->
  read_back dec_conv (save_line k v) = Some (k, v).
Proof. exact value_roundtrip_dec. Qed.

(* without finite floats the extra guard is void: proved for every such value *)
Theorem C14_value_roundtrip_partial : forall k v,
  good_name k = true -> in_domain v = true -> no_finite_float v = true ->
  read_back dec_conv (save_line k v) = Some (k, v).
Proof. exact value_roundtrip. Qed.

(* ... and for ANY number conversion that inverts FormatInt on non-negative int64 and satisfies floats_conv on v
   (strconv.ParseInt / ParseFloat are the trusted ones) *)
Theorem C14_value_roundtrip_any_conv : forall conv,
  (forall n, (Z.of_N n <= max_int64)%Z -> conv_int conv (fmt_nat n) = Some (Z.of_N n)) ->
  forall k v, good_name k = true -> in_domain v = true -> floats_conv conv v = true ->
  read_back conv (save_line k v) = Some (k, v).
Proof. exact value_roundtrip_conv. Qed.

(* equal value AND same type: two values of the domain with the same printed form are the same value *)
Theorem C14_inspect_injective_guarded : forall v w,
  in_domain v = true -> floats_conv dec_conv v = true -> in_domain w = true -> floats_conv dec_conv w = true ->
  inspect v = inspect w -> v = w.
Proof. exact inspect_injective. Qed.

(* the guarded claim and its float guard on representative values (computed) *)
Theorem C14_roundtrip_examples :
  List.length in_dom_examples = 39%nat /\ forallb (reads_back [107%N]) in_dom_examples = true /\
  forallb (floats_conv dec_conv) in_dom_examples = true.
Proof. exact (conj C14_examples_count (conj C14_roundtrip_examples_ok C14_examples_float_guard)). Qed.

(* ------------------------------------------------------------------ one binding per line *)
Theorem C14_one_line : forall v, is_data v = true -> no_nl (inspect v).
Proof. exact inspect_no_newline. Qed.

Theorem C14_saved_line_has_no_newline : forall k v, no_nl k -> in_domain v = true -> no_nl (save_line k v).
Proof. intros k v Hk Hv. apply save_line_no_newline; [exact Hk|]. apply in_domain_is_data. exact Hv. Qed.

(* ------------------------------------------------------------------ SaveGlobals *)
(* the file is exactly one complete line per kept binding, in key order; the count is the number of lines *)
Theorem C14_save_is_sorted_and_skips : forall maxlen extras env,
  existsb (panics env maxlen extras) (sort_keys env) = false ->
  save_globals maxlen extras env =
    Some (file_of (kept_lines env maxlen extras (sort_keys env)), List.length (kept_lines env maxlen extras (sort_keys env)))
  /\ Permutation env (sort_keys env)
  /\ StronglySorted key_le (sort_keys env).
Proof.
  intros maxlen extras env H. split; [|split].
  - unfold save_globals. rewrite save_loop_spec by exact H. reflexivity.
  - apply sort_keys_perm.
  - apply sort_keys_sorted.
Qed.

(* the value-length limit skips whole bindings: what is written under a limit is written identically without it,
   and a skipped binding is one whose value text is longer than the limit *)
Theorem C14_limit_skips_never_truncates : forall store maxlen extras k v,
  (forall l, save_one store maxlen extras k v = LLine l -> save_one store 0 extras k v = LLine l) /\
  (save_one store maxlen extras k v = LSkipLong ->
     exists val, save_one store 0 extras k v = LLine (k ++ [61%N] ++ val) /\ (0 < maxlen < Z.of_nat (List.length val))%Z).
Proof.
  intros. split; [intros l; apply limit_writes_full_line|apply limit_skips_only_long].
Qed.

Theorem C14_limited_file_is_sublist_of_lines : forall store maxlen extras bs,
  sublist (kept_lines store maxlen extras bs) (kept_lines store 0 extras bs).
Proof. exact kept_lines_limit_sublist. Qed.

(* splitting the file at newlines gives back exactly the kept lines (each binding occupies exactly one line) *)
Theorem C14_one_binding_per_line : forall lines, Forall no_nl lines -> split_nl [] (file_of lines) = lines.
Proof. exact split_file_of. Qed.

(* ------------------------------------------------------------------ functions (computed examples) *)
(* the three repaired lambda forms, an unbraced lambda and a named function read back as the same function *)
Theorem C14_function_fixed_cases : function_fixed_cases = true.
Proof. exact function_fixed_cases_ok. Qed.

(* bodies hit by the recorded formatter findings do not (refutation of the function half of the full claim) *)
Theorem C14_refuted_function_bodies : function_finding_cases = true.
Proof. exact function_finding_cases_ok. Qed.

(* a small environment: key order, the constant PI (an extra identifier) skipped, TEN (not an extra) kept, the alias
   h of the named function g written as h=func g.. (g still is that function), the alias k of a function f that was
   redefined since and the alias d of a deleted function written in lambda form (fix 0adeef3), and under limit 8 the
   long values skipped as a whole while named functions are written whatever their length *)
Theorem C14_save_globals_example : save_globals_small.
Proof. exact save_globals_small_ok. Qed.

(* ------------------------------------------------------------------ the whole cycle: save, auto-load, save again *)
(* For EVERY environment of data globals with distinct identifier names and values of the round-trip domain (good_binding:
   good_name, in_domain, floats_conv dec_conv), every value-length limit and every list of extra identifiers:
   auto-loading (bufio.ScanLines, one evaluation per line, through the lexer and parser models) the file that SaveGlobals
   wrote binds exactly the bindings SaveGlobals kept - same names, equal values of the same type, in key order, nothing
   else - and their number is the count SaveGlobals reported ... *)
Theorem C14_autoload_restores_saved_data : forall maxlen extras env,
  Forall (fun kv => good_binding kv = true) env -> NoDup (keys env) ->
  forall file n, save_globals maxlen extras (data_store env) = Some (file, n) ->
  autoload dec_conv file = saved_bindings maxlen extras env /\ n = List.length (saved_bindings maxlen extras env).
Proof. exact cycle_loads_saved. Qed.

(* ... saving the reloaded session again yields the same file (byte for byte, same count) ... *)
Theorem C14_save_load_save : forall maxlen extras env,
  Forall (fun kv => good_binding kv = true) env -> NoDup (keys env) ->
  forall file n, save_globals maxlen extras (data_store env) = Some (file, n) ->
  save_globals maxlen extras (data_store (autoload dec_conv file)) = Some (file, n).
Proof. exact cycle_resave. Qed.

(* ... and a global is back exactly when it is not a constant of the root environment and its printed value is not longer
   than the limit: longer values are skipped as a whole, never restored in part *)
Theorem C14_restored_iff_kept : forall maxlen extras env,
  Forall (fun kv => good_binding kv = true) env -> NoDup (keys env) ->
  forall file n, save_globals maxlen extras (data_store env) = Some (file, n) ->
  forall k v, In (k, v) (autoload dec_conv file) <-> (In (k, v) env /\ kept maxlen extras (k, v) = true).
Proof. exact cycle_membership. Qed.

(* ... and so does any number of further cycles (save, fresh session, auto-load): the file never changes again *)
Theorem C14_repeated_cycles_stable : forall maxlen extras env,
  Forall (fun kv => good_binding kv = true) env -> NoDup (keys env) ->
  forall n, save_globals maxlen extras (data_store (Nat.iter n (one_cycle maxlen extras) env)) =
            save_globals maxlen extras (data_store env).
Proof. exact cycles_stable. Qed.

(* non-vacuity: a computed environment (nested map with a float and high bytes, an integer, the constant PI, a 52 byte
   string under limit 40) satisfies the hypotheses; two bindings are restored and the file is stable *)
Example C14_cycle_example : cycle_example_holds.
Proof. exact cycle_env_ok. Qed.

(* ------------------------------------------------------------------ the hypotheses are satisfiable *)
Example C14_hypotheses_satisfiable :
  exists k v, good_name k = true /\ in_domain v = true /\ no_finite_float v = true /\
              v = VMap [(VInt (-7), VStr [10%N; 255%N]); (VBool true, VArr [VNil; VFloat (FInf true)])].
Proof. exists [107%N; 49%N]. eexists. repeat split; vm_compute; reflexivity. Qed.

Print Assumptions C14_refuted_integral_float.
Print Assumptions C14_refuted_min_int64.
Print Assumptions C14_refuted_witnesses.
Print Assumptions C14_value_roundtrip_guarded.
Print Assumptions C14_value_roundtrip_partial.
Print Assumptions C14_value_roundtrip_any_conv.
Print Assumptions C14_inspect_injective_guarded.
Print Assumptions C14_roundtrip_examples.
Print Assumptions C14_one_line.
Print Assumptions C14_saved_line_has_no_newline.
Print Assumptions C14_save_is_sorted_and_skips.
Print Assumptions C14_limit_skips_never_truncates.
Print Assumptions C14_limited_file_is_sublist_of_lines.
Print Assumptions C14_one_binding_per_line.
Print Assumptions C14_function_fixed_cases.
Print Assumptions C14_refuted_function_bodies.
Print Assumptions C14_save_globals_example.
Print Assumptions C14_autoload_restores_saved_data.
Print Assumptions C14_save_load_save.
Print Assumptions C14_restored_iff_kept.
Print Assumptions C14_repeated_cycles_stable.
Print Assumptions C14_cycle_example.
