(* C14 property theorems (work in progress). *)
From Coq Require Import List ZArith NArith Bool.
From GrolModel Require Import Ast Values SaveLoad.
From GrolProofs Require Import SaveLoad_proofs.
Import ListNotations.
Theorem C14_stub : fmt_nat 0 = [48%N].
Proof. exact stub_ok. Qed.
Print Assumptions C14_stub.
