(* C13 - macro expansion is exact syntactic substitution.
   Only property theorems (closed by [exact]), examples and Print Assumptions.

   Vocabulary (coq/model/MacroSpec.v): [bu g] is the plain bottom-up rewrite of a tree by the rule g;
   [subst_template e sigma T] = bu of the rule "unquote(p) -> sigma(p)"; [expand_spec e P] = bu of the
   rule "call of a macro -> its template with the parameters substituted by the call's arguments";
   [modifiable] = block fields hold statements, parameters are identifiers, map keys are present
   (true of every tree the parser returns without error). *)
From Coq Require Import List ZArith NArith Bool String.
From GrolGen Require Import Gen_Consts.
From GrolModel Require Import Ast Modify Macro MacroSpec.
From GrolProofs Require Import Macro_proofs.
Import ListNotations.

(* quote(T) inside a macro body evaluates to T with every unquote(parameter) replaced by the
   corresponding argument tree - everywhere in T, at any depth *)
Theorem C13_template_is_substitution : forall e sigma T,
  modifiable T = true -> modify_no_ok (unquote_cb e sigma) T = Some (subst_template e sigma T).
Proof. exact template_is_subst. Qed.

(* every call of a macro, wherever it occurs in the program (top level, inside functions, loops,
   arguments of other macro calls, callee position), is replaced, bottom-up, by the rule below *)
Theorem C13_expansion_everywhere : forall e program,
  env_ok e = true -> modifiable program = true ->
  expand_macros e program = Some (expand_spec e program).
Proof. exact expansion_is_bu. Qed.

(* ... and that rule is: the template with each unquote(parameter) replaced by the argument tree;
   the arguments are syntax trees, never evaluated (the model of expansion has no evaluator) *)
Theorem C13_call_site_rule : forall e ft t args m T,
  mlookup e (tlit ft) = Some m -> template_of m = Some T -> modifiable T = true ->
  List.length (match args with Some l => l | None => [] end)
    = List.length (match m_params m with Some l => l | None => [] end) ->
  expand_rule e (NCall t (Some (NIdent ft)) args)
  = subst_template e (bind_params (match m_params m with Some l => l | None => [] end)
                                  (match args with Some l => l | None => [] end) []) T.
Proof. exact call_site_rule. Qed.

(* the definition is not altered by its uses *)
Theorem C13_definitions_unchanged_by_uses : forall stmts e,
  snd (define_and_expand stmts e) = snd (define_macros stmts e).
Proof. exact definitions_unchanged_by_uses. Qed.

(* separate call sites of the same macro expand independently: the expansion of a program is, statement by statement (and
   operand by operand), the expansion of that statement alone; two sites with the same call expand to the same tree *)
Theorem C13_statement_expansion_is_local : forall e l1 s l2,
  expand_spec e (NStmts (l1 ++ Some s :: l2))
  = NStmts (bl_with (expand_spec e) l1 ++ Some (expand_spec e s) :: bl_with (expand_spec e) l2).
Proof. exact statement_expansion_is_local. Qed.

Theorem C13_operands_expand_independently : forall e t a b,
  expand_spec e (NInfix t (Some a) (Some b)) = NInfix t (Some (expand_spec e a)) (Some (expand_spec e b)).
Proof. exact operands_expand_independently. Qed.

Theorem C13_same_call_same_expansion : forall e c l1 l2 l3,
  exists x, expand_spec e (NStmts (l1 ++ Some c :: l2 ++ Some c :: l3))
            = NStmts (bl_with (expand_spec e) l1 ++ Some x :: bl_with (expand_spec e) l2 ++ Some x :: bl_with (expand_spec e) l3).
Proof. exact same_call_same_expansion. Qed.

(* the underlying fact about ast.Modify: on a well-formed tree, for a rule that keeps statements and
   identifiers what they are, it is exactly the bottom-up rewrite (no give-up, no panic) *)
Theorem C13_modify_is_bottom_up_rewrite : forall (g : node -> node),
  (forall l, is_stmts (g (NStmts l)) = true) ->
  (forall t, Z.eqb (ttype t) token_REGISTER = false -> is_identifier (g (NIdent t)) = true) ->
  forall f, (forall n, f n = ROk (g n)) ->
  forall n, modifiable n = true -> modify_gen (fun _ _ => false) f n = ROk (bu g n).
Proof. exact modify_is_bu. Qed.

(* non-vacuity: m = macro(a, b) { quote(unquote(a) - unquote(b)) } ; m(x, y) expands to x - y *)
Definition tk (ty : Z) (s : string) : tok := mkTok ty (bytes_of_str s).
Definition id (s : string) : node := NIdent (tk token_IDENT s).
Definition unq (s : string) : node := NBuiltin (tk token_UNQUOTE "unquote") (Some [Some (id s)]).
Definition tmpl : node := NInfix (tk token_MINUS "-") (Some (unq "a")) (Some (unq "b")).
Definition mdef : macro :=
  mkMacro (Some [Some (id "a"); Some (id "b")])
          (Some (NStmts [Some (NBuiltin (tk token_QUOTE "quote") (Some [Some tmpl]))])).
Definition env1 : menv := [(bytes_of_str "m", mdef)].
Definition call : node := NCall (tk token_LPAREN "(") (Some (id "m")) (Some [Some (id "x"); Some (id "y")]).

Example C13_example :
  env_ok env1 = true /\ modifiable (NStmts [Some call]) = true
  /\ expand_macros env1 (NStmts [Some call])
     = Some (NStmts [Some (NInfix (tk token_MINUS "-") (Some (id "x")) (Some (id "y")))]).
Proof. vm_compute. repeat split. Qed.

Print Assumptions C13_template_is_substitution.
Print Assumptions C13_expansion_everywhere.
Print Assumptions C13_call_site_rule.
Print Assumptions C13_modify_is_bottom_up_rewrite.
Print Assumptions C13_definitions_unchanged_by_uses.
Print Assumptions C13_statement_expansion_is_local.
Print Assumptions C13_operands_expand_independently.
Print Assumptions C13_same_call_same_expansion.
