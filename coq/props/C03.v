(* C03 - formatting is canonical: a deterministic fixpoint.
   Only property statements, witnesses and Print Assumptions. *)
From Coq Require Import List ZArith NArith Bool String.
From GrolGen Require Import Gen_Consts.
From GrolModel Require Import Ast Lexer Parser Printer AstWf Frontend TokPrint.
From GrolProofs Require Import Roundtrip_expr Printer_newline.
Import ListNotations.

Definition no_numbers : numconv := mkConv (fun _ => None) (fun _ => None).
Definition src (s : string) : bytes := bytes_of_string s.

(* The full statement: formatting already formatted text returns it byte for byte, in both modes. *)
Definition C03_idempotent : Prop :=
  forall (conv : numconv) (compact : bool) (s : bytes), idempotent_on conv compact s = true.

(* FALSE of the faithful model and of the code, for the finding classes shared with C02
   (the formatted text parses to a different tree, which then prints differently). *)
Theorem C03_refuted_statement_starts_with_prefix_operator :
  idempotent_on no_numbers false (src "a;-b") = false /\ idempotent_on no_numbers true (src "a;++b") = false.
Proof. vm_compute. split; reflexivity. Qed.

Theorem C03_refuted_comment_in_expression_position :
  idempotent_on no_numbers true (src "a // t
+b") = false.
Proof. vm_compute. reflexivity. Qed.

Theorem C03_refuted_bare_return_followed_by_statement :
  idempotent_on no_numbers true (src "func f(){return // c
return a}") = false.
Proof. vm_compute. reflexivity. Qed.

Theorem C03_refuted : ~ C03_idempotent.
Proof. intros H. specialize (H no_numbers false (src "a;-b")). vm_compute in H. discriminate. Qed.

(* determinism: in the model the formatter is a function of the token stream alone (no interning
   state, no map iteration); what can make the implementation differ - token interning history, Go
   map iteration order in MapLiteral - is exercised by the harness (repeats, histories, fresh process). *)
Theorem C03_format_is_a_function : forall conv compact s o1 o2,
  format conv compact s = o1 -> format conv compact s = o2 -> o1 = o2.
Proof. intros; congruence. Qed.

(* regression / non-vacuity: formatted examples are fixpoints, incl. comments in statement position *)
Example C03_fixpoint_examples :
  forallb (fun s => idempotent_on no_numbers false (src s) && idempotent_on no_numbers true (src s))
    ["a-(b-c)"; "a+(b+c)"; "x // t
/* b */ y"; "if a { // c
b}"; "// only
"; ""; "func f(){
// c
}"; "a // t1
// t2
b"; "f = (a,b) => a+b; f(c)"; "for i=a:b {x++} // t";
     (* repaired by fix: 781f1b2 and 4239cee *)
     "if a { b /* yes */ } else { c /* no */ }"; "if x {a} else { // c
 if y {b} }"; "func f() { x /* why */ }
b = c"; "/* c */ if a {b}"; "if a {b} else { /* c */ if b {c} else {a} }"]%string = true.
Proof. vm_compute. reflexivity. Qed.

(* POSITIVE part, proved without bound for the expression fragment of coq/model/TokPrint.v (see C02):
   re-parsing the tokens of formatted text and formatting again emits the same tokens - formatted text
   is a fixpoint of the formatter at token level, in both modes (they differ only in white space).  The
   byte-level step is checked per run (C02's TL cases and this check's FMT2 cases). *)
Theorem C03_fragment_fixpoint : forall conv e pts,
  wf_ex conv e = true -> matches pts (body e) ->
  exists f0, forall fuel, (f0 <= fuel)%nat ->
    match parse_program conv fuel token_EOF pts with
    | POk r => frag_tokens conv (pr_tree r) = Some (plain_toks (body e))
    | _ => False
    end.
Proof. exact fragment_format_fixpoint. Qed.

(* third sentence of C03, proved for every tree: the normal-mode output of a program ends with exactly one
   newline - it is o ++ "\n" where o is empty (the empty program) or ends with a byte that is not a newline.
   Hypothesis lits_ok: no child is missing and the token literals that are printed verbatim (everything but
   string contents, which are printed quoted) are non-empty and do not end with a newline - true of every
   token the lexer produces; the harness checks the conclusion on every formatted program. *)
Theorem C03_normal_output_ends_with_exactly_one_newline : forall allparens stmts out,
  lits_ok (NStmts stmts) = true ->
  print_program false allparens stmts = Some out ->
  exists o, out = o ++ [10%N] /\ ((stmts = [] /\ o = []) \/ good_endb o = true).
Proof. exact normal_output_ends_with_one_newline. Qed.

(* non-vacuity: parsed programs satisfy lits_ok *)
Example C03_lits_ok_examples :
  forallb (fun s => match front_parse no_numbers false (src s) with
                    | POk r => clean r && lits_ok (NStmts (pr_tree r))
                    | _ => false end)
    ["a"; "x = f(a, b) // t
/* c */ y"; "if a {b} else {c}"; "func f(a){return a}"; "m = {a:b}; m[a]"; "s = ""x"" + ""
"""; ""]%string = true.
Proof. vm_compute. reflexivity. Qed.

Print Assumptions C03_normal_output_ends_with_exactly_one_newline.
Print Assumptions C03_fragment_fixpoint.
Print Assumptions C03_refuted.
Print Assumptions C03_format_is_a_function.
Print Assumptions C03_refuted_statement_starts_with_prefix_operator.
Print Assumptions C03_refuted_comment_in_expression_position.
Print Assumptions C03_refuted_bare_return_followed_by_statement.
