(* C17 - restricted IO confines file access to plain .gr names in the current directory.
   This file contains only the property theorems (each closed by [exact] of a lemma of
   proofs/Sanitize_proofs.v or proofs/IOSites_audit.v), their non-vacuity examples and [Print Assumptions].

   Vocabulary (model/Sanitize.v, proofs/Sanitize_proofs.v):
     config              HasLoad, HasSave, LoadSaveEmptyOnly, UnrestrictedIOs      restricted c := unrestricted c = false
     sanitize c arg      sanitizeFileName; arg = None is save()/load() without argument; None result = error
     dot_gr, grol_png    the byte strings ".gr" and "grol.png"
     alnum x             x is a letter, a digit or '_'  (lexer.IsAlphaNum)
     plain n             n = b ++ ".gr" with every byte of b alnum
     allowed c n         n = "grol.png", or n = ".gr" (empty-only) / plain n (otherwise)
     step / run          one request / a sequence of requests (save, load, image.save, exec, run) against a file
                         system  name -> content, an arbitrary OS answer [ok] for os.Create, and a log of every name
                         handed to the OS
     registered c        which of save, load, exec, run exist *)
From Coq Require Import String List NArith Bool Permutation.
From GrolGen Require Import Gen_IOSites.
From GrolModel Require Import Sanitize.
From GrolProofs Require Import Sanitize_proofs Sanitize_prog_proofs IOSites_audit.
Import ListNotations.
Local Open Scope N_scope.

(* an accepted name is letters/digits/underscores followed by .gr - for every string and both restricted modes *)
Theorem C17_sanitize_plain : forall (c : config) (arg : option str) (f : str),
  restricted c -> sanitize c arg = Some f ->
  exists b, f = b ++ dot_gr /\ Forall alnum b.
Proof. exact sanitize_plain. Qed.

(* hence no '/', '\', '.', NUL, space, '~' or non-ASCII byte before the final .gr *)
Theorem C17_sanitize_plain_chars : forall (c : config) (arg : option str) (f : str),
  restricted c -> sanitize c arg = Some f ->
  exists b, f = b ++ dot_gr /\
    forall x, In x b -> x <> 47 /\ x <> 92 /\ x <> 46 /\ x <> 0 /\ x <> 32 /\ x <> 126 /\ x < 128.
Proof. exact sanitize_plain_chars. Qed.

(* empty-only mode: the only file is ./.gr *)
Theorem C17_sanitize_empty_only : forall (c : config) (arg : option str) (f : str),
  restricted c -> empty_only c = true -> sanitize c arg = Some f -> f = dot_gr.
Proof. exact sanitize_empty_only. Qed.

(* the same without assuming restricted IO: the only other accepted result is the empty name for save("") /
   load("") under unrestricted IO (which no OS call can open or create) *)
Theorem C17_sanitize_empty_only_any_io : forall (c : config) (arg : option str) (f : str),
  empty_only c = true -> sanitize c arg = Some f ->
  f = dot_gr \/ (unrestricted c = true /\ arg = Some [] /\ f = []).
Proof. exact sanitize_empty_only_any_io. Qed.

(* acceptance, and the file a request is resolved to, depend only on the IO flags and the name: not on the file
   system, the history, the data, the OS answer, nor on the other configuration fields *)
Theorem C17_sanitize_is_function_of_name : forall (c : config) (arg : option str)
    (ok1 ok2 : str -> bool) (st1 st2 : state) (d1 d2 : content),
  accepted_name (snd (step c ok1 st1 (RSave arg d1))) = accepted_name (snd (step c ok2 st2 (RSave arg d2)))
  /\ accepted_name (snd (step c ok1 st1 (RLoad arg))) = accepted_name (snd (step c ok2 st2 (RLoad arg)))
  /\ (is_registered c FSave = true -> accepted_name (snd (step c ok1 st1 (RSave arg d1))) = sanitize c arg)
  /\ (is_registered c FLoad = true -> accepted_name (snd (step c ok1 st1 (RLoad arg))) = sanitize c arg).
Proof. exact accepted_name_function_of_name. Qed.

Theorem C17_sanitize_config_irrelevance : forall (c1 c2 : config) (arg : option str),
  empty_only c1 = empty_only c2 -> unrestricted c1 = unrestricted c2 -> sanitize c1 arg = sanitize c2 arg.
Proof. exact sanitize_config_irrelevance. Qed.

(* a rejected request changes neither the file system nor the log of OS calls (no OS call is made) *)
Theorem C17_rejected_no_effect : forall (c : config) (arg : option str),
  sanitize c arg = None ->
  forall (ok : str -> bool) (st : state) (d : content),
    fst (step c ok st (RSave arg d)) = st /\ fst (step c ok st (RLoad arg)) = st.
Proof. exact rejected_no_effect. Qed.

(* confinement: any sequence of requests, any OS behaviour, any initial file system *)
Theorem C17_confined : forall (c : config) (ok : str -> bool) (rs : list request) (f f' : fs)
    (lg : list access) (outs : list outcome),
  restricted c -> run c ok (f, []) rs = ((f', lg), outs) ->
  (forall a, In a lg -> exists n, file_access a n /\ allowed c n)
  /\ (forall n, ~ allowed c n -> fs_get f' n = fs_get f n)
  /\ (forall n, fs_get f n = None -> fs_get f' n <> None -> allowed c n).
Proof. exact confined. Qed.

(* the process-execution functions do not exist when IO is restricted, and calling them does nothing *)
Theorem C17_no_exec_when_restricted : forall c : config,
  restricted c -> ~ In FExec (registered c) /\ ~ In FRun (registered c).
Proof. exact no_exec_when_restricted. Qed.

Theorem C17_exec_run_undefined_when_restricted : forall (c : config) (ok : str -> bool) (st : state) (cmd : list str),
  restricted c ->
  step c ok st (RExec cmd) = (st, OUndefined) /\ step c ok st (RRun cmd) = (st, OUndefined).
Proof. exact exec_run_undefined_when_restricted. Qed.

Theorem C17_registered_spec : forall c : config,
  (In FSave (registered c) <-> has_save c = true) /\ (In FLoad (registered c) <-> has_load c = true)
  /\ (In FExec (registered c) <-> unrestricted c = true) /\ (In FRun (registered c) <-> unrestricted c = true).
Proof. exact registered_spec. Qed.

(* the step from "the sanitiser is right" to "nothing else reaches the file system": the regenerated inventory of
   file / process / network references of /repo is the audited one, the suffix constant is ".gr" *)
Theorem C17_io_inventory_audited : Permutation (map site_key io_sites) (map site_key audited_io_sites).
Proof. exact io_sites_audited. Qed.

Theorem C17_third_party_imports_audited : third_party_imports = audited_third_party_imports.
Proof. exact third_party_imports_audited. Qed.

Theorem C17_suffix_constant : grol_file_extension = dot_gr /\ repl_autosave_file = dot_gr.
Proof. exact (conj suffix_is_dot_gr autosave_file_is_dot_gr). Qed.

Theorem C17_audited_sites_policy : forallb site_ok (map site_key io_sites) = true.
Proof. exact audited_sites_policy. Qed.

(* non-vacuity: names are accepted and rejected in every mode, files are created, and the unrestricted
   configuration does escape (so the hypotheses above are satisfiable and not redundant).
   "fib_50" = [102;105;98;95;53;48]   "../x" = [46;46;47;120]   "a.gr.gr"   "a" = [97] *)
Definition cfg_restricted := mkConfig true true false false.
Definition cfg_empty_only := mkConfig true true true false.
Definition cfg_unrestricted := mkConfig true true false true.

Example C17_ex_sanitize :
  sanitize cfg_restricted (Some [102;105;98;95;53;48]) = Some [102;105;98;95;53;48;46;103;114]
  /\ sanitize cfg_restricted (Some [102;105;98;95;53;48;46;103;114]) = Some [102;105;98;95;53;48;46;103;114]
  /\ sanitize cfg_restricted (Some [46;46;47;120]) = None
  /\ sanitize cfg_restricted (Some [97;46;103;114;46;103;114]) = None
  /\ sanitize cfg_restricted (Some [97;0]) = None
  /\ sanitize cfg_restricted (Some []) = Some dot_gr
  /\ sanitize cfg_restricted None = Some dot_gr
  /\ sanitize cfg_empty_only (Some [97]) = None
  /\ sanitize cfg_empty_only (Some []) = Some dot_gr
  /\ sanitize cfg_unrestricted (Some [46;46;47;120]) = Some [46;46;47;120]
  /\ sanitize (mkConfig true true true true) (Some []) = Some [].
Proof. vm_compute. repeat split. Qed.

Example C17_ex_run :
  let ok := fun _ : str => true in
  let f0 : fs := [([46;46;47;120], [1])] in                       (* a decoy "../x" *)
  let rs := [RSave (Some [97]) [7]; RSave (Some [46;46;47;120]) [8]; RLoad (Some [97]);
             RImageSave true [9]; RExec [[108;115]]] in
  run cfg_restricted ok (f0, []) rs
    = (([([46;46;47;120], [1]); ([97;46;103;114], [7]); (grol_png, [9])],
        [ACreate [97;46;103;114]; AOpen [97;46;103;114]; ACreate grol_png]),
       [OSaved [97;46;103;114]; ORejected; OLoaded [97;46;103;114] [7]; OImageSaved; OUndefined])
  /\ fst (fst (run cfg_unrestricted ok (f0, []) rs)) = [([46;46;47;120], [8]); ([97], [7]); (grol_png, [9])]
  /\ registered cfg_restricted = [FSave; FLoad]
  /\ registered cfg_unrestricted = [FSave; FLoad; FExec; FRun]
  /\ registered (mkConfig false false false false) = [].
Proof. vm_compute. repeat split. Qed.

(* ---------------------------------------------------------------------------------------------------------------
   Adaptive programs.  A [program] chooses every request from the outcomes of the previous ones (the contents load
   returned included), which is how a loaded file's own save/load/exec calls come about; [run_prog c ok p n] issues
   at most n requests.  Request lists are the special case [prog_of_list]. *)

(* "no grol program can READ any file other than ...": non-interference.  Two file systems that agree on the allowed
   names and differ arbitrarily elsewhere (other names, other contents, more or fewer files) are indistinguishable
   for every restricted program, however it adapts: same outcomes, same OS calls, and they still agree afterwards. *)
Theorem C17_read_noninterference : forall (c : config) (ok : str -> bool) (p : program) (n : nat) (f1 f2 : fs),
  restricted c -> agree_on_allowed c f1 f2 ->
  snd (run_prog c ok p n (f1, []) []) = snd (run_prog c ok p n (f2, []) [])
  /\ snd (fst (run_prog c ok p n (f1, []) [])) = snd (fst (run_prog c ok p n (f2, []) []))
  /\ agree_on_allowed c (fst (fst (run_prog c ok p n (f1, []) []))) (fst (fst (run_prog c ok p n (f2, []) []))).
Proof. exact prog_noninterference. Qed.

(* "... create or truncate ...": confinement holds for every adaptive program, not only for fixed request lists *)
Theorem C17_adaptive_confined : forall (c : config) (ok : str -> bool) (p : program) (n : nat) (f f' : fs)
    (lg : list access) (outs : list outcome),
  restricted c -> run_prog c ok p n (f, []) [] = ((f', lg), outs) ->
  (forall a, In a lg -> exists m, file_access a m /\ allowed c m)
  /\ (forall m, ~ allowed c m -> fs_get f' m = fs_get f m)
  /\ (forall m, fs_get f m = None -> fs_get f' m <> None -> allowed c m).
Proof. exact prog_confined. Qed.

Theorem C17_request_lists_are_programs : forall (c : config) (ok : str -> bool) (rs : list request) (st : state),
  run_prog c ok (prog_of_list rs) (length rs) st [] = run c ok st rs.
Proof. exact run_prog_of_list. Qed.

(* "whether a name is accepted depends only on the name": exactly the names b and b.gr with b made of letters, digits
   and underscores are accepted (restricted, not empty-only), both as the file b.gr; and the accepted form is stable *)
Theorem C17_sanitize_characterisation : forall (c : config) (n f : str),
  restricted c -> empty_only c = false ->
  (sanitize c (Some n) = Some f <-> exists b, Forall alnum b /\ f = b ++ dot_gr /\ (n = b \/ n = b ++ dot_gr)).
Proof. exact sanitize_characterisation. Qed.

Theorem C17_sanitize_idempotent : forall (c : config) (arg : option str) (f : str),
  restricted c -> empty_only c = false -> sanitize c arg = Some f -> sanitize c (Some f) = Some f.
Proof. exact sanitize_idempotent. Qed.

(* non-vacuity: a program that tries to read "../s", reads "a", then saves under the NAME it has just read from a.gr.
   f1 and f2 agree on the allowed names and differ in the decoy "../s" and in an extra file; restricted runs are
   identical, unrestricted runs are not (so the hypothesis matters). *)
Definition ex_prog : program := fun hist =>
  match hist with
  | [] => Some (RLoad (Some [46;46;47;115]))
  | [_] => Some (RLoad (Some [97]))
  | [_; OLoaded _ d] => Some (RSave (Some d) [5])
  | _ => None
  end.
Definition ex_f1 : fs := [([97;46;103;114], [120]); ([46;46;47;115], [7])].
Definition ex_f2 : fs := [([46;46;47;115], [8]); ([97;46;103;114], [120]); ([110;46;116;120;116], [9])].

Example C17_ex_noninterference :
  let ok := fun _ : str => true in
  (forall m, allowedb cfg_restricted m = true -> fs_get ex_f1 m = fs_get ex_f2 m)
  /\ run_prog cfg_restricted ok ex_prog 9 (ex_f1, []) []
     = ((ex_f1 ++ [([120;46;103;114], [5])], [AOpen [97;46;103;114]; ACreate [120;46;103;114]]),
        [ORejected; OLoaded [97;46;103;114] [120]; OSaved [120;46;103;114]])
  /\ snd (run_prog cfg_restricted ok ex_prog 9 (ex_f2, []) []) = snd (run_prog cfg_restricted ok ex_prog 9 (ex_f1, []) [])
  /\ snd (run_prog cfg_unrestricted ok ex_prog 9 (ex_f2, []) []) <> snd (run_prog cfg_unrestricted ok ex_prog 9 (ex_f1, []) [])
  /\ sanitize cfg_restricted (Some [120;46;103;114]) = Some [120;46;103;114].
Proof.
  split; [|split; [|split; [|split]]]; try (vm_compute; reflexivity).
  - intros m Hm. unfold ex_f1, ex_f2. simpl fs_get.
    destruct (str_eqb [97;46;103;114] m) eqn:Ea.
    + apply str_eqb_true in Ea. subst m. reflexivity.
    + destruct (str_eqb [46;46;47;115] m) eqn:Eb.
      * apply str_eqb_true in Eb. subst m. vm_compute in Hm. discriminate.
      * destruct (str_eqb [110;46;116;120;116] m) eqn:Ec; [|reflexivity].
        apply str_eqb_true in Ec. subst m. vm_compute in Hm. discriminate.
  - intro H. vm_compute in H. discriminate.
Qed.

Print Assumptions C17_sanitize_plain.
Print Assumptions C17_sanitize_plain_chars.
Print Assumptions C17_sanitize_empty_only.
Print Assumptions C17_sanitize_empty_only_any_io.
Print Assumptions C17_sanitize_is_function_of_name.
Print Assumptions C17_sanitize_config_irrelevance.
Print Assumptions C17_rejected_no_effect.
Print Assumptions C17_confined.
Print Assumptions C17_no_exec_when_restricted.
Print Assumptions C17_exec_run_undefined_when_restricted.
Print Assumptions C17_registered_spec.
Print Assumptions C17_io_inventory_audited.
Print Assumptions C17_third_party_imports_audited.
Print Assumptions C17_suffix_constant.
Print Assumptions C17_audited_sites_policy.
Print Assumptions C17_read_noninterference.
Print Assumptions C17_adaptive_confined.
Print Assumptions C17_request_lists_are_programs.
Print Assumptions C17_sanitize_characterisation.
Print Assumptions C17_sanitize_idempotent.
