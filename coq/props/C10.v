(* C10 - a failed input leaves no trace in the session.
   Only property theorems (closed by [exact] of a lemma of the proofs directory), refutation
   witnesses of the tree as it was pinned, non-vacuity examples and Print Assumptions.

   The theorems are about the CONTROL PROJECTION of the session state (model/Session.v on top of
   the skeleton machine of model/Registers.v): current environment, depth counter, output
   writer, register count of the root environment, evaluation context.  They hold for every
   outcome kind of an input: value, language error, recovered run-time panic, depth guard,
   deadline.  The DATA half of the property (bindings, cache: "every later input produces the
   output it would have produced") is not modelled; it is decided by the differential run of
   harness/cmd/C10 (same history with and without the failing inputs on the implementation).  *)
From Coq Require Import List Bool Arith.
From GrolModel Require Import Registers Session.
From GrolProofs Require Import Registers_proofs Session_proofs.
Import ListNotations.

(* after EvalOne of ANY input from a top-level state, whatever the outcome: the current
   environment is the root, depth is 0, output goes to the session writer, the root register
   count is unchanged, and the next input is evaluated under a fresh (live) context *)
Theorem control_restored : forall (r : bool) (p : skel) (s : session),
  top_level (st s) ->
  forall o s' t, eval_one (repaired r) p s = (o, s', t) ->
    length (envs (st s')) = 1
    /\ depth (st s') = 0
    /\ outs (st s') = 0
    /\ nth_error (envs (st s')) 0 = nth_error (envs (st s)) 0
    /\ ctx_live (set_context s') = true
    /\ top_level (st s').
Proof. exact control_restored_lemma. Qed.

(* stronger form: the whole control state is literally the one before, and the outcome is never
   a failure of the register machinery *)
Theorem control_state_unchanged : forall (r : bool) (p : skel) (s : session),
  top_level (st s) ->
  forall o s' t, eval_one (repaired r) p s = (o, s', t) ->
    st s' = st s /\ ctx_live s' = false
    /\ o <> OStuck /\ o <> OPanic PNoRegisters /\ o <> OPanic PNonLifo.
Proof. exact eval_one_restores. Qed.

(* histories: an input f submitted between h1 and h2 (failing or not, any kind) changes nothing
   of what the inputs of h1 and h2 show (outcome kinds and probe observations: register count of
   the current environment, whether output reaches the session writer) *)
Theorem failed_input_leaves_no_control_trace :
  forall (r : bool) (h1 h2 : list skel) (f : skel) (s : session),
  top_level (st s) ->
  exists of_,
    fst (run_session (repaired r) (h1 ++ f :: h2) s)
      = fst (run_session (repaired r) h1 s) ++ of_ :: fst (run_session (repaired r) h2 s)
    /\ fst (run_session (repaired r) (h1 ++ h2) s)
      = fst (run_session (repaired r) h1 s) ++ fst (run_session (repaired r) h2 s).
Proof. exact no_trace_lemma. Qed.

(* "all interleavings of a sequence of succeeding inputs with failing inputs, at every position and with any
   multiplicity": a history is a list of inputs each tagged inserted (true) or base (false) - any number of inserted
   inputs, anywhere, of any kind. What the base inputs show inside the whole history (outcome kinds, probe
   observations) is exactly what they show when the base history runs alone, and both sessions end in the same
   control state. *)
Theorem every_interleaving_leaves_no_control_trace :
  forall (r : bool) (h : list (bool * skel)) (s : session),
  top_level (st s) ->
  base_obs h (fst (run_session (repaired r) (all_inputs h) s))
  = fst (run_session (repaired r) (base_inputs h) s).
Proof. exact interleaving_lemma. Qed.

Theorem every_interleaving_same_final_control_state :
  forall (r : bool) (h : list (bool * skel)) (s : session),
  top_level (st s) ->
  st (snd (run_session (repaired r) (all_inputs h) s))
  = st (snd (run_session (repaired r) (base_inputs h) s)).
Proof. exact interleaving_state_lemma. Qed.

(* ---- the tree as pinned (before 31dc576 and 53bcb24) violated control_restored ---- *)
Definition depth_overflow : skel := KCall 1 (KCall 1 (KCall 1 (KLeaf LDepth))).   (* func f(n){f(n+1)};f(0) *)
Definition print_probe : skel := KProbe.                                          (* println("b") *)

(* the depth panic inside a call leaves State.Out on the dead per-call buffer: the next input's
   output does not reach the session writer (outs = 3, not 0) *)
Example C10_refuted_pinned_out :
  exists s' o t, eval_one (pinned true) depth_overflow new_session = (o, s', t)
    /\ o = OPanic PDepth /\ outs (st s') <> 0
    /\ fst (run_session (pinned true) [depth_overflow; print_probe] new_session)
       = [(OPanic PDepth, []); (OValue, [(0, 3)])]
    /\ fst (run_session (pinned true) [print_probe] new_session) = [(OValue, [(0, 0)])].
Proof. eexists; eexists; eexists. vm_compute. repeat split; try reflexivity. discriminate. Qed.

(* an error inside a top-level counted loop leaves the root register count raised *)
Example C10_refuted_pinned_numreg :
  exists s' o t, eval_one (pinned true) (KLoop true true [KLeaf LError]) new_session = (o, s', t)
    /\ o = OError /\ nth_error (envs (st s')) 0 = Some 1.
Proof. eexists; eexists; eexists. vm_compute. repeat split; reflexivity. Qed.

(* ---- non-vacuity: the hypotheses are satisfiable and every outcome kind occurs ---- *)
Example C10_ex_all_kinds :
  top_level (st new_session)
  /\ fst (run_session (repaired true)
            [ KLoop true true [KProbe; KCall 2 (KLoop true true [KProbe; KLeaf LError])];   (* error in nested call and loop *)
              KProbe;
              KCall 1 (KLoop true true [KLeaf LPanic]);                                      (* run-time panic inside a function *)
              KProbe;
              depth_overflow;                                                                (* depth guard *)
              KProbe;
              KLoop false true [KLeaf LNormal; KLeaf LError];                                (* deadline inside a loop *)
              KLoop true true [KLeaf LNormal; KLeaf LBreak];
              KProbe ] new_session)
     = [ (OError, [(1,0); (3,1)]); (OValue, [(0,0)]); (OPanic PRuntime, []); (OValue, [(0,0)]);
         (OPanic PDepth, []); (OValue, [(0,0)]); (OError, []); (OValue, []); (OValue, [(0,0)]) ].
Proof. split; [exists 0; repeat split | vm_compute; reflexivity]. Qed.

(* an interleaving with failing inputs of several kinds at several positions, one of them three times: the base
   inputs (two probes in loops / calls and a plain one) show the same with and without them; on the pinned tree they
   do not *)
Definition tagged_history : list (bool * skel) :=
  [ (true, KLoop true true [KLeaf LError]);
    (false, KLoop true true [KProbe; KProbe]);
    (true, depth_overflow); (true, depth_overflow); (true, depth_overflow);
    (false, KCall 2 (KSeq [KProbe]));
    (true, KCall 1 (KLoop true true [KLeaf LPanic]));
    (false, KProbe) ].

Example C10_ex_interleaving :
  base_inputs tagged_history = [KLoop true true [KProbe; KProbe]; KCall 2 (KSeq [KProbe]); KProbe]
  /\ base_obs tagged_history (fst (run_session (repaired true) (all_inputs tagged_history) new_session))
     = [(OValue, [(1,0); (1,0)]); (OValue, [(2,1)]); (OValue, [(0,0)])]
  /\ fst (run_session (repaired true) (base_inputs tagged_history) new_session)
     = [(OValue, [(1,0); (1,0)]); (OValue, [(2,1)]); (OValue, [(0,0)])]
  /\ base_obs tagged_history (fst (run_session (pinned true) (all_inputs tagged_history) new_session))
     <> fst (run_session (pinned true) (base_inputs tagged_history) new_session).
Proof. vm_compute. repeat split; try reflexivity. discriminate. Qed.

(* without the context refresh of EvalOne a dead context would fail every later input *)
Example C10_ex_context_matters : forall c p m, run_input c p (mkS m false) = (GError, m, []).
Proof. exact dead_context_fails. Qed.

Print Assumptions control_restored.
Print Assumptions control_state_unchanged.
Print Assumptions failed_input_leaves_no_control_trace.
Print Assumptions every_interleaving_leaves_no_control_trace.
Print Assumptions every_interleaving_same_final_control_state.
