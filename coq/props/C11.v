(* C11 - maps behave as finite maps in key order, whatever their history.
   Only the property theorems (each closed by [exact] of a lemma of proofs/Maps_proofs.v, instantiated with the
   key order [cmp_c] = the model of object.Cmp, a total preorder by C12), examples and [Print Assumptions].

   model/Maps.v:  gmap = Small l | Big l  (SmallMap / *BigMap), mnew = NewMapSize, mget mset mdelete mappend
   mfirst mrest mrange mlen mliteral; [step] applies one operation of a program, [run] a whole history and
   returns, after every operation, what the program sees: the operation's result and the content of the map
   in iteration order ([elems]) - printed form, iteration, equality with another map are functions of it.
   Reference: a strictly sorted association list with s_get / s_set / s_del (one entry per key class),
   [s_step] / [s_run] the same history on the reference. *)
From Coq Require Import List ZArith NArith Bool Sorted Permutation.
From GrolModel Require Import Values Cmp Maps.
From GrolProofs Require Import Cmp_proofs Maps_proofs Maps_more.
Import ListNotations.
Local Open Scope Z_scope.

Notation vmap := (gmap value value).
Notation vInv := (Inv value value cmp_c).
Notation vsorted := (sorted value value cmp_c).
Notation vop_ok := (op_ok value value cmp_c).
Notation vrun := (run value value cmp_c).
Notation vs_run := (s_run value value cmp_c).
Notation vstep := (step value value cmp_c).
Notation vs_get := (s_get value value cmp_c).
Notation vs_set := (s_set value value cmp_c).
Notation vs_del := (s_del value value cmp_c).
Notation vs_set_all := (s_set_all value value cmp_c).

(* Inv := keys strictly increasing in the key order /\ representation ok (a SmallMap holds at most MaxSmallMap pairs).
   It holds for NewMapSize(n) and every operation preserves it. *)
Theorem C11_invariant :
  (forall n : Z, vInv (mnew value value n) /\ elems value value (mnew value value n) = [])
  /\ (forall (m : vmap) o m' b, vInv m -> vop_ok o -> vstep m o = Val (m', b) -> vInv m').
Proof. exact (conj (Inv_new value value cmp_c) (step_Inv value value cmp_c cmp_c_is_weak_order)). Qed.

(* every operation refines the reference operation: same result, content = reference content *)
Theorem C11_operations_refine : forall m : vmap, vInv m ->
  (forall k, mget value value cmp_c m k = Val (vs_get (elems value value m) k))
  /\ (forall k v, exists m', mset value value cmp_c m k v = Val m'
                             /\ elems value value m' = vs_set (elems value value m) k v /\ vInv m')
  /\ (forall k, exists m', mdelete value value cmp_c m k = Val (m', s_mem value value cmp_c (elems value value m) k)
                           /\ elems value value m' = vs_del (elems value value m) k /\ vInv m')
  /\ (forall r, vInv r -> exists m', mappend value value cmp_c m r = Val m'
                                     /\ elems value value m' = vs_set_all (elems value value m) (elems value value r) /\ vInv m')
  /\ (mfirst value value m = hd_error (elems value value m) /\ mlen value value m = length (elems value value m))
  /\ (match s_rest value value (elems value value m) with
      | Some t => exists m', mrest value value m = Some m' /\ elems value value m' = t /\ vInv m'
      | None => mrest value value m = None
      end)
  /\ (forall lo hi, match s_range value value (elems value value m) lo hi with
                    | Some s => exists m', mrange value value m lo hi = Val m' /\ elems value value m' = s /\ vInv m'
                    | None => mrange value value m lo hi = GoPanic
                    end)
  /\ (forall ps, exists m', mliteral value value cmp_c ps = Val m' /\ elems value value m' = vs_set_all [] ps /\ vInv m').
Proof.
  exact (fun m HI =>
    conj (fun k => mget_refines value value cmp_c cmp_c_is_weak_order m k HI)
   (conj (fun k v => mset_refines value value cmp_c cmp_c_is_weak_order m k v HI)
   (conj (fun k => mdelete_refines value value cmp_c cmp_c_is_weak_order m k HI)
   (conj (fun r HR => mappend_refines value value cmp_c cmp_c_is_weak_order m r HI HR)
   (conj (conj eq_refl eq_refl)
   (conj (mrest_refines value value cmp_c m HI)
   (conj (fun lo hi => mrange_refines value value cmp_c m lo hi HI)
         (fun ps => mliteral_refines value value cmp_c cmp_c_is_weak_order ps)))))))).
Qed.

(* lifted over arbitrary operation sequences: every observation of every history equals that of the reference
   map, for every size hint given to NewMapSize (small or large start), and the run fails exactly where the
   reference says the operation is undefined (a range outside 0 <= lo <= hi <= len) *)
Theorem maps_are_finite_maps : forall (n : Z) ops, Forall vop_ok ops ->
  vrun (mnew value value n) ops = match vs_run [] ops with Some x => Val x | None => GoPanic end.
Proof. exact (maps_are_finite_maps value value cmp_c cmp_c_is_weak_order). Qed.

(* the result never depends on whether the map is, was or becomes small or large: two maps with the same
   content are indistinguishable by any continuation *)
Theorem C11_history_independent : forall (m1 m2 : vmap) ops,
  vInv m1 -> vInv m2 -> elems value value m1 = elems value value m2 -> Forall vop_ok ops ->
  vrun m1 ops = vrun m2 ops.
Proof. exact (history_independent value value cmp_c cmp_c_is_weak_order). Qed.

(* nor on insertion order: building from pairs with pairwise inequivalent keys in any order gives the same map *)
Theorem C11_insertion_order_irrelevant : forall ps ps' l,
  Permutation ps ps' -> keys_distinct value value cmp_c ps -> vs_set_all l ps = vs_set_all l ps'.
Proof. exact (insertion_order_irrelevant value value cmp_c cmp_c_is_weak_order). Qed.

(* BigMap's binary search and SmallMap's linear search are the same function on sorted pairs *)
Theorem binary_search_is_linear : forall l key, vsorted l ->
  big_get value value cmp_c l key = Val (small_get value value cmp_c l key 0).
Proof. exact (binary_search_is_linear value value cmp_c cmp_c_is_weak_order). Qed.

(* the reference is a finite map over key classes: lookup after set / delete, equivalent keys are one key,
   and the reference operations keep the list strictly sorted (hence one entry per key class) *)
Theorem C11_reference_is_finite_map :
  (forall k, vs_get [] k = None)
  /\ (forall l k v k', vsorted l -> vs_get (vs_set l k v) k' = if keq value cmp_c k k' then Some v else vs_get l k')
  /\ (forall l k k', vsorted l -> vs_get (vs_del l k) k' = if keq value cmp_c k k' then None else vs_get l k')
  /\ (forall l k k', cmp_c k k' = Eq -> vs_get l k = vs_get l k')
  /\ (forall l k v, vsorted l -> vsorted (vs_set l k v))
  /\ (forall l k, vsorted l -> vsorted (vs_del l k)).
Proof.
  exact (conj (s_get_nil value value cmp_c)
        (conj (s_get_set value value cmp_c cmp_c_is_weak_order)
        (conj (s_get_del value value cmp_c cmp_c_is_weak_order)
        (conj (s_get_equiv value value cmp_c cmp_c_is_weak_order)
        (conj (sorted_s_set value value cmp_c cmp_c_is_weak_order)
              (sorted_s_del value value cmp_c)))))).
Qed.

(* non-vacuity / sanity: {1:1, 1.0:2} is {1:2}; promotion at the fifth key; demotion on rest; a big map that
   shrank stays big yet equals the small one in content; merge with the empty map (the historical witness) *)
Example C11_ex_behaviour :
  let i n := VInt n in
  let f1 := VFloat (FFin false 1 0) in
  let lit ps := mliteral value value cmp_c ps in
  lit [(i 1, i 1); (f1, i 2)] = Val (Small [(i 1, i 2)])
  /\ lit [(i 5, i 5); (i 3, i 3); (i 4, i 4); (i 1, i 1); (i 2, i 2)]
     = Val (Big [(i 1, i 1); (i 2, i 2); (i 3, i 3); (i 4, i 4); (i 5, i 5)])
  /\ mrest value value (Big [(i 1, i 1); (i 2, i 2); (i 3, i 3); (i 4, i 4); (i 5, i 5)])
     = Some (Small [(i 2, i 2); (i 3, i 3); (i 4, i 4); (i 5, i 5)])
  /\ mdelete value value cmp_c (Big [(i 1, i 1); (i 2, i 2); (i 3, i 3); (i 4, i 4); (i 5, i 5)]) (i 3)
     = Val (Big [(i 1, i 1); (i 2, i 2); (i 4, i 4); (i 5, i 5)], true)
  /\ mappend value value cmp_c (Small [(VStr [97%N], i 1); (VStr [98%N], i 2)]) (Small [])
     = Val (Small [(VStr [97%N], i 1); (VStr [98%N], i 2)])
  /\ vrun (mnew value value 9) [OSet _ _ (i 2) (i 2); OSet _ _ (i 1) (i 1); OGet _ _ f1; ORange _ _ 0%nat 1%nat; ORange _ _ 1%nat 3%nat]
     = GoPanic.
Proof. vm_compute. repeat split. Qed.

(* maps are values: with any number of bindings alive, an operation (literal, copy + index assignment, copy + del,
   +, rest, range) only adds a binding; after every operation the content of EVERY binding - the operands, the
   parent of a range / rest view, earlier results - is that of the reference store, where nothing ever changes *)
Theorem C11_bindings_are_values : forall ops,
  brun value value cmp_c [] ops
  = match s_brun value value cmp_c [] ops with Some x => Val x | None => GoPanic end.
Proof. exact (fun ops => brun_refines value value cmp_c cmp_c_is_weak_order ops [] (Forall_nil _)). Qed.

Theorem C11_reference_bindings_persist : forall st o st',
  s_bstep value value cmp_c st o = Some st' -> exists l, st' = st ++ [l].
Proof. exact (s_bstep_extends value value cmp_c). Qed.

Example C11_ex_bindings :
  let i n := VInt n in
  let l7 := [(i 1, i 1); (i 2, i 2); (i 3, i 3); (i 4, i 4); (i 5, i 5); (i 6, i 6); (i 7, i 7)] in
  brun value value cmp_c [] [BLit _ _ l7; BRange _ _ 0%nat 0%nat 5%nat; BLit _ _ [(i 9, i 9)]; BAppend _ _ 1%nat 2%nat]
  = Val [[l7]; [l7; firstn 5 l7]; [l7; firstn 5 l7; [(i 9, i 9)]];
         [l7; firstn 5 l7; [(i 9, i 9)]; firstn 5 l7 ++ [(i 9, i 9)]]].
Proof. vm_compute. reflexivity. Qed.

(* printed form: SmallMap.Inspect and BigMap.Inspect are one function of the content (for any printers of keys and
   values), so the printed form of a map equals that of the reference map with the same content, whatever its history *)
Theorem C11_printed_form_is_content : forall (pk pv : value -> list N) (m : vmap),
  minspect value value pk pv m = [123%N] ++ join_pairs value value pk pv (elems value value m) true ++ [125%N].
Proof. exact (minspect_content value value). Qed.

(* lookup after any sequence of writes (a literal with any repeats, Append's loop onto any map): the LAST written pair
   whose key is order-equivalent to k decides, otherwise what the map held before; two literals whose last writes agree
   key by key are indistinguishable by lookup *)
Theorem C11_lookup_last_write_wins :
  (forall ps (m : vmap), vInv m ->
     exists m', set_all value value cmp_c (Val m) ps = Val m' /\ vInv m' /\
       forall k, mget value value cmp_c m' k =
                 Val (match last_write value value cmp_c ps k with
                      | Some v => Some v
                      | None => vs_get (elems value value m) k
                      end))
  /\ (forall ps, exists m', mliteral value value cmp_c ps = Val m' /\ vInv m' /\
         forall k, mget value value cmp_c m' k = Val (last_write value value cmp_c ps k))
  /\ (forall ps ps', (forall k, last_write value value cmp_c ps k = last_write value value cmp_c ps' k) ->
         exists m m', mliteral value value cmp_c ps = Val m /\ mliteral value value cmp_c ps' = Val m' /\
                      forall k, mget value value cmp_c m k = mget value value cmp_c m' k).
Proof.
  exact (conj (set_all_lookup value value cmp_c cmp_c_is_weak_order)
        (conj (mliteral_lookup value value cmp_c cmp_c_is_weak_order)
              (mliteral_same_writes value value cmp_c cmp_c_is_weak_order))).
Qed.

(* insertion order, on the implementation: the same pairs (pairwise inequivalent keys) written in any other order give
   the same content pair for pair AND the same representation (small / large) *)
Theorem C11_literal_order_irrelevant : forall ps ps',
  Permutation ps ps' -> keys_distinct value value cmp_c ps ->
  exists m m', mliteral value value cmp_c ps = Val m /\ mliteral value value cmp_c ps' = Val m' /\
               elems value value m = elems value value m' /\ is_big value value m = is_big value value m'.
Proof. exact (mliteral_permutation value value cmp_c cmp_c_is_weak_order). Qed.

Example C11_ex_last_write :
  let i n := VInt n in
  let f1 := VFloat (FFin false 1 0) in
  let ps := [(i 1, i 10); (i 2, i 20); (f1, i 30); (i 3, i 40); (i 2, i 50); (i 4, i 60)] in
  last_write value value cmp_c ps (i 1) = Some (i 30) /\ last_write value value cmp_c ps f1 = Some (i 30)
  /\ last_write value value cmp_c ps (i 2) = Some (i 50) /\ last_write value value cmp_c ps (i 9) = None
  /\ mliteral value value cmp_c ps = Val (Big [(i 1, i 30); (i 2, i 50); (i 3, i 40); (i 4, i 60)])
  /\ minspect value value (fun _ => [107%N]) (fun _ => [118%N]) (Small [(i 1, i 1); (i 2, i 2)])
     = [123; 107; 58; 118; 44; 107; 58; 118; 125]%N
  /\ minspect value value (fun _ => [107%N]) (fun _ => [118%N]) (Big []) = [123; 125]%N.
Proof. vm_compute. repeat split. Qed.

Print Assumptions C11_invariant.
Print Assumptions C11_operations_refine.
Print Assumptions maps_are_finite_maps.
Print Assumptions C11_history_independent.
Print Assumptions C11_insertion_order_irrelevant.
Print Assumptions binary_search_is_linear.
Print Assumptions C11_reference_is_finite_map.
Print Assumptions C11_bindings_are_values.
Print Assumptions C11_reference_bindings_persist.
Print Assumptions C11_printed_form_is_content.
Print Assumptions C11_lookup_last_write_wins.
Print Assumptions C11_literal_order_irrelevant.
