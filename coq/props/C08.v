(* C08 - the front end is total on arbitrary bytes.
   Only property theorems (closed by [exact]), non-vacuity examples and Print Assumptions. *)
From Coq Require Import List ZArith NArith Bool.
From GrolGen Require Import Gen_Consts.
From GrolModel Require Import Ast Lexer Parser Printer AstWf Frontend.
From GrolProofs Require Import Front_tables Printer_proofs.
Import ListNotations.

(* every parse function registered in parser.New is one the parser model implements (so the model
   covers the whole dispatch table of the current source; regenerated on every run) *)
Theorem C08_tables_known : tables_known = true.
Proof. exact tables_known_ok. Qed.

(* every token that can label an infix / postfix / index node has a precedence entry, so
   PrintState.needParen cannot panic on a parser-built tree *)
Theorem C08_printer_tokens_have_prec : printer_tokens_have_prec = true.
Proof. exact printer_tokens_have_prec_ok. Qed.

(* a tree without missing children can be printed in every mode (normal, compact, all-parens and
   their combination) without panicking *)
Theorem C08_print_total : forall (stmts : list (option node)) (compact allparens : bool),
  program_printable stmts = true -> exists out, print_program compact allparens stmts = Some out.
Proof. exact print_total. Qed.

Print Assumptions C08_tables_known.
Print Assumptions C08_printer_tokens_have_prec.
Print Assumptions C08_print_total.
