(* C08 - the front end is total on arbitrary bytes.
   Only property theorems (closed by [exact]), non-vacuity examples and Print Assumptions. *)
From Coq Require Import List ZArith NArith Bool String.
From GrolGen Require Import Gen_Consts.
From GrolModel Require Import Ast Lexer Parser Printer AstWf Frontend.
From GrolProofs Require Import Front_tables Printer_proofs Parser_proofs Parser_nopanic Front_nopanic Parser_term.
Import ListNotations.

(* every parse function registered in parser.New is one the parser model implements (so the model
   covers the whole dispatch table of the current source; regenerated on every run) *)
Theorem C08_tables_known : tables_known = true.
Proof. exact tables_known_ok. Qed.

(* every token that can label an infix / postfix / index node has a precedence entry, so
   PrintState.needParen cannot panic on a parser-built tree *)
Theorem C08_printer_tokens_have_prec : printer_tokens_have_prec = true.
Proof. exact printer_tokens_have_prec_ok. Qed.

(* a tree without missing children can be printed in every mode (normal, compact, all-parens and
   their combination) without panicking *)
Theorem C08_print_total : forall (stmts : list (option node)) (compact allparens : bool),
  program_printable stmts = true -> exists out, print_program compact allparens stmts = Some out.
Proof. exact print_total. Qed.

(* lexing + parsing never panic: for every byte string, both lexer modes, every number oracle (the
   parser's own assertion in parseComment and its dispatch tables included) *)
Theorem C08_front_end_never_panics : forall (conv : numconv) (lineMode : bool) (src : bytes) w,
  front_parse conv lineMode src <> PPanic w.
Proof. exact front_never_panics. Qed.

(* lexing + parsing terminate: the fuel the model is started with (4 per token + 64) is never exhausted, for
   every byte string, both lexer modes, every number oracle.  Measure: the number of tokens not yet consumed
   that are not end markers; every loop iteration consumes one or is the last, and between two consumed tokens
   the call depth grows by at most 4 (proofs/Parser_term.v: constants 8..12 per function, one induction on the
   fuel over the 13 mutually recursive functions) *)
Theorem C08_front_end_terminates : forall (conv : numconv) (lineMode : bool) (src : bytes),
  front_parse conv lineMode src <> POutOfFuel.
Proof. exact front_parse_terminates. Qed.

(* hence the front end is a total function: it always returns errors, a continuation request or a tree *)
Theorem C08_front_end_total : forall (conv : numconv) (lineMode : bool) (src : bytes),
  exists r, front_parse conv lineMode src = POk r.
Proof.
  intros conv lm src. destruct (front_parse conv lm src) as [r|w|] eqn:E.
  - now exists r.
  - exfalso. exact (front_never_panics conv lm src w E).
  - exfalso. exact (front_parse_terminates conv lm src E).
Qed.

(* the parser alone, on any token list whose end-marker-typed tokens form a suffix *)
Theorem C08_parser_terminates : forall conv end_type toks,
  end_type = token_EOF \/ end_type = token_EOL ->
  closed (mkPtok (mkTok end_type []) false false) toks ->
  parse_program conv (default_fuel toks) end_type toks <> POutOfFuel.
Proof. exact parse_program_terminates. Qed.

(* the parser alone, on any token stream in which a line comment is followed by a new line or the end *)
Theorem C08_parser_never_panics : forall conv fuel end_type toks,
  comment_shaped end_type toks = true -> forall w, parse_program conv fuel end_type toks <> PPanic w.
Proof. exact parse_never_panics. Qed.

(* a parse that reports no error and asks for no continuation returns a tree without missing children:
   for every byte string, both lexer modes, every number-conversion oracle (and every fuel) *)
Theorem C08_clean_tree_has_no_missing_children : forall (conv : numconv) (lineMode : bool) (src : bytes) r,
  front_parse conv lineMode src = POk r -> clean r = true -> program_nil_free (pr_tree r) = true.
Proof.
  intros conv lineMode src r. unfold front_parse.
  destruct (parse_program conv _ _ _) as [r0| |] eqn:E; try discriminate. intros [= <-] Hc.
  apply (clean_tree_nil_free conv _ _ _ r0 E). unfold clean in Hc. unfold clean_result. simpl in Hc.
  destruct (pr_errs r0); [|discriminate]. apply negb_true_iff in Hc. apply orb_false_iff in Hc as [-> _]. reflexivity.
Qed.

(* ... and that tree can be printed in every mode without panicking *)
Theorem C08_clean_tree_prints : forall (conv : numconv) (lineMode : bool) (src : bytes) r (compact allparens : bool),
  front_parse conv lineMode src = POk r -> clean r = true ->
  exists out, print_program compact allparens (pr_tree r) = Some out.
Proof.
  intros conv lineMode src r compact allparens. unfold front_parse.
  destruct (parse_program conv _ _ _) as [r0| |] eqn:E; try discriminate. intros [= <-] Hc.
  apply print_total. apply (clean_tree_printable conv _ _ _ r0 E). unfold clean in Hc. unfold clean_result. simpl in Hc.
  destruct (pr_errs r0); [|discriminate]. apply negb_true_iff in Hc. apply orb_false_iff in Hc as [-> _]. reflexivity.
Qed.

(* non-vacuity: a source that parses cleanly in both modes *)
Example C08_clean_example :
  match front_parse (mkConv (fun _ => None) (fun _ => None)) false (bytes_of_string "f = (a, b) => { a[b:] }; f(c, d)"%string) with
  | POk r => clean r && program_nil_free (pr_tree r) | _ => false end = true.
Proof. vm_compute. reflexivity. Qed.

Print Assumptions C08_tables_known.
Print Assumptions C08_front_end_never_panics.
Print Assumptions C08_clean_tree_has_no_missing_children.
Print Assumptions C08_clean_tree_prints.
Print Assumptions C08_printer_tokens_have_prec.
Print Assumptions C08_print_total.
Print Assumptions C08_parser_never_panics.
Print Assumptions C08_front_end_terminates.
Print Assumptions C08_front_end_total.
Print Assumptions C08_parser_terminates.
