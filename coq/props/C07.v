(* C07 - no program can crash the evaluator.
   Only the property theorems (each closed by [exact] of a lemma of proofs/Arith_proofs.v or
   proofs/PanicSites_proofs.v), the refutation witnesses for the pinned code, non-vacuity examples and
   [Print Assumptions].

   What is proved: for the operations modelled in model/Arith.v (the repaired integer operators, range
   construction, range index / index / index assignment bound normalisation, repeat and concat sizing with
   the memory guard, the applyExtension validation loop) no Go run-time panic is possible for ANY operands:
   the outcome is a value, a language error or the memory guard.  Every other panic-capable site of
   eval/ object/ ast/ parser/ lexer/ repl/ is inventoried from the source on every run and must be covered
   by the audited classification (C07_panic_sites_accounted); whether those sites can be reached is decided
   by the harness sweep, not by a theorem.  [free] is the budget FreeMemory() reports; the hypothesis
   [free <= max_alloc] says that a memory limit below 2^48 bytes is configured (with no limit Go's makeslice
   can itself panic on a size that passes the guard). *)
From Coq Require Import List ZArith Bool.
From GrolGen Require Import Gen_Consts.
From GrolModel Require Import Arith PanicSites.
From GrolProofs Require Import Arith_proofs Arith_bits_proofs PanicSites_proofs.
Import ListNotations.
Local Open Scope Z_scope.

(* every integer operator, on every pair of operands, ends in a value, a language error or the memory guard *)
Theorem C07_int_ops_never_panic : forall free op a b,
  free <= max_alloc -> is_go_panic (int_infix free op a b) = false.
Proof. exact int_infix_no_panic. Qed.

(* x[l:r]: the bounds handed to Go's slice expression satisfy 0 <= lo <= hi <= len, or the result is an error *)
Theorem C07_slice_bounds_safe : forall k len l r,
  0 <= len ->
  match index_range k len l r with
  | Val (SRange lo hi) => 0 <= lo <= hi /\ hi <= len
  | Val SNull => k = CNil
  | LangError => True
  | GoPanic _ => False
  | Guard _ => False
  end.
Proof. exact index_range_safe. Qed.

(* x[i] and x[i] = v *)
Theorem C07_index_safe : forall k len i,
  0 <= len ->
  match index_expr k len i with
  | Val (XElem j) => 0 <= j < len
  | Val _ => True
  | LangError => True
  | GoPanic _ => False
  | Guard _ => False
  end.
Proof. exact index_expr_safe. Qed.

Theorem C07_index_assign_safe : forall len i,
  0 <= len ->
  match index_assign len i with
  | Val j => 0 <= j < len
  | LangError => True
  | GoPanic _ => False
  | Guard _ => False
  end.
Proof. exact index_assign_safe. Qed.

(* validation passed -> arity within [MinArgs, MaxArgs] and every argument that has a declared type has that
   type (ANY excepted), integer-to-float promotion and dereferencing included *)
Theorem C07_apply_extension_validates : forall mina maxa types args r,
  apply_ext_validate mina maxa types args = Val r ->
  mina <= Z.of_nat (length r)
  /\ (maxa = -1 \/ Z.of_nat (length r) <= maxa)
  /\ forall i t a, nth_error types i = Some t -> nth_error r i = Some a ->
       t = object_ANY \/ ea_ty a = t.
Proof. exact apply_ext_validate_sound. Qed.

(* the repaired memory guard is sound over the mathematical integers *)
Theorem C07_size_guard_sound : forall free n,
  size_ok free n = true -> n <= small_size \/ n * object_ObjectSize < free.
Proof. exact size_ok_sound. Qed.

Theorem C07_repeat_never_panics : forall free len r,
  0 <= len -> free <= max_alloc ->
  is_go_panic (array_repeat free len r) = false /\ is_go_panic (string_repeat free len r) = false.
Proof. exact repeat_no_panic. Qed.

(* the integer operators are closed over int64: on int64 operands EVERY operator (the bitwise ones included, which Go does
   not wrap) yields an int64, and a range has int64 bounds in order - the model's values are values Go's int64 can hold *)
Theorem C07_int_ops_closed : forall free op a b,
  in_int64 a -> in_int64 b ->
  match int_infix free op a b with
  | Val (RInt z) => in_int64 z
  | Val (RRange lo hi) => in_int64 lo /\ in_int64 hi /\ lo <= hi
  | _ => True
  end.
Proof. exact int_infix_closed. Qed.

(* two's complement range as a statement about bits (what makes & | ^ closed): z is an int64 iff every bit from 63 on
   repeats bit 63 *)
Theorem C07_int64_is_sign_extension : forall z,
  in_int64 z <-> forall i, 63 <= i -> Z.testbit z i = Z.testbit z 63.
Proof. exact in_int64_bits. Qed.

(* every panic-capable site the translator finds in /repo is covered by the audited classification *)
Theorem C07_panic_sites_accounted : panic_sites_accounted = true.
Proof. exact panic_sites_accounted_true. Qed.

(* ---- the same statements are false of the code as pinned: witnesses replayed by the harness corpus ---- *)
Theorem C07_refuted_pinned_div : exists a b, int_infix_pinned 0 IDiv a b = GoPanic PDivZero.
Proof. exact refuted_pinned_div. Qed.
Theorem C07_refuted_pinned_mod : exists a b, int_infix_pinned 0 IMod a b = GoPanic PDivZero.
Proof. exact refuted_pinned_mod. Qed.
Theorem C07_refuted_pinned_shift : exists a b,
  int_infix_pinned 0 IShl a b = GoPanic PNegShift /\ int_infix_pinned 0 IShr a b = GoPanic PNegShift.
Proof. exact refuted_pinned_shift. Qed.
Theorem C07_refuted_pinned_slice : exists k len l r,
  0 <= len /\ index_range_pinned k len l r = GoPanic PSliceBounds.
Proof. exact refuted_pinned_slice. Qed.
Theorem C07_refuted_pinned_repeat : exists free len r,
  0 <= len /\ free <= max_alloc
  /\ array_repeat_pinned free len r = GoPanic PMakeSlice.
Proof. exact refuted_pinned_repeat. Qed.
Theorem C07_refuted_pinned_string_repeat : exists free len r,
  0 <= len /\ free <= max_alloc /\ string_repeat_pinned free len r = GoPanic PRepeatOverflow.
Proof. exact refuted_pinned_string_repeat. Qed.
Theorem C07_refuted_pinned_range : exists free a b,
  free <= max_alloc /\ int_infix_pinned free IRange a b = GoPanic PMakeSlice.
Proof. exact refuted_pinned_range. Qed.
Theorem C07_refuted_pinned_size_guard : exists free n,
  in_int64 n /\ 0 <= free /\ size_ok_pinned free n = true
  /\ ~ (n <= small_size \/ n * object_ObjectSize < free).
Proof. exact size_ok_pinned_unsound. Qed.

(* non-vacuity: the hypotheses are satisfiable and the repaired functions return what the fixed code returns *)
Example C07_ex_repaired :
  int_infix 0 IDiv 1 0 = LangError /\ int_infix 0 IDiv 7 2 = Val (RInt 3)
  /\ int_infix 0 IDiv (-9223372036854775808) (-1) = Val (RInt (-9223372036854775808))
  /\ int_infix 0 IShl 1 64 = Val (RInt 0) /\ int_infix 0 IShr (-8) 1 = Val (RInt 9223372036854775804)
  /\ int_infix 536870912 IRange 2 5 = Val (RRange 2 5)
  /\ index_range CString 3 (XInt (-5)) (RBound (XInt 2)) = Val (SRange 0 2)
  /\ index_expr CArray 3 (XInt (-1)) = Val (XElem 2)
  /\ array_repeat 536870912 2 4611686018427387904 = Guard GMemory
  /\ apply_ext_validate 1 1 [object_FLOAT] [mk_earg object_REFERENCE object_INTEGER []]
     = Val [mk_earg object_FLOAT object_FLOAT []].
Proof. vm_compute. repeat split. Qed.

Example C07_ex_closed :
  in_int64 (-9223372036854775808) /\ in_int64 9223372036854775807
  /\ int_infix 0 IXor (-9223372036854775808) 9223372036854775807 = Val (RInt (-1))
  /\ int_infix 0 IAnd (-1) 9223372036854775807 = Val (RInt 9223372036854775807)
  /\ int_infix 0 IOr (-9223372036854775808) 1 = Val (RInt (-9223372036854775807))
  /\ ~ in_int64 9223372036854775808.
Proof. unfold in_int64, min_int, max_int, two63. vm_compute. repeat split; try discriminate; intros [_ H]; apply H; reflexivity. Qed.

Print Assumptions C07_int_ops_closed.
Print Assumptions C07_int64_is_sign_extension.
Print Assumptions C07_int_ops_never_panic.
Print Assumptions C07_slice_bounds_safe.
Print Assumptions C07_index_safe.
Print Assumptions C07_index_assign_safe.
Print Assumptions C07_apply_extension_validates.
Print Assumptions C07_size_guard_sound.
Print Assumptions C07_repeat_never_panics.
Print Assumptions C07_panic_sites_accounted.
Print Assumptions C07_refuted_pinned_size_guard.
Print Assumptions C07_refuted_pinned_div.
Print Assumptions C07_refuted_pinned_mod.
Print Assumptions C07_refuted_pinned_shift.
Print Assumptions C07_refuted_pinned_slice.
Print Assumptions C07_refuted_pinned_repeat.
Print Assumptions C07_refuted_pinned_string_repeat.
Print Assumptions C07_refuted_pinned_range.
