(* C15 - line-at-a-time input is equivalent to whole-file input.
   Only property statements, examples and Print Assumptions. *)
From Coq Require Import List ZArith NArith Bool String.
From GrolGen Require Import Gen_Consts.
From GrolModel Require Import Ast Lexer Parser Printer AstWf Frontend.
From GrolProofs Require Import Parser_proofs Parser_term Linemode_sim Linemode_lex Parser_noeol Linemode_exact.
Import ListNotations.

Definition no_numbers : numconv := mkConv (fun _ => None) (fun _ => None).
Definition src (s : string) : bytes := bytes_of_string s.

(* (1) For a complete program line mode yields the same tree as file mode.  PROVED on the model of the
   whole front end (lexer, parser) for every source text and number oracle: whenever the line-mode parse is
   clean (no error, no continuation) and line mode leaves no string open, the file-mode parse is clean
   with the SAME tree.  Three parts: the two lexer modes produce the same tokens up to the end marker
   (Linemode_lex), the parser runs in lockstep on both streams up to the renaming of the end marker
   (Linemode_sim), and a clean tree contains no end-marker token, so the renaming is the identity on it
   (Parser_noeol).  The hypothesis on open strings is what "complete" means for the lexer; the converse
   direction is false by design (file mode accepts an unterminated block at end of input, line mode asks
   for more). *)
Theorem C15_linemode_same_tree : forall conv s r,
  unterminated true s = false ->
  front_parse conv true s = POk r -> clean r = true ->
  front_parse conv false s = POk (mkPres (pr_tree r) [] false (pr_all_lexed r)).
Proof. exact linemode_same_tree_exact. Qed.

Definition continues (s : string) : bool :=
  match front_parse no_numbers true (src s) with
  | POk r => pr_cont r && match pr_errs r with [] => true | _ => false end
  | _ => false
  end.

(* (2) open prefixes ask for more input without error: computed on representative prefixes of every
   open construct (parenthesis, bracket, brace, string, block comment, after a binary operator, and the
   repaired `()` case); the harness checks every cut of every generated program on the implementation
   and compares each with this model. *)
Example C15_open_prefixes_continue :
  forallb continues
    ["x = (a +"; "f(a,"; "[a, b"; "m = {a:"; "if a {"; "if a { b } else {"; "func f(a,"; "func f(a) {"; "for i = a:b {";
     "a +"; "a &&"; "x ="; "s = ""abc"; "/* open"; "for a {()"; "a => {"; "(a, b) => {"; "print("; "x[a:"]%string = true.
Proof. vm_compute. reflexivity. Qed.

Definition same_tree_both_modes (s : string) : bool :=
  match front_parse no_numbers true (src s), front_parse no_numbers false (src s) with
  | POk r, POk r' => clean r && clean r' && node_eqb (NStmts (pr_tree r)) (NStmts (pr_tree r'))
  | _, _ => false
  end.

Example C15_complete_programs_same_tree :
  forallb same_tree_both_modes
    ["x = (a +
b)"; "func f(a,
b) {a}"; "if a {
b
} else {
c
}"; "a // t
b"; "m = {a:
b}"; "f = (a,b) => a+b; f(c)"]%string = true.
Proof. vm_compute. reflexivity. Qed.

(* (1), proved at the level of the parser for every token list whose end markers form a suffix (every
   lexer output) and every fuel: a line-mode parse that reports no error and asks for no continuation is
   reproduced by the file-mode parse of the same tokens with the end-of-line marker renamed to the
   end-of-file marker - same tree, no error, no continuation. *)
Theorem C15_linemode_parse_is_filemode_parse : forall conv fuel toks r,
  closed (mkPtok (mkTok token_EOL []) false false) toks ->
  parse_program conv fuel token_EOL toks = POk r -> clean_result r = true ->
  parse_program conv fuel token_EOF (map fp toks) = POk (mkPres (pr_tree r) [] false (pr_all_lexed r)).
Proof. exact linemode_parse_exact. Qed.

(* the ingredient: a clean parse (either mode) stores no end-marker token in the tree *)
Theorem C15_clean_tree_has_no_end_marker : forall conv fuel end_type toks r,
  end_type = token_EOF \/ end_type = token_EOL ->
  closed (mkPtok (mkTok end_type []) false false) toks ->
  parse_program conv fuel end_type toks = POk r -> clean_result r = true ->
  map (option_map fnode) (pr_tree r) = pr_tree r.
Proof. exact clean_tree_fixed_by_renaming. Qed.

(* non-vacuity: a multi-line complete program parses cleanly in line mode *)
Example C15_clean_linemode_example :
  match front_parse no_numbers true (src "x = (a +
b); f = (a,b) => a+b") with POk r => clean r | _ => false end = true.
Proof. vm_compute. reflexivity. Qed.

Print Assumptions C15_linemode_same_tree.
Print Assumptions C15_linemode_parse_is_filemode_parse.
Print Assumptions C15_clean_tree_has_no_end_marker.
Print Assumptions C15_open_prefixes_continue.
