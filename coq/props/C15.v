(* C15 - line-at-a-time input is equivalent to whole-file input.
   Only property statements, examples and Print Assumptions. *)
From Coq Require Import List ZArith NArith Bool String.
From GrolModel Require Import Ast Lexer Parser Printer AstWf Frontend.
Import ListNotations.

Definition no_numbers : numconv := mkConv (fun _ => None) (fun _ => None).
Definition src (s : string) : bytes := bytes_of_string s.

(* (1) For a complete program line mode yields the same tree as file mode.  Stated on the model as:
   whenever the line-mode parse is clean, the file-mode parse is clean with the same tree. *)
Definition C15_linemode_same_tree : Prop :=
  forall conv s r, front_parse conv true s = POk r -> clean r = true ->
    exists r', front_parse conv false s = POk r' /\ clean r' = true /\
               node_eqb (NStmts (pr_tree r)) (NStmts (pr_tree r')) = true.

Definition continues (s : string) : bool :=
  match front_parse no_numbers true (src s) with
  | POk r => pr_cont r && match pr_errs r with [] => true | _ => false end
  | _ => false
  end.

(* (2) open prefixes ask for more input without error: computed on representative prefixes of every
   open construct (parenthesis, bracket, brace, string, block comment, after a binary operator, and the
   repaired `()` case); the harness checks every cut of every generated program on the implementation
   and compares each with this model. *)
Example C15_open_prefixes_continue :
  forallb continues
    ["x = (a +"; "f(a,"; "[a, b"; "m = {a:"; "if a {"; "if a { b } else {"; "func f(a,"; "func f(a) {"; "for i = a:b {";
     "a +"; "a &&"; "x ="; "s = ""abc"; "/* open"; "for a {()"; "a => {"; "(a, b) => {"; "print("; "x[a:"]%string = true.
Proof. vm_compute. reflexivity. Qed.

Definition same_tree_both_modes (s : string) : bool :=
  match front_parse no_numbers true (src s), front_parse no_numbers false (src s) with
  | POk r, POk r' => clean r && clean r' && node_eqb (NStmts (pr_tree r)) (NStmts (pr_tree r'))
  | _, _ => false
  end.

Example C15_complete_programs_same_tree :
  forallb same_tree_both_modes
    ["x = (a +
b)"; "func f(a,
b) {a}"; "if a {
b
} else {
c
}"; "a // t
b"; "m = {a:
b}"; "f = (a,b) => a+b; f(c)"]%string = true.
Proof. vm_compute. reflexivity. Qed.

Print Assumptions C15_open_prefixes_continue.
