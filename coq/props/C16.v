(* C16 - the lexer is lossless: tokens tile the input.
   Only the property theorems (each closed by [exact] of a lemma of proofs/Lexer_proofs.v), non-vacuity
   examples and [Print Assumptions].  Everything is about coq/model/Lexer.v, the model of lexer.go after the
   C16 repairs; s ranges over ALL byte strings (lists of N, no length bound) and lineMode over both modes.

   Vocabulary (proofs/Lexer_proofs.v):
     span s t        = the bytes s[lt_start t : lt_end t]
     ws_only s a b   = every position in [a,b) holds a byte with isWhiteSpace (the Go predicate, generated)
     chain s p toks  = each token starts at or after the end of the previous one (p for the first), the bytes in
                       between are whitespace, no span is empty
     str_body dq q raw lit = raw contains no unescaped delimiter q and decodes (escapes iff dq) to lit
     unterminated q r = r cannot be split into a string body, the delimiter q and a rest
     has_close l     = "*/" occurs in l
     text_type ty    = ty is not STRING, LINECOMMENT, BLOCKCOMMENT, ILLEGAL, EOL, EOF
                       (identifiers, keywords, numbers, operators)                                   *)
From Coq Require Import List ZArith NArith Bool.
From GrolGen Require Import Gen_Consts Gen_Token Gen_ByteClass.
From GrolModel Require Import Lexer.
From GrolProofs Require Import Lexer_proofs.
Import ListNotations.
Local Open Scope N_scope.

(* tokens tile the input *)
Theorem C16_tiling : forall (lineMode : bool) (s : list N),
  exists body e,
    lex_all lineMode s = body ++ [e] /\
    (* tokens before the end marker are ordinary tokens lying inside the input *)
    Forall (fun t => is_end t = false /\ (0 <= lt_type t)%Z /\ (lt_end t <= length s)%nat) body /\
    is_end e = true /\ lt_type e = end_type lineMode /\ lt_lit e = [] /\
    (* delivered in input order from position 0; gaps contain only whitespace; spans are not empty *)
    chain s 0 (lex_all lineMode s) /\
    (* spans are pairwise disjoint: a byte belongs to at most one token *)
    (forall i j ti tj, (i < j)%nat -> nth_error (lex_all lineMode s) i = Some ti ->
                       nth_error (lex_all lineMode s) j = Some tj -> (lt_end ti <= lt_start tj)%nat) /\
    (* every non-whitespace byte before the end marker belongs to a token *)
    (forall j c, nth_error s j = Some c -> isWhiteSpace c = false -> (j < lt_start e)%nat ->
                 exists t, In t body /\ (lt_start t <= j < lt_end t)%nat) /\
    (* the end marker stands at the end of the input; in line mode it may also stand on an unterminated
       string (continuation needed), which then runs to the end of the input *)
    ((length s <= lt_start e)%nat \/
     lineMode = true /\ exists q r1, skipn (lt_start e) s = q :: r1 /\ (q = 34 \/ q = 96) /\ unterminated q r1) /\
    (length s < lt_end e)%nat /\
    (length body <= length s)%nat.
Proof. exact lex_all_tiling. Qed.

(* the whitespace class itself is fixed: the bytes skipWhitespace may drop (the generated isWhiteSpace) are
   exactly space, tab, LF, CR among all 256 byte values - otherwise "whitespace or in a token" could be
   satisfied by letting skipWhitespace swallow more *)
Theorem C16_whitespace_is_space_tab_lf_cr : forall b : N,
  b < 256 -> isWhiteSpace b = ((b =? 32) || (b =? 9) || (b =? 10) || (b =? 13)).
Proof. exact whitespace_pinned. Qed.

(* in file mode nothing but the end of input is under the end marker: every non-whitespace byte of the
   input belongs to exactly one token *)
Theorem C16_tiling_file_mode : forall (s : list N) (j : nat) (c : N),
  nth_error s j = Some c -> isWhiteSpace c = false ->
  exists t, In t (lex_all false s) /\ is_end t = false /\ (lt_start t <= j < lt_end t)%nat.
Proof. exact lex_all_file_mode_cover. Qed.

(* identifiers, keywords, numbers and operators: the literal is the text spanned *)
Theorem C16_literal_is_span : forall (lineMode : bool) (s : list N) (t : ltok),
  In t (lex_all lineMode s) -> text_type (lt_type t) = true ->
  lt_lit t = span s t /\ (lt_start t < lt_end t <= length s)%nat.
Proof. exact lex_all_literal_is_span. Qed.

(* a string token spans its two delimiters and its content; the literal is the decoded content *)
Theorem C16_string_span : forall (lineMode : bool) (s : list N) (t : ltok),
  In t (lex_all lineMode s) -> lt_type t = token_STRING ->
  exists q raw rest,
    (q = 34 \/ q = 96) /\ skipn (lt_start t) s = q :: raw ++ q :: rest /\
    lt_end t = (lt_start t + length raw + 2)%nat /\ str_body (q =? 34) q raw (lt_lit t).
Proof. exact lex_all_string. Qed.

(* a line comment spans "//" up to (not including) the next newline or the end of input; its literal is the
   span trimmed by strings.TrimSpace, a prefix of the span *)
Theorem C16_line_comment_span : forall (lineMode : bool) (s : list N) (t : ltok),
  In t (lex_all lineMode s) -> lt_type t = token_LINECOMMENT ->
  exists body rest,
    skipn (lt_start t) s = 47 :: 47 :: body ++ rest /\ Forall (fun c => c <> 10) body /\
    (rest = [] \/ hd0 rest = 10 /\ rest <> []) /\
    lt_end t = (lt_start t + 2 + length body)%nat /\
    lt_lit t = trim_space (span s t) /\ exists tail, span s t = lt_lit t ++ tail.
Proof. exact lex_all_line_comment. Qed.

(* a block comment's literal is its span: "/*" up to and including the first "*/", or up to the end of
   the input when there is none *)
Theorem C16_block_comment_span : forall (lineMode : bool) (s : list N) (t : ltok),
  In t (lex_all lineMode s) -> lt_type t = token_BLOCKCOMMENT ->
  lt_lit t = span s t /\
  ((exists pre rest, skipn (lt_start t) s = 47 :: 42 :: pre ++ 42 :: 47 :: rest /\
                     has_close (pre ++ [42]) = false /\ lt_end t = (lt_start t + 4 + length pre)%nat) \/
   (exists body, skipn (lt_start t) s = 47 :: 42 :: body /\ has_close body = false /\ lt_end t = length s)).
Proof. exact lex_all_block_comment. Qed.

(* an ILLEGAL token is one byte (literal: that byte as a rune), or in file mode an unterminated string
   running to the end of the input (literal: its text) *)
Theorem C16_illegal_span : forall (lineMode : bool) (s : list N) (t : ltok),
  In t (lex_all lineMode s) -> lt_type t = token_ILLEGAL ->
  (exists ch, nth_error s (lt_start t) = Some ch /\ lt_end t = S (lt_start t) /\ lt_lit t = encode_rune ch) \/
  (lineMode = false /\ exists q r1, skipn (lt_start t) s = q :: r1 /\ (q = 34 \/ q = 96) /\ unterminated q r1 /\
                                    lt_end t = length s /\ lt_lit t = skipn (lt_start t) s).
Proof. exact lex_all_illegal. Qed.

(* the end marker is reached after at most |s|+1 tokens, and every later NextToken returns it again *)
Theorem C16_end_marker : forall (lineMode : bool) (s : list N),
  (length (lex_all lineMode s) <= length s + 1)%nat /\
  exists e, last (lex_all lineMode s) e = e /\ In e (lex_all lineMode s) /\
    lt_type e = end_type lineMode /\ lt_lit e = [] /\
    forall n, let p := (lt_end e + n)%nat in
              next_token lineMode s p = (mkLtok (end_type lineMode) [] p (S p) false false, S p).
Proof. exact lex_all_end_marker. Qed.

(* The real API has no fuel: NextToken is simply called again and again. [nth_call m s k] is the token returned
   by call number k (from 0) of a fresh lexer, whatever the earlier calls returned. The stream of results is exactly
   lex_all followed by the end marker for ever: "reaches the end marker after at most n+1 tokens and keeps
   returning it", stated on the unbounded call sequence. *)
Theorem C16_token_stream : forall (lineMode : bool) (s : list N),
  (forall k, (k < length (lex_all lineMode s))%nat ->
             nth_error (lex_all lineMode s) k = Some (nth_call lineMode s k)) /\
  (forall k, (length (lex_all lineMode s) - 1 <= k)%nat ->
             lt_type (nth_call lineMode s k) = end_type lineMode /\ lt_lit (nth_call lineMode s k) = []) /\
  (forall k, (length s < k)%nat -> lt_type (nth_call lineMode s k) = end_type lineMode).
Proof. exact token_stream. Qed.

(* the fuel inside lex_all is immaterial: any fuel above |s| - pos gives the same token list *)
Theorem C16_fuel_irrelevant : forall (f1 f2 : nat) (lineMode : bool) (s : list N) (pos : nat),
  (length s - pos < f1)%nat -> (length s - pos < f2)%nat ->
  lex_from f1 lineMode s pos = lex_from f2 lineMode s pos.
Proof. exact lex_from_fuel. Qed.

(* HadWhitespace / HadNewline (read by the parser after every NextToken): the first flag tells exactly whether
   the token is separated from the previous one (from position 0 for the first), the second whether a newline
   byte lies in that gap *)
Theorem C16_flags : forall (lineMode : bool) (s : list N), flags_chain s 0 (lex_all lineMode s).
Proof. exact lex_all_flags. Qed.

(* keywords never lex as identifiers *)
Theorem C16_keywords_not_idents : forall (lineMode : bool) (s : list N) (t : ltok),
  In t (lex_all lineMode s) -> lt_type t = token_IDENT -> forall ty, ~ In (lt_lit t, ty) keyword_tokens.
Proof. exact lex_all_keywords_not_idents. Qed.

(* the lexer never yields a nil token, never panics (slice bounds), the model never runs out of fuel *)
Theorem C16_no_abnormal_token : forall (lineMode : bool) (s : list N) (t : ltok),
  In t (lex_all lineMode s) -> (0 <= lt_type t)%Z.
Proof. exact lex_all_normal. Qed.

(* interning: after token.Init and ANY history h of Intern calls, two calls return the same object
   iff their (type, literal) are equal *)
Theorem C16_intern_functional_injective : forall (h : list tkey),
  let ids := fst (intern_all i_init h) in
  forall a b ka kb ia ib,
    nth_error h a = Some ka -> nth_error h b = Some kb ->
    nth_error ids a = Some ia -> nth_error ids b = Some ib ->
    (ia = ib <-> ka = kb).
Proof. exact intern_after_init. Qed.

(* "Equal tokens are represented by one shared object", on the tokens the lexer actually delivers: a process (after
   token.Init) lexes any list h of inputs, each in its own mode; [lex_history] pairs every token with its object -
   the interning table's object for value tokens (ILLEGAL IDENT INT FLOAT STRING comments), the one object made by
   Init for each constant type (operators, keywords, EOF, EOL).  Two tokens received at any two points of the
   history are the same object iff they have the same type and literal. *)
Theorem C16_equal_tokens_share_object : forall (h : list (bool * list N)),
  let os := fst (lex_history i_init h) in
  forall a b ta oa tb ob,
    nth_error os a = Some (ta, oa) -> nth_error os b = Some (tb, ob) ->
    (oa = ob <-> (lt_type ta = lt_type tb /\ lt_lit ta = lt_lit tb)).
Proof. exact lex_history_objects. Qed.

(* ---- non-vacuity / sanity: the historical failing inputs and one token of every kind *)
Definition show (t : ltok) := (lt_type t, lt_lit t, N.of_nat (lt_start t), N.of_nat (lt_end t)).

(* "1e+x": the bytes e+ are tokens again;  ".5." : FLOAT ".5" then DOT *)
Example C16_ex_number_defects :
  map show (lex_all false [49; 101; 43; 120]) =
    [(token_INT, [49], 0, 1); (token_IDENT, [101], 1, 2); (token_PLUS, [43], 2, 3); (token_IDENT, [120], 3, 4);
     (token_EOF, [], 4, 5)]
  /\ map show (lex_all false [46; 53; 46]) =
    [(token_FLOAT, [46; 53], 0, 2); (token_DOT, [46], 2, 3); (token_EOF, [], 3, 4)].
Proof. vm_compute. split; reflexivity. Qed.

(* a NUL byte inside the input is an ILLEGAL token, not the end: a NUL b *)
Example C16_ex_nul :
  map show (lex_all true [97; 0; 98]) =
    [(token_IDENT, [97], 0, 1); (token_ILLEGAL, [0], 1, 2); (token_IDENT, [98], 2, 3); (token_EOL, [], 3, 4)].
Proof. vm_compute. reflexivity. Qed.

(* if "a\n" // c <sp> ; a string with an escape, a keyword, a trimmed line comment; hypotheses of the
   span theorems are satisfiable *)
Example C16_ex_kinds :
  let s := [105; 102; 32; 34; 97; 92; 110; 34; 32; 47; 47; 32; 99; 32] in
  map show (lex_all false s) =
    [(token_IF, [105; 102], 0, 2); (token_STRING, [97; 10], 3, 8); (token_LINECOMMENT, [47; 47; 32; 99], 9, 14);
     (token_EOF, [], 14, 15)]
  /\ (exists t, In t (lex_all false s) /\ lt_type t = token_STRING)
  /\ (exists t, In t (lex_all false s) /\ lt_type t = token_LINECOMMENT)
  /\ (exists t, In t (lex_all false s) /\ text_type (lt_type t) = true).
Proof.
  vm_compute. split; [reflexivity|].
  split; [eexists; split; [right; left; reflexivity|reflexivity]|].
  split; [eexists; split; [right; right; left; reflexivity|reflexivity]|].
  eexists; split; [left; reflexivity|reflexivity].
Qed.

(* unterminated string: EOL (continuation) in line mode, one ILLEGAL token in file mode; unclosed block comment *)
Example C16_ex_unterminated :
  map show (lex_all true [34; 97]) = [(token_EOL, [], 0, 3)]
  /\ map show (lex_all false [34; 97]) = [(token_ILLEGAL, [34; 97], 0, 2); (token_EOF, [], 2, 3)]
  /\ map show (lex_all false [47; 42; 97]) = [(token_BLOCKCOMMENT, [47; 42; 97], 0, 3); (token_EOF, [], 3, 4)]
  /\ map show (lex_all false [120; 120]) = [(token_IDENT, [120; 120], 0, 2); (token_EOF, [], 2, 3)].
Proof. vm_compute. repeat split; reflexivity. Qed.

(* the call stream after the end: calls 3, 4, 40 on "a b" keep returning EOF; flags of `a \n b` *)
Example C16_ex_stream_flags :
  map (fun k => lt_type (nth_call false [97; 32; 98] k)) [0; 1; 2; 3; 40]%nat
    = [token_IDENT; token_IDENT; token_EOF; token_EOF; token_EOF]
  /\ map (fun t => (lt_ws t, lt_nl t)) (lex_all true [97; 32; 10; 98]) = [(false, false); (true, true); (false, false)].
Proof. vm_compute. split; reflexivity. Qed.

(* interning: same key twice gives the same object, different keys different objects; a keyword is already there *)
Example C16_ex_intern :
  fst (intern_all i_init [(token_IDENT, [120]); (token_INT, [49]); (token_IDENT, [120]); (token_IF, [105; 102])])
  = [34; 35; 34; 3]%nat.
Proof. vm_compute. reflexivity. Qed.

(* "x = x" in file mode then "x" in line mode: the three x are one object, the two ends are different objects *)
Example C16_ex_objects :
  map snd (fst (lex_history i_init [(false, [120; 61; 120]); (true, [120])]))
  = [OValue 34; OConst token_ASSIGN; OValue 34; OConst token_EOF; OValue 34; OConst token_EOL]%nat.
Proof. vm_compute. reflexivity. Qed.

Print Assumptions C16_tiling.
Print Assumptions C16_whitespace_is_space_tab_lf_cr.
Print Assumptions C16_tiling_file_mode.
Print Assumptions C16_literal_is_span.
Print Assumptions C16_string_span.
Print Assumptions C16_line_comment_span.
Print Assumptions C16_block_comment_span.
Print Assumptions C16_illegal_span.
Print Assumptions C16_end_marker.
Print Assumptions C16_token_stream.
Print Assumptions C16_fuel_irrelevant.
Print Assumptions C16_flags.
Print Assumptions C16_keywords_not_idents.
Print Assumptions C16_no_abnormal_token.
Print Assumptions C16_intern_functional_injective.
Print Assumptions C16_equal_tokens_share_object.
