(* C18 - auto-save is crash-atomic.
   Only the property theorems (each closed by [exact] of a lemma of proofs/AutoSave_proofs.v), the
   non-vacuity example and [Print Assumptions].

   The theorems are about the step model coq/model/AutoSave.v run on [autosave_skeleton], the operation
   skeleton the translator extracted from /repo/repl/repl.go on this run (GrolGen.Gen_AutoSave).
     bs            the chunks SaveGlobals writes, one per saved binding; the new file is [concat bs]
     fs0           the working directory before the save; old = fs_get fs0 autosave_state_file (None: no file yet)
     (k, torn)     the process dies after k system calls of the save completed; the (k+1)-th is interrupted,
                   a write after [torn] of its bytes.  k ranges over nat: every instant, and "no crash".
     FaultAt i p   the i-th call of the save returns an error (a write after storing p bytes)
   What the operating system is assumed to do is stated as Section hypotheses, not axioms. *)
From Coq Require Import List NArith ZArith.
From GrolGen Require Import Gen_AutoSave.
From GrolModel Require Import AutoSave.
From GrolProofs Require Import AutoSave_proofs AutoSave_history.
Import ListNotations.

Section C18.
  (* what a system call interrupted by process death leaves on disk *)
  Variable ce : fname -> step -> nat -> st -> st.
  (* write durability: the bytes of an interrupted write that reached the file are a prefix of that write
     (and completed calls keep their effect: that is how run_steps is defined; no power loss in scope) *)
  Hypothesis write_leaves_prefix :
    forall tmp b j m, ce tmp (StWrite b) j m = exec_or_skip tmp (StWrite (firstn j b)) m.
  (* rename within a directory, and creation of the temporary file, are atomic with respect to process death *)
  Hypothesis other_calls_atomic :
    forall tmp s j m, (forall b, s <> StWrite b) -> ce tmp s j m = m \/ ce tmp s j m = exec_or_skip tmp s m.
  (* os.CreateTemp returns a name prefix<random>suffix for the pattern of the skeleton, that did not exist *)
  Variable tmp : fname.
  Hypothesis temp_name_from_pattern : temp_name_ok autosave_temp_pattern tmp.
  Variable fs0 : fs.
  Hypothesis temp_name_fresh : fs_get fs0 tmp = None.

  (* At every instant of the save the state file is, whole, the previous version or the new version;
     it is the previous one as long as the rename has not started (k <= number of bindings: temporary file
     created and at most all writes done) and the new one once the rename completed; no other file of the
     directory is touched; the temporary file only ever holds a prefix of the new contents. *)
  Theorem crash_atomic : forall (bs : list bytes) (k torn : nat),
    let fs' := after ce tmp autosave_skeleton bs NoFault k torn fs0 in
    let old := fs_get fs0 autosave_state_file in
    let new := List.concat bs in
    (fs_get fs' autosave_state_file = old \/ fs_get fs' autosave_state_file = Some new) /\
    (k <= List.length bs -> fs_get fs' autosave_state_file = old) /\
    (List.length bs + 2 <= k -> fs_get fs' autosave_state_file = Some new /\ fs_get fs' tmp = None) /\
    (forall n, n <> tmp -> n <> autosave_state_file -> fs_get fs' n = fs_get fs0 n) /\
    (forall c, fs_get fs' tmp = Some c -> is_prefix_of c new).
  Proof. exact (crash_atomic_gen ce write_leaves_prefix other_calls_atomic tmp fs0 temp_name_from_pattern temp_name_fresh). Qed.

  (* A save in which any call fails (creating the temporary file, any write - also a short one -, the rename)
     returns the error and leaves the state file and every file other than the temporary one exactly as
     they were - at every later instant too, i.e. also if the process dies during or after the failed save. *)
  Theorem fault_keeps_old : forall (bs : list bytes) (i partial k torn : nat),
    i < List.length bs + 2 ->
    let fs' := after ce tmp autosave_skeleton bs (FaultAt i partial) k torn fs0 in
    snd (autosave_actions tmp autosave_skeleton bs (FaultAt i partial) fs0) = true /\
    fs_get fs' autosave_state_file = fs_get fs0 autosave_state_file /\
    (forall n, n <> tmp -> fs_get fs' n = fs_get fs0 n).
  Proof. exact (fault_keeps_old_gen ce write_leaves_prefix other_calls_atomic tmp fs0 temp_name_from_pattern temp_name_fresh). Qed.

  (* the temporary file is never the state file, whatever random part CreateTemp picks *)
  Theorem temp_never_state_file : tmp <> autosave_state_file.
  Proof. exact (temp_never_state_file_gen tmp temp_name_from_pattern). Qed.
End C18.

(* "only if changed": with auto-save disabled, or no global set since the last load/save
   (env.NumSet() = lastNumSet), AutoSave performs no file operation at all and returns no error -
   for every skeleton, fault and crash point. *)
Theorem skip_when_unchanged :
  forall tmp sk bs f fs0 (enabled : bool) (last cur : Z),
  enabled = false \/ cur = last ->
  fst (autosave_session tmp sk bs f fs0 enabled last cur) = ([], false) /\
  forall ce k torn, session_after ce tmp sk bs f k torn fs0 enabled last cur = fs0.
Proof. exact skip_when_unchanged_lemma. Qed.

(* non-vacuity: the hypotheses of Section C18 are satisfiable (the executable crash effect torn_step,
   the name ".grol7.tmp", a directory holding an old state file), and a torn write is really modelled *)
Example C18_hypotheses_satisfiable :
  (forall tmp b j m, torn_step tmp (StWrite b) j m = exec_or_skip tmp (StWrite (firstn j b)) m) /\
  (forall tmp s j m, (forall b, s <> StWrite b) -> torn_step tmp s j m = m \/ torn_step tmp s j m = exec_or_skip tmp s m) /\
  temp_name_ok autosave_temp_pattern tmpx /\
  fs_get ex_fs0 tmpx = None /\
  observe tmpx autosave_state_file (after torn_step tmpx autosave_skeleton ex_bs NoFault 2 1 ex_fs0)
    = (Some [1; 1]%N, Some [2; 3]%N) /\
  observe tmpx autosave_state_file (after torn_step tmpx autosave_skeleton ex_bs NoFault 4 0 ex_fs0)
    = (Some [2; 3; 4]%N, None) /\
  observe tmpx autosave_state_file (after torn_step tmpx autosave_skeleton ex_bs (FaultAt 2 1) 9 0 ex_fs0)
    = (Some [1; 1]%N, Some [2; 3]%N).
Proof.
  split; [exact torn_step_write_prefix|]. split; [exact torn_step_atomic|]. split; [exact tmpx_ok|].
  vm_compute. repeat split.
Qed.

Section C18_histories.
  (* the same assumptions about the operating system as in Section C18 *)
  Variable ce : fname -> step -> nat -> st -> st.
  Hypothesis write_leaves_prefix :
    forall tmp b j m, ce tmp (StWrite b) j m = exec_or_skip tmp (StWrite (firstn j b)) m.
  Hypothesis other_calls_atomic :
    forall tmp s j m, (forall b, s <> StWrite b) -> ce tmp s j m = m \/ ce tmp s j m = exec_or_skip tmp s m.

  (* Histories ("a failed or interrupted save never damages the previous file", over any number of saves in the
     same directory).  h is any list of saves - each with the temporary name CreateTemp gives it, its bindings, an
     injected fault or none, a crash point or none -, run one after the other on the directory the previous ones
     left behind, temporary files of aborted saves included; fresh_history is CreateTemp's contract at each save
     (a name of the pattern that does not exist at that moment).  Then:
       - if no save died inside its rename, the state file is exactly what the LAST save that completed wrote
         (last_committed), or the original file if none completed: nothing of an aborted save, no residue of a
         stale temporary file, ever shows in it - also when the later state is shorter than what an aborted save
         had already written;
       - in every case the state file is the original one or, whole, what one save of the history that suffered no
         failing call and reached its rename wrote;
       - no file other than the state file and the temporary files of these saves changes. *)
  Theorem history_atomic : forall (h : list save) (fs0 : fs),
    fresh_history ce autosave_skeleton fs0 h ->
    let fs' := run_history ce autosave_skeleton fs0 h in
    (forallb (fun s => negb (in_rename s)) h = true ->
       fs_get fs' autosave_state_file = last_committed (fs_get fs0 autosave_state_file) h) /\
    (fs_get fs' autosave_state_file = fs_get fs0 autosave_state_file \/
     exists s, In s h /\ fault_in_range s = false /\ List.length (sv_bs s) + 1 <= sv_k s /\
               fs_get fs' autosave_state_file = Some (List.concat (sv_bs s))) /\
    (forall n, n <> autosave_state_file -> (forall s, In s h -> n <> sv_tmp s) -> fs_get fs' n = fs_get fs0 n).
  Proof. exact (history_gen ce write_leaves_prefix other_calls_atomic). Qed.

  (* One save, EVERY fault position (no side condition on the index: a position beyond the calls of the save is no
     fault) combined with EVERY crash point: the state file is the previous or the new version, and no file other
     than it and the temporary file changes. *)
  Theorem any_fault_any_crash : forall (tmp : fname) (fs0 : fs),
    temp_name_ok autosave_temp_pattern tmp -> fs_get fs0 tmp = None ->
    forall (bs : list bytes) (f : fault) (k torn : nat),
    let fs' := after ce tmp autosave_skeleton bs f k torn fs0 in
    (fs_get fs' autosave_state_file = fs_get fs0 autosave_state_file \/
     fs_get fs' autosave_state_file = Some (List.concat bs)) /\
    (forall n, n <> tmp -> n <> autosave_state_file -> fs_get fs' n = fs_get fs0 n).
  Proof. exact (any_fault_any_crash_gen ce write_leaves_prefix other_calls_atomic). Qed.
End C18_histories.

(* non-vacuity for histories: a history satisfying fresh_history whose second save (a state SHORTER than what the
   first, interrupted save had already written) completes and whose third save fails: the state file is exactly the
   second save's contents, the residues stay in their own temporary files *)
Example C18_history_example :
  fresh_history torn_step autosave_skeleton ex_fs0 ex_history /\
  forallb (fun s => negb (in_rename s)) ex_history = true /\
  let fs' := run_history torn_step autosave_skeleton ex_fs0 ex_history in
  fs_get fs' autosave_state_file = Some [5]%N /\
  last_committed (fs_get ex_fs0 autosave_state_file) ex_history = Some [5]%N /\
  fs_get fs' tmpx = Some [2]%N /\ fs_get fs' tmpy = None /\ fs_get fs' tmpz = Some [6; 6]%N.
Proof. split; [exact ex_history_fresh|]. split; [reflexivity|]. exact ex_history_outcome. Qed.

Print Assumptions crash_atomic.
Print Assumptions fault_keeps_old.
Print Assumptions temp_never_state_file.
Print Assumptions skip_when_unchanged.
Print Assumptions history_atomic.
Print Assumptions any_fault_any_crash.
