(* C12 - ordering and equality are coherent and total.
   Only the property theorems (each closed by [exact] of a lemma of proofs/Cmp_proofs.v), their
   non-vacuity examples and [Print Assumptions].
   [cmp] is the model of object.Cmp (Val Lt / Val Eq / Val Gt for -1 / 0 / 1, GoPanic for a Go panic),
   [equals] of object.Equals, [op_lt] ... of the operators of evalInfixExpression, [vmin]/[vmax] of the
   min / max extensions; [vle a b] says Cmp answered and the answer was not 1, [veq a b] that it was 0.
   All statements quantify over every value of model/Values.v: integers (all of Z), floats (NaN, +-Inf,
   every dyadic rational with -0 distinguished), booleans, nil, strings, arrays and maps of any nesting,
   errors, functions, quotes, macros, extensions, return values. *)
From Coq Require Import List ZArith NArith Bool Sorted Permutation.
From GrolModel Require Import Values Cmp.
From GrolProofs Require Import Cmp_proofs Cmp_more.
Import ListNotations.
Local Open Scope Z_scope.

(* comparing two values never panics *)
Theorem cmp_never_panics : forall a b : value, exists c, cmp a b = Val c.
Proof. exact Cmp_proofs.cmp_never_panics. Qed.

(* the order is a total preorder: reflexive, transitive, total *)
Theorem cmp_total_preorder :
  (forall a, vle a a)
  /\ (forall a b c, vle a b -> vle b c -> vle a c)
  /\ (forall a b, vle a b \/ vle b a).
Proof. exact (conj vle_refl (conj vle_trans vle_total)). Qed.

(* antisymmetric up to equivalence, the two directions of Cmp agree, and order-equivalence is an
   equivalence relation whose classes are interchangeable in every comparison *)
Theorem cmp_antisym_equiv :
  (forall a b, vle a b -> vle b a -> veq a b)
  /\ (forall a b, cmp b a = omap CompOpp (cmp a b))
  /\ (forall a, veq a a)
  /\ (forall a b, veq a b -> veq b a)
  /\ (forall a b c, veq a b -> veq b c -> veq a c)
  /\ (forall a b c, veq a b -> cmp a c = cmp b c /\ cmp c a = cmp c b).
Proof.
  exact (conj vle_antisym (conj cmp_antisym (conj veq_refl (conj veq_sym (conj veq_trans
          (fun a b c H => conj (veq_cmp_l a b c H) (veq_cmp_r a b c H))))))).
Qed.

(* the strict order is compatible with <= on both sides (hence transitive) *)
Theorem cmp_strict_transitive :
  (forall a b c, cmp a b = Val Lt -> vle b c -> cmp a c = Val Lt)
  /\ (forall a b c, vle a b -> cmp b c = Val Lt -> cmp a c = Val Lt).
Proof. exact (conj vlt_le_trans vle_lt_trans). Qed.

(* the four comparison operators are mutually consistent, agree with the order, and never fail *)
Theorem operators_consistent : forall a b : value,
  op_lt a b = op_gt b a
  /\ op_le a b = op_ge b a
  /\ op_le a b = omap negb (op_gt a b)
  /\ op_ge a b = omap negb (op_lt a b)
  /\ op_ne a b = omap negb (op_eq a b)
  /\ (op_le a b = Val true <-> vle a b)
  /\ (op_lt a b = Val true <-> cmp a b = Val Lt)
  /\ (op_eq a b = Val true -> op_le a b = Val true /\ op_ge a b = Val true)
  /\ ((exists r, op_lt a b = Val r) /\ (exists r, op_le a b = Val r) /\ (exists r, op_gt a b = Val r)
      /\ (exists r, op_ge a b = Val r) /\ (exists r, op_eq a b = Val r) /\ (exists r, op_ne a b = Val r)).
Proof.
  exact (fun a b => conj (op_lt_gt a b) (conj (op_le_ge a b) (conj (op_le_not_gt a b) (conj (op_ge_not_lt a b)
          (conj (op_ne_not_eq a b) (conj (op_le_iff a b) (conj (op_lt_iff a b) (conj (op_eq_le_ge a b) (op_total a b))))))))).
Qed.

(* == is an equivalence relation (it holds between a value and itself, hence any structural copy), and never fails *)
Theorem equals_equivalence :
  (forall a, equals a a = Val true)
  /\ (forall a b, equals a b = equals b a)
  /\ (forall a b c, equals a b = Val true -> equals b c = Val true -> equals a c = Val true)
  /\ (forall a b, exists r, equals a b = Val r).
Proof. exact (conj equals_refl (conj equals_sym (conj equals_trans equals_total))). Qed.

(* == implies order-equivalence (and is exactly: same type and order-equivalent) *)
Theorem equals_implies_cmp_eq :
  (forall a b, equals a b = Val true -> cmp a b = Val Eq)
  /\ (forall a b, equals a b = Val true <-> type_of a = type_of b /\ veq a b).
Proof. exact (conj Cmp_proofs.equals_implies_cmp_eq equals_iff). Qed.

(* min / max return one of their arguments, a lower / upper bound of all of them *)
Theorem min_max_extremal : forall (x : value) (l : list value),
  (exists m, vmin x l = Val m /\ In m (x :: l) /\ forall y, In y (x :: l) -> vle m y)
  /\ (exists m, vmax x l = Val m /\ In m (x :: l) /\ forall y, In y (x :: l) -> vle y m).
Proof. exact (fun x l => conj (vmin_spec l x) (vmax_spec l x)). Qed.

(* Cmp is the comparison of the images in an explicitly ordered key space (class ordinal, then payload:
   numbers on  NaN < -Inf < rationals < +Inf, booleans, bytes, length-then-lexicographic lists) *)
Theorem cmp_is_compare_of_images : forall a b, cmp a b = Val (scmp (skey_of a) (skey_of b)).
Proof. exact cmp_is_scmp. Qed.

(* the code-shaped int64/float64 comparison (NaN, range check, integral part, fractional part) is the
   exact comparison of the two numbers, for every int64 and every float *)
Theorem cmp_int_float_exact : forall (i : Z) (f : fl),
  - two63 <= i < two63 ->
  cmp_int_float_go i f = nkey_cmp (nkey_of_int i) (nkey_of_fl f).
Proof. exact cmp_int_float_go_exact. Qed.

(* non-vacuity / sanity: the historical witnesses now behave; mixed comparisons; NaN; -0; nested containers *)
Example C12_ex_witnesses :
  let a := VInt (2 ^ 53) in let b := VFloat (FFin false (2 ^ 52) 1) in let c := VInt (2 ^ 53 + 1) in
  cmp c b = Val Gt /\ cmp b a = Val Eq /\ cmp c a = Val Gt
  /\ cmp (VTxt KQuote [1%N]) (VTxt KQuote [2%N]) = Val Lt
  /\ cmp (VFloat FNaN) (VFloat FNaN) = Val Eq /\ cmp (VFloat FNaN) (VFloat (FInf true)) = Val Lt
  /\ cmp (VFloat (FFin true 0 0)) (VInt 0) = Val Eq
  /\ equals (VInt 1) (VFloat (FFin false 1 0)) = Val false
  /\ equals (VArr [VInt 1]) (VArr [VFloat (FFin false 1 0)]) = Val true
  /\ cmp VNil (VInt 1) = Val Gt
  /\ vmin (VInt 3) [VFloat FNaN; VInt 1] = Val (VFloat FNaN)
  /\ cmp_int_float_go (2 ^ 53 + 1) (FFin false (2 ^ 52) 1) = Gt.
Proof. vm_compute. repeat split. Qed.

(* sorting: the order can be sorted by - a comparison sort driven by Cmp ([vsort]: insertion by Cmp) returns a
   permutation of its input that is sorted; and the sorted arrangement of a collection is UNIQUE up to
   order-equivalence, position by position: any two sorted permutations of each other (the results of sorting the same
   values given in two orders, or by two algorithms) are pairwise order-equivalent *)
Theorem sorting_is_well_defined :
  (forall l, Permutation l (vsort l) /\ StronglySorted vle (vsort l))
  /\ (forall l1 l2, Permutation l1 l2 -> StronglySorted vle l1 -> StronglySorted vle l2 -> Forall2 veq l1 l2)
  /\ (forall l l', Permutation l l' -> Forall2 veq (vsort l) (vsort l'))
  /\ (forall l, StronglySorted vle l -> vsort l = l).
Proof.
  exact (conj (fun l => conj (vsort_perm l) (vsort_sorted l))
        (conj sorted_unique (conj vsort_perm_equiv vsort_of_sorted))).
Qed.

(* min / max do not depend on the order in which their arguments are given (up to order-equivalence) *)
Theorem min_max_order_independent : forall x l y l',
  Permutation (x :: l) (y :: l') ->
  (forall m m', vmin x l = Val m -> vmin y l' = Val m' -> veq m m')
  /\ (forall m m', vmax x l = Val m -> vmax y l' = Val m' -> veq m m').
Proof.
  exact (fun x l y l' HP => conj (fun m m' => vmin_order_independent x l y l' m m' HP)
                                 (fun m m' => vmax_order_independent x l y l' m m' HP)).
Qed.

Example C12_ex_sort :
  let f1 := VFloat (FFin false 1 0) in
  vsort [VStr [97%N]; VInt 3; f1; VNil; VInt 1; VFloat FNaN; VInt (-2)]
  = [VFloat FNaN; VInt (-2); f1; VInt 1; VInt 3; VNil; VStr [97%N]]
  /\ vsort [VInt 1; f1; VNil; VFloat FNaN; VInt (-2); VStr [97%N]; VInt 3]
     = [VFloat FNaN; VInt (-2); VInt 1; f1; VInt 3; VNil; VStr [97%N]]   (* the same up to 1 ~ 1.0 *)
  /\ vsort [f1; VInt 1] = [f1; VInt 1] /\ vsort [VInt 1; f1] = [VInt 1; f1]
  /\ vmin (VInt 1) [f1] = Val (VInt 1) /\ vmin f1 [VInt 1] = Val f1.
Proof. vm_compute. repeat split. Qed.

Print Assumptions cmp_never_panics.
Print Assumptions cmp_total_preorder.
Print Assumptions cmp_antisym_equiv.
Print Assumptions cmp_strict_transitive.
Print Assumptions operators_consistent.
Print Assumptions equals_equivalence.
Print Assumptions equals_implies_cmp_eq.
Print Assumptions min_max_extremal.
Print Assumptions cmp_is_compare_of_images.
Print Assumptions cmp_int_float_exact.
Print Assumptions sorting_is_well_defined.
Print Assumptions min_max_order_independent.
