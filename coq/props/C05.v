(* C05 - integer registers are unobservable.
   Only property theorems (closed by [exact] of a lemma of the proofs directory), refutation witnesses of the
   tree as it was pinned, non-vacuity examples and Print Assumptions.

   What is a THEOREM here: the register-file discipline of the repaired evalForInteger /
   extendFunctionEnv on control skeletons (model/Registers.v), the specification of the body
   rewrite ModifyRegister over ast.Modify (model/Modify.v), and the on/off equality of control
   outcomes of skeleton sessions.  What is NOT a theorem: the on/off equality of outputs and
   values of whole grol programs ([reg_unobservable] instantiated with the real evaluator); no
   evaluator of values is modelled, that statement is decided by the differential run
   (harness/cmd/C05, implementation with NoReg=false vs NoReg=true) and its remaining
   counterexamples are the known findings reg-*.                                              *)
From Coq Require Import List ZArith NArith Bool Arith.
From GrolGen Require Import Gen_Consts.
From GrolModel Require Import Ast Modify Registers Session RegFragment.
From GrolProofs Require Import Registers_proofs Modify_proofs Session_proofs RegFragment_proofs.
Import ListNotations.

(* ---- the full statement, for any notion of program / run / observation ---- *)
Section FullStatement.
  Variable program observation : Type.
  Variable introspects : program -> bool.          (* calls type() or info *)
  Variable run : bool -> program -> observation.   (* registers enabled? -> outputs, results, errors *)
  Definition reg_unobservable : Prop :=
    forall p, introspects p = false -> run true p = run false p.
End FullStatement.

(* ---- register file: LIFO discipline ---- *)
(* for every skeleton and every outcome (value, error, break, continue, return, run-time panic,
   depth panic), every environment that existed before the evaluation has the register count it
   had before; unless a Go panic is unwinding, the whole control state is the one before *)
Theorem regfile_balanced : forall (r : bool) (s : skel) (m : mstate) g m' t,
  envs m <> [] -> eval (repaired r) s m = (g, m', t) ->
  (forall i, i < length (envs m) -> nth_error (envs m') i = nth_error (envs m) i)
  /\ (is_abort g = false -> m' = m).
Proof. exact regfile_balanced_lemma. Qed.

(* MakeRegister is reached only with numReg < NumRegisters: its panic is not an outcome *)
Theorem regfile_never_overflows : forall (r : bool) (s : skel) (m : mstate) g m' t,
  envs m <> [] -> eval (repaired r) s m = (g, m', t) -> g <> GPanic PNoRegisters.
Proof. exact regfile_never_overflows_lemma. Qed.

(* ReleaseRegister's index test never fails (and no environment index is out of range) *)
Theorem release_is_lifo : forall (r : bool) (s : skel) (m : mstate) g m' t,
  envs m <> [] -> eval (repaired r) s m = (g, m', t) -> g <> GPanic PNonLifo /\ g <> GStuck.
Proof. exact release_is_lifo_lemma. Qed.

(* ---- the body rewrite ---- *)
(* on every tree ast.Modify cannot panic on: ok=false exactly for the documented bail-outs
   ([bails]: function literal, x++/x--, ++x/--x, x(..), a map literal with x as key twice,
   macro parameter of that name), otherwise the
   result is the tree in which exactly the identifiers of that name at the positions Modify
   visits are replaced by the register ([subst_reg]; nothing under a function literal since
   those give up) *)
Theorem modify_register_spec : forall (name : bytes) (n : node),
  wf_node n = true ->
  modify_register name n = if bails name n then RBail else ROk (subst_reg name n).
Proof. exact modify_register_spec_lemma. Qed.

(* ---- the rewrite is sound on the integer fragment (stretch) ---- *)
(* bodies made of integer literals, identifiers, + - * with 64-bit wrap-around, unary minus,
   assignments to identifiers and statement sequences (anything else is IUnsupported, about which
   nothing is claimed): evaluating the rewritten body with the name in the register gives the
   same result as evaluating the original body with the name as an ordinary variable, and the
   final bindings correspond (register = the variable's value, all other names alike) *)
Theorem rewrite_sound : forall (x : bytes) (body : node) (sv sr : istate),
  reg_related x sv sr ->
  fst (ieval None body sv) <> IUnsupported ->
  fst (ieval (Some x) (subst_reg x body) sr) = fst (ieval None body sv)
  /\ reg_related x (snd (ieval None body sv)) (snd (ieval (Some x) (subst_reg x body) sr)).
Proof. exact rewrite_sound_lemma. Qed.

(* "any loop variable name, any number of iterations": a counted loop `for x = i:i+n {body}` over a body of the integer
   fragment, for EVERY n (no bound): running the rewritten body with the loop variable in the register (set to the
   counter before each iteration) gives the same loop value as running the original body with the loop variable
   as an ordinary binding (set before each iteration), including bodies that assign the loop variable, and
   leaves every other name bound alike. Nothing is assumed about what the two sides held for x before the loop. *)
Theorem loop_rewrite_sound : forall (x : bytes) (body : node) (n : nat) (i : Z) (sv sr : istate) (last : ires),
  others_related x sv sr ->
  fst (iloop None x body i n sv last) <> IUnsupported ->
  fst (iloop (Some x) x (subst_reg x body) i n sr last) = fst (iloop None x body i n sv last)
  /\ others_related x (snd (iloop None x body i n sv last))
                      (snd (iloop (Some x) x (subst_reg x body) i n sr last)).
Proof. exact loop_rewrite_sound_lemma. Qed.

(* "any integer parameter": binding the parameter to the argument (variable mode) vs putting the argument in a
   register (register mode) at the call, then running the original vs the rewritten body *)
Theorem param_rewrite_sound : forall (x : bytes) (body : node) (v : Z) (sv sr : istate),
  others_related x sv sr ->
  fst (ieval None body (update x v (fst sv), snd sv)) <> IUnsupported ->
  fst (ieval (Some x) (subst_reg x body) (fst sr, v)) = fst (ieval None body (update x v (fst sv), snd sv))
  /\ others_related x (snd (ieval None body (update x v (fst sv), snd sv)))
                      (snd (ieval (Some x) (subst_reg x body) (fst sr, v))).
Proof. exact param_rewrite_sound_lemma. Qed.

(* ---- the full statement holds of skeleton sessions (control outcomes) ---- *)
Definition skeleton_run (regs : bool) (inputs : list skel) : list okind :=
  map fst (fst (run_session (repaired regs) inputs new_session)).

Theorem skeleton_reg_unobservable :
  reg_unobservable (list skel) (list okind) (fun _ => false) skeleton_run.
Proof. exact (fun p => skeleton_sessions_lemma p false). Qed.

(* "any number of loops executed in one session": for every list of inputs submitted one after the other to one
   session (no bound on its length), no input ever ends in a failure of the register machinery ("No more registers",
   "Releasing non last register") and the session's control state - in particular the register count of the root
   environment - is at the end what it was at the start *)
Theorem any_number_of_loops_in_one_session : forall (r : bool) (l : list skel) (s : session),
  top_level (st s) ->
  Forall (fun ot : okind * list probe => no_register_failure (fst ot)) (fst (run_session (repaired r) l s))
  /\ st (snd (run_session (repaired r) l s)) = st s.
Proof. exact long_session_lemma. Qed.

(* ---- the tree as pinned violated all of this (witnesses) ---- *)
Definition brk_loop : skel := KLoop true true [KLeaf LNormal; KLeaf LBreak].

(* nine integer parameters: MakeRegister panics with registers on, works with NoReg *)
Example C05_refuted_pinned_capacity :
  fst (fst (eval (pinned true) (KCall 9 (KLeaf LNormal)) (mkM [0] 0 0))) = GPanic PNoRegisters
  /\ fst (fst (eval (pinned false) (KCall 9 (KLeaf LNormal)) (mkM [0] 0 0))) = GNormal.
Proof. vm_compute. split; reflexivity. Qed.

(* a loop left by break keeps its register: the ninth loop of the session panics *)
Example C05_refuted_pinned_leak :
  envs (snd (fst (eval (pinned true) brk_loop (mkM [0] 0 0)))) = [1]
  /\ map fst (fst (run_session (pinned true) (repeat brk_loop 9) new_session))
     = repeat OValue 8 ++ [OPanic PNoRegisters]
  /\ map fst (fst (run_session (pinned false) (repeat brk_loop 9) new_session)) = repeat OValue 9.
Proof. vm_compute. repeat split; reflexivity. Qed.

(* a body that cannot be rewritten was an error with registers on *)
Example C05_refuted_pinned_fallback :
  fst (fst (eval (pinned true) (KLoop true false [KLeaf LNormal]) (mkM [0] 0 0))) = GError
  /\ fst (fst (eval (pinned false) (KLoop true false [KLeaf LNormal]) (mkM [0] 0 0))) = GNormal.
Proof. vm_compute. split; reflexivity. Qed.

(* an error swallowed by catch() inside another counted loop: the inner register was never
   released, the outer release finds it on top (this is why the release is deferred) *)
Example C05_refuted_pinned_catch :
  fst (fst (eval (pinned true) (KLoop true true [KCatch (KLoop true true [KLeaf LError])]) (mkM [0] 0 0)))
    = GPanic PNonLifo
  /\ fst (fst (eval (repaired true) (KLoop true true [KCatch (KLoop true true [KLeaf LError])]) (mkM [0] 0 0)))
    = GNormal.
Proof. vm_compute. split; reflexivity. Qed.

Example C05_refuted_pinned_full_statement :
  ~ reg_unobservable (list skel) (list okind) (fun _ => false)
      (fun regs inputs => map fst (fst (run_session (pinned regs) inputs new_session))).
Proof.
  intro H. specialize (H [KCall 9 (KLeaf LNormal)] eq_refl). vm_compute in H. discriminate.
Qed.

(* ---- non-vacuity / sanity ---- *)
(* ten nested named loops inside a call with 12 integer parameters, left by a panic: hypotheses
   satisfiable, registers back to where they were *)
Fixpoint nest (k : nat) (inner : skel) : skel :=
  match k with 0 => inner | S k' => KLoop true true [KProbe; nest k' inner] end.

Example C05_ex_machine :
  eval (repaired true) (KSeq [nest 10 (KLeaf LBreak); KCall 12 (nest 3 (KLeaf LPanic))]) (mkM [0] 0 0)
  = (GPanic PRuntime, mkM [0; 8] 1 1, [(1,0);(2,0);(3,0);(4,0);(5,0);(6,0);(7,0);(8,0);(8,0);(8,0);(8,1);(8,1);(8,1)]).
Proof. vm_compute. reflexivity. Qed.

(* the rewrite on `n = n + 1; m(n); {n:1, m:n}` for the name n, and its bail-outs *)
Definition tkn (ty : Z) (s : list N) : tok := mkTok ty s.
Definition idn : node := NIdent (tkn token_IDENT [110%N]).
Definition idm : node := NIdent (tkn token_IDENT [109%N]).
Definition one : node := NInt (tkn token_INT [49%N]) 1.
Definition two : node := NInt (tkn token_INT [50%N]) 2.

Example C05_ex_rewrite :
  modify_register [110%N]
    (NStmts [Some (NInfix (tkn token_ASSIGN [61%N]) (Some idn) (Some (NInfix (tkn token_PLUS [43%N]) (Some idn) (Some one))));
             Some (NCall (tkn token_LPAREN [40%N]) (Some idm) (Some [Some idn]));
             Some (NMap (tkn token_LBRACE [123%N]) [(Some idn, Some one); (Some idm, Some idn)])])
  = ROk (NStmts [Some (NInfix (tkn token_ASSIGN [61%N]) (Some (reg_node [110%N]))
                          (Some (NInfix (tkn token_PLUS [43%N]) (Some (reg_node [110%N])) (Some one))));
                 Some (NCall (tkn token_LPAREN [40%N]) (Some idm) (Some [Some (reg_node [110%N])]));
                 Some (NMap (tkn token_LBRACE [123%N]) [(Some (reg_node [110%N]), Some one); (Some idm, Some (reg_node [110%N]))])])
  /\ modify_register [110%N] (NStmts [Some (NPostfix (tkn token_INCR [43%N;43%N]) (tkn token_IDENT [110%N]))]) = RBail
  /\ modify_register [110%N] (NStmts [Some (NPrefix (tkn token_DECR [45%N;45%N]) (Some idn))]) = RBail
  /\ modify_register [110%N] (NStmts [Some (NFunc (tkn token_FUNC []) None (Some []) (Some (NStmts [])) false true)]) = RBail
  /\ modify_register [110%N] (NStmts [Some (NCall (tkn token_LPAREN [40%N]) (Some idn) (Some [Some one]))]) = RBail
  /\ modify_register [110%N] (NStmts [Some (NMap (tkn token_LBRACE [123%N]) [(Some idn, Some one); (Some idn, Some two)])]) = RBail
  /\ modify_register [110%N] (NStmts [Some (NPrefix (tkn token_DECR [45%N;45%N]) (Some idm))])
     = ROk (NStmts [Some (NPrefix (tkn token_DECR [45%N;45%N]) (Some idm))]).
Proof. vm_compute. repeat split; reflexivity. Qed.

(* `t = n + 1; n = t * -n; n` with n = 5: variable mode and register mode agree (-30) *)
Definition idt : node := NIdent (tkn token_IDENT [116%N]).
Definition frag_body : node :=
  NStmts [Some (NInfix (tkn token_ASSIGN [61%N]) (Some idt) (Some (NInfix (tkn token_PLUS [43%N]) (Some idn) (Some one))));
          Some (NInfix (tkn token_ASSIGN [61%N]) (Some idn)
                  (Some (NInfix (tkn token_ASTERISK [42%N]) (Some idt) (Some (NPrefix (tkn token_MINUS [45%N]) (Some idn))))));
          Some idn].
Example C05_ex_rewrite_sound :
  reg_related [110%N] ([([110%N], 5%Z)], 0%Z) ([], 5%Z)
  /\ fst (ieval None frag_body ([([110%N], 5%Z)], 0%Z)) = IVal (-30)
  /\ fst (ieval (Some [110%N]) (subst_reg [110%N] frag_body) ([], 5%Z)) = IVal (-30)
  /\ snd (snd (ieval (Some [110%N]) (subst_reg [110%N] frag_body) ([], 5%Z))) = (-30)%Z.
Proof.
  split; [split; [reflexivity | intros q Hq; unfold lookup, fst; rewrite (bytes_eqb_sym [110%N] q), Hq; reflexivity]
         | vm_compute; repeat split; reflexivity].
Qed.

(* `for n = 3:7 { t = t + n; n = n * 2; t }` with t = 1 before: the body assigns the loop variable, the counter
   wins at the next iteration; variable mode and register mode agree on the loop value 19 and on t *)
Definition loop_body : node :=
  NStmts [Some (NInfix (tkn token_ASSIGN [61%N]) (Some idt) (Some (NInfix (tkn token_PLUS [43%N]) (Some idt) (Some idn))));
          Some (NInfix (tkn token_ASSIGN [61%N]) (Some idn) (Some (NInfix (tkn token_ASTERISK [42%N]) (Some idn) (Some two))));
          Some idt].
Example C05_ex_loop_rewrite_sound :
  fst (iloop None [110%N] loop_body 3 4 ([([116%N], 1%Z)], 0%Z) INil) = IVal 19
  /\ fst (iloop (Some [110%N]) [110%N] (subst_reg [110%N] loop_body) 3 4 ([([116%N], 1%Z)], 77%Z) INil) = IVal 19
  /\ lookup [116%N] (fst (snd (iloop (Some [110%N]) [110%N] (subst_reg [110%N] loop_body) 3 4 ([([116%N], 1%Z)], 77%Z) INil))) = Some 19%Z
  /\ snd (snd (iloop (Some [110%N]) [110%N] (subst_reg [110%N] loop_body) 3 4 ([([116%N], 1%Z)], 77%Z) INil)) = 12%Z.
Proof. vm_compute. repeat split; reflexivity. Qed.

Print Assumptions regfile_balanced.
(* 60 loops left by break in one session: all fine on the repaired tree, root numReg back to 0; the pinned tree
   fails at the 9th (C05_refuted_pinned_leak) *)
Example C05_ex_long_session :
  map fst (fst (run_session (repaired true) (repeat brk_loop 60) new_session)) = repeat OValue 60
  /\ st (snd (run_session (repaired true) (repeat brk_loop 60) new_session)) = st new_session
  /\ nth_error (map fst (fst (run_session (pinned true) (repeat brk_loop 9) new_session))) 8 = Some (OPanic PNoRegisters).
Proof. vm_compute. repeat split; reflexivity. Qed.

Print Assumptions any_number_of_loops_in_one_session.
Print Assumptions loop_rewrite_sound.
Print Assumptions param_rewrite_sound.
Print Assumptions rewrite_sound.
Print Assumptions regfile_never_overflows.
Print Assumptions release_is_lifo.
Print Assumptions modify_register_spec.
Print Assumptions skeleton_reg_unobservable.
Print Assumptions C05_refuted_pinned_full_statement.
