(* C20 - the completion index behaves as a set of words.
   This file contains only the property theorems (each closed by [exact] of a lemma of
   proofs/Trie_proofs.v), their non-vacuity examples and [Print Assumptions].
   [build ws] is the trie after inserting the words ws, in that order, into an empty trie. *)
From Coq Require Import List NArith Sorted.
From GrolModel Require Import Trie.
From GrolProofs Require Import Trie_proofs Trie_order Trie_spec.
Import ListNotations.

(* membership holds exactly for the inserted non-empty words, for every insertion sequence *)
Theorem C20_membership : forall (ws : list word) (w : word),
  contains (build ws) w = true <-> w <> [] /\ In w ws.
Proof. exact contains_build_iff. Qed.

(* a prefix query returns exactly the inserted non-empty words starting with the prefix, each once
   and in byte order (strictly increasing in the lexicographic order on bytes), and the reported
   length is the length of their longest common prefix *)
Theorem C20_prefix_query : forall (ws : list word) (p : word),
  let r := prefix_all (build ws) p in
  (forall w, In w (snd r) <-> (w <> [] /\ In w ws /\ is_prefix p w))
  /\ StronglySorted lex_lt (snd r)
  /\ (snd r <> [] -> length p <= fst r /\ lcp_len (fst r) (snd r)).
Proof. exact build_prefix_all. Qed.

(* tab completion only ever extends what was typed to a prefix of every defined candidate *)
Theorem C20_completion : forall (ws : list word) (typed : word),
  match complete (build ws) typed with
  | None => forall w, ~ (w <> [] /\ In w ws /\ is_prefix typed w)
  | Some (line, pos) =>
      pos = length line /\ is_prefix typed line
      /\ (exists w, w <> [] /\ In w ws /\ is_prefix typed w)
      /\ (forall w, (w <> [] /\ In w ws /\ is_prefix typed w) -> is_prefix line w)
  end.
Proof. exact build_complete. Qed.

(* "in any order": what a query returns depends only on WHICH words were inserted - any two insertion sequences with the
   same elements (a reordering, repetitions) give the same words, the same reported length and the same membership *)
Theorem C20_order_independent : forall (ws ws' : list word) (p : word),
  (forall w, In w ws <-> In w ws') ->
  snd (prefix_all (build ws) p) = snd (prefix_all (build ws') p)
  /\ (snd (prefix_all (build ws) p) <> [] -> fst (prefix_all (build ws) p) = fst (prefix_all (build ws') p)).
Proof. exact prefix_all_order_independent. Qed.

Theorem C20_membership_order_independent : forall (ws ws' : list word) (w : word),
  (forall x, In x ws <-> In x ws') -> contains (build ws) w = contains (build ws') w.
Proof. exact contains_order_independent. Qed.

Example C20_ex_orders :
  prefix_all (build [[97;98];[97];[98]]%N) [97]%N = prefix_all (build [[98];[97];[97;98];[97]]%N) [97]%N.
Proof. vm_compute. reflexivity. Qed.

(* non-vacuity / sanity: the historical failing sequence "ab" then "a", and a 0x00/0xff case *)
Example C20_ex_prefix_word :
  contains (build [[97;98];[97]]%N) [97]%N = true
  /\ prefix_all (build [[97;98];[97]]%N) [97]%N = (1, [[97];[97;98]]%N)
  /\ prefix_all (build [[255];[0];[255;255]]%N) [] = (0, [[0];[255];[255;255]]%N)
  /\ complete (build [[97;98;99];[97;98;100]]%N) [97]%N = Some ([97;98]%N, 2).
Proof. vm_compute. repeat split. Qed.


(* refinement to an executable specification with no trie in it: [spec_prefix_all ws p] filters the inserted words
   (non-empty, starting with p), inserts them into a strictly sorted duplicate-free list and folds the pairwise
   common-prefix length over it.  The words of EVERY query on EVERY trie built by insertions are exactly that list,
   and whenever the answer is not empty the whole answer (length and words) is the specification's. *)
Theorem C20_refines_sorted_set_spec : forall (ws : list word) (p : word),
  snd (prefix_all (build ws) p) = snd (spec_prefix_all ws p)
  /\ (snd (prefix_all (build ws) p) <> [] -> prefix_all (build ws) p = spec_prefix_all ws p).
Proof. exact prefix_all_refines_spec. Qed.

(* what the auto-complete callback offers is the specification's answer: nothing when no inserted word starts with the
   typed text, otherwise the typed line extended to the longest common prefix of the sorted candidates *)
Theorem C20_completion_refines_spec : forall (ws : list word) (typed : word),
  complete (build ws) typed = spec_complete ws typed.
Proof. exact complete_refines_spec. Qed.

(* one insertion as a step: on the trie of ANY history, inserting w changes the membership of w (if w is not empty) and of
   no other word - what must not change is part of the statement *)
Theorem C20_insert_changes_exactly_one_word : forall (ws : list word) (w v : word),
  contains (insert (build ws) w) v = orb (contains (build ws) v) (andb (negb (is_nil w)) (weqb v w)).
Proof. exact contains_insert_step. Qed.

(* inserting the empty word or a word that is already there changes no answer (every definition inserts `name` again) *)
Theorem C20_reinsertion_is_noop : forall (ws : list word) (w p : word),
  w = [] \/ In w ws ->
  snd (prefix_all (insert (build ws) w) p) = snd (prefix_all (build ws) p)
  /\ (forall v, contains (insert (build ws) w) v = contains (build ws) v).
Proof. exact insert_present_is_noop. Qed.

Example C20_ex_spec :
  spec_prefix_all [[97;98;99];[];[98];[97;98;100];[97;98;99]]%N [97]%N = (2, [[97;98;99];[97;98;100]]%N)
  /\ spec_complete [[97;98;99];[97;98;100]]%N [97]%N = Some ([97;98]%N, 2)
  /\ spec_complete [[97;98;99]]%N [98]%N = None.
Proof. vm_compute. repeat split. Qed.

Print Assumptions C20_membership.
Print Assumptions C20_prefix_query.
Print Assumptions C20_completion.
Print Assumptions C20_order_independent.
Print Assumptions C20_membership_order_independent.
Print Assumptions C20_refines_sorted_set_spec.
Print Assumptions C20_completion_refines_spec.
Print Assumptions C20_insert_changes_exactly_one_word.
Print Assumptions C20_reinsertion_is_noop.
