(* C19 - constants cannot be changed by any path.
   Only the property theorems (each closed by [exact] of a lemma of proofs/ConstEnv_proofs.v), the refutation of
   the pinned (pre-repair) paths, non-vacuity examples and [Print Assumptions].

   [run_events c e evs]  the top-level environment after the mutation attempts evs (each made at top level, inside a
                         function, two functions deep, or inside a loop) from environment e;
   [root_value e K]      what K is bound to at top level;   [event_deletes_name K ev]: ev is an explicit del(K);
   [c]                   use_reg c: registers on/off (both are covered: c is universally quantified);
                         const_test c: the register paths test Constant(name) (repair 8c21b75);
                         ccow c: containers are copied before a write (repairs cec7cc4, 29e3f5f);
                         strict_eq c: the same-value escape hatch of CreateOrSet is object.Identical (repair cf20a9d);
                         fn_env c: identical functions also have the same defining environment (repair of Identical). *)
From Coq Require Import List ZArith NArith.
From GrolModel Require Import Containers ConstEnv.
From GrolProofs Require Import ConstEnv_proofs ConstEnv_outcomes.
Import ListNotations.

(* for every sequence of attempts of every kind, in every scope, with registers on or off: a constant-named
   top-level binding keeps its value - the very same value: an integer stays an integer, 0.0 stays 0.0, in every
   element, map value and key (object.Identical is equality on the modelled values) - unless the sequence contains
   an explicit del of that name.  The attempts include re-assignment of == values and writes through aliases. *)
Theorem C19_constant_stable : forall c : ccfg, ccow c = true -> strict_eq c = true -> fn_env c = true ->
  forall (K : name) (v : cval) (evs : list event) (e : env),
  constant_name K = true -> root_wf e -> root_value e K = Some v ->
  forallb (fun ev => negb (event_deletes_name K ev)) evs = true ->
  root_value (run_events c e evs) K = Some v.
Proof. exact constant_stable. Qed.

(* and the NAME keeps evaluating to that value from every scope *)
Theorem C19_lookup_stable : forall c : ccfg, ccow c = true -> strict_eq c = true -> fn_env c = true ->
  forall (K : name) (v : cval) (evs : list event) (e : env) (s : scope),
  constant_name K = true -> root_wf e -> root_value e K = Some v ->
  forallb (fun ev => negb (event_deletes_name K ev)) evs = true ->
  snd (run_event c (run_events c e evs) (Ev s (ARead K))) = Ok v.
Proof. exact constant_read_stable. Qed.

(* used as a parameter name or as a loop variable, the name is never rebound to another value: the attempt fails,
   or the body reads the constant's value (nil = a loop with no iteration) - registers on or off *)
Theorem C19_not_shadowed : forall c : ccfg, const_test c = true -> ccow c = true -> strict_eq c = true -> fn_env c = true ->
  forall (K : name) (v : cval) (evs : list event) (e : env) (s : scope) (a : attempt),
  constant_name K = true -> root_wf e -> root_value e K = Some v ->
  forallb (fun ev => negb (event_deletes_name K ev)) evs = true ->
  shadowing K a ->
  let r := snd (run_event c (run_events c e evs) (Ev s a)) in r = Err \/ r = Ok v \/ r = Ok XNil.
Proof. exact constant_not_shadowed. Qed.

(* ---- what the attempts themselves return ("either fail with an error or leave it unchanged").
   K = ex and K := ex with ANY expression - a literal, an alias, a slice or a value computed from K itself, a call, a
   closure - from any scope, after any history without del(K): the statement fails, or the value it assigns (and
   evaluates to) is exactly the value K has *)
Theorem C19_assignment_refused_or_same : forall c : ccfg, ccow c = true -> strict_eq c = true -> fn_env c = true ->
  forall (K : name) (v : cval) (evs : list event) (e : env) (s : scope) (ex : expr) (define : bool),
  constant_name K = true -> root_wf e -> root_value e K = Some v ->
  forallb (fun ev => negb (event_deletes_name K ev)) evs = true ->
  forall w, snd (run_event c (run_events c e evs) (Ev s (AAssign K ex define))) = Ok w -> w = v.
Proof. exact constant_assign_refused_or_same. Qed.
(* K++ K-- ++K --K (any non-zero step) never succeed, whatever K holds *)
Theorem C19_increment_fails : forall c : ccfg, ccow c = true -> strict_eq c = true -> fn_env c = true ->
  forall (K : name) (v : cval) (evs : list event) (e : env) (s : scope) (delta : Z) (pre : bool),
  constant_name K = true -> root_wf e -> root_value e K = Some v ->
  forallb (fun ev => negb (event_deletes_name K ev)) evs = true ->
  delta <> 0%Z ->
  forall w, snd (run_event c (run_events c e evs) (Ev s (AIncr K delta pre))) <> Ok w.
Proof. exact constant_incr_fails. Qed.
(* "the outcome is the same with registers enabled and disabled": any two configurations of the repaired code (use_reg and
   const_test are free in both) run the same history; the constant is bound to the same value and reads the same from
   every scope *)
Theorem C19_register_independent : forall c1 c2 : ccfg,
  ccow c1 = true -> strict_eq c1 = true -> fn_env c1 = true ->
  ccow c2 = true -> strict_eq c2 = true -> fn_env c2 = true ->
  forall (K : name) (v : cval) (evs : list event) (e : env),
  constant_name K = true -> root_wf e -> root_value e K = Some v ->
  forallb (fun ev => negb (event_deletes_name K ev)) evs = true ->
  root_value (run_events c1 e evs) K = root_value (run_events c2 e evs) K /\
  forall s : scope, snd (run_event c1 (run_events c1 e evs) (Ev s (ARead K))) =
                    snd (run_event c2 (run_events c2 e evs) (Ev s (ARead K))).
Proof. exact constant_register_independent. Qed.
(* ---- the pinned code is refuted: in-place writes on large containers, the register fast paths, and the
   same-value test by == *)
Definition K_A : name := [65]%N.                  (* "A"  *)
Definition K_PI : name := [80; 73]%N.             (* "PI" *)
Definition n_b : name := [98]%N.                  (* "b"  *)
Definition xi (z : Z) : cval := XNum (NInt z).
Definition ki (z : Z) : key := KNum (NInt z).
Definition arr9 : cval := XArr (map xi [1;2;3;4;5;6;7;8;9]%Z).
Definition map5 : cval := XMap [(ki 1, xi 1); (ki 2, xi 2); (ki 3, xi 3); (ki 4, xi 4); (ki 5, xi 5)]%Z.
Definition arr3 : cval := XArr [xi 1; xi 2; xi 3].
Definition arr3f : cval := XArr [XNum (NFlt 4); xi 2; xi 3].   (* [1.0,2,3] *)

(* A=[1..9]; A[0]=5 changes A; a big-map constant is changed by M[1]=7 and del(M[2]) *)
Example C19_refuted_pinned_containers :
  let e0 := root_env [(K_A, arr9)] in
  let e1 := run_events (pinned_ccfg true) e0 [Ev STop (AIdxSet K_A (ki 0) (xi 5))] in
  let m0 := root_env [(K_A, map5)] in
  let m1 := run_events (pinned_ccfg false) m0 [Ev SFn (AIdxSet K_A (ki 1) (xi 7)); Ev STop (ADelElem K_A (ki 2))] in
  constant_name K_A = true /\
  root_value e1 K_A = Some (XArr (map xi [5;2;3;4;5;6;7;8;9]%Z)) /\
  root_value m1 K_A = Some (XMap [(ki 1, xi 7); (ki 3, xi 3); (ki 4, xi 4); (ki 5, xi 5)]%Z).
Proof. vm_compute. repeat split. Qed.

(* func f(PI){PI}; f(3) and for PI=0:3{PI} with registers on *)
Example C19_refuted_pinned_registers :
  let e0 := root_env [(K_PI, XNum (NFlt 13))] in
  constant_name K_PI = true /\
  snd (run_event (pinned_ccfg true) e0 (Ev STop (ACall K_PI (xi 3)))) = Ok (xi 3) /\
  snd (run_event (pinned_ccfg true) e0 (Ev SFn (AForInt K_PI 0 3))) = Ok (xi 2) /\
  snd (run_event (pinned_ccfg false) e0 (Ev STop (ACall K_PI (xi 3)))) = Err.
Proof. vm_compute. repeat split. Qed.

(* A=[1,2,3]; A=[1.0,2,3] is accepted by the == test and A[0] becomes a float; so are A[0]=1.0, K={1:5};K={1.0:5}
   and Z=0.0;Z=-0.0 - while the scalar N=1;N=1.0 was already refused.  Only the same-value test is the pinned one here *)
Example C19_refuted_pinned_equals :
  let c := mkccfg true true true false true in
  let e0 := root_env [(K_A, arr3)] in
  let k0 := root_env [(K_A, XMap [(ki 1, xi 5)])] in
  let z0 := root_env [(K_A, XNum (NFlt 0))] in
  let n0 := root_env [(K_A, xi 1)] in
  root_value (run_events c e0 [Ev STop (AAssign K_A (ELit arr3f) false)]) K_A = Some arr3f /\
  root_value (run_events c e0 [Ev SLoop (AIdxSet K_A (ki 0) (XNum (NFlt 4)))]) K_A = Some arr3f /\
  root_value (run_events c k0 [Ev STop (AAssign K_A (ELit (XMap [(KNum (NFlt 4), xi 5)])) true)]) K_A = Some (XMap [(KNum (NFlt 4), xi 5)]) /\
  root_value (run_events c z0 [Ev STop (AAssign K_A (ELit (XNum NNegZero)) false)]) K_A = Some (XNum NNegZero) /\
  snd (run_event c n0 (Ev STop (AAssign K_A (ELit (XNum (NFlt 4))) false))) = Err.
Proof. vm_compute. repeat split. Qed.

(* ---- non-vacuity: the repaired code on the same inputs, both register modes; hypotheses are satisfiable;
   writes through aliases of the constant's value (by assignment, slice, parameter) leave it alone *)
Example C19_ex_fixed :
  let e0 := root_env [(K_A, arr9); (K_PI, XNum (NFlt 13))] in
  let evs := [Ev STop (AIdxSet K_A (ki 0) (xi 5)); Ev SFn (AAssign K_PI (ELit (xi 3)) false); Ev SLoop (AIncr K_PI 1 false);
              Ev SFn2 (ADelElem K_A (ki 2)); Ev STop (ACall K_PI (xi 3)); Ev STop (AForInt K_PI 0 3);
              Ev STop (AAssign n_b (EName K_A) false); Ev SFn (AIdxSet n_b (ki 3) (xi 99));
              Ev STop (AAssign n_b (ESlice K_A 0 9) false); Ev STop (AIdxSet n_b (ki 0) (xi 98));
              Ev STop (AAssign n_b (ECallSet K_A (ki 1) (xi 97)) false);
              Ev STop (AAssign K_A (ELit (XArr (XNum (NFlt 4) :: map xi [2;3;4;5;6;7;8;9]%Z))) false)] in
  root_wf e0 /\ ccow (repo_ccfg true) = true /\ const_test (repo_ccfg false) = true /\ strict_eq (repo_ccfg true) = true /\
  fn_env (repo_ccfg false) = true /\
  forallb (fun ev => negb (event_deletes_name K_A ev)) evs = true /\
  root_value (run_events (repo_ccfg true) e0 evs) K_A = Some arr9 /\
  root_value (run_events (repo_ccfg false) e0 evs) K_PI = Some (XNum (NFlt 13)) /\
  root_value (run_events (repo_ccfg false) e0 evs) n_b = Some (XArr (map xi [1;97;3;4;5;6;7;8;9]%Z)) /\
  snd (run_event (repo_ccfg true) e0 (Ev STop (ACall K_PI (xi 3)))) = Err /\
  snd (run_event (repo_ccfg true) e0 (Ev STop (AForInt K_PI 0 3))) = Ok (XNum (NFlt 13)) /\
  snd (run_event (repo_ccfg true) e0 (Ev STop (AIdxSet K_A (ki 0) (xi 1)))) = Ok (xi 1).
Proof.
  split.
  { eexists. split; [reflexivity|]. intros n up m H. simpl in H. destruct H as [H|[H|[]]]; discriminate. }
  vm_compute. repeat split.
Qed.

(* a constant bound in function scope and captured by a closure keeps being read by it whatever is later bound to the
   same name at top level or in another function; and a new value computed from the constant itself is refused *)
Definition n_g : name := [103]%N.                 (* "g" *)
Definition n_x : name := [120]%N.                 (* "x" *)
Example C19_ex_closure_computed :
  let c := repo_ccfg true in
  let evs := [Ev STop (AAssign n_g (EMkClo 1 K_A arr3) false); Ev STop (AAssign K_A (ELit (xi 2)) false);
              Ev SFn (AAssign K_A (ELit (xi 3)) false); Ev STop (AAssign n_x (ECallClo n_g) false)] in
  let e1 := run_events c (root_env []) evs in
  root_value e1 n_x = Some arr3 /\ root_value e1 K_A = Some (xi 2) /\
  snd (run_event c (root_env [(K_A, arr9)]) (Ev STop (AAssign K_A (EPlus (ESlice K_A 0 8) (xi 99)) false))) = Err /\
  snd (run_event c (root_env [(K_A, arr9)]) (Ev SLoop (AAssign K_A (EPlus (ESlice K_A 0 8) (xi 9)) true))) = Ok arr9.
Proof. vm_compute. repeat split. Qed.

(* mk=func(n){func(){n}}; F=mk(1); F=mk(2): with functions compared by text only the constant F is rebound to another
   closure and F() goes from 1 to 2; with the environment in the comparison the second assignment is refused (and
   re-assigning the very same function value is still accepted) *)
Example C19_refuted_pinned_function_text :
  let pin := mkccfg true true true true false in
  let evs := [Ev STop (AAssign K_A (EMaker 1 (xi 1)) false); Ev STop (AAssign K_A (EMaker 2 (xi 2)) false);
              Ev STop (AAssign n_x (ECallClo K_A) false)] in
  root_value (run_events pin (root_env []) evs) n_x = Some (xi 2) /\
  root_value (run_events (repo_ccfg true) (root_env []) evs) n_x = Some (xi 1) /\
  snd (run_event (repo_ccfg true) (root_env [(K_A, XCloLocal 0 1 maker_param (xi 1))]) (Ev SFn (AAssign K_A (EMaker 2 (xi 1)) true))) = Err /\
  snd (run_event (repo_ccfg true) (root_env [(K_A, XCloLocal 0 1 maker_param (xi 1)); (n_g, XCloLocal 0 1 maker_param (xi 1))])
                 (Ev STop (AAssign K_A (EName n_g) false))) = Ok (XCloLocal 0 1 maker_param (xi 1)).
Proof. vm_compute. repeat split. Qed.

(* closures that escaped their maker and WRITE to its constant-named parameter (=, :=, a parameter / loop variable of the
   same name, index assignment) fail or leave it alone; the reader closure over the same binding still returns it *)
Definition n_w : name := [119]%N.                 (* "w" *)
Example C19_ex_escaped_writers :
  let c := repo_ccfg true in
  let e1 := run_events c (root_env []) [Ev STop (AAssign n_w (EMkParam 1 K_A arr3) false)] in
  snd (run_event c e1 (EvClo n_w (IAssign (xi 99) false))) = Err /\
  snd (run_event c e1 (EvClo n_w (IAssign arr3 true))) = Err /\
  snd (run_event c e1 (EvClo n_w (IParam (xi 20)))) = Err /\
  snd (run_event c e1 (EvClo n_w (ILoopInt 0 3))) = Ok arr3 /\
  snd (run_event c e1 (EvClo n_w (IIdxSet (ki 0) (xi 7)))) = Err /\
  snd (run_event c (run_events c e1 [EvClo n_w (IAssign (xi 99) false); EvClo n_w (ILoopList [xi 5])]) (EvClo n_w IRead)) = Ok arr3.
Proof. vm_compute. repeat split. Qed.

(* non-vacuity of the outcome theorems: PI=3.25 and A=[1..9]; PI++ / --PI fail in every scope; assigning another value
   fails, assigning the identical value (also computed: A[0:8]+9) succeeds and evaluates to it; registers on and off leave
   the same bindings; after del(PI) the name can be bound to something else (the exemption is real) *)
Example C19_ex_outcomes :
  let e0 := root_env [(K_A, arr9); (K_PI, XNum (NFlt 13))] in
  let on := repo_ccfg true in let off := repo_ccfg false in
  let evs := [Ev SFn (AAssign K_PI (ELit (xi 3)) false); Ev STop (AIdxSet K_A (ki 0) (xi 5)); Ev SLoop (AIncr K_PI 1 false)] in
  snd (run_event on e0 (Ev STop (AIncr K_PI 1 false))) = Err /\
  snd (run_event off e0 (Ev SFn (AIncr K_PI (-1) true))) = Err /\
  snd (run_event on e0 (Ev SLoop (AIncr K_PI 1 true))) = Err /\
  snd (run_event on e0 (Ev SFn2 (AAssign K_PI (ELit (xi 3)) true))) = Err /\
  snd (run_event on e0 (Ev STop (AAssign K_PI (ELit (XNum (NFlt 13))) false))) = Ok (XNum (NFlt 13)) /\
  snd (run_event off e0 (Ev SLoop (AAssign K_A (EPlus (ESlice K_A 0 8) (xi 9)) false))) = Ok arr9 /\
  snd (run_event off e0 (Ev STop (AAssign K_A (EPlus (ESlice K_A 0 8) (xi 10)) false))) = Err /\
  root_value (run_events on e0 evs) K_PI = root_value (run_events off e0 evs) K_PI /\
  root_value (run_events on e0 evs) K_A = Some arr9 /\ root_value (run_events off e0 evs) K_A = Some arr9 /\
  root_value (run_events on e0 [Ev STop (ADelete K_PI); Ev STop (AAssign K_PI (ELit (xi 3)) false)]) K_PI = Some (xi 3).
Proof. vm_compute. repeat split. Qed.
Print Assumptions C19_constant_stable.
Print Assumptions C19_lookup_stable.
Print Assumptions C19_not_shadowed.
Print Assumptions C19_assignment_refused_or_same.
Print Assumptions C19_increment_fails.
Print Assumptions C19_register_independent.
