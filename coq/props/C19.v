(* C19 - constants cannot be changed by any path.
   Only the property theorems (each closed by [exact] of a lemma of proofs/ConstEnv_proofs.v), the refutation of
   the pinned (pre-repair) paths, non-vacuity examples and [Print Assumptions].

   [run_events c e evs]  the top-level environment after the mutation attempts evs (each made at top level, inside a
                         function, two functions deep, or inside a loop) from environment e;
   [root_value e K]      what K is bound to at top level;   [event_deletes_name K ev]: ev is an explicit del(K);
   [c]                   use_reg c: registers on/off (both are covered: c is universally quantified);
                         const_test c: the register paths test Constant(name) (repair 8c21b75);
                         ccow c: containers are copied before a write (repairs cec7cc4, 29e3f5f). *)
From Coq Require Import List ZArith NArith.
From GrolModel Require Import Containers ConstEnv.
From GrolProofs Require Import ConstEnv_proofs.
Import ListNotations.

(* for every sequence of attempts of every kind, in every scope, with registers on or off: a constant-named
   top-level binding keeps its value (object.Equals is equality on the modelled values) unless the sequence
   contains an explicit del of that name *)
Theorem C19_constant_stable : forall c : ccfg, ccow c = true ->
  forall (K : name) (v : cval) (evs : list event) (e : env),
  constant_name K = true -> root_wf e -> root_value e K = Some v ->
  forallb (fun ev => negb (event_deletes_name K ev)) evs = true ->
  root_value (run_events c e evs) K = Some v.
Proof. exact constant_stable. Qed.

(* and the NAME keeps evaluating to that value from every scope *)
Theorem C19_lookup_stable : forall c : ccfg, ccow c = true ->
  forall (K : name) (v : cval) (evs : list event) (e : env) (s : scope),
  constant_name K = true -> root_wf e -> root_value e K = Some v ->
  forallb (fun ev => negb (event_deletes_name K ev)) evs = true ->
  snd (run_event c (run_events c e evs) (Ev s (ARead K))) = Ok v.
Proof. exact constant_read_stable. Qed.

(* used as a parameter name or as a loop variable, the name is never rebound to another value: the attempt fails,
   or the body reads the constant's value (nil = a loop with no iteration) - registers on or off *)
Theorem C19_not_shadowed : forall c : ccfg, const_test c = true -> ccow c = true ->
  forall (K : name) (v : cval) (evs : list event) (e : env) (s : scope) (a : attempt),
  constant_name K = true -> root_wf e -> root_value e K = Some v ->
  forallb (fun ev => negb (event_deletes_name K ev)) evs = true ->
  shadowing K a ->
  let r := snd (run_event c (run_events c e evs) (Ev s a)) in r = Err \/ r = Ok v \/ r = Ok (CV PNil).
Proof. exact constant_not_shadowed. Qed.

(* ---- the pinned code is refuted: in-place writes on large containers, and the register fast paths *)
Definition nm (s : list N) : name := s.
Definition K_A : name := [65]%N.                  (* "A"  *)
Definition K_PI : name := [80; 73]%N.             (* "PI" *)
Definition arr9 : pval := PArr (map PInt [1;2;3;4;5;6;7;8;9]%Z).
Definition map5 : pval := PMap [(1, PInt 1); (2, PInt 2); (3, PInt 3); (4, PInt 4); (5, PInt 5)]%Z.

(* A=[1..9]; A[0]=5 changes A; a big-map constant is changed by M[1]=7 and del(M[1]) *)
Example C19_refuted_pinned_containers :
  let e0 := root_env [(K_A, CV arr9)] in
  let e1 := run_events (pinned_ccfg true) e0 [Ev STop (AIdxSet K_A 0 (PInt 5))] in
  let m0 := root_env [(K_A, CV map5)] in
  let m1 := run_events (pinned_ccfg false) m0 [Ev SFn (AIdxSet K_A 1 (PInt 7)); Ev STop (ADelElem K_A 2)] in
  constant_name K_A = true /\
  root_value e1 K_A = Some (CV (PArr (map PInt [5;2;3;4;5;6;7;8;9]%Z))) /\
  root_value m1 K_A = Some (CV (PMap [(1, PInt 7); (3, PInt 3); (4, PInt 4); (5, PInt 5)]%Z)).
Proof. vm_compute. repeat split. Qed.

(* func f(PI){PI}; f(3) and for PI=0:3{PI} with registers on *)
Example C19_refuted_pinned_registers :
  let e0 := root_env [(K_PI, CFlt 13)] in
  constant_name K_PI = true /\
  snd (run_event (pinned_ccfg true) e0 (Ev STop (ACall K_PI (CV (PInt 3))))) = Ok (CV (PInt 3)) /\
  snd (run_event (pinned_ccfg true) e0 (Ev SFn (AForInt K_PI 0 3))) = Ok (CV (PInt 2)) /\
  snd (run_event (pinned_ccfg false) e0 (Ev STop (ACall K_PI (CV (PInt 3))))) = Err.
Proof. vm_compute. repeat split. Qed.

(* ---- non-vacuity: the repaired code on the same inputs, both register modes; hypotheses are satisfiable *)
Example C19_ex_fixed :
  let e0 := root_env [(K_A, CV arr9); (K_PI, CFlt 13)] in
  let evs := [Ev STop (AIdxSet K_A 0 (PInt 5)); Ev SFn (AAssign K_PI (CV (PInt 3)) false); Ev SLoop (AIncr K_PI 1 false);
              Ev SFn2 (ADelElem K_A 2); Ev STop (ACall K_PI (CV (PInt 3))); Ev STop (AForInt K_PI 0 3)] in
  root_wf e0 /\ ccow (repo_ccfg true) = true /\ const_test (repo_ccfg false) = true /\
  forallb (fun ev => negb (event_deletes_name K_A ev)) evs = true /\
  root_value (run_events (repo_ccfg true) e0 evs) K_A = Some (CV arr9) /\
  root_value (run_events (repo_ccfg false) e0 evs) K_PI = Some (CFlt 13) /\
  snd (run_event (repo_ccfg true) e0 (Ev STop (ACall K_PI (CV (PInt 3))))) = Err /\
  snd (run_event (repo_ccfg true) e0 (Ev STop (AForInt K_PI 0 3))) = Ok (CFlt 13) /\
  snd (run_event (repo_ccfg true) e0 (Ev STop (AIdxSet K_A 0 (PInt 1)))) = Ok (CV (PInt 1)).
Proof.
  split.
  { eexists. split; [reflexivity|]. intros n up m H. simpl in H. destruct H as [H|[H|[]]]; discriminate. }
  vm_compute. repeat split.
Qed.

Print Assumptions C19_constant_stable.
Print Assumptions C19_lookup_stable.
Print Assumptions C19_not_shadowed.
