(* C06 - arrays and maps are values: no aliasing, at any size.
   Only the property theorems (each closed by [exact] of a lemma of proofs/Containers_proofs.v), the refutation
   of the pinned (pre-repair) step function, non-vacuity examples and [Print Assumptions].

   [run c o ops]    the container machine (heap of Go backing arrays, small/large representations, thresholds
                    msa c / msm c, capacity oracle o) after the statements ops, from the empty state;
   [run_pure ops]   the same statements on immutable lists / finite maps in a binding store: no heap, no thresholds;
   [reads c st y p] binding y of state st evaluates to the pure value p;
   [cow c = true]   the code after the repairs (clone before write, clipped append); [good o]: the oracle
                    returns at least the requested capacity (what Go's growslice guarantees). *)
From Coq Require Import List ZArith.
From GrolModel Require Import Containers.
From GrolProofs Require Import Containers_proofs Containers_outcomes.
Import ListNotations.

(* after ANY sequence of statements, with ANY thresholds and ANY capacity oracle, a statement leaves what every
   binding it does not write evaluates to unchanged (op_writes: the assigned name; for a loop the loop variable
   and the names assigned in the body; for a call the result, the parameter and the outer names assigned in the body) *)
Theorem C06_no_aliasing : forall (c : cfg) (o : oracle), cow c = true -> good o ->
  forall (ops : list op) (op : op) (y : var), ~ In y (op_writes op) ->
  let st := run c o ops in
  let st' := fst (op_step c o st op) in
  forall p, reads c st y p -> reads c st' y p.
Proof. exact step_frame. Qed.

(* a binding has at most one reading, so "unchanged" above is equality of the value *)
Theorem C06_reading_unique : forall c st y p p', reads c st y p -> reads c st y p' -> p = p'.
Proof. exact reads_fun. Qed.

(* z = x + y leaves x and y unchanged *)
Theorem C06_plus_preserves_operands : forall (c : cfg) (o : oracle), cow c = true -> good o ->
  forall (ops : list op) (x y z : var), z <> x -> z <> y ->
  let st := run c o ops in
  let st' := fst (op_step c o st (OPrim (PPlus z x (EVar y)))) in
  forall p, (reads c st x p -> reads c st' x p) /\ (reads c st y p -> reads c st' y p).
Proof. exact plus_frame. Qed.

(* the heap model refines the threshold-free pure model: after any statements every binding of the machine
   abstracts to the binding of the pure run (same names, in the same order) - whatever the thresholds and capacities *)
Theorem C06_size_independent : forall (c : cfg) (o : oracle), cow c = true -> good o ->
  forall ops : list op, AbsState c (run c o ops) (run_pure ops).
Proof. exact refinement. Qed.

(* the same, per binding and as an equivalence *)
Theorem C06_reads_pure : forall (c : cfg) (o : oracle), cow c = true -> good o ->
  forall (ops : list op) (y : var) (p : pval),
  reads c (run c o ops) y p <-> lookup (run_pure ops) y = Some p.
Proof. exact reads_pure. Qed.

(* and for the executable reader used by the driver: whatever it returns is the pure run *)
Theorem C06_size_independent_exec : forall (c : cfg) (o : oracle), cow c = true -> good o ->
  forall (ops : list op) (fuel : nat) (ps : list (var * pval)),
  let st := run c o ops in
  read_store fuel (sheap st) (sstore st) = Some ps -> ps = run_pure ops.
Proof. exact refinement_exec. Qed.

(* ---- "a program's meaning never depends on how many elements a container happens to hold", made explicit.
   The OUTCOME of every statement after any history - the value it evaluates to, an error, a stop outside the model's
   domain - is the outcome of the pure model (OutcomeAbs: the value abstracts to the pure value / same boolean / same kind
   of failure), and the state it leaves is the pure state *)
Theorem C06_outcome_pure : forall (c : cfg) (o : oracle), cow c = true -> good o ->
  forall (ops : list op) (op : op),
  let r := op_step c o (run c o ops) op in
  let pr := p_op_step (run_pure ops) op in
  OutcomeAbs c (sheap (fst r)) (snd r) (snd pr) /\ AbsState c (fst r) (fst pr).
Proof. exact outcome_pure. Qed.
(* two machines with ANY two pairs of thresholds and ANY two capacity oracles, same statements: every binding has the
   same readings ... *)
Theorem C06_threshold_independent : forall (c1 : cfg) (o1 : oracle) (c2 : cfg) (o2 : oracle),
  cow c1 = true -> good o1 -> cow c2 = true -> good o2 ->
  forall (ops : list op) (y : var) (p : pval),
  reads c1 (run c1 o1 ops) y p <-> reads c2 (run c2 o2 ops) y p.
Proof. exact threshold_independent_reads. Qed.
(* ... the next statement has the same outcome in both (one pure outcome q, and no other, describes both) ... *)
Theorem C06_threshold_independent_outcome : forall (c1 : cfg) (o1 : oracle) (c2 : cfg) (o2 : oracle),
  cow c1 = true -> good o1 -> cow c2 = true -> good o2 ->
  forall (ops : list op) (op : op),
  let r1 := op_step c1 o1 (run c1 o1 ops) op in
  let r2 := op_step c2 o2 (run c2 o2 ops) op in
  exists q : pstatus, OutcomeAbs c1 (sheap (fst r1)) (snd r1) q /\ OutcomeAbs c2 (sheap (fst r2)) (snd r2) q /\
    forall q', (OutcomeAbs c1 (sheap (fst r1)) (snd r1) q' \/ OutcomeAbs c2 (sheap (fst r2)) (snd r2) q') -> q' = q.
Proof. exact threshold_independent_outcome. Qed.
(* ... and in particular it fails in one exactly when it fails in the other *)
Theorem C06_threshold_independent_failure : forall (c1 : cfg) (o1 : oracle) (c2 : cfg) (o2 : oracle),
  cow c1 = true -> good o1 -> cow c2 = true -> good o2 ->
  forall (ops : list op) (op : op),
  status_kind (snd (op_step c1 o1 (run c1 o1 ops) op)) = status_kind (snd (op_step c2 o2 (run c2 o2 ops) op)).
Proof. exact threshold_independent_failure. Qed.
(* ---- the pinned code (cow = false: no clone before write, no clipped append) aliases: three witnesses *)
Definition exact_oracle : oracle := fun _ _ n => n.
Definition slack_oracle : oracle := fun _ _ n => n + 3.
Definition ilist (l : list Z) : list elem := map EInt l.
Definition plist (l : list Z) : pval := PArr (map PInt l).
Definition reading (st : state) (y : var) : option pval :=
  match lookup (sstore st) y with Some v => read 4 (sheap st) v | None => None end.

(* a=[1..10]; b=a; b[0]=99 changes a *)
Example C06_refuted_pinned :
  let ops := [OPrim (PArrLit 0 (ilist [1;2;3;4;5;6;7;8;9;10]%Z)); OPrim (PCopy 1 0)] in
  let op := OPrim (PIdxSet 1 0 (EInt 99)) in
  let st := run pinned_cfg exact_oracle ops in
  let st' := fst (op_step pinned_cfg exact_oracle st op) in
  ~ In 0 (op_writes op) /\
  reading st 0 = Some (plist [1;2;3;4;5;6;7;8;9;10]%Z) /\
  reading st' 0 = Some (plist [99;2;3;4;5;6;7;8;9;10]%Z).
Proof. vm_compute. repeat split. intros [H|[]]; discriminate. Qed.

(* a=[1..9]; b=a+10; x=b+11; y=b+12 changes x (append into shared spare capacity) *)
Example C06_refuted_pinned_append :
  let ops := [OPrim (PArrLit 0 (ilist [1;2;3;4;5;6;7;8;9]%Z)); OPrim (PPlus 1 0 (EInt 10)); OPrim (PPlus 2 1 (EInt 11))] in
  let op := OPrim (PPlus 3 1 (EInt 12)) in
  let st := run pinned_cfg slack_oracle ops in
  let st' := fst (op_step pinned_cfg slack_oracle st op) in
  ~ In 2 (op_writes op) /\
  reading st 2 = Some (plist [1;2;3;4;5;6;7;8;9;10;11]%Z) /\
  reading st' 2 = Some (plist [1;2;3;4;5;6;7;8;9;10;12]%Z).
Proof. vm_compute. repeat split. intros [H|[]]; discriminate. Qed.

(* m={1:1..5:5}; n=m; del(n[2]) changes m, and so does a callee doing p[1]=42 *)
Example C06_refuted_pinned_map :
  let m5 := [(1, EInt 1); (2, EInt 2); (3, EInt 3); (4, EInt 4); (5, EInt 5)]%Z in
  let ops := [OPrim (PMapLit 0 m5); OPrim (PCopy 1 0)] in
  let st := run pinned_cfg exact_oracle ops in
  let st1 := fst (op_step pinned_cfg exact_oracle st (OPrim (PDel 1 2))) in
  let st2 := fst (op_step pinned_cfg exact_oracle st (OCall 2 1 [PIdxSet param_var 1 (EInt 42)])) in
  reading st 0 = Some (PMap [(1, PInt 1); (2, PInt 2); (3, PInt 3); (4, PInt 4); (5, PInt 5)]%Z) /\
  reading st1 0 = Some (PMap [(1, PInt 1); (3, PInt 3); (4, PInt 4); (5, PInt 5)]%Z) /\
  reading st2 0 = Some (PMap [(1, PInt 42); (2, PInt 2); (3, PInt 3); (4, PInt 4); (5, PInt 5)]%Z).
Proof. vm_compute. repeat split. Qed.

(* ---- non-vacuity: the repaired code on the same inputs (thresholds of /repo): a 10-element array bound twice,
   index-assigned through one binding; both readings, and they are the pure run *)
Example C06_ex_fixed :
  let ops := [OPrim (PArrLit 0 (ilist [1;2;3;4;5;6;7;8;9;10]%Z)); OPrim (PCopy 1 0); OPrim (PIdxSet 1 0 (EInt 99))] in
  let st := run repo_cfg slack_oracle ops in
  cow repo_cfg = true /\ good slack_oracle /\
  reading st 0 = Some (plist [1;2;3;4;5;6;7;8;9;10]%Z) /\
  reading st 1 = Some (plist [99;2;3;4;5;6;7;8;9;10]%Z) /\
  read_store 4 (sheap st) (sstore st) = Some (run_pure ops).
Proof.
  split; [reflexivity|]. split; [intros kv c n; unfold slack_oracle; apply Nat.le_add_r|].
  vm_compute. repeat split.
Qed.

(* non-vacuity of the threshold-independence theorems: thresholds 8/4 with slack capacities against thresholds 2/1 with
   exact capacities (there every container below is "large"): the same readings after copy / write / append / del, an
   out-of-bounds index assignment fails in both, a get evaluates to the same value in both *)
Example C06_ex_thresholds :
  let tiny := mkcfg 2 1 true in
  let m3 := [(1, EInt 1); (2, EInt 2); (3, EInt 3)]%Z in
  let ops := [OPrim (PArrLit 0 (ilist [1;2;3;4;5]%Z)); OPrim (PCopy 1 0); OPrim (PIdxSet 1 0 (EInt 99));
              OPrim (PPlus 2 0 (EInt 6)); OPrim (PMapLit 3 m3); OPrim (PCopy 4 3); OPrim (PDel 4 2)] in
  let s1 := run repo_cfg slack_oracle ops in
  let s2 := run tiny exact_oracle ops in
  cow tiny = true /\ good exact_oracle /\
  reading s1 0 = Some (plist [1;2;3;4;5]%Z) /\ reading s2 0 = Some (plist [1;2;3;4;5]%Z) /\
  reading s1 1 = Some (plist [99;2;3;4;5]%Z) /\ reading s2 1 = Some (plist [99;2;3;4;5]%Z) /\
  reading s1 3 = reading s2 3 /\ reading s1 4 = Some (PMap [(1, PInt 1); (3, PInt 3)]%Z) /\ reading s2 4 = reading s1 4 /\
  snd (op_step repo_cfg slack_oracle s1 (OPrim (PIdxSet 0 7 (EInt 1)))) = Failed /\
  snd (op_step tiny exact_oracle s2 (OPrim (PIdxSet 0 7 (EInt 1)))) = Failed /\
  snd (op_step repo_cfg slack_oracle s1 (OPrim (PGet 5 0 1))) = Done (RV (VInt 2)) /\
  snd (op_step tiny exact_oracle s2 (OPrim (PGet 5 0 1))) = Done (RV (VInt 2)).
Proof.
  split; [reflexivity|]. split; [intros kv c n; unfold exact_oracle; apply Nat.le_refl|].
  vm_compute. repeat split.
Qed.
Print Assumptions C06_no_aliasing.
Print Assumptions C06_reading_unique.
Print Assumptions C06_plus_preserves_operands.
Print Assumptions C06_size_independent.
Print Assumptions C06_reads_pure.
Print Assumptions C06_size_independent_exec.
Print Assumptions C06_outcome_pure.
Print Assumptions C06_threshold_independent.
Print Assumptions C06_threshold_independent_outcome.
Print Assumptions C06_threshold_independent_failure.
