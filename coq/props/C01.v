(* C01 - evaluation agrees with the language's reference semantics.
   The reference evaluator IS this Coq development (model/RefValues.v, model/RefEval.v).  The statement
   "implementation = reference on every program" is a statement about Go code and is NOT a Coq theorem:
   it is decided, on every run, by the differential correspondence between the extracted reference and the
   real parser + evaluator (harness/cmd/C01).  What is proved here is that the reference is a coherent
   semantics - a legitimate oracle and not a second program of unknown meaning.
   This file holds only the property theorems (each closed by [exact] of a lemma of
   proofs/RefEval_proofs.v), non-vacuity examples and [Print Assumptions]. *)
From Coq Require Import List ZArith NArith Bool.
From GrolGen Require Import Gen_Consts Gen_Prec.
From GrolModel Require Import Ast RefValues RefEval.
From GrolProofs Require Import RefEval_proofs RefEval_frame.
Import ListNotations.
Open Scope Z_scope.

(* the semantics is a partial function independent of the fuel: an answer other than "out of fuel" obtained
   with fuel n is the answer with every larger fuel (all node kinds, all loop forms, calls, closures) *)
Theorem C01_eval_fuel_monotone : forall (n n' : nat) (t : task) (st st' : state) (o : outcome),
  run n t st = (o, st') -> o <> OAbort AFuel -> (n <= n')%nat -> run n' t st = (o, st').
Proof. exact eval_fuel_monotone. Qed.

Theorem C01_eval_fuel_independent : forall (n m : nat) (t : task) (st s1 s2 : state) (o1 o2 : outcome),
  run n t st = (o1, s1) -> run m t st = (o2, s2) ->
  o1 <> OAbort AFuel -> o2 <> OAbort AFuel -> o1 = o2 /\ s1 = s2.
Proof. exact eval_fuel_independent. Qed.

Theorem C01_program_fuel_monotone : forall (n n' : nat) (p : node) (o : outcome) (st : state),
  eval_program n p = (o, st) -> o <> OAbort AFuel -> (n <= n')%nat -> eval_program n' p = (o, st).
Proof. exact program_fuel_monotone. Qed.

(* integers: every operator is the mathematical operator followed by wrap64; / and % truncate towards zero,
   a zero divisor and a negative shift count are language errors, shifts by 64 or more give 0 *)
Theorem C01_int_ops_wrap : forall a b : Z,
  int_add a b = wrap64 (a + b) /\
  int_sub a b = wrap64 (a - b) /\
  int_mul a b = wrap64 (a * b) /\
  int_neg a = wrap64 (- a) /\
  (b <> 0 -> int_div a b = Some (wrap64 (Z.quot a b))) /\
  (b <> 0 -> int_mod a b = Some (wrap64 (Z.rem a b))) /\
  int_div a 0 = None /\ int_mod a 0 = None /\
  (0 <= b < 64 -> int_shl a b = Some (wrap64 (a * 2 ^ b))) /\
  (64 <= b -> int_shl a b = Some 0 /\ int_shr a b = Some 0) /\
  (b < 0 -> int_shl a b = None /\ int_shr a b = None) /\
  (0 <= b < 64 -> int_shr a b = Some (wrap64 (uimage a / 2 ^ b))).
Proof. exact int_ops_wrap. Qed.

Theorem C01_wrap64_spec : forall z, in_int64 (wrap64 z) /\ (wrap64 z - z) mod two64 = 0 /\ (in_int64 z -> wrap64 z = z).
Proof. intros z; split; [apply wrap64_range|split; [apply wrap64_congr|apply wrap64_id]]. Qed.

(* indices: position len+i for a negative index, nothing outside -len .. len-1, at every length *)
Theorem C01_index_neg : forall (A : Type) (l : list A) (i : Z),
  let len := Z.of_nat (length l) in
  (0 <= i < len -> seq_index l i = nth_error l (Z.to_nat i)) /\
  (- len <= i < 0 -> seq_index l i = nth_error l (Z.to_nat (len + i))) /\
  (i < - len \/ len <= i -> seq_index l i = None).
Proof. exact index_neg. Qed.

(* slices: firstn o skipn on normalised bounds; no size thresholds anywhere in the reference *)
Theorem C01_slice_spec : forall (A : Type) (xs : list A) (l r : Z),
  let len := Z.of_nat (length xs) in
  (0 <= l <= r /\ r <= len ->
     seq_slice xs l (Some r) = Some (firstn (Z.to_nat (r - l)) (skipn (Z.to_nat l) xs))) /\
  (0 <= l <= len -> seq_slice xs l None = Some (skipn (Z.to_nat l) xs)) /\
  (- len <= l < 0 -> seq_slice xs l (Some r) = seq_slice xs (len + l) (Some r)
                     /\ seq_slice xs l None = seq_slice xs (len + l) None) /\
  (- len <= r < 0 -> 0 <= l -> seq_slice xs l (Some r) = seq_slice xs l (Some (len + r))) /\
  (0 <= l -> 0 <= r -> r < l -> seq_slice xs l (Some r) = None) /\
  (0 <= l <= r -> l <= len -> len < r -> seq_slice xs l (Some r) = seq_slice xs l None).
Proof. exact slice_spec. Qed.

(* short circuit: when the left operand decides, the result state is exactly the state after the left
   operand - the right operand printed nothing and wrote no store (it was not evaluated) *)
Theorem C01_shortcircuit_and : forall (f : nat) (l r : node) (lit : bytes) (st st' : state),
  run f (TNode l) st = (OVal (VBool false), st') ->
  run (S f) (TNode (NInfix (mkTok token_AND lit) (Some l) (Some r))) st = (OVal (VBool false), st').
Proof. exact shortcircuit_and. Qed.

Theorem C01_shortcircuit_or : forall (f : nat) (l r : node) (lit : bytes) (st st' : state),
  run f (TNode l) st = (OVal (VBool true), st') ->
  run (S f) (TNode (NInfix (mkTok token_OR lit) (Some l) (Some r))) st = (OVal (VBool true), st').
Proof. exact shortcircuit_or. Qed.

(* := (and parameter binding) never writes an outer store *)
Theorem C01_define_is_local : forall (n : bytes) (v : value) (st : state) (o : outcome) (st' : state),
  create_or_set n v true st = (o, st') ->
  (forall k, k <> cur st -> nth_error (heap st') k = nth_error (heap st) k)
  /\ out st' = out st /\ cur st' = cur st
  /\ (o = OVal v -> forall e, nth_error (heap st) (cur st) = Some e ->
        exists e', nth_error (heap st') (cur st) = Some e' /\ store_get (estore e') n = Some v).
Proof. exact define_is_local. Qed.

(* = to a name whose nearest binding is in an outer frame k writes exactly that binding *)
Theorem C01_assign_through : forall (n : bytes) (v : value) (st : state) (k : nat),
  is_constant n = false ->
  find_env (S (length (heap st))) (heap st) (cur st) n = LFound k ->
  k <> cur st ->
  exists st', create_or_set n v false st = (OVal v, st')
    /\ (forall j, j <> k -> nth_error (heap st') j = nth_error (heap st) j)
    /\ (forall e, nth_error (heap st) k = Some e ->
          exists e', nth_error (heap st') k = Some e' /\ store_get (estore e') n = Some v
                     /\ eouter e' = eouter e /\ efun e' = efun e)
    /\ out st' = out st /\ cur st' = cur st.
Proof. exact assign_through. Qed.

Theorem C01_assign_creates_local : forall (n : bytes) (v : value) (st : state),
  is_constant n = false ->
  find_env (S (length (heap st))) (heap st) (cur st) n = LMissing ->
  create_or_set n v false st = (OVal v, set_define st n v).
Proof. exact assign_creates_local. Qed.

(* the precedence table the translator read from /repo on this run is, for every token type, the documented
   table the reference was written against, and the binding levels are strictly ordered (weakest first) *)
Theorem C01_prec_table_is_reference :
  (forall t : Z, prec_lookup Gen_Prec.precedences t = prec_lookup ref_prec t)
  /\ strictly_increasing ref_levels = true.
Proof. exact (conj prec_table_is_reference (proj2 prec_table_frozen)). Qed.

(* frame discipline, for EVERY task, state and amount of fuel: an evaluation that ends (value, return / break /
   continue signal or language error) is back in the frame it started in - whatever calls, closures, loops and
   errors happened inside; no environment is ever removed or re-parented (the scope chain a closure captured is
   immutable: only stores change); closure ids only grow; and the printed text is append-only *)
Theorem C01_frame_discipline : forall (n : nat) (t : task) (st st' : state) (o : outcome),
  run n t st = (o, st') ->
  (ended o -> cur st' = cur st)
  /\ (length (heap st) <= length (heap st'))%nat
  /\ (forall i e, nth_error (heap st) i = Some e ->
        exists e', nth_error (heap st') i = Some e' /\ eouter e' = eouter e /\ efun e' = efun e)
  /\ (nextfid st <= nextfid st')%nat
  /\ (exists more, printed st' = printed st ++ more).
Proof. exact frame_discipline. Qed.

Theorem C01_program_ends_at_root : forall (n : nat) (p : node) (o : outcome) (st : state),
  eval_program n p = (o, st) -> ended o -> cur st = 0%nat /\ (length (heap st) >= 1)%nat.
Proof. exact program_ends_at_root. Qed.

(* left-to-right evaluation: the right operand runs in the state the left operand left, and the operator is
   applied to the VALUE the left operand had (whatever the right operand did to the variables since) *)
Theorem C01_infix_left_to_right : forall (f : nat) (t : tok) (l r : node) (st s1 s2 : state) (a b : value),
  run f (TNode l) st = (OVal a, s1) ->
  run f (TNode r) s1 = (OVal b, s2) ->
  plain_infix t a r = true ->
  run (S f) (TNode (NInfix t (Some l) (Some r))) st = (infix_op (ttype t) a b, s2).
Proof. exact infix_left_to_right. Qed.

(* error short-circuit: an error in the left operand is the result and the right operand is not evaluated; an
   error in the right operand is the result; the first statement of a block that does not end in a plain value
   (error, return, break, continue) ends the block, otherwise the block goes on with the next statement *)
Theorem C01_infix_left_error : forall (f : nat) (t : tok) (l r : node) (st s1 : state) (e : option bytes),
  run f (TNode l) st = (OErr e, s1) ->
  (tk t token_ASSIGN || tk t token_DEFINE) = false ->
  run (S f) (TNode (NInfix t (Some l) (Some r))) st = (OErr e, s1).
Proof. exact infix_left_error. Qed.

Theorem C01_infix_right_error : forall (f : nat) (t : tok) (l r : node) (st s1 s2 : state) (a : value) (e : option bytes),
  run f (TNode l) st = (OVal a, s1) ->
  run f (TNode r) s1 = (OErr e, s2) ->
  plain_infix t a r = true ->
  run (S f) (TNode (NInfix t (Some l) (Some r))) st = (OErr e, s2).
Proof. exact infix_right_error. Qed.

Theorem C01_stmts_stop_at_first_non_value : forall (f : nat) (n : node) (rest : list (option node))
    (last : value) (st st' : state) (o : outcome),
  is_comment n = false ->
  run f (TNode n) st = (o, st') ->
  (forall v, o <> OVal v) ->
  eval_stmts (run f) (Some n :: rest) last st = (o, st').
Proof. exact stmts_stop_at_first_non_value. Qed.

Theorem C01_stmts_continue_after_value : forall (f : nat) (n : node) (rest : list (option node))
    (last v : value) (st st' : state),
  is_comment n = false ->
  run f (TNode n) st = (OVal v, st') ->
  eval_stmts (run f) (Some n :: rest) last st = eval_stmts (run f) rest v st'.
Proof. exact stmts_continue_after_value. Qed.

(* loop control, for the condition form, the counted / range forms and the list form: one execution of the body is
   followed by [after_body] - a value becomes the loop's result and the loop goes on, continue goes on with the
   result unchanged, break ends the loop with the result so far, return / error leave the loop as they are *)
Theorem C01_while_iteration : forall (f : nat) (c b : node) (last : value) (st s1 s2 : state) (ob : outcome),
  run f (TNode c) st = (OVal (VBool true), s1) ->
  run f (TNode b) s1 = (ob, s2) ->
  run (S f) (TWhile c b last) st = after_body ob last (fun x => run f (TWhile c b x)) s2.
Proof. exact while_iteration. Qed.

Theorem C01_while_exit : forall (f : nat) (c b : node) (last v : value) (st s1 : state),
  run f (TNode c) st = (OVal v, s1) -> v = VBool false \/ v = VNil ->
  run (S f) (TWhile c b last) st = (OVal last, s1).
Proof. exact while_exit. Qed.

Theorem C01_forint_iteration : forall (f : nat) (name : option bytes) (i stop : Z) (b : node) (last : value)
    (st s1 s2 : state) (ob : outcome),
  i < stop ->
  (match name with Some x => set_ignore x (VInt i) | None => retv VNil end) st = (OVal VNil, s1) ->
  run f (TNode b) s1 = (ob, s2) ->
  run (S f) (TForInt name i stop b last) st
  = after_body ob last (fun x => run f (TForInt name (i + 1) stop b x)) s2.
Proof. exact forint_iteration. Qed.

Theorem C01_forint_exit : forall (f : nat) (name : option bytes) (i stop : Z) (b : node) (last : value) (st : state),
  stop <= i -> run (S f) (TForInt name i stop b last) st = (OVal last, st).
Proof. exact forint_exit. Qed.

Theorem C01_forlist_iteration : forall (ev : task -> M) (name : bytes) (x : value) (r : list value) (b : node)
    (last : value) (st s1 s2 : state) (ob : outcome),
  set_ignore name x st = (OVal VNil, s1) ->
  ev (TNode b) s1 = (ob, s2) ->
  for_list ev name (x :: r) b last st = after_body ob last (fun v => for_list ev name r b v) s2.
Proof. exact forlist_iteration. Qed.

(* return, break and continue never cross a function boundary: the outcome of a call is a value, a language
   error or an abort, whatever the body did *)
Theorem C01_call_never_signals : forall (ev : task -> M) (fn : value) (args : list value) (st st' : state) (o : outcome),
  call_fun ev fn args st = (o, st') -> ~ is_signal o.
Proof. exact call_never_signals. Qed.

(* ---- non-vacuity: the hypotheses are satisfiable and the evaluator computes ---- *)
Definition tI (z : Z) : node := NInt (mkTok token_INT []) z.
Definition tB (b : bool) : node := NBool (mkTok (if b then token_TRUE else token_FALSE) []) b.
Definition idn (c : N) : node := NIdent (mkTok token_IDENT [c]).
Definition bin (ty : Z) (a b : node) : node := NInfix (mkTok ty []) (Some a) (Some b).
Definition pr (a : node) : node := NBuiltin (mkTok token_PRINT []) (Some [Some a]).

(* 1 + 2 * 3 = 7; min_int / -1 wraps; 1 / 0 is an error; false && print(1) prints nothing *)
Example C01_ex_eval :
  fst (eval_program 10 (NStmts [Some (bin token_PLUS (tI 1) (bin token_ASTERISK (tI 2) (tI 3)))])) = OVal (VInt 7)
  /\ fst (eval_program 10 (NStmts [Some (bin token_SLASH (tI min_int) (tI (-1)))])) = OVal (VInt min_int)
  /\ fst (eval_program 10 (NStmts [Some (bin token_SLASH (tI 1) (tI 0))])) = OErr None
  /\ eval_program 10 (NStmts [Some (bin token_AND (tB false) (pr (tI 1)))])
     = (OVal (VBool false), init_state)
  /\ printed (snd (eval_program 10 (NStmts [Some (bin token_AND (tB true) (pr (tI 1)))]))) = [49%N]
  /\ fst (eval_program 2 (NStmts [Some (bin token_PLUS (tI 1) (bin token_ASTERISK (tI 2) (tI 3)))])) = OAbort AFuel.
Proof. vm_compute. repeat split. Qed.

(* x = 1 at top level; a function frame (environment 1, parented on 0) assigning x writes environment 0,
   while x := 5 in the frame leaves environment 0 untouched *)
Example C01_ex_scoping :
  let st0 := mkState [mkEnv [([120%N], VInt 1)] None None; mkEnv [] (Some 0%nat) None] 1 [] 0 in
  find_env 3 (heap st0) 1 [120%N] = LFound 0%nat
  /\ (exists st', create_or_set [120%N] (VInt 2) false st0 = (OVal (VInt 2), st')
                  /\ nth_error (heap st') 0 = Some (mkEnv [([120%N], VInt 2)] None None)
                  /\ nth_error (heap st') 1 = Some (mkEnv [] (Some 0%nat) None))
  /\ (exists st', create_or_set [120%N] (VInt 5) true st0 = (OVal (VInt 5), st')
                  /\ nth_error (heap st') 0 = Some (mkEnv [([120%N], VInt 1)] None None)
                  /\ nth_error (heap st') 1 = Some (mkEnv [([120%N], VInt 5)] (Some 0%nat) None)).
Proof. vm_compute. repeat split; eexists; repeat split. Qed.

Example C01_ex_slices :
  seq_slice [1; 2; 3; 4; 5; 6; 7; 8; 9; 10; 11; 12] (-3) None = Some [10; 11; 12]
  /\ seq_slice [1; 2; 3] (-5) (Some 2) = Some [1; 2]
  /\ seq_slice [1; 2; 3] 2 (Some 1) = None
  /\ seq_index [1; 2; 3] (-1) = Some 3 /\ seq_index [1; 2; 3] 3 = None.
Proof. vm_compute. repeat split. Qed.

(* runes: ASCII strings are iterated bytewise; a byte that starts no valid UTF-8 sequence is one rune U+FFFD *)
Theorem C01_runes_ascii : forall s, all_ascii s = true -> runes s = map (fun c => [c]) s /\ reencode s = s.
Proof. exact runes_ascii. Qed.

Example C01_ex_runes :
  runes [97; 255; 98]%N = [[97]; [239; 191; 189]; [98]]%N
  /\ runes [226; 130; 172; 120]%N = [[226; 130; 172]; [120]]%N          (* a valid 3-byte character, then x *)
  /\ runes [226; 130; 122]%N = [[239; 191; 189]; [239; 191; 189]; [122]]%N (* truncated sequence: each byte alone *)
  /\ runes [237; 160; 128]%N = [rune_error; rune_error; rune_error]      (* a surrogate is not a rune *)
  /\ runes [192; 175]%N = [rune_error; rune_error]                       (* overlong form *)
  /\ runes [244; 144; 128; 128]%N = [rune_error; rune_error; rune_error; rune_error] (* above U+10FFFF *)
  /\ runes [240; 159; 152; 128]%N = [[240; 159; 152; 128]]%N.
Proof. vm_compute. repeat split. Qed.

(* func f(n) { n + (n = 5) }; f(1) is 6 (left operand read first), n is 5 afterwards; the call made one new
   environment (parented on the root), the program is back in frame 0 and printed "6" *)
Definition asg (a b : node) : node := NInfix (mkTok token_ASSIGN []) (Some a) (Some b).
Definition fn1 (name param : N) (body : node) : node :=
  NFunc (mkTok token_FUNC []) (Some (mkTok token_IDENT [name])) (Some [Some (idn param)]) (Some (NStmts [Some body])) false false.
Definition call1 (f : N) (a : node) : node := NCall (mkTok token_LPAREN []) (Some (idn f)) (Some [Some a]).

Example C01_ex_left_to_right_and_frames :
  let prog := NStmts [Some (fn1 102 110 (bin token_PLUS (idn 110) (asg (idn 110) (tI 5))));
                      Some (pr (call1 102 (tI 1)))] in
  let r := eval_program 20 prog in
  fst r = OVal VNil /\ printed (snd r) = [54%N] /\ cur (snd r) = 0%nat /\ length (heap (snd r)) = 2%nat
  /\ (exists e, nth_error (heap (snd r)) 1 = Some e /\ eouter e = Some 0%nat /\ store_get (estore e) [110%N] = Some (VInt 5))
  /\ plain_infix (mkTok token_PLUS []) (VInt 1) (asg (idn 110) (tI 5)) = true
  (* 1/0 + print(1): the error of the left operand is the result, nothing is printed *)
  /\ eval_program 20 (NStmts [Some (bin token_PLUS (bin token_SLASH (tI 1) (tI 0)) (pr (tI 1)))]) = (OErr None, init_state)
  (* 1/0 ; print(1): the block stops at the error *)
  /\ eval_program 20 (NStmts [Some (bin token_SLASH (tI 1) (tI 0)); Some (pr (tI 1))]) = (OErr None, init_state).
Proof. vm_compute. repeat split. eexists; repeat split. Qed.

(* for 3 { print(1); break }: one iteration, the loop's value is nil; for 2 { print(1); continue; print(2) } prints 11;
   func f(n) { for 9 { return n } }; f(7) is 7 (the return leaves the loop and stops at the call); a break inside a
   function called from a loop does not end the caller's loop: it is an error *)
Definition ctl (ty : Z) : node := NControl (mkTok ty []).
Definition forn (c : node) (body : list node) : node :=
  NFor (mkTok token_FOR []) (Some c) (Some (NStmts (map Some body))).
Definition retn (a : node) : node := NReturn (mkTok token_RETURN []) (Some a).

Example C01_ex_loop_control :
  (let r := eval_program 20 (NStmts [Some (forn (tI 3) [pr (tI 1); ctl token_BREAK])]) in
   fst r = OVal VNil /\ printed (snd r) = [49%N])
  /\ (let r := eval_program 20 (NStmts [Some (forn (tI 2) [pr (tI 1); ctl token_CONTINUE; pr (tI 2)])]) in
      fst r = OVal VNil /\ printed (snd r) = [49; 49]%N)
  /\ fst (eval_program 20 (NStmts [Some (fn1 102 110 (forn (tI 9) [retn (idn 110)])); Some (call1 102 (tI 7))])) = OVal (VInt 7)
  /\ fst (eval_program 20 (NStmts [Some (fn1 102 110 (ctl token_BREAK)); Some (forn (tI 2) [call1 102 (tI 7)])])) = OErr None
  /\ after_body OBrk (VInt 3) (fun _ => unk) init_state = (OVal (VInt 3), init_state).
Proof. vm_compute. repeat split. Qed.

Print Assumptions C01_while_iteration.
Print Assumptions C01_while_exit.
Print Assumptions C01_forint_iteration.
Print Assumptions C01_forint_exit.
Print Assumptions C01_forlist_iteration.
Print Assumptions C01_call_never_signals.
Print Assumptions C01_frame_discipline.
Print Assumptions C01_program_ends_at_root.
Print Assumptions C01_infix_left_to_right.
Print Assumptions C01_infix_left_error.
Print Assumptions C01_infix_right_error.
Print Assumptions C01_stmts_stop_at_first_non_value.
Print Assumptions C01_stmts_continue_after_value.
Print Assumptions C01_eval_fuel_monotone.
Print Assumptions C01_runes_ascii.
Print Assumptions C01_eval_fuel_independent.
Print Assumptions C01_program_fuel_monotone.
Print Assumptions C01_int_ops_wrap.
Print Assumptions C01_wrap64_spec.
Print Assumptions C01_index_neg.
Print Assumptions C01_slice_spec.
Print Assumptions C01_shortcircuit_and.
Print Assumptions C01_shortcircuit_or.
Print Assumptions C01_define_is_local.
Print Assumptions C01_assign_through.
Print Assumptions C01_assign_creates_local.
Print Assumptions C01_prec_table_is_reference.
