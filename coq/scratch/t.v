From GrolModel Require Import Memo.
About bind_params. About eval_list. About apply_fn. About bind_result.
