(* Model of /repo/parser/parser.go: a fuelled, state-passing transliteration of the Pratt parser.
   Each definition is named after the Go method it mirrors.  No proofs in this file.

   Input: the pre-lexed token stream (lexing does not depend on parser state, so pre-lexing is an
   exact reformulation).  Each token carries the hadWhitespace / hadNewline flags the parser reads
   after the lexer call that produced it.  Number conversion (strconv.ParseInt(lit,0,64) /
   strconv.ParseFloat(lit,64)) is an oracle argument [conv] (trusted base).
   Registration tables and precedences are the GENERATED ones (Gen_ParserTables, Gen_Prec). *)
From Coq Require Import List ZArith NArith Bool String.
From GrolGen Require Import Gen_Consts Gen_Prec Gen_ParserTables.
From GrolModel Require Import Ast.
Import ListNotations.
Local Open Scope Z_scope.

(* ---- tokens as the parser sees them ---- *)
Record ptok : Type := mkPtok { pk : tok; pk_ws : bool; pk_nl : bool }.
Definition pty (t : ptok) : Z := ttype (pk t).

(* number conversion oracle: result of ParseInt / ParseFloat on a literal *)
Record numconv : Type := mkConv {
  conv_int : bytes -> option Z;     (* strconv.ParseInt(lit, 0, 64): Some v | None = error *)
  conv_float : bytes -> option N    (* strconv.ParseFloat(lit, 64): Some bits | None = error *)
}.

(* ---- errors recorded by the parser (kinds only; wording is not modelled) ---- *)
Inductive perr : Type :=
| EPeek (expected got : Z)      (* peekError: expected next token to be ... *)
| ENoPrefix (ty : Z)            (* noPrefixParseFnError *)
| EFloat                        (* could not parse ... as float *)
| ELambdaParam.                 (* lambda parameters must be identifiers *)

Inductive ppanic : Type :=
| PanicCommentSameLine          (* parseComment: line comment on the same line as the next token *)
| PanicNilDeref.                (* a nil node dereferenced *)

(* ---- parser state ---- *)
Record pstate : Type := mkPs {
  ps_prev : tok;            (* p.prevToken *)
  ps_cur : ptok;            (* p.curToken, with prevNewline = pk_nl *)
  ps_peek : ptok;           (* p.peekToken, with nextNewline = pk_nl and l.HadWhitespace() = pk_ws *)
  ps_rest : list ptok;      (* tokens not yet pulled from the lexer *)
  ps_end : ptok;            (* what the lexer returns once exhausted: the end marker, no flags *)
  ps_cont : bool;           (* continuationNeeded *)
  ps_errs : list perr       (* errors, most recent first *)
}.

Inductive res (A : Type) : Type :=
| ROk (a : A) (s : pstate)
| RPanic (w : ppanic)
| RFuel.
Arguments ROk {A} a s.
Arguments RPanic {A} w.
Arguments RFuel {A}.

Notation "'dob' ( x , s ) <- e ; k" :=
  (match e with ROk x s => k | RPanic w => RPanic w | RFuel => RFuel end)
  (at level 200, x name, s name, e at level 100, k at level 200).

(* func (p *Parser) nextToken() *)
Definition nextToken (s : pstate) : pstate :=
  match ps_rest s with
  | [] => mkPs (pk (ps_cur s)) (ps_peek s) (ps_end s) [] (ps_end s) (ps_cont s) (ps_errs s)
  | t :: r => mkPs (pk (ps_cur s)) (ps_peek s) t r (ps_end s) (ps_cont s) (ps_errs s)
  end.

Definition set_cont (s : pstate) : pstate :=
  mkPs (ps_prev s) (ps_cur s) (ps_peek s) (ps_rest s) (ps_end s) true (ps_errs s).
Definition add_err (e : perr) (s : pstate) : pstate :=
  mkPs (ps_prev s) (ps_cur s) (ps_peek s) (ps_rest s) (ps_end s) (ps_cont s) (e :: ps_errs s).

Definition curIs (s : pstate) (t : Z) : bool := Z.eqb (pty (ps_cur s)) t.
Definition peekIs (s : pstate) (t : Z) : bool := Z.eqb (pty (ps_peek s)) t.

(* func (p *Parser) expectPeek(t) bool *)
Definition expectPeek (s : pstate) (t : Z) : bool * pstate :=
  if peekIs s t then (true, nextToken s)
  else if peekIs s token_EOL then (false, set_cont s)
  else (false, add_err (EPeek t (pty (ps_peek s))) s).

Fixpoint zlookup {A : Type} (l : list (Z * A)) (k : Z) : option A :=
  match l with
  | [] => None
  | (k', v) :: l' => if Z.eqb k' k then Some v else zlookup l' k
  end.

(* Go map literal / successive map stores: the LAST entry for a key wins *)
Definition table_get {A : Type} (l : list (Z * A)) (k : Z) : option A := zlookup (rev l) k.

Definition precedence_of (t : Z) : Z :=
  match table_get precedences t with Some p => p | None => ast_LOWEST end.
Definition peekPrecedence (s : pstate) : Z := precedence_of (pty (ps_peek s)).
Definition curPrecedence (s : pstate) : Z := precedence_of (pty (ps_cur s)).

Definition ends_with_star_slash (l : bytes) : bool :=
  match rev l with
  | 47%N :: 42%N :: _ => true
  | _ => false
  end.

(* okParamList: Some (Some dotdot_tok) = ok & variadic, Some None = ok, None = not ok *)
Fixpoint okParamList (l : list (option node)) : option (option tok) :=
  match l with
  | [] => Some None
  | None :: _ => None
  | Some n :: rest =>
    match node_tok n with
    | None => None (* a Statements node cannot be produced by parseExpression; treated as not ok *)
    | Some t =>
      match rest with
      | [] => if Z.eqb (ttype t) token_DOTDOT then Some (Some t)
              else if Z.eqb (ttype t) token_IDENT then Some None else None
      | _ => if Z.eqb (ttype t) token_IDENT then okParamList rest else None
      end
    end
  end.

(* func (p *Parser) parseFunctionParameters() ([]ast.Node, bool): the `for p.peekTokenIs(COMMA)` loop *)
Fixpoint funcParamsLoop (fuel : nat) (acc : list (option node)) (s : pstate)
  : option (list (option node) * pstate) :=
  match fuel with
  | O => None
  | S f =>
    if peekIs s token_COMMA then
      let s2 := nextToken (nextToken s) in
      funcParamsLoop f (acc ++ [Some (NIdent (pk (ps_cur s2)))]) s2
    else Some (acc, s)
  end.

Definition parseFunctionParameters (fuel : nat) (s : pstate)
  : res (option (list (option node)) * bool) :=
  if peekIs s token_RPAREN then ROk (Some [], false) (nextToken s)
  else
    let s1 := nextToken s in
    match funcParamsLoop fuel [Some (NIdent (pk (ps_cur s1)))] s1 with
    | None => RFuel
    | Some (ids, s2) =>
      let '(ok, s3) := expectPeek s2 token_RPAREN in
      if ok then ROk (Some ids, Z.eqb (ttype (ps_prev s3)) token_DOTDOT) s3
      else ROk (None, false) s3
    end.

Section WithConv.
Variable conv : numconv.

Definition parseFloatLiteral (s : pstate) : res (option node) :=
  match conv_float conv (tlit (pk (ps_cur s))) with
  | None => ROk None (add_err EFloat s)
  | Some b => ROk (Some (NFloat (pk (ps_cur s)) b)) s
  end.

Definition parseIntegerLiteral (s : pstate) : res (option node) :=
  match conv_int conv (tlit (pk (ps_cur s))) with
  | Some v => ROk (Some (NInt (pk (ps_cur s)) v)) s
  | None => parseFloatLiteral s
  end.

Definition parseComment (s : pstate) : res (option node) :=
  let t := pk (ps_cur s) in
  let same_prev := negb (pk_nl (ps_cur s)) in
  let same_next := negb (pk_nl (ps_peek s)) in
  if Z.eqb (ttype t) token_BLOCKCOMMENT then
    if ends_with_star_slash (tlit t) then ROk (Some (NComment t same_prev same_next)) s
    else ROk None (set_cont s)
  else if same_next && negb (peekIs s token_EOF) && negb (peekIs s token_EOL)
       then RPanic PanicCommentSameLine
       else ROk (Some (NComment t same_prev same_next)) s.

(* func (p *Parser) parseIdentifier(): postfix lookahead *)
Definition parseIdentifier (s : pstate) : res (option node) :=
  match table_get postfix_fns (pty (ps_peek s)) with
  | Some _ => let s1 := nextToken s in ROk (Some (NPostfix (pk (ps_cur s1)) (ps_prev s1))) s1
  | None => ROk (Some (NIdent (pk (ps_cur s)))) s
  end.

Definition is_infix_colon (n : option node) : option (option node * option node) :=
  match n with
  | Some (NInfix t l r) => if Z.eqb (ttype t) token_COLON then Some (l, r) else None
  | _ => None
  end.

(* ---- the mutually recursive core; every function consumes one unit of fuel per call ---- *)
Fixpoint parseExpression (fuel : nat) (prec : Z) (s : pstate) {struct fuel} : res (option node) :=
  match fuel with
  | O => RFuel
  | S f =>
    if curIs s token_EOL then ROk None (set_cont s)
    else
      match table_get prefix_fns (pty (ps_cur s)) with
      | None =>
        if curIs s token_RPAREN && Z.eqb (ttype (ps_prev s)) token_LPAREN && peekIs s token_EOL
        then ROk None (set_cont s)   (* `()` at the end of a line: `=>` may follow on the next one *)
        else if peekIs s token_LAMBDA then ROk None s
        else ROk None (add_err (ENoPrefix (pty (ps_cur s))) s)
      | Some fn =>
        dob (left, s1) <- prefixFn f fn s;
        if peekIs s1 token_LAMBDA && Z.eqb prec ast_LAMBDA then
          parseLambdaMulti f left None (nextToken s1)
        else exprLoop f prec left s1
      end
  end

(* the `for !p.peekTokenIs(SEMICOLON) && precedence < p.peekPrecedence()` loop *)
with exprLoop (fuel : nat) (prec : Z) (left : option node) (s : pstate) {struct fuel} : res (option node) :=
  match fuel with
  | O => RFuel
  | S f =>
    if negb (peekIs s token_SEMICOLON) && Z.ltb prec (peekPrecedence s) then
      let t := pty (ps_peek s) in
      match table_get infix_fns t with
      | None => ROk left s
      | Some fn =>
        if (Z.eqb t token_LPAREN || Z.eqb t token_LBRACKET) && pk_ws (ps_peek s) then ROk left s
        else
          dob (left', s2) <- infixFn f fn left (nextToken s);
          exprLoop f prec left' s2
      end
    else ROk left s
  end

(* dispatch on the registered prefix parse function *)
with prefixFn (fuel : nat) (fn : string) (s : pstate) {struct fuel} : res (option node) :=
  match fuel with
  | O => RFuel
  | S f =>
    if String.eqb fn "parseIdentifier" then parseIdentifier s
    else if String.eqb fn "parseIntegerLiteral" then parseIntegerLiteral s
    else if String.eqb fn "parseFloatLiteral" then parseFloatLiteral s
    else if String.eqb fn "parseBoolean" then
      ROk (Some (NBool (pk (ps_cur s)) (curIs s token_TRUE))) s
    else if String.eqb fn "parseStringLiteral" then ROk (Some (NString (pk (ps_cur s)))) s
    else if String.eqb fn "parseControlExpression" then ROk (Some (NControl (pk (ps_cur s)))) s
    else if String.eqb fn "parseComment" then parseComment s
    else if String.eqb fn "parsePrefixExpression" then
      let t := pk (ps_cur s) in
      dob (r, s1) <- parseExpression f ast_PREFIX (nextToken s);
      ROk (Some (NPrefix t r)) s1
    else if String.eqb fn "parseGroupedExpression" then parseGroupedExpression f s
    else if String.eqb fn "parseIfExpression" then parseIfExpression f s
    else if String.eqb fn "parseForExpression" then
      let t := pk (ps_cur s) in
      dob (c, s1) <- parseExpression f ast_LOWEST (nextToken s);
      let '(ok, s2) := expectPeek s1 token_LBRACE in
      if negb ok then ROk None s2
      else
        dob (b, s3) <- parseBlockStatement f s2;
        if ps_cont s3 then ROk None s3 else ROk (Some (NFor t c b)) s3
    else if String.eqb fn "parseFunctionLiteral" then
      let t := pk (ps_cur s) in
      let '(name, s0) := if peekIs s token_IDENT
                         then let s' := nextToken s in (Some (pk (ps_cur s')), s')
                         else (None, s) in
      let '(ok, s1) := expectPeek s0 token_LPAREN in
      if negb ok then ROk None s1
      else
        dob (pv, s2) <- parseFunctionParameters f s1;
        let '(params, variadic) := pv in
        let '(ok2, s3) := expectPeek s2 token_LBRACE in
        if negb ok2 then ROk None s3
        else
          dob (b, s4) <- parseBlockStatement f s3;
          if ps_cont s4 then ROk None s4
          else ROk (Some (NFunc t name params b variadic false)) s4
    else if String.eqb fn "parseMacroLiteral" then
      let t := pk (ps_cur s) in
      let '(ok, s1) := expectPeek s token_LPAREN in
      if negb ok then ROk None s1
      else
        dob (pv, s2) <- parseFunctionParameters f s1;
        let '(params, _) := pv in
        let '(ok2, s3) := expectPeek s2 token_LBRACE in
        if negb ok2 then ROk None s3
        else
          dob (b, s4) <- parseBlockStatement f s3;
          if ps_cont s4 then ROk None s4 else ROk (Some (NMacro t params b)) s4
    else if String.eqb fn "parseBuiltin" then
      let t := pk (ps_cur s) in
      let '(ok, s1) := expectPeek s token_LPAREN in
      if negb ok then ROk None s1
      else
        dob (l, s2) <- parseExpressionList f token_RPAREN s1;
        ROk (Some (NBuiltin t l)) s2
    else if String.eqb fn "parseArrayLiteral" then
      let t := pk (ps_cur s) in
      dob (l, s1) <- parseExpressionList f token_RBRACKET s;
      ROk (Some (NArray t l)) s1
    else if String.eqb fn "parseMapLiteral" then
      parseMapLoop f (pk (ps_cur s)) [] s
    else RPanic PanicNilDeref (* a registered function this model does not know: the model must be extended *)
  end

(* dispatch on the registered infix parse function; the operator token is the current token *)
with infixFn (fuel : nat) (fn : string) (left : option node) (s : pstate) {struct fuel} : res (option node) :=
  match fuel with
  | O => RFuel
  | S f =>
    if String.eqb fn "parseInfixExpression" then
      let t := pk (ps_cur s) in
      let prec := curPrecedence s in
      if Z.eqb (ttype t) token_COLON && peekIs s token_RBRACKET then ROk (Some (NInfix t left None)) s
      else
        dob (r, s1) <- parseExpression f prec (nextToken s);
        ROk (Some (NInfix t left r)) s1
    else if String.eqb fn "parseCallExpression" then
      let t := pk (ps_cur s) in
      dob (l, s1) <- parseExpressionList f token_RPAREN s;
      ROk (Some (NCall t left l)) s1
    else if String.eqb fn "parseIndexExpression" then
      let t := pk (ps_cur s) in
      let isDot := Z.eqb (ttype t) token_DOT in
      dob (i, s1) <- parseExpression f (if isDot then ast_DOTINDEX else ast_LOWEST) (nextToken s);
      if isDot then ROk (Some (NIndex t left i)) s1
      else
        let '(ok, s2) := expectPeek s1 token_RBRACKET in
        if ok then ROk (Some (NIndex t left i)) s2 else ROk None s2
    else if String.eqb fn "parseLambdaExpression" then parseLambdaMulti f left None s
    else RPanic PanicNilDeref
  end

(* func (p *Parser) parseLambdaMulti(left, more...): the `=>` token is the current token.
   [more] = None when called without variadic arguments *)
with parseLambdaMulti (fuel : nat) (left : option node) (more : option (list (option node))) (s : pstate)
  {struct fuel} : res (option node) :=
  match fuel with
  | O => RFuel
  | S f =>
    let t := pk (ps_cur s) in
    let params : option (list (option node)) :=
      match left with
      | None => match more with Some [] => None | m => m end   (* a nil or empty variadic stays a nil slice *)
      | Some _ => Some (left :: match more with Some m => m | None => [] end)
      end in
    match okParamList (match params with Some l => l | None => [] end) with
    | None => ROk None (add_err ELambdaParam s)
    | Some dd =>
      let variadic := match dd with Some _ => true | None => false end in
      if peekIs s token_LBRACE then
        dob (b, s2) <- parseBlockStatement f (nextToken s);
        if ps_cont s2 then ROk None s2
        else ROk (Some (NFunc t None params b variadic true)) s2
      else
        let prec := curPrecedence s in
        dob (body, s2) <- parseExpression f prec (nextToken s);
        ROk (Some (NFunc t None params (Some (NStmts [body])) variadic true)) s2
    end
  end

with parseGroupedExpression (fuel : nat) (s : pstate) {struct fuel} : res (option node) :=
  match fuel with
  | O => RFuel
  | S f =>
    dob (exp, s1) <- parseExpression f ast_LOWEST (nextToken s);
    if peekIs s1 token_LAMBDA then parseLambdaMulti f exp None (nextToken s1)
    else if peekIs s1 token_COMMA then
      dob (el, s2) <- parseExpressionList f token_RPAREN (nextToken s1);
      match el with
      | None => ROk None s2
      | Some l =>
        let '(ok, s3) := expectPeek s2 token_LAMBDA in
        if ok then parseLambdaMulti f exp (Some l) s3 else ROk None s3
      end
    else
      let '(ok, s2) := expectPeek s1 token_RPAREN in
      if ok then ROk exp s2 else ROk None s2
  end

with parseIfExpression (fuel : nat) (s : pstate) {struct fuel} : res (option node) :=
  match fuel with
  | O => RFuel
  | S f =>
    let t := pk (ps_cur s) in
    dob (c, s1) <- parseExpression f ast_LOWEST (nextToken s);
    let '(ok, s2) := expectPeek s1 token_LBRACE in
    if negb ok then ROk None s2
    else
      dob (cons, s3) <- parseBlockStatement f s2;
      if ps_cont s3 then ROk None s3
      else if peekIs s3 token_ELSE then
        let s4 := nextToken s3 in
        if peekIs s4 token_IF then
          dob (alt, s5) <- parseIfExpression f (nextToken s4);
          ROk (Some (NIf t c cons (Some (NStmts [alt])))) s5
        else
          let '(ok2, s5) := expectPeek s4 token_LBRACE in
          if negb ok2 then ROk None s5
          else
            dob (alt, s6) <- parseBlockStatement f s5;
            if ps_cont s6 then ROk None s6 else ROk (Some (NIf t c cons alt)) s6
      else ROk (Some (NIf t c cons None)) s3
  end

(* func (p *Parser) parseBlockStatement() *ast.Statements: result None = nil *)
with parseBlockStatement (fuel : nat) (s : pstate) {struct fuel} : res (option node) :=
  match fuel with
  | O => RFuel
  | S f => blockLoop f [] (nextToken s)
  end

with blockLoop (fuel : nat) (acc : list (option node)) (s : pstate) {struct fuel} : res (option node) :=
  match fuel with
  | O => RFuel
  | S f =>
    if curIs s token_RBRACE || curIs s token_EOF then ROk (Some (NStmts acc)) s
    else if curIs s token_EOL then ROk None (set_cont s)
    else
      dob (st, s1) <- parseStatement f s;
      blockLoop f (acc ++ [st]) (nextToken s1)
  end

with parseStatement (fuel : nat) (s : pstate) {struct fuel} : res (option node) :=
  match fuel with
  | O => RFuel
  | S f =>
    if curIs s token_RETURN then
      let t := pk (ps_cur s) in
      if peekIs s token_SEMICOLON || peekIs s token_RBRACE || peekIs s token_EOF || peekIs s token_EOL
         || peekIs s token_LINECOMMENT
      then ROk (Some (NReturn t None)) s
      else
        dob (v, s1) <- parseExpression f ast_LOWEST (nextToken s);
        ROk (Some (NReturn t v)) (if peekIs s1 token_SEMICOLON then nextToken s1 else s1)
    else
      dob (e, s1) <- parseExpression f ast_LOWEST s;
      ROk e (if peekIs s1 token_SEMICOLON then nextToken s1 else s1)
  end

(* func (p *Parser) parseExpressionList(end) []ast.Node: None = nil *)
with parseExpressionList (fuel : nat) (endt : Z) (s : pstate) {struct fuel}
  : res (option (list (option node))) :=
  match fuel with
  | O => RFuel
  | S f =>
    if peekIs s endt then ROk (Some []) (nextToken s)
    else
      dob (e, s1) <- parseExpression f ast_LOWEST (nextToken s);
      exprListLoop f endt [e] s1
  end

with exprListLoop (fuel : nat) (endt : Z) (acc : list (option node)) (s : pstate) {struct fuel}
  : res (option (list (option node))) :=
  match fuel with
  | O => RFuel
  | S f =>
    if peekIs s token_COMMA then
      dob (e, s1) <- parseExpression f ast_LOWEST (nextToken (nextToken s));
      exprListLoop f endt (acc ++ [e]) s1
    else
      let '(ok, s1) := expectPeek s endt in
      if ok then ROk (Some acc) s1 else ROk None s1
  end

(* func (p *Parser) parseMapLiteral(): the `for !p.peekTokenIs(RBRACE)` loop *)
with parseMapLoop (fuel : nat) (t : tok) (acc : list (option node * option node)) (s : pstate)
  {struct fuel} : res (option node) :=
  match fuel with
  | O => RFuel
  | S f =>
    if peekIs s token_RBRACE then
      let '(ok, s1) := expectPeek s token_RBRACE in
      if ok then ROk (Some (NMap t acc)) s1 else ROk None s1
    else
      let s1 := nextToken s in
      if ps_cont s1 then ROk None s1
      else
        dob (kv, s2) <- parseExpression f ast_LOWEST s1;
        match is_infix_colon kv with
        | None =>
          if peekIs s2 token_EOL then ROk None (set_cont s2)
          else ROk None (add_err (EPeek token_COLON (pty (ps_peek s2))) s2)
        | Some (k, v) =>
          if negb (peekIs s2 token_RBRACE) then
            let '(ok, s3) := expectPeek s2 token_COMMA in
            if ok then parseMapLoop f t (acc ++ [(k, v)]) s3 else ROk None s3
          else parseMapLoop f t (acc ++ [(k, v)]) s2
        end
  end.

(* func (p *Parser) ParseProgram() *ast.Statements *)
Fixpoint programLoop (fuel : nat) (acc : list (option node)) (s : pstate) : res (list (option node)) :=
  match fuel with
  | O => RFuel
  | S f =>
    if curIs s token_EOF || curIs s token_EOL then ROk acc s
    else
      dob (st, s1) <- parseStatement f s;
      match st with
      | None => ROk acc s1
      | Some _ => programLoop f (acc ++ [st]) (nextToken s1)
      end
  end.

End WithConv.

(* parser.New: reads two tokens so that cur and peek are set *)
Definition dummy_tok : tok := mkTok (-1) [].
Definition init_state (endt : ptok) (toks : list ptok) : pstate :=
  let s0 := mkPs dummy_tok (mkPtok dummy_tok false false) (mkPtok dummy_tok false false) toks endt false [] in
  nextToken (nextToken s0).

Record presult : Type := mkPres {
  pr_tree : list (option node);   (* program.Statements *)
  pr_errs : list perr;            (* in order of occurrence *)
  pr_cont : bool;
  pr_all_lexed : bool             (* every token up to and including the end marker was pulled from the lexer *)
}.

Inductive poutcome : Type :=
| POk (r : presult)
| PPanic (w : ppanic)
| POutOfFuel.

(* [endt]: the end marker of the mode (EOF in file mode, EOL in line mode) *)
Definition parse_program (conv : numconv) (fuel : nat) (end_type : Z) (toks : list ptok) : poutcome :=
  let endt := mkPtok (mkTok end_type []) false false in
  match programLoop conv fuel [] (init_state endt toks) with
  | ROk l s => POk (mkPres l (rev (ps_errs s)) (ps_cont s) (match ps_rest s with [] => true | _ => false end))
  | RPanic w => PPanic w
  | RFuel => POutOfFuel
  end.

Definition default_fuel (toks : list ptok) : nat := 4 * List.length toks + 64.
