(* Model of the binding-writing paths of /repo for C19 (constants cannot be changed by any path).
   Executable Gallina, no proofs here.

   Go (object/state.go, eval/eval.go)                         model
   ---------------------------------------------------------  --------------------------------------------
   object.Constant(name)                                      constant_name
   Environment{store, outer}; the chain of function frames    env = list frame, innermost first
   Reference{Name, RefEnv}                                    ORef up name  (RefEnv = the frame `up` levels further out)
   Environment.Get / makeRef (creates a reference in the      env_get / make_ref
     innermost frame when the name is found further out)
   Environment.create / update / SetNoChecks / CreateOrSet    create_local / update / set_no_checks / create_or_set
   Environment.Delete                                         env_delete
   evalAssignment (= and :=)                                  AAssign
   evalPrefixIncrDecr, evalPostfixExpression                  AIncr
   evalIndexAssigment                                         AIdxSet   (containers: the pure values of Containers.v,
   deleteMapEntry                                             ADelElem   i.e. the code after the clone-before-write repairs)
   evalForInteger / evalForList (loop variable binding)       AForInt / AForList
   extendFunctionEnv (parameter binding, register fast path)  ACall
   evalIdentifier                                             ARead

   cfg: use_reg = registers enabled (State.NoReg = false); const_test = the register paths test Constant(name)
   (commit 8c21b75; false = pinned code); cow = containers are copied before a write (commits cec7cc4 29e3f5f;
   false = pinned code, where index assignment and del on a large array / map had already changed the stored value
   when CreateOrSet compared old and new).

   Values: integers, nil, arrays and integer-keyed maps of those (Containers.pval), and at top level also strings,
   booleans and floats (multiples of 1/4).  On this domain object.Equals is equality. *)
From Coq Require Import List ZArith NArith Bool Arith.
From GrolGen Require Import Gen_Consts.
From GrolModel Require Import Containers.
Import ListNotations.

Definition name := list N.

Fixpoint name_eqb (a b : name) : bool :=
  match a, b with
  | [], [] => true
  | x :: a', y :: b' => N.eqb x y && name_eqb a' b'
  | _, _ => false
  end.

(* func Constant(name string) bool: all upper case letters; '_' and digits allowed after the first byte *)
Definition is_upper (b : N) : bool := (65 <=? b)%N && (b <=? 90)%N.
Definition is_digit_or_underscore (b : N) : bool := (b =? 95)%N || ((48 <=? b)%N && (b <=? 57)%N).
Fixpoint constant_from (first : bool) (n : name) : bool :=
  match n with
  | [] => true
  | b :: t =>
    if negb first && is_digit_or_underscore b then constant_from false t
    else if is_upper b then constant_from false t
    else false
  end.
Definition constant_name (n : name) : bool := constant_from true n.

(* ---- values *)
Inductive cval : Type :=
| CV (p : pval)
| CStr (s : list N)
| CBool (b : bool)
| CFlt (q : Z).        (* the float q/4 *)

Fixpoint pval_eqb (a b : pval) : bool :=
  match a, b with
  | PInt x, PInt y => Z.eqb x y
  | PNil, PNil => true
  | PArr l, PArr r =>
    (fix go (l r : list pval) : bool :=
       match l, r with
       | [], [] => true
       | x :: l', y :: r' => pval_eqb x y && go l' r'
       | _, _ => false
       end) l r
  | PMap l, PMap r =>
    (fix go (l r : list (Z * pval)) : bool :=
       match l, r with
       | [], [] => true
       | (k, x) :: l', (k', y) :: r' => Z.eqb k k' && pval_eqb x y && go l' r'
       | _, _ => false
       end) l r
  | _, _ => false
  end.

(* object.Equals on the modelled values: same type and Cmp == 0 *)
Definition cval_eqb (a b : cval) : bool :=
  match a, b with
  | CV x, CV y => pval_eqb x y
  | CStr x, CStr y => name_eqb x y
  | CBool x, CBool y => Bool.eqb x y
  | CFlt x, CFlt y => Z.eqb x y
  | _, _ => false
  end.

(* ---- environments *)
Inductive obj : Type :=
| OVal (v : cval)
| ORef (up : nat) (n : name).

Record frame := mkframe { fstore : list (name * obj) }.
Definition env := list frame.
Definition empty_frame : frame := mkframe [].

Fixpoint nlookup {A} (s : list (name * A)) (n : name) : option A :=
  match s with
  | [] => None
  | (m, x) :: t => if name_eqb m n then Some x else nlookup t n
  end.
Fixpoint nset {A} (s : list (name * A)) (n : name) (x : A) : list (name * A) :=
  match s with
  | [] => [(n, x)]
  | (m, y) :: t => if name_eqb m n then (m, x) :: t else (m, y) :: nset t n x
  end.
Fixpoint ndel {A} (s : list (name * A)) (n : name) : list (name * A) :=
  match s with
  | [] => []
  | (m, y) :: t => if name_eqb m n then t else (m, y) :: ndel t n
  end.

(* store[n] = o in the frame at position i *)
Fixpoint upd_frame (e : env) (i : nat) (n : name) (o : obj) : env :=
  match e, i with
  | [], _ => []
  | f :: t, O => mkframe (nset (fstore f) n o) :: t
  | f :: t, S i' => f :: upd_frame t i' n o
  end.

(* Reference.ObjValue / object.Value for an object held by the innermost frame: None = dangling (Go: nil) *)
Definition deref (e : env) (o : obj) : option cval :=
  match o with
  | OVal v => Some v
  | ORef up n =>
    match nth_error e up with
    | Some f => match nlookup (fstore f) n with Some (OVal v) => Some v | _ => None end
    | None => None
    end
  end.

(* makeRef: look for the name in the frames further out (positions j, j+1, ...); a reference found there is
   reused (never a reference to a reference) *)
Fixpoint find_outer (outers : list frame) (j : nat) (n : name) : option obj :=
  match outers with
  | [] => None
  | f :: t =>
    match nlookup (fstore f) n with
    | Some (ORef up m) => Some (ORef (j + up) m)
    | Some (OVal _) => Some (ORef j n)
    | None => find_outer t (S j) n
    end
  end.

(* Environment.Get (names "info", "self" and the current function's own name are outside the model) *)
Definition env_get (e : env) (n : name) : option (env * obj) :=
  match e with
  | [] => None
  | f :: outers =>
    match nlookup (fstore f) n with
    | Some o => Some (e, o)
    | None =>
      match find_outer outers 1 n with
      | Some r => Some (upd_frame e 0 n r, r)
      | None => None
      end
    end
  end.

(* Environment.SetNoChecks *)
Definition set_no_checks (e : env) (n : name) (v : cval) (create : bool) : env :=
  if create then upd_frame e 0 n (OVal v)
  else
    match e with
    | [] => e
    | f :: outers =>
      match nlookup (fstore f) n with
      | Some (ORef up m) => upd_frame e up m (OVal v)
      | Some (OVal _) => upd_frame e 0 n (OVal v)
      | None =>
        match find_outer outers 1 n with
        | Some (ORef up m) => upd_frame (upd_frame e 0 n (ORef up m)) up m (OVal v)
        | _ => upd_frame e 0 n (OVal v)
        end
      end
    end.

(* Environment.CreateOrSet: the environment may change even on error (Get leaves a reference behind) *)
Definition create_or_set (e : env) (n : name) (v : cval) (create : bool) : env * res cval :=
  if constant_name n then
    match env_get e n with
    | Some (e1, OVal old) => if cval_eqb old v then (set_no_checks e1 n v create, Ok v) else (e1, Err)
    | Some (e1, ORef _ _) => (e1, Err)   (* Equals(old, val) with old a Reference: the types differ, never equal *)
    | None => (set_no_checks e n v create, Ok v)
    end
  else (set_no_checks e n v create, Ok v).

(* Environment.Delete: the first frame, from the innermost outwards, that has the name *)
Fixpoint env_delete (e : env) (n : name) : env * bool :=
  match e with
  | [] => ([], false)
  | f :: t =>
    match nlookup (fstore f) n with
    | Some _ => (mkframe (ndel (fstore f) n) :: t, true)
    | None => let (t', b) := env_delete t n in (f :: t', b)
    end
  end.

(* evalIdentifier followed by the dereference every consumer performs *)
Definition read_name (e : env) (n : name) : env * res cval :=
  match env_get e n with
  | None => (e, Err)
  | Some (e1, o) => match deref e1 o with Some v => (e1, Ok v) | None => (e1, Stuck) end
  end.

(* ---- attempts *)
Record ccfg := mkccfg { use_reg : bool; const_test : bool; ccow : bool }.

Inductive attempt :=
| AAssign (n : name) (v : cval) (define : bool)   (* n = v   /   n := v *)
| AIncr (n : name) (delta : Z) (pre : bool)       (* n++ n--  /  ++n --n *)
| AIdxSet (n : name) (i : Z) (v : pval)           (* n[i] = v *)
| ADelElem (n : name) (k : Z)                     (* del(n[k]) *)
| ADelete (n : name)                              (* del(n) *)
| AForInt (n : name) (a b : Z)                    (* for n = a:b { n } *)
| AForList (n : name) (l : list pval)             (* for n = [l...] { n } *)
| ACall (n : name) (v : cval)                     (* func(n){n}(v) *)
| ARead (n : name).                               (* n *)

Inductive scope := STop | SFn | SFn2 | SLoop.     (* at top level / inside func(){..}() / two deep / inside for 2 {..} *)
Inductive event := Ev (s : scope) (a : attempt).

Definition is_big (v : pval) : bool :=
  match v with
  | PArr l => Z.to_nat object_MaxSmallArray <? length l
  | PMap l => Z.to_nat object_MaxSmallMap <? length l
  | _ => false
  end.

(* s.env.Set(n, new container) after an index assignment or del.  Pinned code (ccow = false): a large container
   had been written in place, so the binding already shows the new value when CreateOrSet compares *)
Definition set_container (c : ccfg) (e : env) (n : name) (old nv : pval) : env * res cval :=
  let e0 := if negb (ccow c) && is_big old then set_no_checks e n (CV nv) false else e in
  create_or_set e0 n (CV nv) false.

Definition is_int (v : cval) : bool := match v with CV (PInt _) => true | _ => false end.

(* the loop-variable / parameter is held in a register: not a binding at all *)
Definition reg_bound (c : ccfg) (n : name) : bool :=
  use_reg c && negb (const_test c && constant_name n).

Fixpoint for_values (e : env) (n : name) (vs : list cval) (last : cval) : env * res cval :=
  match vs with
  | [] => (e, Ok last)
  | v :: t =>
    (* s.env.Set(name, v): the result is ignored *)
    let (e1, _) := create_or_set e n v false in
    match read_name e1 n with
    | (e2, Ok r) => for_values e2 n t r
    | (e2, x) => (e2, x)
    end
  end.

Fixpoint int_range (a : Z) (k : nat) : list cval :=
  match k with O => [] | S k' => CV (PInt a) :: int_range (a + 1) k' end.

Definition do_attempt (c : ccfg) (e : env) (a : attempt) : env * res cval :=
  match a with
  | AAssign n v define => create_or_set e n v define
  | AIncr n delta pre =>
    match read_name e n with
    | (e1, Ok old) =>
      let nv := match old with
                | CV (PInt z) => if int64_ok (z + delta) then Ok (CV (PInt (z + delta))) else Dom
                | CFlt q => Ok (CFlt (q + 4 * delta))
                | _ => Err
                end in
      match nv with
      | Ok w => let (e2, r) := create_or_set e1 n w false in
                (e2, match r with Ok _ => if pre then r else Ok old | x => x end)
      | Err => (e1, Err) | Dom => (e1, Dom) | Stuck => (e1, Stuck)
      end
    | (e1, x) => (e1, x)
    end
  | AIdxSet n i v =>
    match read_name e n with
    | (e1, Ok (CV xv)) =>
      match p_idx_set xv i v with
      | Ok nv => let (e2, r) := set_container c e1 n xv nv in
                 (e2, match r with Ok _ => Ok (CV v) | x => x end)
      | Err => (e1, Err) | Dom => (e1, Dom) | Stuck => (e1, Stuck)
      end
    | (e1, Ok _) => (e1, Err)
    | (e1, x) => (e1, x)
    end
  | ADelElem n k =>
    match env_get e n with
    | None => (e, Ok (CBool false))
    | Some (e1, o) =>
      match deref e1 o with
      | Some (CV (PMap l)) =>
        match kv_del l k with
        | Some l' => let (e2, r) := set_container c e1 n (PMap l) (PMap l') in
                     (e2, match r with Ok _ => Ok (CBool true) | x => x end)
        | None => (e1, Ok (CBool false))
        end
      | Some _ => (e1, Err)
      | None => (e1, Stuck)
      end
    end
  | ADelete n => let (e1, b) := env_delete e n in (e1, Ok (CBool b))
  | AForInt n a b =>
    if (b <? a)%Z then (e, Err)
    else if reg_bound c n then (e, Ok (if (a <? b)%Z then CV (PInt (b - 1)) else CV PNil))
    else for_values e n (int_range a (Z.to_nat (b - a))) (CV PNil)
  | AForList n l => for_values e n (map CV l) (CV PNil)
  | ACall n v =>
    if is_int v && reg_bound c n then (e, Ok v)
    else
      match create_or_set (empty_frame :: e) n v true with
      | (e1, Ok _) => let (e2, r) := read_name e1 n in (tl e2, r)
      | (e1, x) => (tl e1, x)
      end
  | ARead n => read_name e n
  end.

Definition run_event (c : ccfg) (e : env) (ev : event) : env * res cval :=
  match ev with
  | Ev STop a => do_attempt c e a
  | Ev SFn a => let (e1, r) := do_attempt c (empty_frame :: e) a in (tl e1, r)
  | Ev SFn2 a => let (e1, r) := do_attempt c (empty_frame :: empty_frame :: e) a in (tl (tl e1), r)
  | Ev SLoop a =>
    match do_attempt c e a with
    | (e1, Ok _) => do_attempt c e1 a
    | (e1, x) => (e1, x)
    end
  end.

Fixpoint run_events (c : ccfg) (e : env) (evs : list event) : env :=
  match evs with
  | [] => e
  | ev :: t => run_events c (fst (run_event c e ev)) t
  end.

Definition root_env (s : list (name * cval)) : env := [mkframe (map (fun nv => (fst nv, OVal (snd nv))) s)].

(* what the name is bound to at top level *)
Definition root_value (e : env) (n : name) : option cval :=
  match e with
  | [f] => match nlookup (fstore f) n with Some (OVal v) => Some v | _ => None end
  | _ => None
  end.

Definition repo_ccfg (reg : bool) : ccfg := mkccfg reg true true.
Definition pinned_ccfg (reg : bool) : ccfg := mkccfg reg false false.
