(* Model of the binding-writing paths of /repo for C19 (constants cannot be changed by any path).
   Executable Gallina, no proofs here.

   Go (object/state.go, eval/eval.go)                         model
   ---------------------------------------------------------  --------------------------------------------
   object.Constant(name)                                      constant_name
   Environment{store, outer}; the chain of function frames    env = list frame, innermost first
   Reference{Name, RefEnv}                                    ORef up name  (RefEnv = the frame `up` levels further out)
   Environment.Get / makeRef (creates a reference in the      env_get / make_ref
     innermost frame when the name is found further out)
   Environment.create / update / SetNoChecks / CreateOrSet    create_local / update / set_no_checks / create_or_set
   Environment.Delete                                         env_delete
   evalAssignment (= and :=)                                  AAssign
   evalPrefixIncrDecr, evalPostfixExpression                  AIncr
   evalIndexAssigment                                         AIdxSet   (containers are immutable values:
   deleteMapEntry                                             ADelElem   the code after C06's clone-before-write repairs)
   evalForInteger / evalForList (loop variable binding)       AForInt / AForList
   extendFunctionEnv (parameter binding, register fast path)  ACall
   evalIdentifier                                             ARead

   cfg: use_reg = registers enabled (State.NoReg = false); const_test = the register paths test Constant(name)
   (commit 8c21b75; false = pinned code); cow = containers are copied before a write (commits cec7cc4 29e3f5f;
   false = pinned code, where index assignment and del on a large array / map had already changed the stored value
   when CreateOrSet compared old and new).

   cfg: strict_eq = the same-value escape hatch of CreateOrSet uses object.Identical (repair 2d0dbce: same type, exact
   number, pairwise identical elements / keys / values); false = pinned code, object.Equals, which inside containers
   orders integers and floats together and treats -0.0 as 0.0.

   Values: integers, floats (multiples of 1/4, and -0.0), nil, strings, booleans, arrays and maps of those at any depth;
   map keys are numbers and strings.  object.Identical on this domain is equality. *)
From Coq Require Import List ZArith NArith Bool Arith.
From GrolGen Require Import Gen_Consts.
From GrolModel Require Import Containers.
Import ListNotations.

Definition name := list N.

Fixpoint name_eqb (a b : name) : bool :=
  match a, b with
  | [], [] => true
  | x :: a', y :: b' => N.eqb x y && name_eqb a' b'
  | _, _ => false
  end.

(* func Constant(name string) bool: all upper case letters; '_' and digits allowed after the first byte *)
Definition is_upper (b : N) : bool := (65 <=? b)%N && (b <=? 90)%N.
Definition is_digit_or_underscore (b : N) : bool := (b =? 95)%N || ((48 <=? b)%N && (b <=? 57)%N).
Fixpoint constant_from (first : bool) (n : name) : bool :=
  match n with
  | [] => true
  | b :: t =>
    if negb first && is_digit_or_underscore b then constant_from false t
    else if is_upper b then constant_from false t
    else false
  end.
Definition constant_name (n : name) : bool := constant_from true n.

(* ---- values *)
Inductive num : Type :=
| NInt (z : Z)
| NFlt (q : Z)          (* the float q/4 ; NFlt 0 is +0.0 *)
| NNegZero.             (* -0.0 *)

Inductive key : Type :=
| KNum (n : num)
| KStr (s : list N).

Inductive cval : Type :=
| XNum (n : num)
| XNil
| XStr (s : list N)
| XBool (b : bool)
| XArr (l : list cval)
| XMap (l : list (key * cval))     (* pairs sorted by key (object.Cmp) *)
| XCloLocal (txt id : nat) (n : name) (w : cval)
    (* a function value func(){n} made in a function frame that binds n to w itself.  txt: its printed text (CacheKey);
       id: the frame it was made in (Function.Env, a pointer): one per creation *)
| XCloOuter (txt id : nat) (n : name).
    (* the same, when that frame only holds a reference to the top-level n *)

(* numeric value in quarters: the order object.Cmp puts on integers and floats together (exact since b7336f5) *)
Definition num_q (n : num) : Z := match n with NInt z => 4 * z | NFlt q => q | NNegZero => 0 end.

Fixpoint bytes_cmp (a b : list N) : comparison :=
  match a, b with
  | [], [] => Eq
  | [], _ :: _ => Lt
  | _ :: _, [] => Gt
  | x :: a', y :: b' => match (x ?= y)%N with Eq => bytes_cmp a' b' | c => c end
  end.

(* object.Cmp on keys: numbers before strings (type order), numbers by value, strings bytewise *)
Definition key_cmp (a b : key) : comparison :=
  match a, b with
  | KNum x, KNum y => (num_q x ?= num_q y)%Z
  | KNum _, KStr _ => Lt
  | KStr _, KNum _ => Gt
  | KStr x, KStr y => bytes_cmp x y
  end.

(* SmallMap.get / BinarySearchFunc: (found, index or insertion point) *)
Fixpoint kfind {A} (l : list (key * A)) (k : key) (i : nat) : bool * nat :=
  match l with
  | [] => (false, i)
  | (k', _) :: t =>
    match key_cmp k' k with
    | Gt => (false, i)
    | Eq => (true, i)
    | Lt => kfind t k (S i)
    end
  end.

(* m.kv[i].Value = value: the stored key object stays (M[1.0]=v on a map holding key 1 keeps the integer key) *)
Fixpoint xset_val_at {A} (l : list (key * A)) (i : nat) (v : A) : list (key * A) :=
  match l, i with
  | [], _ => []
  | (k, _) :: t, O => (k, v) :: t
  | a :: t, S i' => a :: xset_val_at t i' v
  end.

Definition xmap_set {A} (l : list (key * A)) (k : key) (v : A) : list (key * A) :=
  let (found, i) := kfind l k 0 in
  if found then xset_val_at l i v else insert_at l i (k, v).
Definition xmap_del {A} (l : list (key * A)) (k : key) : option (list (key * A)) :=
  let (found, i) := kfind l k 0 in
  if found then Some (remove_at l i) else None.

(* evalIndexAssigment on the (immutable, after C06) value of the binding *)
Definition x_idx_set (xv : cval) (k : key) (v : cval) : res cval :=
  match xv with
  | XArr l =>
    match k with
    | KNum (NInt i) =>
      match idx_norm (length l) i with
      | None => Err
      | Some j => l' <- lift (set_nth l j v) ;; Ok (XArr l')
      end
    | _ => Err                      (* index assignment to array with non integer index *)
    end
  | XMap l => Ok (XMap (xmap_set l k v))
  | _ => Err
  end.

(* object.Identical: exact structural equality *)
Definition num_eqb (a b : num) : bool :=
  match a, b with
  | NInt x, NInt y => Z.eqb x y
  | NFlt x, NFlt y => Z.eqb x y
  | NNegZero, NNegZero => true
  | _, _ => false
  end.
Definition key_eqb (a b : key) : bool :=
  match a, b with
  | KNum x, KNum y => num_eqb x y
  | KStr x, KStr y => name_eqb x y
  | _, _ => false
  end.
(* fe: functions are identical when they have the same text AND the same defining environment (repair of
   object.Identical); fe = false: the same text is enough (pinned) *)
Fixpoint cval_eqb (fe : bool) (a b : cval) : bool :=
  match a, b with
  | XNum x, XNum y => num_eqb x y
  | XNil, XNil => true
  | XStr x, XStr y => name_eqb x y
  | XBool x, XBool y => Bool.eqb x y
  | XArr l, XArr r =>
    (fix go (l r : list cval) : bool :=
       match l, r with
       | [], [] => true
       | x :: l', y :: r' => cval_eqb fe x y && go l' r'
       | _, _ => false
       end) l r
  | XMap l, XMap r =>
    (fix go (l r : list (key * cval)) : bool :=
       match l, r with
       | [], [] => true
       | (k, x) :: l', (k', y) :: r' => key_eqb k k' && cval_eqb fe x y && go l' r'
       | _, _ => false
       end) l r
  | XCloLocal t i n x, XCloLocal t' i' m y =>
    Nat.eqb t t' && (negb fe || (Nat.eqb i i' && name_eqb n m && cval_eqb fe x y))
  | XCloOuter t i n, XCloOuter t' i' m => Nat.eqb t t' && (negb fe || (Nat.eqb i i' && name_eqb n m))
  | _, _ => false
  end.

(* object.Equals (the pinned same-value test): TypeEqual at the top, then Cmp == 0, which below the top compares
   integers and floats by value *)
Definition key_cmp0 (a b : key) : bool := match key_cmp a b with Eq => true | _ => false end.
Fixpoint cval_cmp0 (a b : cval) : bool :=
  match a, b with
  | XNum x, XNum y => Z.eqb (num_q x) (num_q y)
  | XNil, XNil => true
  | XStr x, XStr y => name_eqb x y
  | XBool x, XBool y => Bool.eqb x y
  | XArr l, XArr r =>
    (fix go (l r : list cval) : bool :=
       match l, r with
       | [], [] => true
       | x :: l', y :: r' => cval_cmp0 x y && go l' r'
       | _, _ => false
       end) l r
  | XMap l, XMap r =>
    (fix go (l r : list (key * cval)) : bool :=
       match l, r with
       | [], [] => true
       | (k, x) :: l', (k', y) :: r' => key_cmp0 k k' && cval_cmp0 x y && go l' r'
       | _, _ => false
       end) l r
  | XCloLocal t _ _ _, XCloLocal t' _ _ _ | XCloLocal t _ _ _, XCloOuter t' _ _
  | XCloOuter t _ _, XCloLocal t' _ _ _ | XCloOuter t _ _, XCloOuter t' _ _ => Nat.eqb t t'   (* Cmp on FUNC: the CacheKey *)
  | _, _ => false
  end.
Definition same_type (a b : cval) : bool :=
  match a, b with
  | XNum (NInt _), XNum (NInt _) => true
  | XNum (NInt _), XNum _ | XNum _, XNum (NInt _) => false
  | _, _ => true                 (* other differences of type are seen by Cmp *)
  end.
Definition cval_equals (a b : cval) : bool := same_type a b && cval_cmp0 a b.

(* ---- environments *)
Inductive obj : Type :=
| OVal (v : cval)
| ORef (up : nat) (n : name).

Record frame := mkframe { fstore : list (name * obj) }.
Definition env := list frame.
Definition empty_frame : frame := mkframe [].

Fixpoint nlookup {A} (s : list (name * A)) (n : name) : option A :=
  match s with
  | [] => None
  | (m, x) :: t => if name_eqb m n then Some x else nlookup t n
  end.
Fixpoint nset {A} (s : list (name * A)) (n : name) (x : A) : list (name * A) :=
  match s with
  | [] => [(n, x)]
  | (m, y) :: t => if name_eqb m n then (m, x) :: t else (m, y) :: nset t n x
  end.
Fixpoint ndel {A} (s : list (name * A)) (n : name) : list (name * A) :=
  match s with
  | [] => []
  | (m, y) :: t => if name_eqb m n then t else (m, y) :: ndel t n
  end.

(* store[n] = o in the frame at position i *)
Fixpoint upd_frame (e : env) (i : nat) (n : name) (o : obj) : env :=
  match e, i with
  | [], _ => []
  | f :: t, O => mkframe (nset (fstore f) n o) :: t
  | f :: t, S i' => f :: upd_frame t i' n o
  end.

(* Reference.ObjValue / object.Value for an object held by the innermost frame: None = dangling (Go: nil) *)
Definition deref (e : env) (o : obj) : option cval :=
  match o with
  | OVal v => Some v
  | ORef up n =>
    match nth_error e up with
    | Some f => match nlookup (fstore f) n with Some (OVal v) => Some v | _ => None end
    | None => None
    end
  end.

(* makeRef: look for the name in the frames further out (positions j, j+1, ...); a reference found there is
   reused (never a reference to a reference) *)
Fixpoint find_outer (outers : list frame) (j : nat) (n : name) : option obj :=
  match outers with
  | [] => None
  | f :: t =>
    match nlookup (fstore f) n with
    | Some (ORef up m) => Some (ORef (j + up) m)
    | Some (OVal _) => Some (ORef j n)
    | None => find_outer t (S j) n
    end
  end.

(* Environment.Get (names "info", "self" and the current function's own name are outside the model) *)
Definition env_get (e : env) (n : name) : option (env * obj) :=
  match e with
  | [] => None
  | f :: outers =>
    match nlookup (fstore f) n with
    | Some o => Some (e, o)
    | None =>
      match find_outer outers 1 n with
      | Some r => Some (upd_frame e 0 n r, r)
      | None => None
      end
    end
  end.

(* Environment.SetNoChecks *)
Definition set_no_checks (e : env) (n : name) (v : cval) (create : bool) : env :=
  if create then upd_frame e 0 n (OVal v)
  else
    match e with
    | [] => e
    | f :: outers =>
      match nlookup (fstore f) n with
      | Some (ORef up m) => upd_frame e up m (OVal v)
      | Some (OVal _) => upd_frame e 0 n (OVal v)
      | None =>
        match find_outer outers 1 n with
        | Some (ORef up m) => upd_frame (upd_frame e 0 n (ORef up m)) up m (OVal v)
        | _ => upd_frame e 0 n (OVal v)
        end
      end
    end.

Record ccfg := mkccfg { use_reg : bool; const_test : bool; ccow : bool; strict_eq : bool; fn_env : bool }.

(* the same-value test of CreateOrSet *)
Definition same_value (c : ccfg) (old v : cval) : bool :=
  if strict_eq c then cval_eqb (fn_env c) old v else cval_equals old v.

(* Environment.CreateOrSet: the environment may change even on error (Get leaves a reference behind) *)
Definition create_or_set (c : ccfg) (e : env) (n : name) (v : cval) (create : bool) : env * res cval :=
  if constant_name n then
    match env_get e n with
    | Some (e1, OVal old) => if same_value c old v then (set_no_checks e1 n v create, Ok v) else (e1, Err)
    | Some (e1, ORef _ _) => (e1, Err)   (* the old value is a Reference: the types differ, never the same *)
    | None => (set_no_checks e n v create, Ok v)
    end
  else (set_no_checks e n v create, Ok v).

(* Environment.Delete: the first frame, from the innermost outwards, that has the name *)
Fixpoint env_delete (e : env) (n : name) : env * bool :=
  match e with
  | [] => ([], false)
  | f :: t =>
    match nlookup (fstore f) n with
    | Some _ => (mkframe (ndel (fstore f) n) :: t, true)
    | None => let (t', b) := env_delete t n in (f :: t', b)
    end
  end.

(* evalIdentifier followed by the dereference every consumer performs *)
Definition read_name (e : env) (n : name) : env * res cval :=
  match env_get e n with
  | None => (e, Err)
  | Some (e1, o) => match deref e1 o with Some v => (e1, Ok v) | None => (e1, Stuck) end
  end.

(* ---- attempts *)
(* right-hand sides: a literal, or an expression that makes an ALIAS of the value of another binding (by
   assignment, slicing, storing in a container and taking it out again, returning it from a function, passing it
   as a parameter that the callee index-assigns, appending to it) *)
Inductive expr :=
| ELit (v : cval)
| EName (y : name)                          (* y *)
| ESlice (y : name) (l r : Z)               (* y[l:r] *)
| EWrap (y : name)                          (* [y] *)
| EIndex (y : name) (k : key)               (* y[k] *)
| ERet (y : name)                           (* func(){y}() *)
| EAppend (y : name) (v : cval)             (* y+[v] *)
| ECallSet (y : name) (k : key) (v : cval)  (* func(pp){pp[k]=v;pp}(y) *)
| EPlus (x : expr) (v : cval)               (* x + v : the new value is computed from another one *)
| EMkClo (id : nat) (n : name) (v : cval)    (* func(){n=v; func(){n}}() : a closure over a function-scope binding;
                                               id: unique per occurrence (the text of the literal is unique too) *)
| EMaker (id : nat) (v : cval)              (* mk(v) with mk=func(mkn){func(){mkn}}: every such closure prints alike *)
| EMkParam (id : nat) (n : name) (v : cval) (* func(n){[()=>n, ...writers...]}(v): closures over the PARAMETER n of their maker *)
| ECallClo (g : name).                      (* g() *)

Inductive attempt :=
| AAssign (n : name) (ex : expr) (define : bool)  (* n = ex   /   n := ex *)
| AIncr (n : name) (delta : Z) (pre : bool)       (* n++ n--  /  ++n --n *)
| AIdxSet (n : name) (k : key) (v : cval)         (* n[k] = v *)
| ADelElem (n : name) (k : key)                   (* del(n[k]) *)
| ADelete (n : name)                              (* del(n) *)
| AForInt (n : name) (a b : Z)                    (* for n = a:b { n } *)
| AForList (n : name) (l : list cval)             (* for n = [l...] { n } *)
| ACall (n : name) (v : cval)                     (* func(n){n}(v) *)
| ACallAlias (n y : name) (k : key) (v : cval)    (* func(n){y[k]=v;n}(y): the parameter is an alias of y's value *)
| ARead (n : name).                               (* n *)

(* what a closure that ESCAPED its maker does, when called later, to the constant-named parameter / local n of that maker *)
Inductive inner :=
| IRead                                 (* ()=>n *)
| IAssign (v : cval) (define : bool)    (* x=>{n=x}  /  x=>{n:=x} *)
| IParam (v : cval)                     (* func(n){n} : a parameter of the same name *)
| ILoopInt (a b : Z)                    (* (a,b)=>{for n=a:b{n}} *)
| ILoopList (l : list cval)             (* l=>{for n=l{n}} *)
| IIdxSet (k : key) (v : cval)          (* (k,x)=>{n[k]=x} *)
| IDelElem (k : key)                    (* k=>del(n[k]) *)
| IIncr (delta : Z).                    (* ()=>{n++} *)

Definition inner_attempt (n : name) (i : inner) : attempt :=
  match i with
  | IRead => ARead n
  | IAssign v d => AAssign n (ELit v) d
  | IParam v => ACall n v
  | ILoopInt a b => AForInt n a b
  | ILoopList l => AForList n l
  | IIdxSet k v => AIdxSet n k v
  | IDelElem k => ADelElem n k
  | IIncr d => AIncr n d false
  end.

Inductive scope := STop | SFn | SFn2 | SLoop.     (* at top level / inside func(){..}() / two deep / inside for 2 {..} *)
Inductive event :=
| Ev (s : scope) (a : attempt)
| EvClo (g : name) (i : inner).      (* g[..](..): one of the closures of the bundle g, made by EMkParam, called at top level *)

Definition is_big (v : cval) : bool :=
  match v with
  | XArr l => Z.to_nat object_MaxSmallArray <? length l
  | XMap l => Z.to_nat object_MaxSmallMap <? length l
  | _ => false
  end.

(* s.env.Set(n, new container) after an index assignment or del.  Pinned code (ccow = false): a large container
   had been written in place, so the binding already shows the new value when CreateOrSet compares *)
Definition set_container (c : ccfg) (e : env) (n : name) (old nv : cval) : env * res cval :=
  let e0 := if negb (ccow c) && is_big old then set_no_checks e n nv false else e in
  create_or_set c e0 n nv false.

Definition is_int (v : cval) : bool := match v with XNum (NInt _) => true | _ => false end.

(* the loop-variable / parameter is held in a register: not a binding at all *)
Definition reg_bound (c : ccfg) (n : name) : bool :=
  use_reg c && negb (const_test c && constant_name n).

Fixpoint for_values (c : ccfg) (e : env) (n : name) (vs : list cval) (last : cval) : env * res cval :=
  match vs with
  | [] => (e, Ok last)
  | v :: t =>
    (* s.env.Set(name, v): the result is ignored *)
    let (e1, _) := create_or_set c e n v false in
    match read_name e1 n with
    | (e2, Ok r) => for_values c e2 n t r
    | (e2, x) => (e2, x)
    end
  end.

Fixpoint int_range (a : Z) (k : nat) : list cval :=
  match k with O => [] | S k' => XNum (NInt a) :: int_range (a + 1) k' end.

(* evalIndexRangeExpression / evalIndexExpressionIdx / evalArrayInfixExpression on immutable values *)
Definition x_slice (v : cval) (l r : Z) : res cval :=
  match v with
  | XArr a => '(l', r') <- range_norm (length a) l r ;; w <- lift (window a l' (r' - l')) ;; Ok (XArr w)
  | XMap m => '(l', r') <- range_norm (length m) l r ;; w <- lift (window m l' (r' - l')) ;; Ok (XMap w)
  | XNil => '(l', r') <- range_norm 0 l r ;; Ok XNil
  | XStr _ => Dom
  | _ => Err
  end.
Definition x_index (v : cval) (k : key) : res cval :=
  match v with
  | XArr a =>
    match k with
    | KNum (NInt i) => match idx_norm (length a) i with Some j => lift (nth_error a j) | None => Ok XNil end
    | _ => Err
    end
  | XMap m => let (found, i) := kfind m k 0 in
              if found then match nth_error m i with Some (_, x) => Ok x | None => Stuck end else Ok XNil
  | XNil => Ok XNil
  | XStr _ => Dom
  | _ => Err
  end.
Definition x_append (v : cval) (x : cval) : res cval :=
  match v with
  | XArr a => Ok (XArr (a ++ [x]))
  | _ => Err
  end.

Definition on_value (r : env * res cval) (f : cval -> res cval) : env * res cval :=
  match r with
  | (e1, Ok v) => (e1, f v)
  | (e1, x) => (e1, x)
  end.

(* evalInfixExpression for + with an array on the left (other operand types are outside the model) *)
Definition x_plus (v : cval) (x : cval) : res cval :=
  match v with
  | XArr a =>
    match x with
    | XArr b => Ok (XArr (a ++ b))
    | XNum (NFlt _) | XNum NNegZero => Err    (* a float operand is tried as float arithmetic first: error *)
    | _ => Ok (XArr (a ++ [x]))
    end
  | XNil | XBool _ | XCloLocal _ _ _ _ | XCloOuter _ _ _ => Err
  | XMap _ => match x with XMap _ => Dom | _ => Err end
  | _ => Dom
  end.

Definition root_frame (e : env) : option frame := nth_error e (length e - 1).
Definition maker_param : name := [109; 107; 110]%N.   (* "mkn" *)

Fixpoint eval_expr (c : ccfg) (e : env) (ex : expr) : env * res cval :=
  match ex with
  | ELit v => (e, Ok v)
  | EName y => read_name e y
  | ESlice y l r => on_value (read_name e y) (fun v => x_slice v l r)
  | EWrap y => on_value (read_name e y) (fun v => Ok (XArr [v]))
  | EIndex y k => on_value (read_name e y) (fun v => x_index v k)
  | ERet y => let (e1, r) := read_name (empty_frame :: e) y in (tl e1, r)
  | EAppend y x => on_value (read_name e y) (fun v => x_append v x)
  | ECallSet y k x => on_value (read_name e y) (fun v => x_idx_set v k x)
  | EPlus x v => on_value (eval_expr c e x) (fun w => x_plus w v)
  | EMaker id v => (e, Ok (XCloLocal 0 id maker_param v))
  | EMkParam id n v =>
    if negb (length e =? 1) then (e, Dom) else
    if is_int v && reg_bound c n then (e, Dom) else     (* the parameter would be a register, not a binding *)
    match create_or_set c (empty_frame :: e) n v true with
    | (f :: t, Ok _) =>
      match nlookup (fstore f) n with
      | Some (OVal w) => (t, Ok (XCloLocal (S id) id n w))
      | _ => (t, Stuck)
      end
    | (e1, Ok _) => (tl e1, Stuck)
    | (e1, x) => (tl e1, x)
    end
  | EMkClo id n v =>
    (* only at top level: the captured frame then has the top-level environment as its only outer frame *)
    if negb (length e =? 1) then (e, Dom) else
    match create_or_set c (empty_frame :: e) n v false with
    | (f :: t, Ok _) =>
      match nlookup (fstore f) n with
      | Some (OVal w) => (t, Ok (XCloLocal (S id) id n w))
      | Some (ORef _ _) => (t, Ok (XCloOuter (S id) id n))
      | None => (t, Stuck)
      end
    | (e1, Ok _) => (tl e1, Stuck)
    | (e1, x) => (tl e1, x)
    end
  | ECallClo g =>
    (* the call runs in a new frame whose outer frame is the captured one, then the top level *)
    match read_name e g with
    | (e1, Ok (XCloLocal _ _ n w)) => (e1, Ok w)
    | (e1, Ok (XCloOuter _ _ n)) =>
      (e1, match root_frame e1 with
           | Some f => match nlookup (fstore f) n with Some (OVal w) => Ok w | _ => Dom end
           | None => Stuck
           end)
    | (e1, Ok _) => (e1, Err)          (* not a function *)
    | (e1, x) => (e1, x)
    end
  end.

(* n[k] = v : evalIndexAssigment *)
Definition do_idx_set (c : ccfg) (e : env) (n : name) (k : key) (v : cval) : env * res cval :=
  match read_name e n with
  | (e1, Ok xv) =>
    match x_idx_set xv k v with
    | Ok nv => let (e2, r) := set_container c e1 n xv nv in
               (e2, match r with Ok _ => Ok v | x => x end)
    | Err => (e1, Err) | Dom => (e1, Dom) | Stuck => (e1, Stuck)
    end
  | (e1, x) => (e1, x)
  end.

Definition do_attempt (c : ccfg) (e : env) (a : attempt) : env * res cval :=
  match a with
  | AAssign n ex define =>
    match eval_expr c e ex with
    | (e1, Ok v) => create_or_set c e1 n v define
    | (e1, x) => (e1, x)
    end
  | AIncr n delta pre =>
    match read_name e n with
    | (e1, Ok old) =>
      let nv := match old with
                | XNum (NInt z) => if int64_ok (z + delta) then Ok (XNum (NInt (z + delta))) else Dom
                | XNum (NFlt q) => Ok (XNum (NFlt (q + 4 * delta)))
                | XNum NNegZero => Ok (XNum (NFlt (4 * delta)))
                | _ => Err
                end in
      match nv with
      | Ok w => let (e2, r) := create_or_set c e1 n w false in
                (e2, match r with Ok _ => if pre then r else Ok old | x => x end)
      | Err => (e1, Err) | Dom => (e1, Dom) | Stuck => (e1, Stuck)
      end
    | (e1, x) => (e1, x)
    end
  | AIdxSet n k v => do_idx_set c e n k v
  | ADelElem n k =>
    match env_get e n with
    | None => (e, Ok (XBool false))
    | Some (e1, o) =>
      match deref e1 o with
      | Some (XMap l) =>
        match xmap_del l k with
        | Some l' => let (e2, r) := set_container c e1 n (XMap l) (XMap l') in
                     (e2, match r with Ok _ => Ok (XBool true) | x => x end)
        | None => (e1, Ok (XBool false))
        end
      | Some _ => (e1, Err)
      | None => (e1, Stuck)
      end
    end
  | ADelete n => let (e1, b) := env_delete e n in (e1, Ok (XBool b))
  | AForInt n a b =>
    if (b <? a)%Z then (e, Err)
    else if reg_bound c n then (e, Ok (if (a <? b)%Z then XNum (NInt (b - 1)) else XNil))
    else for_values c e n (int_range a (Z.to_nat (b - a))) XNil
  | AForList n l => for_values c e n l XNil
  | ACall n v =>
    if is_int v && reg_bound c n then (e, Ok v)
    else
      match create_or_set c (empty_frame :: e) n v true with
      | (e1, Ok _) => let (e2, r) := read_name e1 n in (tl e2, r)
      | (e1, x) => (tl e1, x)
      end
  | ACallAlias n y k v =>
    (* the argument is evaluated in the caller's frame; an integer could go to a register, but then y[k]=v fails anyway *)
    match read_name e y with
    | (e0, Ok w) =>
      let bound := if is_int w && reg_bound c n then (empty_frame :: e0, Ok w)
                   else create_or_set c (empty_frame :: e0) n w true in
      match bound with
      | (e1, Ok _) =>
        match do_idx_set c e1 y k v with
        | (e2, Ok _) =>
          if is_int w && reg_bound c n then (tl e2, Ok w)
          else let (e3, r) := read_name e2 n in (tl e3, r)
        | (e2, x) => (tl e2, x)
        end
      | (e1, x) => (tl e1, x)
      end
    | (e0, x) => (e0, x)
    end
  | ARead n => read_name e n
  end.

(* The call runs in a new frame whose outer frame is the maker's frame (which binds n to w), then the top level.
   Modelled when the top level does not bind the same name to another value (else outside the model: Dom). *)
Definition run_closure (c : ccfg) (e : env) (g : name) (i : inner) : env * res cval :=
  match read_name e g with
  | (e1, Ok (XCloLocal _ _ n w)) =>
    if negb (constant_name n) then (e1, Dom) else
    let same_below := match root_frame e1 with
                      | Some f => match nlookup (fstore f) n with
                                  | Some (OVal x) => cval_eqb true x w
                                  | Some (ORef _ _) => false
                                  | None => true
                                  end
                      | None => false
                      end in
    if negb same_below then (e1, Dom) else
    let (e2, r) := do_attempt c (empty_frame :: mkframe [(n, OVal w)] :: e1) (inner_attempt n i) in
    (tl (tl e2), r)
  | (e1, Ok (XCloOuter _ _ _)) => (e1, Dom)
  | (e1, Ok _) => (e1, Dom)
  | (e1, x) => (e1, x)
  end.

Definition run_event (c : ccfg) (e : env) (ev : event) : env * res cval :=
  match ev with
  | EvClo g i => if length e =? 1 then run_closure c e g i else (e, Dom)
  | Ev STop a => do_attempt c e a
  | Ev SFn a => let (e1, r) := do_attempt c (empty_frame :: e) a in (tl e1, r)
  | Ev SFn2 a => let (e1, r) := do_attempt c (empty_frame :: empty_frame :: e) a in (tl (tl e1), r)
  | Ev SLoop a =>
    match do_attempt c e a with
    | (e1, Ok _) => do_attempt c e1 a
    | (e1, x) => (e1, x)
    end
  end.

Fixpoint run_events (c : ccfg) (e : env) (evs : list event) : env :=
  match evs with
  | [] => e
  | ev :: t => run_events c (fst (run_event c e ev)) t
  end.

Definition root_env (s : list (name * cval)) : env := [mkframe (map (fun nv => (fst nv, OVal (snd nv))) s)].

(* what the name is bound to at top level *)
Definition root_value (e : env) (n : name) : option cval :=
  match e with
  | [f] => match nlookup (fstore f) n with Some (OVal v) => Some v | _ => None end
  | _ => None
  end.

Definition repo_ccfg (reg : bool) : ccfg := mkccfg reg true true true true.
Definition pinned_ccfg (reg : bool) : ccfg := mkccfg reg false false false false.
