(* "No missing children": the well-formedness predicate of property C08 on syntax trees.
   nil_free n = every child slot the AST has is filled, with the three legal exceptions of the
   grammar: a bare `return`, an `if` without `else`, and the open ended range `x[n:]` (an infix `:`
   without right operand).  [printable] additionally asks that the tokens of infix / postfix / index
   nodes have a precedence entry (what PrintState.needParen needs). *)
From Coq Require Import List ZArith Bool.
From GrolGen Require Import Gen_Consts Gen_Prec.
From GrolModel Require Import Ast Parser.
Import ListNotations.

Definition has_prec_tok (t : tok) : bool :=
  match table_get precedences (ttype t) with Some _ => true | None => false end.

Definition is_stmts (n : node) : bool := match n with NStmts _ => true | _ => false end.

Section WithRec.
Variable rec : node -> bool.
(* a child that is an expression or statement: present, well formed, and not a bare Statements *)
Definition we_with (x : option node) : bool :=
  match x with Some m => negb (is_stmts m) && rec m | None => false end.
Fixpoint wl_with (l : list (option node)) : bool :=
  match l with [] => true | x :: r => we_with x && wl_with r end.
Definition wol_with (x : option (list (option node))) : bool :=
  match x with Some l => wl_with l | None => true end.
(* a *Statements field *)
Definition wb_with (x : option node) : bool :=
  match x with Some (NStmts l) => wl_with l | _ => false end.
Fixpoint wp_with (l : list (option node * option node)) : bool :=
  match l with [] => true | (k, v) :: r => we_with k && we_with v && wp_with r end.
End WithRec.

(* need_prec = true: also require precedence entries (printable) *)
Fixpoint wf_node (need_prec : bool) (n : node) {struct n} : bool :=
  let pr := fun (t : tok) => negb need_prec || has_prec_tok t in
  match n with
  | NIdent _ | NInt _ _ | NFloat _ _ | NString _ | NBool _ _ | NComment _ _ _ | NControl _ => true
  | NReturn _ v => match v with None => true | Some _ => we_with (wf_node need_prec) v end
  | NStmts l => wl_with (wf_node need_prec) l
  | NPrefix _ r => we_with (wf_node need_prec) r
  | NPostfix t _ => pr t
  | NInfix t l r =>
    pr t && we_with (wf_node need_prec) l
    && match r with None => Z.eqb (ttype t) token_COLON | Some _ => we_with (wf_node need_prec) r end
  | NFor _ c b => we_with (wf_node need_prec) c && wb_with (wf_node need_prec) b
  | NIf _ c a b =>
    we_with (wf_node need_prec) c && wb_with (wf_node need_prec) a
    && match b with None => true | Some _ => wb_with (wf_node need_prec) b end
  | NBuiltin _ ps => wol_with (wf_node need_prec) ps
  | NFunc _ _ ps b _ _ => wol_with (wf_node need_prec) ps && wb_with (wf_node need_prec) b
  | NCall _ f a => we_with (wf_node need_prec) f && wol_with (wf_node need_prec) a
  | NArray _ e => wol_with (wf_node need_prec) e
  | NIndex t l i => pr t && we_with (wf_node need_prec) l && we_with (wf_node need_prec) i
  | NMap _ ps => wp_with (wf_node need_prec) ps
  | NMacro _ ps b => wol_with (wf_node need_prec) ps && wb_with (wf_node need_prec) b
  end.

Definition nil_free : node -> bool := wf_node false.
Definition printable : node -> bool := wf_node true.

(* a program = the statement list of the root *)
Definition program_nil_free (l : list (option node)) : bool := nil_free (NStmts l).
Definition program_printable (l : list (option node)) : bool := printable (NStmts l).
