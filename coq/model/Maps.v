(* Model of the ordered maps of /repo/object/object.go: SmallMap / BigMap (Get, Set, Delete, Append, First,
   Rest, Range, Len, Inspect, NewMapSize) and eval.evalMapLiteral.  Executable Gallina, no proofs here.
   Models the tree AFTER the C11 `fix:` commits (SmallMap.Append returns a SmallMap value).

   Go representation                               model
   ----------------------------------------------  ------------------------------------------------------
   SmallMap{smallKV [MaxSmallMap]keyValuePair,len}  Small l      l = smallKV[:len]; slots at and beyond len are
                                                                 never read by any method, so they are not modelled
   *BigMap{kv []keyValuePair}                       Big l        l = kv (capacity / sharing of the backing array is
                                                                 the subject of C06, not of this model)
   Cmp(a.Key, b.Key)  (-1 / 0 / 1)                  kcmp a b     (Lt / Eq / Gt), a Section parameter, instantiated
                                                                 with Cmp.cmp_c (model of object.Cmp) by the driver
   a Go failure (index out of range, slice bounds)  GoPanic      explicit; never a default value

   The key order is NOT assumed to be an order here: the functions below are what the code does for any
   three-way function; proofs/Maps_proofs.v assumes a total preorder where it needs one. *)
From Coq Require Import List ZArith NArith Bool Arith.
From GrolGen Require Import Gen_Consts.
From GrolModel Require Import Cmp.
Import ListNotations.

Section Maps.
  Variables K V : Type.
  Variable kcmp : K -> K -> comparison.

  Local Notation pair := (K * V)%type (only parsing).

  Inductive gmap : Type :=
  | Small (l : list pair)
  | Big (l : list pair).

  (* mapElements() *)
  Definition elems (m : gmap) : list pair := match m with Small l | Big l => l end.
  Definition is_big (m : gmap) : bool := match m with Big _ => true | Small _ => false end.

  Definition max_small : nat := Z.to_nat object_MaxSmallMap.

  (* func NewMapSize(size int) Map *)
  Definition mnew (size : Z) : gmap :=
    if Z.leb size object_MaxSmallMap then Small [] else Big [].

  (* func (m SmallMap) get(key) (Object, bool, int): linear search with early exit.
     i0 is the index of the head of l in the array. *)
  Fixpoint small_get (l : list pair) (key : K) (i0 : nat) : option V * nat :=
    match l with
    | [] => (None, i0)
    | (k, v) :: t =>
        match kcmp k key with
        | Gt => (None, i0)
        | Eq => (Some v, i0)
        | Lt => small_get t key (S i0)
        end
    end.

  (* slices.BinarySearchFunc(m.kv, kv, CompareKeys):
       n := len(x); i, j := 0, n
       for i < j { h := int(uint(i+j) >> 1); if cmp(x[h], target) < 0 { i = h + 1 } else { j = h } }
       return i, i < n && cmp(x[i], target) == 0
     None = x[h] out of range, or the fuel ran out (neither happens: Maps_proofs.bs_loop_ok). *)
  Fixpoint bs_loop (l : list pair) (key : K) (fuel i j : nat) : option nat :=
    if Nat.ltb i j then
      match fuel with
      | O => None
      | S f =>
          let h := Nat.div2 (i + j) in
          match nth_error l h with
          | None => None
          | Some (k, _) =>
              match kcmp k key with
              | Lt => bs_loop l key f (S h) j
              | _ => bs_loop l key f i h
              end
          end
      end
    else Some i.

  (* func (m *BigMap) get(key) (Object, bool, int) *)
  Definition big_get (l : list pair) (key : K) : outcome (option V * nat) :=
    match bs_loop l key (length l) 0 (length l) with
    | None => GoPanic
    | Some i =>
        match nth_error l i with
        | Some (k, v) => match kcmp k key with Eq => Val (Some v, i) | _ => Val (None, i) end
        | None => Val (None, i)
        end
    end.

  (* m.kv[i].Value = value *)
  Fixpoint set_val (l : list pair) (i : nat) (v : V) : list pair :=
    match l, i with
    | [], _ => []
    | (k, _) :: t, O => (k, v) :: t
    | p :: t, S i' => p :: set_val t i' v
    end.

  Definition insert_at (l : list pair) (i : nat) (p : pair) : list pair := firstn i l ++ p :: skipn i l.
  Definition remove_at (l : list pair) (i : nat) : list pair := firstn i l ++ skipn (S i) l.

  (* Get *)
  Definition mget (m : gmap) (key : K) : outcome (option V) :=
    match m with
    | Small l => Val (fst (small_get l key 0))
    | Big l => omap fst (big_get l key)
    end.

  (* Set: update in place when the key is there (the stored key object is kept); otherwise insert at the
     position found; a SmallMap that would get a (MaxSmallMap+1)-th pair becomes a BigMap *)
  Definition mset (m : gmap) (key : K) (v : V) : outcome gmap :=
    match m with
    | Small l =>
        match small_get l key 0 with
        | (Some _, i) => Val (Small (set_val l i v))
        | (None, i) =>
            if Nat.ltb max_small (S (length l))
            then Val (Big (insert_at l i (key, v)))
            else Val (Small (insert_at l i (key, v)))
        end
    | Big l =>
        match big_get l key with
        | GoPanic => GoPanic
        | Val (Some _, i) => Val (Big (set_val l i v))
        | Val (None, i) => Val (Big (insert_at l i (key, v)))
        end
    end.

  (* Delete: (map, changed); a BigMap stays big whatever its length becomes *)
  Definition mdelete (m : gmap) (key : K) : outcome (gmap * bool) :=
    match m with
    | Small l =>
        match small_get l key 0 with
        | (Some _, i) => Val (Small (remove_at l i), true)
        | (None, _) => Val (m, false)
        end
    | Big l =>
        match big_get l key with
        | GoPanic => GoPanic
        | Val (Some _, i) => Val (Big (remove_at l i), true)
        | Val (None, _) => Val (m, false)
        end
    end.

  Definition mlen (m : gmap) : nat := length (elems m).

  (* First: NULL (None) or the pair (Go wraps it as {"key":k,"value":v}) *)
  Definition mfirst (m : gmap) : option pair := hd_error (elems m).

  (* Rest: NULL (None) when at most one pair; a BigMap demotes when the remainder fits a SmallMap *)
  Definition mrest (m : gmap) : option gmap :=
    match m with
    | Small l => if Nat.leb (length l) 1 then None else Some (Small (tl l))
    | Big l =>
        if Nat.leb (length l) 1 then None
        else if Nat.ltb max_small (length l - 1) then Some (Big (tl l)) else Some (Small (tl l))
    end.

  (* Range(l, r): the callers (evalIndexRangeExpression) guarantee 0 <= l <= r <= len; outside that the Go code
     panics with slice bounds out of range (or, for a SmallMap and r <= MaxSmallMap, produces pairs of nil
     objects): both are failures, reported as GoPanic *)
  Definition mrange (m : gmap) (lo hi : nat) : outcome gmap :=
    if Nat.leb lo hi && Nat.leb hi (length (elems m)) then
      let s := firstn (hi - lo) (skipn lo (elems m)) in
      match m with
      | Small _ => Val (Small s)
      | Big _ => if Nat.ltb max_small (hi - lo) then Val (Big s) else Val (Small s)
      end
    else GoPanic.

  Definition obind {A B} (o : outcome A) (f : A -> outcome B) : outcome B :=
    match o with Val a => f a | GoPanic => GoPanic end.

  Definition set_all (start : outcome gmap) (ps : list pair) : outcome gmap :=
    fold_left (fun acc p => obind acc (fun a => mset a (fst p) (snd p))) ps start.

  (* Append: a fresh copy of the left operand (as a SmallMap when both are small, else as a BigMap), then Set of
     every pair of the right operand in its stored order; Set promotes a SmallMap on the way if needed *)
  Definition mappend (m right : gmap) : outcome gmap :=
    let start :=
      match m with
      | Small l => if Nat.leb (mlen right) max_small then Small l else Big l
      | Big l => Big l
      end in
    set_all (Val start) (elems right).

  (* evalMapLiteral: NewMapSize(number of pairs) then Set in source order *)
  Definition mliteral (ps : list pair) : outcome gmap :=
    set_all (Val (mnew (Z.of_nat (length ps)))) ps.

  (* Inspect: "{k:v,k:v}" ; SmallMap special-cases the empty map, BigMap does not (same text) *)
  Section Inspect.
    Variable pk : K -> list N.
    Variable pv : V -> list N.
    Fixpoint join_pairs (l : list pair) (first : bool) : list N :=
      match l with
      | [] => []
      | (k, v) :: t => (if first then [] else [44%N]) ++ pk k ++ [58%N] ++ pv v ++ join_pairs t false
      end.
    Definition minspect (m : gmap) : list N :=
      match m with
      | Small [] => [123%N; 125%N]
      | Small l => [123%N] ++ join_pairs l true ++ [125%N]
      | Big l => [123%N] ++ join_pairs l true ++ [125%N]
      end.
  End Inspect.

  (* ------------------------------------------------------------------ reference: a finite map as an
     association list kept strictly increasing in the key order, one entry per key class *)
  Fixpoint s_get (l : list pair) (key : K) : option V :=
    match l with
    | [] => None
    | (k, v) :: t => match kcmp k key with Lt => s_get t key | Eq => Some v | Gt => None end
    end.

  Fixpoint s_set (l : list pair) (key : K) (v : V) : list pair :=
    match l with
    | [] => [(key, v)]
    | (k, v0) :: t =>
        match kcmp k key with
        | Lt => (k, v0) :: s_set t key v
        | Eq => (k, v) :: t
        | Gt => (key, v) :: (k, v0) :: t
        end
    end.

  Fixpoint s_del (l : list pair) (key : K) : list pair :=
    match l with
    | [] => []
    | (k, v0) :: t =>
        match kcmp k key with
        | Lt => (k, v0) :: s_del t key
        | Eq => t
        | Gt => l
        end
    end.

  Definition s_mem (l : list pair) (key : K) : bool :=
    match s_get l key with Some _ => true | None => false end.

  Definition s_set_all (l : list pair) (ps : list pair) : list pair :=
    fold_left (fun a p => s_set a (fst p) (snd p)) ps l.

  Definition s_rest (l : list pair) : option (list pair) :=
    match l with [] | [_] => None | _ :: t => Some t end.

  Definition s_range (l : list pair) (lo hi : nat) : option (list pair) :=
    if Nat.leb lo hi && Nat.leb hi (length l) then Some (firstn (hi - lo) (skipn lo l)) else None.

  (* ------------------------------------------------------------------ operation sequences *)
  Inductive op : Type :=
  | OSet (k : K) (v : V)         (* m[k] = v *)
  | OGet (k : K)                 (* m[k] *)
  | ODel (k : K)                 (* del(m[k]) *)
  | OAppend (r : gmap)           (* m = m + r *)
  | OPrepend (l : gmap)          (* m = l + m *)
  | OFirst                       (* first(m) *)
  | ORest                        (* m = rest(m) when that is a map; otherwise observed as nil, m unchanged *)
  | ORange (lo hi : nat)         (* m = m[lo:hi] *)
  | OLen                         (* len(m) *)
  | OLiteral (ps : list pair).   (* m = { ps } *)

  Inductive obs : Type :=
  | BUnit
  | BGet (r : option V)
  | BBool (b : bool)
  | BFirst (r : option pair)
  | BLen (n : nat)
  | BFail.

  (* one step of the implementation: new map and what the program sees *)
  Definition step (m : gmap) (o : op) : outcome (gmap * obs) :=
    match o with
    | OSet k v => omap (fun m' => (m', BUnit)) (mset m k v)
    | OGet k => omap (fun r => (m, BGet r)) (mget m k)
    | ODel k => omap (fun r => (fst r, BBool (snd r))) (mdelete m k)
    | OAppend r => omap (fun m' => (m', BUnit)) (mappend m r)
    | OPrepend l => omap (fun m' => (m', BUnit)) (mappend l m)
    | OFirst => Val (m, BFirst (mfirst m))
    | ORest => match mrest m with Some m' => Val (m', BBool true) | None => Val (m, BBool false) end
    | ORange lo hi => omap (fun m' => (m', BUnit)) (mrange m lo hi)
    | OLen => Val (m, BLen (mlen m))
    | OLiteral ps => omap (fun m' => (m', BUnit)) (mliteral ps)
    end.

  (* the same step on the reference map; None where the implementation fails (range out of bounds) *)
  Definition s_step (l : list pair) (o : op) : option (list pair * obs) :=
    match o with
    | OSet k v => Some (s_set l k v, BUnit)
    | OGet k => Some (l, BGet (s_get l k))
    | ODel k => Some (s_del l k, BBool (s_mem l k))
    | OAppend r => Some (s_set_all l (elems r), BUnit)
    | OPrepend r => Some (s_set_all (elems r) l, BUnit)
    | OFirst => Some (l, BFirst (hd_error l))
    | ORest => match s_rest l with Some t => Some (t, BBool true) | None => Some (l, BBool false) end
    | ORange lo hi => match s_range l lo hi with Some s => Some (s, BUnit) | None => None end
    | OLen => Some (l, BLen (length l))
    | OLiteral ps => Some (s_set_all [] ps, BUnit)
    end.

  (* a run: after every operation the program can see the operation's result and the whole content of the
     map in iteration order (printed form, iteration, equality with another map are functions of it) *)
  Fixpoint run (m : gmap) (ops : list op) : outcome (list (obs * list pair)) :=
    match ops with
    | [] => Val []
    | o :: rest =>
        match step m o with
        | GoPanic => GoPanic
        | Val (m', b) => omap (cons (b, elems m')) (run m' rest)
        end
    end.

  Fixpoint s_run (l : list pair) (ops : list op) : option (list (obs * list pair)) :=
    match ops with
    | [] => Some []
    | o :: rest =>
        match s_step l o with
        | None => None
        | Some (l', b) => option_map (cons (b, l')) (s_run l' rest)
        end
    end.
  (* ------------------------------------------------------------------ several bindings at once
     A program holds many maps: `v3 = v1 + v2`, `v4 = v1[0:5]`, `v5 = v1; v5[k] = x` ... Maps are values: an
     operation makes a new map and no map held elsewhere may change.  [bstep] appends the new binding to the
     store of all bindings made so far (binding i is the i-th element); [brun] returns, after every operation,
     the content of EVERY binding - what a program re-reading all its variables sees.
     GoPanic: a binding index that does not exist, a range out of bounds, or rest of a map of at most one pair
     (the new binding would be nil, not a map): outside this little language, the reference says None there. *)
  Inductive bop : Type :=
  | BLit (ps : list pair)                 (* vN = { ps } *)
  | BSet (i : nat) (k : K) (v : V)        (* vN = v_i ; vN[k] = v *)
  | BDel (i : nat) (k : K)                (* vN = v_i ; del(vN[k]) *)
  | BAppend (i j : nat)                   (* vN = v_i + v_j *)
  | BRest (i : nat)                       (* vN = rest(v_i) *)
  | BRange (i lo hi : nat).               (* vN = v_i[lo:hi] *)

  Definition with_binding {A} (st : list gmap) (i : nat) (f : gmap -> outcome A) : outcome A :=
    match nth_error st i with Some m => f m | None => GoPanic end.

  Definition bnew (st : list gmap) (o : bop) : outcome gmap :=
    match o with
    | BLit ps => mliteral ps
    | BSet i k v => with_binding st i (fun m => mset m k v)
    | BDel i k => with_binding st i (fun m => omap fst (mdelete m k))
    | BAppend i j => with_binding st i (fun m => with_binding st j (fun r => mappend m r))
    | BRest i => with_binding st i (fun m => match mrest m with Some m' => Val m' | None => GoPanic end)
    | BRange i lo hi => with_binding st i (fun m => mrange m lo hi)
    end.

  Definition bstep (st : list gmap) (o : bop) : outcome (list gmap) :=
    omap (fun m => st ++ [m]) (bnew st o).

  Fixpoint brun (st : list gmap) (ops : list bop) : outcome (list (list (list pair))) :=
    match ops with
    | [] => Val []
    | o :: rest =>
        match bstep st o with
        | GoPanic => GoPanic
        | Val st' => omap (cons (map elems st')) (brun st' rest)
        end
    end.

  (* the same on the reference: a store of association lists *)
  Definition s_with {A} (st : list (list pair)) (i : nat) (f : list pair -> option A) : option A :=
    match nth_error st i with Some l => f l | None => None end.

  Definition s_bnew (st : list (list pair)) (o : bop) : option (list pair) :=
    match o with
    | BLit ps => Some (s_set_all [] ps)
    | BSet i k v => s_with st i (fun l => Some (s_set l k v))
    | BDel i k => s_with st i (fun l => Some (s_del l k))
    | BAppend i j => s_with st i (fun l => s_with st j (fun r => Some (s_set_all l r)))
    | BRest i => s_with st i s_rest
    | BRange i lo hi => s_with st i (fun l => s_range l lo hi)
    end.

  Definition s_bstep (st : list (list pair)) (o : bop) : option (list (list pair)) :=
    option_map (fun l => st ++ [l]) (s_bnew st o).

  Fixpoint s_brun (st : list (list pair)) (ops : list bop) : option (list (list (list pair))) :=
    match ops with
    | [] => Some []
    | o :: rest =>
        match s_bstep st o with
        | None => None
        | Some st' => option_map (cons st') (s_brun st' rest)
        end
    end.
End Maps.

Arguments Small {K V} l.
Arguments Big {K V} l.
