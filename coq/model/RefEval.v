(* Reference evaluator of the core language (C01): a fuelled big-step evaluator over the syntax trees
   of the real parser (Ast.node).  It is written from the documented semantics: no registers, no
   memoization, no small/large container thresholds, containers are immutable values, environments
   live in a heap indexed by ids (closures share environments).
   One Fixpoint on fuel ([run]); everything else is a combinator over the evaluator of the previous
   fuel level ([ev]), so that fuel monotonicity is proved combinator by combinator.
   NO proofs here (see proofs/RefEval_proofs.v). *)
From Coq Require Import List ZArith NArith Bool.
From GrolGen Require Import Gen_Consts.
From GrolModel Require Import Ast RefValues.
Import ListNotations.
Open Scope Z_scope.

(* ------------------------------------------------------------------ state *)
Definition store := list (bytes * value).
Record env : Type := mkEnv { estore : store; eouter : option nat; efun : option value }.
(* out: the printed text as the list of written chunks, NEWEST FIRST (the text is concat (rev out)) *)
Record state : Type := mkState { heap : list env; cur : nat; out : list bytes; nextfid : nat }.

Inductive abort : Type :=
| AFuel     (* the fuel given to [run] was not enough *)
| AInexact  (* a float result that binary64 would have to round *)
| AUnk.     (* outside the reference's domain (macros, extensions, printer-dependent text, ...) *)

Inductive outcome : Type :=
| OVal (v : value)
| ORet (v : value)            (* return signal *)
| OBrk | OCont                (* loop control signals *)
| OErr (msg : option bytes)   (* language error; Some m: raised by error(...) with text m *)
| OAbort (a : abort).

Definition M := state -> outcome * state.

Fixpoint store_get (s : store) (n : bytes) : option value :=
  match s with
  | [] => None
  | (k, v) :: r => if bytes_eqb k n then Some v else store_get r n
  end.
Fixpoint store_set (s : store) (n : bytes) (v : value) : store :=
  match s with
  | [] => [(n, v)]
  | (k, x) :: r => if bytes_eqb k n then (k, v) :: r else (k, x) :: store_set r n v
  end.
Fixpoint heap_set (h : list env) (id : nat) (e : env) : list env :=
  match h, id with
  | [], _ => []
  | _ :: r, O => e :: r
  | x :: r, S k => x :: heap_set r k e
  end.

Inductive lookup (A : Type) : Type := LFound (a : A) | LMissing | LBroken.
Arguments LFound {A} a.
Arguments LMissing {A}.
Arguments LBroken {A}.

(* nearest environment, from id outwards, whose store binds n (outer ids are smaller than the id of
   the environment that points to them, so fuel = heap length always suffices; LBroken otherwise) *)
Fixpoint find_env (fuel : nat) (h : list env) (id : nat) (n : bytes) : lookup nat :=
  match fuel with
  | O => LBroken
  | S f =>
      match nth_error h id with
      | None => LBroken
      | Some e =>
          match store_get (estore e) n with
          | Some _ => LFound id
          | None => match eouter e with Some o => find_env f h o n | None => LMissing end
          end
      end
  end.

Definition b_self : bytes := [115; 101; 108; 102]%N.
Definition b_info : bytes := [105; 110; 102; 111]%N.
Definition b_dotdot : bytes := [46; 46]%N.
Definition b_nil_id : bytes := [110; 105; 108]%N.
Definition b_null_id : bytes := [110; 117; 108; 108]%N.

Definition fun_name (f : value) : option bytes :=
  match f with VFun _ nm _ _ _ _ => nm | _ => None end.

Definition lookup_chain (st : state) (n : bytes) : lookup value :=
  match find_env (S (length (heap st))) (heap st) (cur st) n with
  | LFound id =>
      match nth_error (heap st) id with
      | Some e => match store_get (estore e) n with Some v => LFound v | None => LBroken end
      | None => LBroken
      end
  | LMissing => LMissing
  | LBroken => LBroken
  end.

(* name resolution in the current frame: self, the frame's own function name, then the scope chain *)
Definition get_var (st : state) (n : bytes) : lookup value :=
  if bytes_eqb n b_info then LBroken else
  match nth_error (heap st) (cur st) with
  | None => LBroken
  | Some e =>
      if bytes_eqb n b_self then match efun e with Some f => LFound f | None => LMissing end
      else
        match efun e with
        | Some f =>
            match fun_name f with
            | Some fname => if bytes_eqb n fname then LFound f else lookup_chain st n
            | None => lookup_chain st n
            end
        | None => lookup_chain st n
        end
  end.

Definition set_in (st : state) (id : nat) (n : bytes) (v : value) : state :=
  match nth_error (heap st) id with
  | Some e => mkState (heap_set (heap st) id (mkEnv (store_set (estore e) n v) (eouter e) (efun e)))
                      (cur st) (out st) (nextfid st)
  | None => st
  end.

(* := and parameters: always the current frame *)
Definition set_define (st : state) (n : bytes) (v : value) : state := set_in st (cur st) n v.

(* = : the nearest existing binding in the scope chain, else a new local *)
Definition set_assign (st : state) (n : bytes) (v : value) : option state :=
  match find_env (S (length (heap st))) (heap st) (cur st) n with
  | LFound id => Some (set_in st id n v)
  | LMissing => Some (set_in st (cur st) n v)
  | LBroken => None
  end.

Definition is_upper (c : N) : bool := (65 <=? c)%N && (c <=? 90)%N.
Definition is_digit (c : N) : bool := (48 <=? c)%N && (c <=? 57)%N.
Fixpoint const_rest (s : bytes) : bool :=
  match s with
  | [] => true
  | c :: r => (is_upper c || (c =? 95)%N || is_digit c) && const_rest r
  end.
(* ALL-UPPERCASE names (digits and _ allowed after the first letter) are constants *)
Definition is_constant (s : bytes) : bool :=
  match s with [] => true | c :: r => is_upper c && const_rest r end.

(* ------------------------------------------------------------------ monad *)
Definition ret (o : outcome) : M := fun st => (o, st).
Definition unk : M := ret (OAbort AUnk).
Definition err : M := ret (OErr None).
Definition retv (v : value) : M := ret (OVal v).
(* sequencing: aborts propagate, everything else goes to the continuation *)
Definition bindo (m : M) (k : outcome -> M) : M :=
  fun st => match m st with
            | (OAbort a, st') => (OAbort a, st')
            | (o, st') => k o st'
            end.
Definition gets {A : Type} (f : state -> A) (k : A -> M) : M := fun st => k (f st) st.
Definition modify (f : state -> state) (k : M) : M := fun st => k (f st).
(* a plain value is needed: errors propagate; a control signal here is outside the reference's domain *)
Definition bindx (m : M) (k : value -> M) : M :=
  bindo m (fun o => match o with OVal v => k v | OErr e => ret (OErr e) | _ => unk end).
(* State.Eval: a return signal yields its value, a stray break/continue is an error *)
Definition unwrap (o : outcome) : outcome :=
  match o with ORet v => OVal v | OBrk | OCont => OErr None | _ => o end.

Definition of_opt (o : option value) : M := match o with Some v => retv v | None => unk end.
Definition of_inexact (o : option fl) : outcome :=
  match o with Some f => OVal (VFloat f) | None => OAbort AInexact end.
Definition of_interr (o : option Z) : outcome :=
  match o with Some z => OVal (VInt z) | None => OErr None end.

Definition emit (b : bytes) (st : state) : state := mkState (heap st) (cur st) (b :: out st) (nextfid st).
Definition printed (st : state) : bytes := concat (rev (out st)).
Definition set_cur (id : nat) (st : state) : state := mkState (heap st) id (out st) (nextfid st).

(* Environment.CreateOrSet: constants cannot change value; returns the value *)
Definition create_or_set (n : bytes) (v : value) (create : bool) : M :=
  let doit : M :=
    if create then modify (fun st => set_define st n v) (retv v)
    else gets (fun st => set_assign st n v)
              (fun o => match o with Some st' => modify (fun _ => st') (retv v) | None => unk end) in
  if is_constant n then
    gets (fun st => get_var st n)
         (fun l => match l with
                   | LFound old =>
                       match vequals old v with
                       | Some true => doit
                       | Some false => err
                       | None => unk
                       end
                   | LMissing => doit
                   | LBroken => unk
                   end)
  else doit.

(* same, result and language error ignored (loop variables) *)
Definition set_ignore (n : bytes) (v : value) : M :=
  bindo (create_or_set n v false) (fun _ => retv VNil).

(* ------------------------------------------------------------------ operators *)
Definition tk (t : tok) (c : Z) : bool := ttype t =? c.
Definition is_true (v : value) : bool := match v with VBool true => true | _ => false end.
Definition is_float (v : value) : bool := match v with VFloat _ => true | _ => false end.
Definition is_opaque (v : value) : bool := match v with VOpaque => true | _ => false end.
Definition size_limit : Z := 1000000.

Definition cmp_out (c : option comparison) (f : comparison -> bool) : outcome :=
  match c with Some x => OVal (VBool (f x)) | None => OAbort AUnk end.

Definition int_infix (ty : Z) (a b : Z) : outcome :=
  if ty =? token_PLUS then OVal (VInt (int_add a b))
  else if ty =? token_MINUS then OVal (VInt (int_sub a b))
  else if ty =? token_ASTERISK then OVal (VInt (int_mul a b))
  else if ty =? token_SLASH then of_interr (int_div a b)
  else if ty =? token_PERCENT then of_interr (int_mod a b)
  else if ty =? token_LEFTSHIFT then of_interr (int_shl a b)
  else if ty =? token_RIGHTSHIFT then of_interr (int_shr a b)
  else if ty =? token_BITAND then OVal (VInt (int_and a b))
  else if ty =? token_BITOR then OVal (VInt (int_or a b))
  else if ty =? token_BITXOR then OVal (VInt (int_xor a b))
  else if ty =? token_COLON then
    (if b - a <? 0 then OErr None
     else if size_limit <? b - a then OAbort AUnk
     else OVal (VArr (int_range (Z.to_nat (b - a)) a)))
  else OErr None.

Definition to_float (v : value) : option (option fl) :=  (* None: not a number; Some None: inexact *)
  match v with
  | VInt z => Some (fl_of_int z)
  | VFloat f => Some (Some f)
  | _ => None
  end.

Definition float_infix (ty : Z) (l r : value) : outcome :=
  match to_float l, to_float r with
  | Some (Some a), Some (Some b) =>
      if ty =? token_PLUS then of_inexact (fadd a b)
      else if ty =? token_MINUS then of_inexact (fsub a b)
      else if ty =? token_ASTERISK then of_inexact (fmul a b)
      else if ty =? token_SLASH then of_inexact (fdiv a b)
      else if ty =? token_PERCENT then of_inexact (fmod a b)
      else OErr None
  | Some _, Some _ => OAbort AInexact
  | _, _ => OErr None
  end.

Definition str_infix (ty : Z) (s : bytes) (r : value) : outcome :=
  match r with
  | VStr s2 => if ty =? token_PLUS then OVal (VStr (s ++ s2)) else OErr None
  | VInt n =>
      if ty =? token_ASTERISK then
        (if n <? 0 then OErr None
         else if size_limit <? Z.of_nat (length s) * n then OAbort AUnk
         else OVal (VStr (repeat_list (Z.to_nat n) s)))
      else OErr None
  | _ => OErr None
  end.

Definition arr_infix (ty : Z) (xs : list value) (r : value) : outcome :=
  if ty =? token_ASTERISK then
    match r with
    | VInt n =>
        if n <? 0 then OErr None
        else if size_limit <? Z.of_nat (length xs) * n then OAbort AUnk
        else OVal (VArr (repeat_list (Z.to_nat n) xs))
    | _ => OErr None
    end
  else if ty =? token_PLUS then
    match r with
    | VArr ys => OVal (VArr (xs ++ ys))
    | _ => OVal (VArr (xs ++ [r]))
    end
  else OErr None.

Definition is_gt (c : comparison) : bool := match c with Gt => true | _ => false end.
Definition is_lt (c : comparison) : bool := match c with Lt => true | _ => false end.
Definition is_ge (c : comparison) : bool := match c with Lt => false | _ => true end.
Definition is_le (c : comparison) : bool := match c with Gt => false | _ => true end.

(* evalInfixExpression on two evaluated operands *)
Definition infix_op (ty : Z) (l r : value) : outcome :=
  if is_opaque l || is_opaque r then OAbort AUnk
  else if ty =? token_EQ then
    match vequals l r with Some b => OVal (VBool b) | None => OAbort AUnk end
  else if ty =? token_NOTEQ then
    match vequals l r with Some b => OVal (VBool (negb b)) | None => OAbort AUnk end
  else if ty =? token_GT then cmp_out (vcmp l r) is_gt
  else if ty =? token_LT then cmp_out (vcmp l r) is_lt
  else if ty =? token_GTEQ then cmp_out (vcmp l r) is_ge
  else if ty =? token_LTEQ then cmp_out (vcmp l r) is_le
  else if ty =? token_AND then OVal (VBool (is_true l && is_true r))
  else if ty =? token_OR then OVal (VBool (is_true l || is_true r))
  else
    match l, r with
    | VInt a, VInt b => int_infix ty a b
    | _, _ =>
        if is_float l || is_float r then float_infix ty l r
        else
          match l with
          | VStr s => str_infix ty s r
          | VArr xs => arr_infix ty xs r
          | VMap m =>
              match r with
              | VMap m2 =>
                  if ty =? token_PLUS then
                    match mappend m m2 with Some m' => OVal (VMap m') | None => OAbort AUnk end
                  else OErr None
              | _ => OErr None
              end
          | _ => OErr None
          end
    end.

Definition prefix_op (ty : Z) (v : value) : outcome :=
  if is_opaque v then OAbort AUnk
  else if ty =? token_BANG then
    match v with
    | VBool b => OVal (VBool (negb b))
    | VNil => OVal (VBool true)
    | _ => OErr None
    end
  else if ty =? token_MINUS then
    match v with
    | VInt z => OVal (VInt (int_neg z))
    | VFloat f => OVal (VFloat (fneg f))
    | _ => OErr None
    end
  else if (ty =? token_BITNOT) || (ty =? token_BITXOR) then
    match v with VInt z => OVal (VInt (int_not z)) | _ => OErr None end
  else if ty =? token_PLUS then OVal v
  else if ty =? token_BLOCKCOMMENT then OAbort AUnk
  else OErr None.

(* x[i] on evaluated operands (evalIndexExpressionIdx) *)
Definition index_op (l i : value) : outcome :=
  if is_opaque l || is_opaque i then OAbort AUnk else
  let iz : option Z := match i with VInt z => Some z | VNil => Some 0 | _ => None end in
  match l with
  | VStr s =>
      match iz with
      | Some z => match seq_index s z with Some c => OVal (VInt (Z.of_N c)) | None => OVal VNil end
      | None => OErr None
      end
  | VArr xs =>
      match iz with
      | Some z => match seq_index xs z with Some v => OVal v | None => OVal VNil end
      | None => OErr None
      end
  | VMap m =>
      match mget m i with
      | Some (Some v) => OVal v
      | Some None => OVal VNil
      | None => OAbort AUnk
      end
  | VNil => OVal VNil
  | _ => OErr None
  end.

(* x[l:r] on evaluated operands (evalIndexRangeExpression) *)
Definition slice_op (x l : value) (r : option value) : outcome :=
  if is_opaque x then OAbort AUnk else
  match l, (match r with None => Some None | Some (VInt z) => Some (Some z) | Some _ => None end) with
  | VInt lz, Some rz =>
      match x with
      | VStr s => match seq_slice s lz rz with Some s' => OVal (VStr s') | None => OErr None end
      | VArr xs => match seq_slice xs lz rz with Some l' => OVal (VArr l') | None => OErr None end
      | VMap m => match seq_slice m lz rz with Some m' => OVal (VMap m') | None => OErr None end
      | VNil => match seq_slice (@nil value) lz rz with Some _ => OVal VNil | None => OErr None end
      | _ =>  match seq_slice (@nil value) lz rz with Some _ => OErr None | None => OErr None end
      end
  | _, _ => OErr None
  end.

Definition len_op (v : value) : outcome :=
  match v with
  | VStr s => OVal (VInt (Z.of_nat (length s)))
  | VArr l => OVal (VInt (Z.of_nat (length l)))
  | VMap m => OVal (VInt (Z.of_nat (length m)))
  | VNil => OVal (VInt 0)
  | VOpaque => OAbort AUnk
  | _ => OErr None
  end.

Definition first_op (v : value) : outcome :=
  match v with
  | VNil => OVal VNil
  | VArr [] => OVal VNil
  | VArr (x :: _) => OVal x
  | VMap [] => OVal VNil
  | VMap ((k, x) :: _) => OVal (pair_map k x)
  | VStr [] => OVal VNil
  | VStr ((_ :: _) as s) => OVal (VStr (fst (split_rune s)))
  | VFun _ _ ps _ _ _ => OVal (VArr (map VStr ps))
  | VOpaque => OAbort AUnk
  | _ => OErr None
  end.

Definition rest_op (v : value) : outcome :=
  match v with
  | VNil => OVal VNil
  | VArr (_ :: ((_ :: _) as r)) => OVal (VArr r)
  | VArr _ => OVal VNil
  | VMap (_ :: ((_ :: _) as r)) => OVal (VMap r)
  | VMap _ => OVal VNil
  | VStr ((_ :: (_ :: _)) as s) => OVal (VStr (reencode (snd (split_rune s))))
  | VStr _ => OVal VNil
  | VFun _ _ _ _ _ _ => OAbort AUnk
  | VOpaque => OAbort AUnk
  | _ => OErr None
  end.

(* the items a for loop iterates over *)
Definition iter_items (v : value) : option (list value) :=
  match v with
  | VArr l => Some l
  | VMap m => Some (map (fun kv => pair_map (fst kv) (snd kv)) m)
  | VStr s => Some (map VStr (runes s))
  | _ => None
  end.

(* ------------------------------------------------------------------ the evaluator *)
Inductive task : Type :=
| TNode (n : node)                                                   (* evalInternal *)
| TWhile (c b : node) (last : value)                                 (* for cond {body} *)
| TForInt (name : option bytes) (i stop : Z) (b : node) (last : value). (* for [name =] start:stop {body} *)

Section Step.
  Variable ev : task -> M.

  Definition evalI (n : option node) : M :=
    match n with Some x => ev (TNode x) | None => unk end.
  Definition evalE (n : option node) : M :=
    match n with Some x => bindo (ev (TNode x)) (fun o => ret (unwrap o)) | None => unk end.

  (* evalExpressions: the values as OVal (VArr vs) *)
  Fixpoint eval_list (l : list (option node)) : M :=
    match l with
    | [] => retv (VArr [])
    | n :: r =>
        bindx (evalI n) (fun v =>
        bindx (eval_list r) (fun vs =>
          match vs with VArr l' => retv (VArr (v :: l')) | _ => unk end))
    end.

  Fixpoint eval_stmts (l : list (option node)) (last : value) : M :=
    match l with
    | [] => retv last
    | None :: _ => unk
    | Some (NComment _ _ _) :: r => eval_stmts r last
    | Some n :: r =>
        bindo (ev (TNode n)) (fun o => match o with OVal v => eval_stmts r v | _ => ret o end)
    end.

  (* print / println / error text: arguments joined by one space; result OVal (VStr text) *)
  Fixpoint print_args (l : list (option node)) (first : bool) (acc : bytes) : M :=
    match l with
    | [] => retv (VStr acc)
    | n :: r =>
        bindx (evalI n) (fun v =>
          match display v with
          | Some b => print_args r false (acc ++ (if first then [] else [32%N]) ++ b)
          | None => unk
          end)
    end.

  Fixpoint map_pairs (l : list (option node * option node)) (acc : vmap) : M :=
    match l with
    | [] => retv (VMap acc)
    | (k, v) :: r =>
        bindx (evalE k) (fun kv =>
        bindx (evalE v) (fun vv =>
          if is_opaque kv then unk else
          match mset acc kv vv with Some acc' => map_pairs r acc' | None => unk end))
    end.

  Fixpoint bind_params (ps : list bytes) (vs : list value) : M :=
    match ps, vs with
    | [], [] => retv VNil
    | p :: ps', v :: vs' => bindx (create_or_set p v true) (fun _ => bind_params ps' vs')
    | _, _ => err
    end.

  Fixpoint for_list (name : bytes) (items : list value) (b : node) (last : value) : M :=
    match items with
    | [] => retv last
    | x :: r =>
        bindo (set_ignore name x) (fun _ =>
        bindo (ev (TNode b)) (fun o =>
          match o with
          | OVal v => for_list name r b v
          | OCont => for_list name r b last
          | OBrk => retv last
          | _ => ret o
          end))
    end.

  Definition splice_last (args : list value) : list value :=
    match rev args with VArr l :: r => rev r ++ l | _ => args end.

  (* applyFunction / extendFunctionEnv / NewFunctionEnvironment *)
  Definition call_fun (f : value) (args : list value) : M :=
    match f with
    | VFun fid name params variadic body cenv =>
        let fixed := if variadic then removelast params else params in
        let n := length fixed in
        let args1 := if variadic then splice_last args else args in
        let args2 := if variadic then firstn n args1 else args1 in
        let extra := if variadic then skipn n args1 else [] in
        if negb (Nat.eqb (length args2) n) then err
        else
          gets (fun st => (cur st, nth_error (heap st) (cur st))) (fun ce =>
            let caller := fst ce in
            (* a function calling itself (identity, not text) is parented on the calling frame *)
            let parent :=
              match snd ce with
              | Some e => match efun e with
                          | Some (VFun fid' _ _ _ _ _) => if Nat.eqb fid' fid then caller else cenv
                          | _ => cenv
                          end
              | None => cenv
              end in
            gets (fun st => length (heap st)) (fun id =>
            modify (fun st => mkState (heap st ++ [mkEnv [] (Some parent) (Some f)]) id (out st) (nextfid st))
              (bindo (bind_params fixed args2) (fun o =>
                 match o with
                 | OVal _ =>
                     modify (fun st => if variadic then set_define st b_dotdot (VArr extra) else st)
                       (bindo (ev (TNode body)) (fun o2 => modify (set_cur caller) (ret (unwrap o2))))
                 | _ => modify (set_cur caller) (ret o)
                 end))))
    | _ => err
    end.

  Definition param_names (ps : option (list (option node))) : option (list bytes) :=
    match ps with
    | None => Some []
    | Some l =>
        (fix go (l : list (option node)) : option (list bytes) :=
           match l with
           | [] => Some []
           | Some (NIdent t) :: r => match go r with Some ns => Some (tlit t :: ns) | None => None end
           | _ => None
           end) l
    end.

  (* ++x, --x, x++, x-- *)
  Definition incdec (name : bytes) (delta : Z) (post : bool) : M :=
    gets (fun st => get_var st name) (fun l =>
      match l with
      | LFound old =>
          let nv : outcome :=
            match old with
            | VInt z => OVal (VInt (wrap64 (z + delta)))
            | VFloat f => of_inexact (fadd f (FFin (delta <? 0) 1 0))
            | VOpaque => OAbort AUnk
            | _ => OErr None
            end in
          match nv with
          | OVal v => bindx (create_or_set name v false) (fun r => retv (if post then old else r))
          | o => ret o
          end
      | LMissing => err
      | LBroken => unk
      end).

  (* x[i] = v, x.k = v : the container bound to an identifier is replaced by an updated copy *)
  Definition index_assign (which : option node) (index value_ : value) : M :=
    match which with
    | Some (NIdent t) =>
        if negb (tk t token_IDENT) then err else
        gets (fun st => get_var st (tlit t)) (fun l =>
          match l with
          | LFound (VArr xs) =>
              match index with
              | VInt i =>
                  match norm_index (Z.of_nat (length xs)) i with
                  | Some n =>
                      bindx (create_or_set (tlit t) (VArr (firstn n xs ++ value_ :: skipn (S n) xs)) false)
                            (fun _ => retv value_)
                  | None => err
                  end
              | VOpaque => unk
              | _ => err
              end
          | LFound (VMap m) =>
              if is_opaque index then unk else
              match mset m index value_ with
              | Some m' => bindx (create_or_set (tlit t) (VMap m') false) (fun _ => retv value_)
              | None => unk
              end
          | LFound VOpaque => unk
          | LFound _ => err
          | LMissing => err
          | LBroken => unk
          end)
    | Some _ => err
    | None => unk
    end.

  Definition assign (t : tok) (lhs : node) (right : value) : M :=
    match node_tok lhs with
    | None => err
    | Some lt =>
        if tk lt token_DOT then
          match lhs with
          | NIndex _ which (Some idx) =>
              match node_tok idx with
              | Some it => index_assign which (VStr (tlit it)) right
              | None => unk
              end
          | NIndex _ _ None => unk
          | _ => err
          end
        else if tk lt token_LBRACKET then
          match lhs with
          | NIndex _ which idx => bindx (evalE idx) (fun iv => index_assign which iv right)
          | _ => err
          end
        else if tk lt token_IDENT then
          match lhs with
          | NIdent it => create_or_set (tlit it) right (tk t token_DEFINE)
          | _ => unk
          end
        else err
    end.

  Definition del_entry (lhs : option node) (index : value) : M :=
    match lhs with
    | Some l =>
        match node_tok l with
        | Some lt =>
            if negb (tk lt token_IDENT) then err else
            gets (fun st => get_var st (tlit lt)) (fun r =>
              match r with
              | LMissing => retv (VBool false)
              | LFound (VMap m) =>
                  if is_opaque index then unk else
                  match mdel m index with
                  | Some (m', true) => bindx (create_or_set (tlit lt) (VMap m') false) (fun _ => retv (VBool true))
                  | Some (_, false) => retv (VBool false)
                  | None => unk
                  end
              | LFound VOpaque => unk
              | LFound _ => err
              | LBroken => unk
              end)
        | None => err
        end
    | None => unk
    end.

  Definition eval_builtin (t : tok) (params : option (list (option node))) : M :=
    let ps := match params with Some l => l | None => [] end in
    let ty := ttype t in
    let np := length ps in
    if (ty =? token_QUOTE) || (ty =? token_UNQUOTE) || (ty =? token_LOG) then unk
    else if ty =? token_PRINTLN then
      bindx (print_args ps true []) (fun s =>
        match s with VStr b => modify (emit (b ++ [10%N])) (retv VNil) | _ => unk end)
    else if ty =? token_PRINT then
      if Nat.eqb np 0 then err else
      bindx (print_args ps true []) (fun s =>
        match s with VStr b => modify (emit b) (retv VNil) | _ => unk end)
    else if ty =? token_ERROR then
      if Nat.eqb np 0 then err else
      bindx (print_args ps true []) (fun s =>
        match s with VStr b => ret (OErr (Some b)) | _ => unk end)
    else
      match ps with
      | [p] =>
          if ty =? token_DEL then
            match p with
            | Some (NIndex it lhs (Some idx)) =>
                if tk it token_DOT then
                  match node_tok idx with
                  | Some kt =>
                      if tk kt token_STRING || tk kt token_IDENT then del_entry lhs (VStr (tlit kt)) else err
                  | None => unk
                  end
                else if tk it token_LBRACKET then bindx (evalE (Some idx)) (fun iv => del_entry lhs iv)
                else unk
            | _ => unk
            end
          else if ty =? token_CATCH then
            bindo (evalI p) (fun o =>
              match o with
              | OVal v => retv (VMap [(str_err, VBool false); (str_value, v)])
              | OErr (Some m) => retv (VMap [(str_err, VBool true); (str_value, VStr m)])
              | OErr None => retv (VMap [(str_err, VBool true); (str_value, VOpaque)])
              | _ => unk
              end)
          else if ty =? token_LEN then bindx (evalI p) (fun v => ret (len_op v))
          else if ty =? token_FIRST then bindx (evalI p) (fun v => ret (first_op v))
          else if ty =? token_REST then bindx (evalI p) (fun v => ret (rest_op v))
          else unk
      | _ => err
      end.

  Definition for_int (name : option bytes) (start stop : Z) (b : node) : M :=
    if wrap64 (stop - start) <? 0 then err else ev (TForInt name start stop b VNil).

  Definition eval_for (cond body : option node) : M :=
    match cond, body with
    | Some c, Some b =>
        let generic := ev (TWhile c b VNil) in
        match c with
        | NInfix t (Some lhs) (Some rhs) =>
            if tk t token_ASSIGN || tk t token_DEFINE then
              match node_tok lhs with
              | Some lt =>
                  if tk lt token_IDENT then
                    let name := tlit lt in
                    let general :=
                      bindx (ev (TNode rhs)) (fun v =>
                        match v with
                        | VInt n => for_int (Some name) 0 n b
                        | VOpaque => unk
                        | VFun _ _ _ _ _ _ | VBool _ | VNil | VFloat _ => generic
                        | _ => match iter_items v with
                               | Some items => for_list name items b VNil
                               | None => unk
                               end
                        end) in
                    match rhs with
                    | NInfix rt ra rb =>
                        if tk rt token_COLON then
                          bindx (evalI ra) (fun a =>
                            match a with
                            | VInt az =>
                                bindx (evalI rb) (fun bb =>
                                  match bb with
                                  | VInt bz => for_int (Some name) az bz b
                                  | _ => err
                                  end)
                            | _ => err
                            end)
                        else general
                    | _ => general
                    end
                  else err
              | None => err
              end
            else generic
        | _ => generic
        end
    | _, _ => unk
    end.

  Definition branch (b : option node) : M :=
    match b with Some n => ev (TNode n) | None => retv VNil end.

  Definition eval_node (n : node) : M :=
    match n with
    | NIdent t =>
        gets (fun st => get_var st (tlit t)) (fun l =>
          match l with LFound v => retv v | LMissing => err | LBroken => unk end)
    | NInt _ v => retv (VInt v)
    | NFloat _ b => retv (VFloat (fl_of_bits b))
    | NString t => retv (VStr (tlit t))
    | NBool _ b => retv (VBool b)
    | NComment _ _ _ => retv VNil
    | NControl t =>
        if tk t token_BREAK then ret OBrk
        else if tk t token_CONTINUE then ret OCont
        else unk
    | NReturn _ None => ret (ORet VNil)
    | NReturn _ (Some e) => bindx (ev (TNode e)) (fun v => ret (ORet v))
    | NStmts l => eval_stmts l VNil
    | NPrefix t r =>
        if tk t token_INCR || tk t token_DECR then
          match r with
          | Some rn =>
              match node_tok rn with
              | Some rt =>
                  if tk rt token_IDENT then incdec (tlit rt) (if tk t token_INCR then 1 else -1) false
                  else err
              | None => err
              end
          | None => unk
          end
        else bindx (evalE r) (fun v => ret (prefix_op (ttype t) v))
    | NPostfix t prev =>
        if tk t token_INCR then incdec (tlit prev) 1 true
        else if tk t token_DECR then incdec (tlit prev) (-1) true
        else err
    | NInfix t l r =>
        if tk t token_ASSIGN || tk t token_DEFINE then
          match l with
          | Some lhs => bindx (evalE r) (fun rv => assign t lhs rv)
          | None => unk
          end
        else
          bindx (evalE l) (fun lv =>
            if tk t token_AND && (match lv with VBool false => true | _ => false end) then retv (VBool false)
            else if tk t token_OR && is_true lv then retv (VBool true)
            else if tk t token_BITOR && (match lv with VStr _ => true | _ => false end)
                    && (match r with
                        | Some rn => match node_tok rn with Some rt => tk rt token_LPAREN | None => false end
                        | None => false
                        end)
            then unk
            else bindx (evalE r) (fun rv => ret (infix_op (ttype t) lv rv)))
    | NFor _ c b => eval_for c b
    | NIf _ c thn alt =>
        bindx (evalI c) (fun v =>
          match v with
          | VBool true => branch thn
          | VBool false => branch alt
          | VOpaque => unk
          | _ => err
          end)
    | NBuiltin t ps => eval_builtin t ps
    | NFunc _ name ps body _ _ =>
        match param_names ps, body with
        | Some names, Some b =>
            gets (fun st => (nextfid st, cur st)) (fun fc =>
              let nm := match name with Some nt => Some (tlit nt) | None => None end in
              let variadic := match rev names with last :: _ => bytes_eqb last b_dotdot | [] => false end in
              let f := VFun (fst fc) nm names variadic b (snd fc) in
              modify (fun st => mkState (heap st) (cur st) (out st) (S (nextfid st)))
                (match nm with
                 | Some x => bindx (create_or_set x f false) (fun _ => retv f)
                 | None => retv f
                 end))
        | _, _ => unk
        end
    | NCall _ f args =>
        bindx (evalE f) (fun fv =>
        bindx (eval_list (match args with Some l => l | None => [] end)) (fun av =>
          match av with VArr vs => call_fun fv vs | _ => unk end))
    | NArray _ elems =>
        eval_list (match elems with Some l => l | None => [] end)
    | NIndex t l i =>
        bindx (evalE l) (fun lv =>
          if tk t token_DOT then
            match i with
            | Some idx =>
                match node_tok idx with
                | Some kt =>
                    if tk kt token_STRING || tk kt token_IDENT then ret (index_op lv (VStr (tlit kt))) else err
                | None => unk
                end
            | None => unk
            end
          else
            match i with
            | Some (NInfix ct ra rb) =>
                if tk ct token_COLON then
                  bindo (evalE ra) (fun oa =>
                    match rb with
                    | None =>
                        match oa with
                        | OVal a => ret (slice_op lv a None)
                        | OErr _ => err
                        | _ => unk
                        end
                    | Some _ =>
                        bindo (evalE rb) (fun ob =>
                          match oa, ob with
                          | OVal a, OVal b => ret (slice_op lv a (Some b))
                          | OVal _, OErr _ | OErr _, OVal _ | OErr _, OErr _ => err
                          | _, _ => unk
                          end)
                    end)
                else bindx (evalE i) (fun iv => ret (index_op lv iv))
            | Some _ => bindx (evalE i) (fun iv => ret (index_op lv iv))
            | None => unk
            end)
    | NMap _ pairs => map_pairs pairs []
    | NMacro _ _ _ => unk
    end.

  Definition step (t : task) : M :=
    match t with
    | TNode n => eval_node n
    | TWhile c b last =>
        bindx (ev (TNode c)) (fun v =>
          match v with
          | VBool true =>
              bindo (ev (TNode b)) (fun o =>
                match o with
                | OVal x => ev (TWhile c b x)
                | OCont => ev (TWhile c b last)
                | OBrk => retv last
                | _ => ret o
                end)
          | VBool false | VNil => retv last
          | VInt n => for_int None 0 n b
          | VOpaque => unk
          | _ => err
          end)
    | TForInt name i stop b last =>
        if stop <=? i then retv last
        else
          bindo (match name with Some x => set_ignore x (VInt i) | None => retv VNil end) (fun _ =>
          bindo (ev (TNode b)) (fun o =>
            match o with
            | OVal v => ev (TForInt name (i + 1) stop b v)
            | OCont => ev (TForInt name (i + 1) stop b last)
            | OBrk => retv last
            | _ => ret o
            end))
    end.
End Step.

Fixpoint run (fuel : nat) (t : task) : M :=
  match fuel with
  | O => ret (OAbort AFuel)
  | S f => step (run f) t
  end.

(* the state a program starts in: one root environment binding nil and null *)
Definition init_state : state :=
  mkState [mkEnv [(b_nil_id, VNil); (b_null_id, VNil)] None None] 0 [] 0.

(* a whole program: State.Eval of the statement list on a fresh state *)
Definition eval_program (fuel : nat) (prog : node) : outcome * state :=
  match run fuel (TNode prog) init_state with (o, st) => (unwrap o, st) end.

(* ------------------------------------------------------------------ documented binding strengths *)
(* Frozen copy (by name) of the precedence table the reference semantics was written against.  The
   reference evaluator works on trees, so the table is not used by [run]; it is compared, on every run,
   with the table the translator reads from /repo (proofs/RefEval_proofs.v: prec_table_frozen), and the
   harness checks on the implementation that unparenthesised operator pairs group accordingly. *)
Definition ref_prec : list (Z * Z) :=
  [(token_DEFINE, ast_ASSIGN); (token_ASSIGN, ast_ASSIGN);
   (token_OR, ast_OR); (token_AND, ast_AND); (token_COLON, ast_AND);
   (token_EQ, ast_EQUALS); (token_NOTEQ, ast_EQUALS); (token_LAMBDA, ast_LAMBDA);
   (token_LT, ast_LESSGREATER); (token_GT, ast_LESSGREATER); (token_LTEQ, ast_LESSGREATER); (token_GTEQ, ast_LESSGREATER);
   (token_PLUS, ast_SUM); (token_MINUS, ast_SUM); (token_BITOR, ast_SUM); (token_BITXOR, ast_SUM);
   (token_BITAND, ast_PRODUCT); (token_ASTERISK, ast_PRODUCT); (token_PERCENT, ast_PRODUCT);
   (token_LEFTSHIFT, ast_PRODUCT); (token_RIGHTSHIFT, ast_PRODUCT);
   (token_SLASH, ast_DIVIDE); (token_INCR, ast_PREFIX); (token_DECR, ast_PREFIX);
   (token_LPAREN, ast_CALL); (token_LBRACKET, ast_INDEX); (token_DOT, ast_DOTINDEX)].

(* the binding levels from weakest to strongest *)
Definition ref_levels : list Z :=
  [ast_LOWEST; ast_ASSIGN; ast_OR; ast_AND; ast_LAMBDA; ast_EQUALS; ast_LESSGREATER; ast_SUM; ast_PRODUCT;
   ast_DIVIDE; ast_PREFIX; ast_CALL; ast_INDEX; ast_DOTINDEX].

Fixpoint prec_lookup (tbl : list (Z * Z)) (t : Z) : option Z :=
  match tbl with
  | [] => None
  | (k, p) :: r => if k =? t then Some p else prec_lookup r t
  end.

Definition opt_z_eqb (a b : option Z) : bool :=
  match a, b with Some x, Some y => x =? y | None, None => true | _, _ => false end.

(* the two tables are the same function on the tokens either of them mentions *)
Definition prec_tables_agree (t1 t2 : list (Z * Z)) : bool :=
  forallb (fun kp => opt_z_eqb (prec_lookup t1 (fst kp)) (prec_lookup t2 (fst kp))) (t1 ++ t2).

Fixpoint strictly_increasing (l : list Z) : bool :=
  match l with
  | a :: ((b :: _) as r) => (a <? b) && strictly_increasing r
  | _ => true
  end.
