(* Model of macro definition and expansion: /repo/eval/macro_expension.go (DefineMacros, ExpandMacros,
   quoteArgs, extendMacroEnv, MacroErrorf) and /repo/eval/quote_unquote.go (quote, evalUnquoteCalls,
   convertObjectToASTNode), on top of the Modify model (ast.Modify / ModifyNoOk).

   Domain (the fragment of property C13): a macro whose body, comments aside, is the single statement
   quote(T), and whose unquote(...) calls inside T take an identifier as argument.  Evaluating anything
   else needs the evaluator; [in_fragment] decides membership and the driver skips the rest.
   No proofs in this file. *)
From Coq Require Import List ZArith NArith Bool String Ascii.
From GrolGen Require Import Gen_Consts.
From GrolModel Require Import Ast Modify.
Import ListNotations.
Local Open Scope Z_scope.

Fixpoint bytes_of_str (s : string) : bytes :=
  match s with EmptyString => [] | String a r => N_of_ascii a :: bytes_of_str r end.

Fixpoint beq (a b : bytes) : bool :=
  match a, b with
  | [], [] => true
  | x :: a', y :: b' => N.eqb x y && beq a' b'
  | _, _ => false
  end.

Record macro : Type := mkMacro { m_params : option (list (option node)); m_body : option node }.
Definition menv : Type := list (bytes * macro).      (* s.macroState store; newest binding first *)

Fixpoint mlookup (e : menv) (name : bytes) : option macro :=
  match e with
  | [] => None
  | (k, m) :: r => if beq k name then Some m else mlookup r name
  end.

(* isMacroDefinition: NAME = macro(...){...} with the plain assignment token *)
Definition macro_def (s : option node) : option (bytes * macro) :=
  match s with
  | Some (NInfix t (Some (NIdent nt)) (Some (NMacro _ ps b))) =>
    if Z.eqb (ttype t) token_ASSIGN && beq (tlit t) [61%N] then Some (tlit nt, mkMacro ps b) else None
  | _ => None
  end.

(* func (s *State) DefineMacros(program): definitions are removed from the statement list *)
Fixpoint define_macros (l : list (option node)) (e : menv) : list (option node) * menv :=
  match l with
  | [] => ([], e)
  | s :: r =>
    match macro_def s with
    | Some (name, m) => define_macros r ((name, m) :: e)
    | None => let '(r', e') := define_macros r e in (s :: r', e')
    end
  end.

(* decimal rendering of a length (fmt %d) *)
Fixpoint dec_digits (fuel n : nat) (acc : bytes) : bytes :=
  match fuel with
  | O => acc
  | S f =>
    let d := N.of_nat (Nat.modulo n 10) in
    let acc' := (48 + d)%N :: acc in
    if Nat.ltb n 10 then acc' else dec_digits f (Nat.div n 10) acc'
  end.
Definition dec (n : nat) : bytes := dec_digits (S n) n [].

(* s.MacroErrorf(...) and the error node of convertObjectToASTNode: error("<msg>") *)
Definition error_node (msg : bytes) : node :=
  NBuiltin (mkTok token_ERROR (bytes_of_str "error")) (Some [Some (NString (mkTok token_STRING msg))]).

Definition is_comment_stmt (s : option node) : bool :=
  match s with Some (NComment _ _ _) => true | _ => false end.

(* the template of a macro: body = comments* quote(T) comments* *)
Definition template_of (m : macro) : option node :=
  match m_body m with
  | Some (NStmts l) =>
    match filter (fun s => negb (is_comment_stmt s)) l with
    | [Some (NBuiltin t (Some [Some T]))] => if Z.eqb (ttype t) token_QUOTE then Some T else None
    | _ => None
    end
  | _ => None
  end.

Definition param_name (p : option node) : option bytes :=
  match p with
  | Some n => match node_tok n with Some t => Some (tlit t) | None => None end
  | None => None
  end.

(* extendMacroEnv: parameters bound, in order, to the quoted arguments (a later equal name overwrites) *)
Fixpoint bind_params (ps : list (option node)) (args : list (option node)) (acc : list (bytes * option node))
  : list (bytes * option node) :=
  match ps, args with
  | p :: ps', a :: args' =>
    match param_name p with
    | Some nm => bind_params ps' args' ((nm, a) :: acc)
    | None => bind_params ps' args' acc
    end
  | _, _ => acc
  end.

Fixpoint alookup (e : list (bytes * option node)) (name : bytes) : option (option node) :=
  match e with
  | [] => None
  | (k, v) :: r => if beq k name then Some v else alookup r name
  end.

Definition is_unquote (n : node) : option (option (list (option node))) :=
  match n with
  | NBuiltin t ps => if Z.eqb (ttype t) token_UNQUOTE then Some ps else None
  | _ => None
  end.

(* the callback of evalUnquoteCalls on one node, for identifier arguments:
   a parameter -> its quoted argument; a macro name -> REFERENCE; anything else -> ERROR *)
Definition unquote_cb (e : menv) (sigma : list (bytes * option node)) (n : node) : node :=
  match is_unquote n with
  | Some (Some [Some (NIdent it)]) =>
    match alookup sigma (tlit it) with
    | Some (Some a) => a
    | Some None => n (* a nil argument node cannot occur in a clean tree; left unchanged in the model *)
    | None =>
      match mlookup e (tlit it) with
      | Some _ => error_node (bytes_of_str "unquote: unsupported object type REFERENCE")
      | None => error_node (bytes_of_str "unquote: unsupported object type ERROR")
      end
    end
  | _ => n
  end.

(* an unquote whose single argument is not an identifier needs the evaluator: outside the fragment *)
Definition unquote_in_fragment (n : node) : bool :=
  match is_unquote n with
  | Some (Some [Some (NIdent it)]) => negb (beq (tlit it) (bytes_of_str "info")) && negb (beq (tlit it) (bytes_of_str "self"))
  | Some (Some [_]) => false
  | _ => true
  end.

(* one macro call: the node that replaces it *)
Definition expand_call (e : menv) (m : macro) (args : option (list (option node))) : option node :=
  let al := match args with Some l => l | None => [] end in
  let pl := match m_params m with Some l => l | None => [] end in
  if negb (Nat.eqb (List.length al) (List.length pl)) then
    Some (error_node (bytes_of_str "wrong number of macro arguments, want=" ++ dec (List.length pl)
                      ++ bytes_of_str ", got=" ++ dec (List.length al)))
  else
    match template_of m with
    | None => None   (* outside the fragment *)
    | Some T => modify_no_ok (unquote_cb e (bind_params pl al [])) T
    end.

(* the callback of ExpandMacros; None = outside the fragment (or Modify gave up / panicked) *)
Definition expand_cb (e : menv) (n : node) : option node :=
  match n with
  | NCall _ (Some (NIdent ft)) args =>
    match mlookup e (tlit ft) with
    | Some m => expand_call e m args
    | None => Some n
    end
  | _ => Some n
  end.

Definition expand_macros (e : menv) (program : node) : option node := modify (expand_cb e) program.

(* what evalOne does with one input: define, then expand if any macro is defined *)
Definition define_and_expand (stmts : list (option node)) (e : menv) : option (list (option node)) * menv :=
  let '(rest, e') := define_macros stmts e in
  match e' with
  | [] => (Some rest, e')
  | _ =>
    match expand_macros e' (NStmts rest) with
    | Some (NStmts l) => (Some l, e')
    | _ => (None, e')
    end
  end.

(* fragment membership of an environment: every macro is a template whose unquotes take identifiers *)
Definition all_nodes (n : node) (p : node -> bool) : bool :=
  match modify (fun x => if p x then Some x else None) n with
  | Some _ => true
  | None => false
  end.

Definition macro_in_fragment (m : macro) : bool :=
  match template_of m with
  | Some T => all_nodes T unquote_in_fragment
  | None => false
  end.

Definition env_in_fragment (e : menv) : bool := forallb (fun km => macro_in_fragment (snd km)) e.
