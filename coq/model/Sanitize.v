(* Model of the restricted-IO mechanism of /repo/extensions (C17).  Executable Gallina, no proofs here.

   Go                                                   model
   --------------------------------------------------   ------------------------------------------------
   extensions.Config{HasLoad,HasSave,                   config (record of four booleans)
       LoadSaveEmptyOnly,UnrestrictedIOs}
   Init/initInternal: unrestrictedIOs, emptyOnly        the two fields read by [sanitize]
   const GrolFileExtension = ".gr"                      [suffix] := Gen_IOSites.grol_file_extension (regenerated)
   lexer.isLetter / isDigit / IsAlphaNum (on a byte)    [is_letter] [is_digit] [is_alnum]
   strings.HasSuffix / strings.TrimSuffix               [has_suffix] [trim_suffix]
   sanitizeFileName(args) (string, error)               [sanitize c arg] : option str   (None = the error return)
       len(args)==0                                         arg = None
   createJSONAndEvalFunctions / initInternal:           [registered c] (which of save, load, exec, run exist)
       save iff HasSave, load iff HasLoad,
       exec and run iff UnrestrictedIOs
   saveFunc / loadFunc / image.save callback            [step] on [RSave] [RLoad] [RImageSave]
   exec / run callbacks (shell.go)                      [step] on [RExec] [RRun]
   the files reachable from the process                 [fs] : association list  name -> content
   a grol program, as far as files are concerned        a list of [request]s (what a loaded file evaluates is
                                                        just more requests of the same list)

   The operating system is an argument: [ok n] says whether os.Create(n) succeeds (directory missing,
   name is a directory, empty name ... make it fail).  os.Open(n) succeeds iff [n] is present in [fs].
   Every name handed to the operating system is recorded in the access log, successful or not. *)
From Coq Require Import List NArith Bool.
From GrolGen Require Import Gen_IOSites.
Import ListNotations.
Local Open Scope N_scope.

Definition byte := N.
Definition str := list byte.
Definition content := list byte.

(* ---- bytes and strings ---- *)
Definition str_eqb (a b : str) : bool := if list_eq_dec N.eq_dec a b then true else false.

Definition is_letter (c : byte) : bool :=
  ((97 <=? c) && (c <=? 122)) || ((65 <=? c) && (c <=? 90)) || (c =? 95).
Definition is_digit (c : byte) : bool := (48 <=? c) && (c <=? 57).
Definition is_alnum (c : byte) : bool := is_letter c || is_digit c.

Definition suffix : str := grol_file_extension.
Definition grol_png : str := [103; 114; 111; 108; 46; 112; 110; 103].

(* strings.HasSuffix(s, suf) = len(s) >= len(suf) && s[len(s)-len(suf):] == suf *)
Definition has_suffix (s suf : str) : bool :=
  (Nat.leb (length suf) (length s)) && str_eqb (skipn (length s - length suf)%nat s) suf.
(* strings.TrimSuffix(s, suf) = if HasSuffix(s, suf) { s[:len(s)-len(suf)] } else { s } *)
Definition trim_suffix (s suf : str) : str :=
  if has_suffix s suf then firstn (length s - length suf)%nat s else s.

Definition is_empty (s : str) : bool := match s with [] => true | _ => false end.

(* ---- configuration ---- *)
Record config : Type := mkConfig {
  has_load : bool; has_save : bool; empty_only : bool; unrestricted : bool }.

Definition restricted (c : config) : Prop := unrestricted c = false.

(* ---- sanitizeFileName ---- *)
Definition sanitize (c : config) (arg : option str) : option str :=
  match arg with
  | None => Some suffix
  | Some file =>
      if empty_only c && negb (is_empty file) then None
      else if unrestricted c then Some file
      else let f := trim_suffix file suffix in
           if forallb is_alnum f then Some (f ++ suffix) else None
  end.

(* ---- which of the four functions exist ---- *)
Inductive fname : Type := FSave | FLoad | FExec | FRun.
Definition fname_eqb (a b : fname) : bool :=
  match a, b with FSave, FSave | FLoad, FLoad | FExec, FExec | FRun, FRun => true | _, _ => false end.

Definition registered (c : config) : list fname :=
  (if has_save c then [FSave] else []) ++ (if has_load c then [FLoad] else [])
  ++ (if unrestricted c then [FExec; FRun] else []).

Definition is_registered (c : config) (f : fname) : bool := existsb (fname_eqb f) (registered c).

(* ---- file system ---- *)
Definition fs : Type := list (str * content).

Fixpoint fs_get (f : fs) (n : str) : option content :=
  match f with
  | [] => None
  | (k, d) :: f' => if str_eqb k n then Some d else fs_get f' n
  end.

(* create-or-truncate then write *)
Fixpoint fs_set (f : fs) (n : str) (d : content) : fs :=
  match f with
  | [] => [(n, d)]
  | (k, d0) :: f' => if str_eqb k n then (k, d) :: f' else (k, d0) :: fs_set f' n d
  end.

(* ---- requests a program can issue, what the OS is asked, what the program gets back ---- *)
Inductive request : Type :=
| RSave (arg : option str) (data : content)      (* save() / save(name); data = the serialised globals *)
| RLoad (arg : option str)                       (* load() / load(name) *)
| RImageSave (found : bool) (data : content)     (* image.save(img); found = the image exists *)
| RExec (cmd : list str)
| RRun (cmd : list str).

Inductive access : Type :=
| ACreate (n : str)          (* os.Create(n) *)
| AOpen (n : str)            (* os.Open(n) *)
| ASpawn (cmd : list str).   (* exec.CommandContext(...).Run() *)

Inductive outcome : Type :=
| OUndefined                 (* identifier not found: the function is not registered *)
| ORejected                  (* sanitizeFileName returned an error *)
| OCreateFailed (n : str)    (* os.Create(n) failed *)
| OSaved (n : str)
| ONoFile (n : str)          (* os.Open(n) failed *)
| OLoaded (n : str) (d : content)
| OImageNotFound
| OImageSaved
| OSpawned.

Definition state : Type := (fs * list access)%type.

Definition step (c : config) (ok : str -> bool) (st : state) (r : request) : state * outcome :=
  let '(f, lg) := st in
  match r with
  | RSave a d =>
      if is_registered c FSave then
        match sanitize c a with
        | None => (st, ORejected)
        | Some n => if ok n then ((fs_set f n d, lg ++ [ACreate n]), OSaved n)
                    else ((f, lg ++ [ACreate n]), OCreateFailed n)
        end
      else (st, OUndefined)
  | RLoad a =>
      if is_registered c FLoad then
        match sanitize c a with
        | None => (st, ORejected)
        | Some n => match fs_get f n with
                    | Some d => ((f, lg ++ [AOpen n]), OLoaded n d)
                    | None => ((f, lg ++ [AOpen n]), ONoFile n)
                    end
        end
      else (st, OUndefined)
  | RImageSave found d =>
      if found then
        if ok grol_png then ((fs_set f grol_png d, lg ++ [ACreate grol_png]), OImageSaved)
        else ((f, lg ++ [ACreate grol_png]), OCreateFailed grol_png)
      else (st, OImageNotFound)
  | RExec cmd => if is_registered c FExec then ((f, lg ++ [ASpawn cmd]), OSpawned) else (st, OUndefined)
  | RRun cmd => if is_registered c FRun then ((f, lg ++ [ASpawn cmd]), OSpawned) else (st, OUndefined)
  end.

Fixpoint run (c : config) (ok : str -> bool) (st : state) (rs : list request) : state * list outcome :=
  match rs with
  | [] => (st, [])
  | r :: rs' =>
      let '(st1, o) := step c ok st r in
      let '(st2, os) := run c ok st1 rs' in
      (st2, o :: os)
  end.

(* the file name a request was resolved to, if the sanitiser accepted it *)
Definition accepted_name (o : outcome) : option str :=
  match o with
  | OCreateFailed n | OSaved n | ONoFile n | OLoaded n _ => Some n
  | _ => None
  end.

(* ---- the allowed set, as a decidable predicate (used by examples and by the OCaml driver) ---- *)
Definition dot_gr : str := [46; 103; 114].

Definition plainb (n : str) : bool :=
  has_suffix n dot_gr && forallb is_alnum (firstn (length n - 3)%nat n).

Definition allowedb (c : config) (n : str) : bool :=
  str_eqb n grol_png || (if empty_only c then str_eqb n dot_gr else plainb n).

(* helper for the driver: the entries of [f'] that are new or changed with respect to [f] *)
Definition content_eqb (a b : content) : bool := str_eqb a b.
Definition fs_changes (f f' : fs) : list (str * content) :=
  filter (fun e => match fs_get f (fst e) with
                   | Some d => negb (content_eqb d (snd e))
                   | None => true
                   end) f'.

(* ---- adaptive programs ----
   A list of requests fixes every request in advance.  A real grol program chooses its next request after seeing what
   the previous ones returned - in particular load() evaluates the content it has just read, and that content may
   issue further save/load/image/exec requests.  [program] is any such strategy: from the outcomes so far (contents
   returned by load included) to the next request, or None when the program ends.  [n] bounds the number of requests
   issued (every terminating execution is [run_prog] for some n). *)
Definition program : Type := list outcome -> option request.

Fixpoint run_prog (c : config) (ok : str -> bool) (p : program) (n : nat) (st : state) (hist : list outcome)
  : state * list outcome :=
  match n with
  | O => (st, hist)
  | S n' =>
      match p hist with
      | None => (st, hist)
      | Some r => let '(st1, o) := step c ok st r in run_prog c ok p n' st1 (hist ++ [o])
      end
  end.

(* the program that issues a fixed list of requests *)
Definition prog_of_list (rs : list request) : program := fun hist => nth_error rs (length hist).
