(* Specification side of C13: a plain bottom-up rewrite [bu g] of a syntax tree (structural
   recursion, the rule [g] applied at every node after its children), and the well-formedness
   [modifiable] under which ast.Modify is exactly that rewrite.  The macro theorems say: expansion =
   [bu] with the replacement rule "unquote(p) -> argument" (templates) / "macro call -> its expanded
   template" (programs).  No proofs in this file. *)
From Coq Require Import List ZArith NArith Bool.
From GrolGen Require Import Gen_Consts.
From GrolModel Require Import Ast Modify Macro.
Import ListNotations.

Section WithRec.
Variable rec : node -> node.
Definition bo_with (x : option node) : option node := match x with Some m => Some (rec m) | None => None end.
Fixpoint bl_with (l : list (option node)) : list (option node) :=
  match l with [] => [] | x :: r => bo_with x :: bl_with r end.
(* a copied slice is never nil (make([]Node, len)) *)
Definition bs_with (x : option (list (option node))) : option (list (option node)) :=
  match x with Some l => Some (bl_with l) | None => Some [] end.
Fixpoint bp_with (l : list (option node * option node)) : list (option node * option node) :=
  match l with [] => [] | (k, v) :: r => (bo_with k, bo_with v) :: bp_with r end.
End WithRec.

Section BU.
Variable g : node -> node.
Fixpoint bu (n : node) {struct n} : node :=
  match n with
  | NStmts l => g (NStmts (bl_with bu l))
  | NInfix t l r => g (NInfix t (bo_with bu l) (bo_with bu r))
  | NPrefix t r => g (NPrefix t (bo_with bu r))
  | NIndex t l i => g (NIndex t (bo_with bu l) (bo_with bu i))
  | NIf t c a b => g (NIf t (bo_with bu c) (bo_with bu a) (bo_with bu b))
  | NFor t c b => g (NFor t (bo_with bu c) (bo_with bu b))
  | NReturn t v => g (NReturn t (bo_with bu v))
  | NFunc t nm ps b v l => g (NFunc t nm (bs_with bu ps) (bo_with bu b) v l)
  | NMacro t ps b => g (NMacro t (bs_with bu ps) (bo_with bu b))
  | NArray t e => g (NArray t (bs_with bu e))
  | NMap t l => g (NMap t (bp_with bu l))
  | NBuiltin t ps => g (NBuiltin t (bs_with bu ps))
  | NCall t fn args => g (NCall t (bo_with bu fn) (bs_with bu args))
  | NIdent _ | NInt _ _ | NFloat _ _ | NString _ | NBool _ _ | NComment _ _ _ | NControl _
  | NPostfix _ _ => g n
  end.
End BU.

(* trees on which ast.Modify neither panics nor gives up for a rule that keeps Statements and
   identifiers what they are: block fields hold Statements, function / macro parameters are
   identifiers, map keys are present *)
Section MWith.
Variable rec : node -> bool.
Definition mo_with (x : option node) : bool := match x with Some m => rec m | None => true end.
Fixpoint ml_with (l : list (option node)) : bool :=
  match l with [] => true | x :: r => mo_with x && ml_with r end.
Definition ms_with (x : option (list (option node))) : bool := match x with Some l => ml_with l | None => true end.
Definition mb_with (x : option node) : bool := match x with Some (NStmts l) => ml_with l | _ => false end.
Fixpoint mpar_with (l : list (option node)) : bool :=
  match l with [] => true | Some (NIdent t) :: r => negb (Z.eqb (ttype t) token_REGISTER) && mpar_with r | _ => false end.
Definition mpars_with (x : option (list (option node))) : bool := match x with Some l => mpar_with l | None => true end.
Fixpoint mp_with (l : list (option node * option node)) : bool :=
  match l with [] => true | (Some k, v) :: r => rec k && mo_with v && mp_with r | _ => false end.
End MWith.

Fixpoint modifiable (n : node) {struct n} : bool :=
  match n with
  | NStmts l => ml_with modifiable l
  | NInfix _ l r => mo_with modifiable l && mo_with modifiable r
  | NPrefix _ r => mo_with modifiable r
  | NIndex _ l i => mo_with modifiable l && mo_with modifiable i
  | NIf _ c a b => mo_with modifiable c && mb_with modifiable a && match b with None => true | Some _ => mb_with modifiable b end
  | NFor _ c b => mo_with modifiable c && mb_with modifiable b
  | NReturn _ v => mo_with modifiable v
  | NFunc _ _ ps b _ _ => mpars_with ps && mb_with modifiable b
  | NMacro _ ps b => mpars_with ps && mb_with modifiable b
  | NArray _ e => ms_with modifiable e
  | NMap _ l => mp_with modifiable l
  | NBuiltin _ ps => ms_with modifiable ps
  | NCall _ fn args => mo_with modifiable fn && ms_with modifiable args
  | _ => true
  end.

(* the substitution of a template: unquote(p) -> argument, everywhere, bottom-up *)
Definition subst_template (e : menv) (sigma : list (bytes * option node)) (T : node) : node :=
  bu (unquote_cb e sigma) T.

(* the rule of macro expansion as a total function (outside the fragment the call is left as is) *)
Definition expand_rule (e : menv) (n : node) : node :=
  match expand_cb e n with Some n' => n' | None => n end.

Definition expand_spec (e : menv) (program : node) : node := bu (expand_rule e) program.

(* every macro of the environment is a template on which Modify cannot fail *)
Definition macro_ok (m : macro) : bool :=
  match template_of m with Some T => modifiable T | None => false end.
Definition env_ok (e : menv) : bool := forallb (fun km => macro_ok (snd km)) e.
