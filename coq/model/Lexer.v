(* Model of /repo/lexer/lexer.go (+ the lookups of /repo/token/token.go it uses).
   Executable Gallina, no proofs here.  First stage of the front-end models (Parser/Printer import lex_all).

   INTERFACE (fixed):  ltok, next_token, lex_all.

   Representation.  The Go lexer state is (input []byte, pos int).  A model function that mirrors a Go reader
   receives the REMAINING input  r = input[l.pos:]  (the empty list when l.pos >= len(input)) and returns how
   many times l.pos was incremented ("consumed", k).  So

     Go                                         model
     ---------------------------------------    ----------------------------------------------
     l.peekChar()                               hd0 r           (0 past the end AND for a real NUL byte)
     l.readChar()                               hd0 r, continue with tl r, k+1   (k grows past the end too)
     l.endOfInput(ch)  (ch just read)           the list read from was []
     for p(l.peekChar()) { l.pos++ }            span_len p r    (see NOTE)
     string(l.input[start:l.pos])               go_slice r0 k   (r0 = input[start:]; None = Go slice panic)
     l.pos = errPos / l.pos-- / l.pos = len     the returned k is the final l.pos - start

   NOTE on span_len: the Go loop `for p(peekChar())` would never stop if p(0) held (peekChar returns 0 past the
   end).  span_len stops at the end of the list; the two agree because p 0 = false for every predicate used
   (GrolProofs.Lexer_proofs.byte_class_sane, recomputed from the generated predicates on every run).

   Abnormal outcomes are explicit token types < 0 (never produced: Lexer_proofs.scan_token_normal):
     tok_nil   = a nil *token.Token (ConstantTokenChar/2 on a byte without table entry)
     tok_panic = Go run-time panic (slice bounds out of range)
     tok_fuel  = fuel of read_string exhausted (model artefact)

   Generated inputs: Gen_Consts (token type ordinals), Gen_Token (single_char_tokens, two_char_tokens,
   keyword_tokens), Gen_ByteClass (byte predicates, simple_escapes).                                   *)
From Coq Require Import List ZArith NArith Bool Arith.
From GrolGen Require Import Gen_Consts Gen_Token Gen_ByteClass.
Import ListNotations.
Local Open Scope N_scope.

Record ltok := mkLtok {
  lt_type : Z;        (* token.Type ordinal, Gen_Consts.token_* *)
  lt_lit : list N;    (* Literal() *)
  lt_start : nat;     (* l.pos after skipWhitespace *)
  lt_end : nat;       (* l.pos after NextToken *)
  lt_ws : bool;       (* HadWhitespace() after this NextToken *)
  lt_nl : bool        (* HadNewline() after this NextToken *)
}.

Definition tok_nil : Z := (-1)%Z.
Definition tok_panic : Z := (-2)%Z.
Definition tok_fuel : Z := (-3)%Z.

(* ---------------------------------------------------------------- input access *)
Definition hd0 (r : list N) : N := match r with c :: _ => c | [] => 0 end.

Fixpoint span_len (p : N -> bool) (r : list N) : nat :=
  match r with
  | c :: r' => if p c then S (span_len p r') else O
  | [] => O
  end.

(* string(l.input[start : start+k]) with r = input[start:] *)
Definition go_slice (r : list N) (k : nat) : option (list N) :=
  if Nat.leb k (length r) then Some (firstn k r) else None.

(* ---------------------------------------------------------------- token tables (token.go) *)
(* cTokens[c]: map filled by the assoc calls in order, a later call overwrites *)
Definition lookup_single (c : N) : option Z :=
  fold_left (fun acc e => if N.eqb (snd e) c then Some (fst e) else acc) single_char_tokens None.

(* c2Tokens[[2]byte{c1,c2}] *)
Definition lookup_double (c1 c2 : N) : option Z :=
  fold_left (fun acc e => if N.eqb (fst (snd e)) c1 && N.eqb (snd (snd e)) c2 then Some (fst e) else acc)
            two_char_tokens None.

Fixpoint bytes_eqb (a b : list N) : bool :=
  match a, b with
  | [], [] => true
  | x :: a', y :: b' => N.eqb x y && bytes_eqb a' b'
  | _, _ => false
  end.

(* keywords[ident] *)
Fixpoint lookup_keyword_in (tbl : list (list N * Z)) (w : list N) : option Z :=
  match tbl with
  | [] => None
  | (k, t) :: tbl' => if bytes_eqb k w then Some t else lookup_keyword_in tbl' w
  end.
Definition lookup_keyword (w : list N) : option Z := lookup_keyword_in keyword_tokens w.

(* utf8.AppendRune(nil, r) on the uint32 image of the rune (strings.Builder.WriteRune, string(byte)) *)
Definition encode_rune (r : N) : list N :=
  if r <=? 127 then [r]
  else if r <=? 2047 then [192 + r / 64; 128 + r mod 64]
  else
    let r' := if (1114111 <? r) || ((55296 <=? r) && (r <=? 57343)) then 65533 else r in
    if r' <=? 65535 then [224 + r' / 4096; 128 + (r' / 64) mod 64; 128 + r' mod 64]
    else [240 + r' / 262144; 128 + (r' / 4096) mod 64; 128 + (r' / 64) mod 64; 128 + r' mod 64].

(* token.ConstantTokenChar(ch): the object made by assoc(t, c) has literal string(c) *)
Definition const1 (ch : N) : Z * list N :=
  match lookup_single ch with
  | Some t => (t, encode_rune ch)
  | None => (tok_nil, [])
  end.

(* token.ConstantTokenChar2(c1, c2) *)
Definition const2 (c1 c2 : N) : Z * list N :=
  match lookup_double c1 c2 with
  | Some t => (t, [c1; c2])
  | None => (tok_nil, [])
  end.

(* token.LookupIdent(ident) *)
Definition lookup_ident (w : list N) : Z :=
  match lookup_keyword w with
  | Some t => t
  | None => token_IDENT
  end.

(* ---------------------------------------------------------------- readIdentifier *)
(* r = input from the first letter; on entry l.pos = start+1 *)
Definition read_identifier (r : list N) : option (list N) * nat :=
  let k := S (span_len IsAlphaNum (tl r)) in
  (go_slice r k, k).

(* ---------------------------------------------------------------- readLineComment *)
Definition ascii_space (c : N) : bool :=
  (c =? 9) || (c =? 10) || (c =? 11) || (c =? 12) || (c =? 13) || (c =? 32).

(* UTF-8 encodings of the non-ASCII code points with unicode.IsSpace:
   U+0085 U+00A0 U+1680 U+2000..U+200A U+2028 U+2029 U+202F U+205F U+3000 *)
Definition unicode_spaces : list (list N) :=
  [[194; 133]; [194; 160]; [225; 154; 128];
   [226; 128; 128]; [226; 128; 129]; [226; 128; 130]; [226; 128; 131]; [226; 128; 132]; [226; 128; 133];
   [226; 128; 134]; [226; 128; 135]; [226; 128; 136]; [226; 128; 137]; [226; 128; 138];
   [226; 128; 168]; [226; 128; 169]; [226; 128; 175]; [226; 129; 159]; [227; 128; 128]].

Fixpoint strip_prefix (p l : list N) : option (list N) :=
  match p, l with
  | [], _ => Some l
  | x :: p', y :: l' => if x =? y then strip_prefix p' l' else None
  | _ :: _, [] => None
  end.

Fixpoint strip_any (ps : list (list N)) (l : list N) : option (list N) :=
  match ps with
  | [] => None
  | p :: ps' => match strip_prefix p l with Some rest => Some rest | None => strip_any ps' l end
  end.

(* drop space runes from the front; seqs = the multi-byte space sequences as they appear from the front *)
Fixpoint trim_front (seqs : list (list N)) (fuel : nat) (l : list N) : list N :=
  match fuel with
  | O => l
  | S f =>
    match l with
    | [] => []
    | c :: l' =>
      if ascii_space c then trim_front seqs f l'
      else match strip_any seqs l with
           | Some rest => trim_front seqs f rest
           | None => l
           end
    end
  end.

(* strings.TrimSpace *)
Definition trim_space (l : list N) : list N :=
  let l1 := trim_front unicode_spaces (length l) l in
  rev (trim_front (map (@rev N) unicode_spaces) (length l1) (rev l1)).

(* loop condition of readLineComment on a byte of the input: notEOL(ch) || ch == 0 (a NUL inside the input) *)
Definition in_line_comment (c : N) : bool := notEOL c || (c =? 0).

(* r = input from the first '/'; on entry l.pos = start+1 *)
Definition read_line_comment (r : list N) : option (list N) * nat :=
  let k := S (span_len in_line_comment (tl r)) in
  (option_map trim_space (go_slice r k), k).

(* ---------------------------------------------------------------- readBlockComment *)
(* r = input after the opening "/*".  Result: number of readChar calls of
   `ch := readChar(); for !endOfInput(ch) && !endBlockComment(ch) { ch = readChar() }` and whether the loop
   stopped on endBlockComment. *)
Fixpoint block_scan (r : list N) : nat * bool :=
  match r with
  | [] => (1%nat, false)
  | ch :: r' =>
    if (ch =? 42) && (hd0 r' =? 47) then (1%nat, true)
    else let '(n, c) := block_scan r' in (S n, c)
  end.

(* r = input from the '/'; on entry l.pos = start+1; pos1 = start *)
Definition read_block_comment (r : list N) : option (list N) * nat :=
  let '(n, closed) := block_scan (tl (tl r)) in
  let p := (2 + n)%nat in                         (* after l.pos++ and n reads *)
  let k := if closed then S p else Nat.pred p in  (* l.pos++ / l.pos-- *)
  (go_slice r k, k).

(* ---------------------------------------------------------------- readString *)
Definition hex_val (ch : N) : N :=   (* hexCharToHex *)
  if (48 <=? ch) && (ch <=? 57) then ch - 48
  else if (97 <=? ch) && (ch <=? 102) then ch - 97 + 10
  else if (65 <=? ch) && (ch <=? 70) then ch - 65 + 10
  else 0.

(* n readChar calls, each through hexCharToHex, most significant first:
   readHex = 2, readUnicode16 = 4, readUnicode32 = 8 (as uint32) *)
Fixpoint read_hex (n : nat) (r : list N) (acc : N) : N * list N :=
  match n with
  | O => (acc, r)
  | S n' => read_hex n' (tl r) (acc * 16 + hex_val (hd0 r))
  end.

Fixpoint assoc_byte (tbl : list (N * N)) (k : N) : option N :=
  match tbl with
  | [] => None
  | (a, b) :: tbl' => if a =? k then Some b else assoc_byte tbl' k
  end.

(* r = input after the opening delimiter, buf = bytes written so far, k = l.pos - start.
   Some (str, ok, k') mirrors `return buf.String(), ok` with k' = final l.pos - start. *)
Fixpoint read_string (fuel : nat) (dq : bool) (sep : N) (r : list N) (buf : list N) (k : nat)
  : option (list N * bool * nat) :=
  match fuel with
  | O => None
  | S f =>
    match r with
    | [] => Some (buf, false, S k)                         (* endOfInput(ch) *)
    | ch :: r1 =>
      if dq && (ch =? 92) then
        let ch2 := hd0 r1 in
        let r2 := tl r1 in
        match assoc_byte simple_escapes ch2 with
        | Some v => read_string f dq sep r2 (buf ++ [v]) (k + 2)
        | None =>
          if ch2 =? 117 then
            let '(v, r3) := read_hex 4 r2 0 in read_string f dq sep r3 (buf ++ encode_rune v) (k + 6)
          else if ch2 =? 85 then
            let '(v, r3) := read_hex 8 r2 0 in read_string f dq sep r3 (buf ++ encode_rune v) (k + 10)
          else if ch2 =? 120 then
            let '(v, r3) := read_hex 2 r2 0 in read_string f dq sep r3 (buf ++ [v]) (k + 4)
          else read_string f dq sep r2 (buf ++ [ch2]) (k + 2)
        end
      else if ch =? sep then Some (buf, true, S k)
      else read_string f dq sep r1 (buf ++ [ch]) (S k)
    end
  end.

(* ---------------------------------------------------------------- readNumber *)
(* r = input from the first byte ch of the number ('.' or a digit); on entry l.pos = start+1, pos = start.
   Result (type, literal, k). *)
Definition read_number (ch : N) (r : list N) : Z * option (list N) * nat :=
  let isdot := ch =? 46 in
  let t0 := if isdot then token_FLOAT else token_INT in
  let r1 := tl r in
  if (ch =? 48) && (hd0 r1 =? 120) then
    let k := (2 + span_len isHexDigit (tl r1))%nat in (t0, go_slice r k, k)
  else if (ch =? 48) && (hd0 r1 =? 98) then
    let k := (2 + span_len isBinaryDigit (tl r1))%nat in (t0, go_slice r k, k)
  else
    let n1 := span_len isDigitOrUnderscore r1 in
    let hasDigits1 := negb isdot || Nat.ltb 0 n1 in
    let k1 := S n1 in
    let r2 := skipn k1 r in
    if (hd0 r2 =? 46) && isdot then (t0, go_slice r k1, k1)    (* second dot: not consumed *)
    else
      let '(t1, hasDigits2, k2) :=
        if hd0 r2 =? 46 then
          let n2 := span_len isDigitOrUnderscore (tl r2) in
          (token_FLOAT, hasDigits1 || Nat.ltb 0 n2, (k1 + 1 + n2)%nat)
        else (t0, hasDigits1, k1) in
      let r3 := skipn k2 r in
      let peek := hd0 r3 in
      if negb ((peek =? 101) || (peek =? 69)) then (t1, go_slice r k2, k2)
      else if negb hasDigits2 then (t1, go_slice r k2, k2)       (* errPos = k2 *)
      else
        let r4 := tl r3 in
        let sgn := (hd0 r4 =? 43) || (hd0 r4 =? 45) in
        let r5 := if sgn then tl r4 else r4 in
        if negb (isDigit (hd0 r5)) then (t1, go_slice r k2, k2)  (* l.pos = errPos *)
        else
          let k3 := (k2 + 1 + (if sgn then 1 else 0) + span_len isDigitOrUnderscore r5)%nat in
          (token_FLOAT, go_slice r k3, k3).

(* ---------------------------------------------------------------- NextToken *)
Inductive tkind :=
| KConst1 | KConst2 | KLineComment | KBlockComment | KString | KEnd | KNul | KNumber | KIdent | KIllegal.

Definition one_of (ch : N) (l : list N) : bool := existsb (N.eqb ch) l.

(* the `switch ch` of NextToken: which return statement is taken for first byte ch, next byte nx;
   at_end = the input was exhausted when ch was read *)
Definition classify (ch nx : N) (at_end : bool) : tkind :=
  if one_of ch [61; 33; 58] then                                     (* = ! : *)
    if nx =? 61 then KConst2
    else if (nx =? 62) && (ch =? 61) then KConst2
    else KConst1
  else if one_of ch [43; 45] then                                    (* + - *)
    if nx =? ch then KConst2 else KConst1
  else if one_of ch [37; 42; 59; 44; 123; 125; 40; 41; 91; 93; 94; 126] then KConst1  (* % * ; , { } ( ) [ ] ^ ~ *)
  else if ch =? 47 then                                              (* / *)
    if nx =? 47 then KLineComment
    else if nx =? 42 then KBlockComment
    else KConst1
  else if one_of ch [124; 38] then                                   (* | & *)
    if nx =? ch then KConst2 else KConst1
  else if one_of ch [60; 62] then                                    (* < > *)
    if nx =? ch then KConst2
    else if nx =? 61 then KConst2
    else KConst1
  else if one_of ch [34; 96] then KString                            (* double quote, backquote *)
  else if ch =? 0 then (if at_end then KEnd else KNul)
  else if ch =? 46 then                                              (* . *)
    if nx =? 46 then KConst2
    else if negb (isDigit nx) then KConst1
    else KNumber
  else if isLetter ch then KIdent
  else if isDigit ch then KNumber
  else KIllegal.

Definition is_nil {A} (l : list A) : bool := match l with [] => true | _ => false end.

Definition with_lit (t : Z) (lit : option (list N)) (k : nat) : Z * list N * nat :=
  match lit with
  | Some l => (t, l, k)
  | None => (tok_panic, [], k)
  end.

(* NextToken after skipWhitespace.  r = input from the token start.  Result (type, literal, l.pos - start). *)
Definition scan_token (lineMode : bool) (r : list N) : Z * list N * nat :=
  let ch := hd0 r in
  let r1 := tl r in
  let nx := hd0 r1 in
  match classify ch nx (is_nil r) with
  | KConst1 => let '(t, l) := const1 ch in (t, l, 1%nat)
  | KConst2 => let '(t, l) := const2 ch nx in (t, l, 2%nat)
  | KLineComment => let '(l, k) := read_line_comment r in with_lit token_LINECOMMENT l k
  | KBlockComment => let '(l, k) := read_block_comment r in with_lit token_BLOCKCOMMENT l k
  | KString =>
    match read_string (S (length r1)) (ch =? 34) ch r1 [] 1 with
    | None => (tok_fuel, [], 1%nat)
    | Some (str, true, k) => (token_STRING, str, k)
    | Some (_, false, k) =>
      if lineMode then (token_EOL, [], k)            (* continuation needed *)
      else (token_ILLEGAL, r, length r)              (* l.pos = len(input); string(input[start:]) *)
    end
  | KEnd => ((if lineMode then token_EOL else token_EOF), [], 1%nat)
  | KNul => (token_ILLEGAL, encode_rune ch, 1%nat)
  | KNumber => let '(t, l, k) := read_number ch r in with_lit t l k
  | KIdent =>
    let '(l, k) := read_identifier r in
    match l with
    | Some w => (lookup_ident w, w, k)
    | None => (tok_panic, [], k)
    end
  | KIllegal => (token_ILLEGAL, encode_rune ch, 1%nat)
  end.

Definition next_token (lineMode : bool) (s : list N) (pos : nat) : ltok * nat :=
  let r0 := skipn pos s in
  (* skipWhitespace *)
  let nws := span_len isWhiteSpace r0 in
  let hadWhitespace := Nat.ltb 0 nws in
  let hadNewline := existsb (N.eqb 10) (firstn nws r0) in
  let start := (pos + nws)%nat in
  let '(t, lit, k) := scan_token lineMode (skipn nws r0) in
  (mkLtok t lit start (start + k) hadWhitespace hadNewline, (start + k)%nat).

(* the tokens at which the parser's main loop stops *)
Definition is_end (t : ltok) : bool :=
  Z.eqb (lt_type t) token_EOF || Z.eqb (lt_type t) token_EOL.

Fixpoint lex_from (fuel : nat) (lineMode : bool) (s : list N) (pos : nat) : list ltok :=
  match fuel with
  | O => []
  | S f =>
    let '(t, pos') := next_token lineMode s pos in
    if is_end t || Z.ltb (lt_type t) 0 then [t]
    else t :: lex_from f lineMode s pos'
  end.

(* all tokens up to and including the first end marker *)
Definition lex_all (lineMode : bool) (s : list N) : list ltok :=
  lex_from (length s + 2) lineMode s 0.

(* ---------------------------------------------------------------- interning (token.go) *)
(* A small explicit model of `interning map[Token]*Token`: objects are numbered in allocation order. *)
Definition tkey : Type := (Z * list N)%type.
Definition tkey_eqb (a b : tkey) : bool := Z.eqb (fst a) (fst b) && bytes_eqb (snd a) (snd b).

Record istate := mkIstate { i_tbl : list (tkey * nat); i_next : nat }.

Fixpoint i_lookup (tbl : list (tkey * nat)) (k : tkey) : option nat :=
  match tbl with
  | [] => None
  | (k', id) :: tbl' => if tkey_eqb k' k then Some id else i_lookup tbl' k
  end.

(* token.Intern / InternToken: returns the object (its number) and the new table *)
Definition intern (st : istate) (k : tkey) : nat * istate :=
  match i_lookup (i_tbl st) k with
  | Some id => (id, st)
  | None => (i_next st, mkIstate ((k, i_next st) :: i_tbl st) (S (i_next st)))
  end.

Definition i_empty : istate := mkIstate [] O.     (* ResetInterning *)

(* objects returned by a history of Intern calls, and the final state *)
Fixpoint intern_all (st : istate) (h : list tkey) : list nat * istate :=
  match h with
  | [] => ([], st)
  | k :: h' => let '(id, st1) := intern st k in let '(ids, st2) := intern_all st1 h' in (id :: ids, st2)
  end.

(* the table after token.Init: identity tokens then two-character tokens are interned *)
Definition i_init : istate :=
  snd (intern_all i_empty (map (fun e => (snd e, fst e)) keyword_tokens
                           ++ map (fun e => (fst e, [fst (snd e); snd (snd e)])) two_char_tokens)).
