(* Container machine: model of how /repo represents and updates arrays and maps (C06, used by C19).
   Executable Gallina, no proofs here.

   Go (object/object.go, eval/eval.go)                  model
   --------------------------------------------------   -------------------------------------------------
   a Go backing array of a []Object                     heap cell  CArr l   (l = the slots written so far)
   a Go backing array of a []keyValuePair               heap cell  CKV l
   a BigMap struct {kv []keyValuePair}                  heap cell  CMap s   (s = the slice header of kv)
   slice header (pointer, len, cap)                     slice {sid; soff; slen; scap}
   SmallArray{smallArr [8]Object; len}                  VArrS l     (the len live elements, copied with the value)
   BigArray{elements []Object}                          VArrB s     (shares cell sid s with every copy)
   SmallMap{smallKV [4]keyValuePair; len}               VMapS l     (sorted by key, copied with the value)
   *BigMap                                              VMapB p     (address of a CMap cell)
   growslice (capacity chosen by the Go runtime)        an ORACLE argument  o kv oldcap needed  (never computed here)

   [cow c = true]  is the code after the repairs (commits cec7cc4 143b918 29e3f5f 26ef0c4):
                   index assignment on a large array clones the element slice, + clips the left operand
                   (full slice expression), index assignment / del on a *BigMap clone it first.
   [cow c = false] is the pinned code (no clone, no clip): kept as the alternative step for the refutation examples.
   The thresholds MaxSmallArray / MaxSmallMap are parameters (msa c, msm c); the instance run by the driver takes
   them from the generated constants.

   Domain: keys are integers (order = integer order; key ordering in general is C11), leaves are integers and nil.
   Outcomes: Ok, Err (a grol error object: the statement is abandoned), Dom (outside the modelled fragment),
   Stuck (the Go code would panic or a pointer dangles: never expected). *)
From Coq Require Import List ZArith Bool Arith.
From GrolGen Require Import Gen_Consts.
Import ListNotations.

Definition var := nat.

Record slice := mkslice { sid : nat; soff : nat; slen : nat; scap : nat }.

Inductive val : Type :=
| VInt (z : Z)
| VNil
| VArrS (l : list val)
| VArrB (s : slice)
| VMapS (l : list (Z * val))
| VMapB (p : nat).

Inductive cell : Type :=
| CArr (l : list val)
| CKV (l : list (Z * val))
| CMap (s : slice).

Definition heap := list cell.

Record cfg := mkcfg { msa : nat; msm : nat; cow : bool }.

(* o kv oldcap needed: the capacity the runtime gives to a slice that has to grow to [needed] elements
   (kv: element type is keyValuePair rather than Object). Go guarantees needed <= result. *)
Definition oracle := bool -> nat -> nat -> nat.

Inductive res (A : Type) : Type :=
| Ok (a : A)
| Err
| Dom
| Stuck.
Arguments Ok {A} a.
Arguments Err {A}.
Arguments Dom {A}.
Arguments Stuck {A}.

Definition bind {A B} (r : res A) (f : A -> res B) : res B :=
  match r with Ok a => f a | Err => Err | Dom => Dom | Stuck => Stuck end.
Notation "x <- e ;; f" := (bind e (fun x => f)) (at level 61, e at next level, right associativity).
Notation "' p <- e ;; f" := (bind e (fun p => f)) (at level 61, p pattern, e at next level, right associativity).
Definition lift {A} (o : option A) : res A := match o with Some a => Ok a | None => Stuck end.

(* ---------------------------------------------------------------- generic list functions
   (shared by the machine and by the pure specification) *)

Fixpoint set_nth {A} (l : list A) (n : nat) (x : A) : option (list A) :=
  match l, n with
  | [], _ => None
  | _ :: t, O => Some (x :: t)
  | a :: t, S n' => match set_nth t n' x with Some t' => Some (a :: t') | None => None end
  end.

(* the len elements starting at off: s[off:off+len] *)
Definition window {A} (l : list A) (off len : nat) : option (list A) :=
  if off + len <=? length l then Some (firstn len (skipn off l)) else None.

(* overwrite (and possibly extend) the slots from position pos with new *)
Definition splice {A} (l : list A) (pos : nat) (new : list A) : option (list A) :=
  if pos <=? length l then Some (firstn pos l ++ new ++ skipn (pos + length new) l) else None.

Fixpoint repeat_list {A} (l : list A) (n : nat) : list A :=
  match n with O => [] | S n' => l ++ repeat_list l n' end.

(* SmallMap.get / slices.BinarySearchFunc on a key-sorted pair list: (found, index or insertion point) *)
Fixpoint kv_find {A} (l : list (Z * A)) (k : Z) (i : nat) : bool * nat :=
  match l with
  | [] => (false, i)
  | (k', _) :: t =>
    match (k' ?= k)%Z with
    | Gt => (false, i)
    | Eq => (true, i)
    | Lt => kv_find t k (S i)
    end
  end.

Definition insert_at {A} (l : list A) (i : nat) (x : A) : list A := firstn i l ++ x :: skipn i l.
Definition remove_at {A} (l : list A) (i : nat) : list A := firstn i l ++ skipn (S i) l.
(* m.kv[i].Value = value : the key object stays *)
Fixpoint set_val_at {A} (l : list (Z * A)) (i : nat) (v : A) : list (Z * A) :=
  match l, i with
  | [], _ => []
  | (k, _) :: t, O => (k, v) :: t
  | a :: t, S i' => a :: set_val_at t i' v
  end.

(* finite-map operations on sorted pair lists *)
Definition kv_get {A} (l : list (Z * A)) (k : Z) : option A :=
  let (found, i) := kv_find l k 0 in
  if found then option_map snd (nth_error l i) else None.
Definition kv_set {A} (l : list (Z * A)) (k : Z) (v : A) : list (Z * A) :=
  let (found, i) := kv_find l k 0 in
  if found then set_val_at l i v else insert_at l i (k, v).
Definition kv_del {A} (l : list (Z * A)) (k : Z) : option (list (Z * A)) :=
  let (found, i) := kv_find l k 0 in
  if found then Some (remove_at l i) else None.

(* binding store: association list, a rebound name keeps its place *)
Fixpoint lookup {A} (st : list (var * A)) (x : var) : option A :=
  match st with
  | [] => None
  | (y, v) :: t => if Nat.eqb y x then Some v else lookup t x
  end.
Fixpoint bind_var {A} (st : list (var * A)) (x : var) (v : A) : list (var * A) :=
  match st with
  | [] => [(x, v)]
  | (y, w) :: t => if Nat.eqb y x then (y, v) :: t else (y, w) :: bind_var t x v
  end.
Fixpoint unbind {A} (st : list (var * A)) (x : var) : list (var * A) :=
  match st with
  | [] => []
  | (y, w) :: t => if Nat.eqb y x then t else (y, w) :: unbind t x
  end.

(* negative index relative to the end, then bounds (evalIndexAssigment / evalArrayIndexExpression) *)
Definition idx_norm (len : nat) (i : Z) : option nat :=
  let i' := if (i <? 0)%Z then (Z.of_nat len + i)%Z else i in
  if (i' <? 0)%Z || (Z.of_nat len <=? i')%Z then None else Some (Z.to_nat i').

(* evalIndexRangeExpression: l and r after the negative adjustment; Err when l > r; then both are clamped to
   [0, len] (l = max(min(l, num), 0), same for r) *)
Definition range_norm (len : nat) (l r : Z) : res (nat * nat) :=
  let n := Z.of_nat len in
  let l1 := if (l <? 0)%Z then (n + l)%Z else l in
  let r1 := if (r <? 0)%Z then (n + r)%Z else r in
  if (r1 <? l1)%Z then Err
  else Ok (Z.to_nat (Z.max (Z.min l1 n) 0), Z.to_nat (Z.max (Z.min r1 n) 0)).

Definition int64_ok (z : Z) : bool := (-9223372036854775808 <=? z)%Z && (z <=? 9223372036854775807)%Z.

(* ---------------------------------------------------------------- heap *)

Definition alloc (h : heap) (c : cell) : heap * nat := (h ++ [c], length h).

Definition read_arr (h : heap) (s : slice) : option (list val) :=
  match nth_error h (sid s) with
  | Some (CArr l) => window l (soff s) (slen s)
  | _ => None
  end.
Definition read_kv (h : heap) (s : slice) : option (list (Z * val)) :=
  match nth_error h (sid s) with
  | Some (CKV l) => window l (soff s) (slen s)
  | _ => None
  end.
Definition map_hdr (h : heap) (p : nat) : option slice :=
  match nth_error h p with
  | Some (CMap s) => Some s
  | _ => None
  end.

(* in-place stores into a backing array *)
Definition store_arr (h : heap) (id pos : nat) (xs : list val) : option heap :=
  match nth_error h id with
  | Some (CArr l) => match splice l pos xs with Some l' => set_nth h id (CArr l') | None => None end
  | _ => None
  end.
Definition store_kv (h : heap) (id pos : nat) (xs : list (Z * val)) : option heap :=
  match nth_error h id with
  | Some (CKV l) => match splice l pos xs with Some l' => set_nth h id (CKV l') | None => None end
  | _ => None
  end.

(* s[l:r] *)
Definition reslice (s : slice) (l r : nat) : res slice :=
  if (l <=? r) && (r <=? scap s) then Ok (mkslice (sid s) (soff s + l) (r - l) (scap s - l)) else Stuck.
(* s[:len(s):len(s)] *)
Definition clip (s : slice) : slice := mkslice (sid s) (soff s) (slen s) (slen s).

(* Go append(s, xs...) on []Object (nothing to append: s itself) *)
Definition go_append (o : oracle) (h : heap) (s : slice) (xs : list val) : res (heap * slice) :=
  let n := slen s + length xs in
  if length xs =? 0 then Ok (h, s)
  else if n <=? scap s then
    h' <- lift (store_arr h (sid s) (soff s + slen s) xs) ;;
    Ok (h', mkslice (sid s) (soff s) n (scap s))
  else
    let c' := o false (scap s) n in
    if c' <? n then Stuck else
    l <- lift (read_arr h s) ;;
    let (h', id) := alloc h (CArr (l ++ xs)) in
    Ok (h', mkslice id 0 n c').
Definition go_append_kv (o : oracle) (h : heap) (s : slice) (xs : list (Z * val)) : res (heap * slice) :=
  let n := slen s + length xs in
  if length xs =? 0 then Ok (h, s)
  else if n <=? scap s then
    h' <- lift (store_kv h (sid s) (soff s + slen s) xs) ;;
    Ok (h', mkslice (sid s) (soff s) n (scap s))
  else
    let c' := o true (scap s) n in
    if c' <? n then Stuck else
    l <- lift (read_kv h s) ;;
    let (h', id) := alloc h (CKV (l ++ xs)) in
    Ok (h', mkslice id 0 n c').

(* slices.Clone(s) = append(s[:0:0], s...) *)
Definition go_clone (o : oracle) (h : heap) (s : slice) : res (heap * slice) :=
  l <- lift (read_arr h s) ;;
  go_append o h (mkslice (sid s) (soff s) 0 0) l.
Definition go_clone_kv (o : oracle) (h : heap) (s : slice) : res (heap * slice) :=
  l <- lift (read_kv h s) ;;
  go_append_kv o h (mkslice (sid s) (soff s) 0 0) l.

(* make([]T, 0, n) *)
Definition make_arr (h : heap) (n : nat) : heap * slice :=
  let (h', id) := alloc h (CArr []) in (h', mkslice id 0 0 n).

(* ---------------------------------------------------------------- arrays *)

(* object.NewArray(elements) *)
Definition new_array (c : cfg) (h : heap) (s : slice) : res val :=
  if slen s =? 0 then Ok (VArrS [])
  else if slen s <=? msa c then l <- lift (read_arr h s) ;; Ok (VArrS l)
  else Ok (VArrB s).

(* object.Elements(v) for an array: SmallArray has a value receiver, the slice is over a fresh copy of
   the [MaxSmallArray]Object array; BigArray returns its shared slice *)
Definition elements (c : cfg) (h : heap) (v : val) : res (heap * slice) :=
  match v with
  | VArrS l => let (h', id) := alloc h (CArr l) in Ok (h', mkslice id 0 (length l) (msa c))
  | VArrB s => Ok (h, s)
  | _ => Stuck
  end.

Definition is_array (v : val) : bool := match v with VArrS _ | VArrB _ => true | _ => false end.
Definition is_map (v : val) : bool := match v with VMapS _ | VMapB _ => true | _ => false end.

Definition arr_len (v : val) : nat :=
  match v with VArrS l => length l | VArrB s => slen s | _ => 0 end.

(* the elements as a list (object.Elements used for reading only) *)
Definition arr_read (h : heap) (v : val) : res (list val) :=
  match v with
  | VArrS l => Ok l
  | VArrB s => lift (read_arr h s)
  | _ => Stuck
  end.

(* evalIndexAssigment, case ARRAY (the index is already an integer) *)
Definition arr_idx_set (c : cfg) (o : oracle) (h : heap) (v : val) (i : Z) (x : val) : res (heap * val) :=
  match idx_norm (arr_len v) i with
  | None => Err
  | Some k =>
    '(h1, s) <- elements c h v ;;
    '(h2, s2) <- (if cow c && (msa c <? slen s) then go_clone o h1 s else Ok (h1, s)) ;;
    h3 <- lift (store_arr h2 (sid s2) (soff s2 + k) [x]) ;;
    r <- new_array c h3 s2 ;;
    Ok (h3, r)
  end.

(* evalArrayInfixExpression, token.PLUS *)
Definition arr_plus (c : cfg) (o : oracle) (h : heap) (lv rv : val) : res (heap * val) :=
  '(h1, ls) <- elements c h lv ;;
  let ls' := if cow c && (msa c <? slen ls) then clip ls else ls in
  if is_array rv then
    '(h2, rs) <- elements c h1 rv ;;
    xs <- lift (read_arr h2 rs) ;;
    '(h3, s3) <- go_append o h2 ls' xs ;;
    r <- new_array c h3 s3 ;;
    Ok (h3, r)
  else
    '(h3, s3) <- go_append o h1 ls' [rv] ;;
    r <- new_array c h3 s3 ;;
    Ok (h3, r).

(* evalArrayInfixExpression, token.ASTERISK: result := make(0, len*n); n times append(result, left...) *)
Fixpoint append_times (o : oracle) (h : heap) (r ls : slice) (n : nat) : res (heap * slice) :=
  match n with
  | O => Ok (h, r)
  | S n' =>
    xs <- lift (read_arr h ls) ;;
    '(h', r') <- go_append o h r xs ;;
    append_times o h' r' ls n'
  end.
Definition arr_repeat (c : cfg) (o : oracle) (h : heap) (lv : val) (n : Z) : res (heap * val) :=
  '(h1, ls) <- elements c h lv ;;
  if (n <? 0)%Z then Err else
  let (h2, r) := make_arr h1 (slen ls * Z.to_nat n) in
  '(h3, r3) <- append_times o h2 r ls (Z.to_nat n) ;;
  v <- new_array c h3 r3 ;;
  Ok (h3, v).

(* NewArray(Elements(left)[l:r]) *)
Definition arr_slice (c : cfg) (h : heap) (v : val) (l r : nat) : res (heap * val) :=
  '(h1, s) <- elements c h v ;;
  s' <- reslice s l r ;;
  x <- new_array c h1 s' ;;
  Ok (h1, x).

(* object.Rest on an array *)
Definition arr_rest (c : cfg) (h : heap) (v : val) : res (heap * val) :=
  if arr_len v <=? 1 then Ok (h, VNil) else arr_slice c h v 1 (arr_len v).

(* evalArrayIndexExpression *)
Definition arr_get (h : heap) (v : val) (i : Z) : res val :=
  match idx_norm (arr_len v) i with
  | None => Ok VNil
  | Some k => l <- arr_read h v ;; lift (nth_error l k)
  end.

(* ---------------------------------------------------------------- maps *)

Definition map_read (h : heap) (v : val) : res (list (Z * val)) :=
  match v with
  | VMapS l => Ok l
  | VMapB p => s <- lift (map_hdr h p) ;; lift (read_kv h s)
  | _ => Stuck
  end.

(* &BigMap{kv: s} *)
Definition new_bigmap (h : heap) (s : slice) : heap * val :=
  let (h', p) := alloc h (CMap s) in (h', VMapB p).

(* SmallMap.Set (value receiver: works on a copy; switches to a BigMap of exact capacity when full) *)
Definition small_set (c : cfg) (h : heap) (l : list (Z * val)) (k : Z) (v : val) : heap * val :=
  let (found, i) := kv_find l k 0 in
  if found then (h, VMapS (set_val_at l i v))
  else if msm c <? length l + 1 then
    let (h1, id) := alloc h (CKV (insert_at l i (k, v))) in
    new_bigmap h1 (mkslice id 0 (length l + 1) (length l + 1))
  else (h, VMapS (insert_at l i (k, v))).

(* BigMap(ptr).Set: in place; slices.Insert shifts in place when there is room, else moves to a new array *)
Definition big_set (o : oracle) (h : heap) (p : nat) (k : Z) (v : val) : res heap :=
  s <- lift (map_hdr h p) ;;
  l <- lift (read_kv h s) ;;
  let (found, i) := kv_find l k 0 in
  if found then
    match nth_error l i with
    | Some (k', _) => lift (store_kv h (sid s) (soff s + i) [(k', v)])
    | None => Stuck
    end
  else
    let n := slen s + 1 in
    if n <=? scap s then
      h1 <- lift (store_kv h (sid s) (soff s + i) ((k, v) :: skipn i l)) ;;
      lift (set_nth h1 p (CMap (mkslice (sid s) (soff s) n (scap s))))
    else
      let c' := o true (scap s) n in
      if c' <? n then Stuck else
      let (h1, id) := alloc h (CKV (insert_at l i (k, v))) in
      lift (set_nth h1 p (CMap (mkslice id 0 n c'))).

(* BigMap(ptr).Delete: copy(m.kv[idx:], m.kv[idx+1:]); m.kv = m.kv[:len-1]  (the last slot keeps its old content) *)
Definition big_delete (h : heap) (p : nat) (k : Z) : res (heap * bool) :=
  s <- lift (map_hdr h p) ;;
  l <- lift (read_kv h s) ;;
  let (found, i) := kv_find l k 0 in
  if found then
    h1 <- lift (store_kv h (sid s) (soff s + i) (skipn (S i) l)) ;;
    h2 <- lift (set_nth h1 p (CMap (mkslice (sid s) (soff s) (slen s - 1) (scap s)))) ;;
    Ok (h2, true)
  else Ok (h, false).

(* BigMap(ptr).Clone *)
Definition big_clone (o : oracle) (h : heap) (p : nat) : res (heap * nat) :=
  s <- lift (map_hdr h p) ;;
  '(h1, s1) <- go_clone_kv o h s ;;
  let (h2, q) := alloc h1 (CMap s1) in
  Ok (h2, q).

(* eval.writableMap *)
Definition writable_map (c : cfg) (o : oracle) (h : heap) (v : val) : res (heap * val) :=
  match v with
  | VMapB p => if cow c then '(h1, q) <- big_clone o h p ;; Ok (h1, VMapB q) else Ok (h, v)
  | _ => Ok (h, v)
  end.

(* Map.Set through the interface *)
Definition map_set (c : cfg) (o : oracle) (h : heap) (m : val) (k : Z) (v : val) : res (heap * val) :=
  match m with
  | VMapS l => Ok (small_set c h l k v)
  | VMapB p => h1 <- big_set o h p k v ;; Ok (h1, m)
  | _ => Stuck
  end.

(* evalIndexAssigment, case MAP *)
Definition map_idx_set (c : cfg) (o : oracle) (h : heap) (m : val) (k : Z) (v : val) : res (heap * val) :=
  '(h1, m1) <- writable_map c o h m ;;
  map_set c o h1 m1 k v.

(* deleteMapEntry on a map value: (heap, new map, changed) *)
Definition map_delete (c : cfg) (o : oracle) (h : heap) (m : val) (k : Z) : res (heap * val * bool) :=
  '(h1, m1) <- writable_map c o h m ;;
  match m1 with
  | VMapS l => match kv_del l k with Some l' => Ok (h1, VMapS l', true) | None => Ok (h1, m1, false) end
  | VMapB p => '(h2, ch) <- big_delete h1 p k ;; Ok (h2, m1, ch)
  | _ => Stuck
  end.

Fixpoint set_all (c : cfg) (o : oracle) (h : heap) (m : val) (kvs : list (Z * val)) : res (heap * val) :=
  match kvs with
  | [] => Ok (h, m)
  | (k, v) :: t => '(h1, m1) <- map_set c o h m k v ;; set_all c o h1 m1 t
  end.

(* object.NewMapSize *)
Definition new_map_size (c : cfg) (h : heap) (n : nat) : heap * val :=
  if n <=? msm c then (h, VMapS [])
  else let (h1, id) := alloc h (CKV []) in new_bigmap h1 (mkslice id 0 0 n).

(* SmallMap.Append / BigMap(ptr).Append *)
Definition map_append (c : cfg) (o : oracle) (h : heap) (lm rm : val) : res (heap * val) :=
  rl <- map_read h rm ;;
  match lm with
  | VMapS l =>
    if length rl <=? msm c then set_all c o h (VMapS l) rl
    else
      let (h1, id) := alloc h (CKV l) in
      let (h2, m) := new_bigmap h1 (mkslice id 0 (length l) (length l + length rl)) in
      set_all c o h2 m rl
  | VMapB p =>
    s <- lift (map_hdr h p) ;;
    ll <- lift (read_kv h s) ;;
    let (h1, id) := alloc h (CKV ll) in
    let (h2, m) := new_bigmap h1 (mkslice id 0 (length ll) (length ll + length rl)) in
    set_all c o h2 m rl
  | _ => Stuck
  end.

(* SmallMap.Range / BigMap(ptr).Range *)
Definition map_range (c : cfg) (h : heap) (m : val) (l r : nat) : res (heap * val) :=
  match m with
  | VMapS kv => x <- lift (window kv l (r - l)) ;; Ok (h, VMapS x)
  | VMapB p =>
    s <- lift (map_hdr h p) ;;
    if msm c <? r - l then
      s' <- reslice s l r ;; Ok (new_bigmap h s')
    else
      kv <- lift (read_kv h s) ;; x <- lift (window kv l (r - l)) ;; Ok (h, VMapS x)
  | _ => Stuck
  end.

Definition map_len (h : heap) (m : val) : res nat := l <- map_read h m ;; Ok (length l).

(* SmallMap.Rest / BigMap(ptr).Rest *)
Definition map_rest (c : cfg) (h : heap) (m : val) : res (heap * val) :=
  n <- map_len h m ;;
  if n <=? 1 then Ok (h, VNil) else map_range c h m 1 n.

Definition map_get (h : heap) (m : val) (k : Z) : res val :=
  l <- map_read h m ;;
  Ok (match kv_get l k with Some v => v | None => VNil end).

(* ---------------------------------------------------------------- statements *)

Inductive elem := EInt (z : Z) | EVar (y : var).

Inductive prim :=
| PArrLit (x : var) (es : list elem)          (* x = [e1,...,en] *)
| PMapLit (x : var) (kvs : list (Z * elem))   (* x = {k1:e1,...} *)
| PCopy (x y : var)                           (* x = y *)
| PIdxSet (x : var) (i : Z) (e : elem)        (* x[i] = e *)
| PPlus (x y : var) (e : elem)                (* x = y + e *)
| PRepeat (x y : var) (n : Z)                 (* x = y * n *)
| PSlice (x y : var) (l r : Z)                (* x = y[l:r] *)
| PRest (x y : var)                           (* x = rest(y) *)
| PGet (x y : var) (i : Z)                    (* x = y[i] *)
| PDel (x : var) (k : Z)                      (* del(x[k]) *)
| PIncr (x : var) (i : Z)                     (* x[i] = x[i] + 1 *)
| PUnbind (x : var).                          (* del(x) *)

Inductive op :=
| OPrim (p : prim)
| OFor (e y : var) (body : list prim)         (* for e = y { body } *)
| OCall (r y : var) (body : list prim).       (* r = func(p){ body; p }(y)   with p = param_var *)

Definition param_var : var := 99.

(* the binding a statement may write *)
Definition prim_target (p : prim) : var :=
  match p with
  | PArrLit x _ | PMapLit x _ | PCopy x _ | PIdxSet x _ _ | PPlus x _ _ | PRepeat x _ _
  | PSlice x _ _ _ | PRest x _ | PGet x _ _ | PDel x _ | PIncr x _ | PUnbind x => x
  end.
Definition op_writes (o : op) : list var :=
  match o with
  | OPrim p => [prim_target p]
  | OFor e _ body => e :: map prim_target body
  | OCall r _ body => r :: param_var :: map prim_target body
  end.

Record state := mkst { sheap : heap; sstore : list (var * val) }.

(* the value of a statement: an object, or a boolean (del) *)
Inductive rout := RV (v : val) | RB (b : bool).

Definition eval_elem (st : list (var * val)) (e : elem) : res val :=
  match e with
  | EInt z => Ok (VInt z)
  | EVar y => match lookup st y with Some v => Ok v | None => Err end
  end.

Fixpoint eval_elems (st : list (var * val)) (es : list elem) : res (list val) :=
  match es with
  | [] => Ok []
  | e :: t => v <- eval_elem st e ;; vs <- eval_elems st t ;; Ok (v :: vs)
  end.

(* evalMapLiteral: an error in a value is the result (commit a574a5a) *)
Fixpoint eval_pairs (st : list (var * val)) (kvs : list (Z * elem)) : res (list (Z * val)) :=
  match kvs with
  | [] => Ok []
  | (k, e) :: t => v <- eval_elem st e ;; vs <- eval_pairs st t ;; Ok ((k, v) :: vs)
  end.

(* evalInfixExpression for + on the modelled values *)
Definition val_plus (c : cfg) (o : oracle) (h : heap) (lv rv : val) : res (heap * val) :=
  match lv, rv with
  | VInt a, VInt b => if int64_ok (a + b) then Ok (h, VInt (a + b)%Z) else Dom
  | VArrS _, _ | VArrB _, _ => arr_plus c o h lv rv
  | VMapS _, _ | VMapB _, _ => if is_map rv then map_append c o h lv rv else Err
  | _, _ => Err
  end.

(* evalIndexAssigment on the value of x *)
Definition val_idx_set (c : cfg) (o : oracle) (h : heap) (xv : val) (i : Z) (v : val) : res (heap * val) :=
  match xv with
  | VArrS _ | VArrB _ => arr_idx_set c o h xv i v
  | VMapS _ | VMapB _ => map_idx_set c o h xv i v
  | _ => Err
  end.

(* evalIndexExpressionIdx *)
Definition val_get (h : heap) (yv : val) (i : Z) : res val :=
  match yv with
  | VArrS _ | VArrB _ => arr_get h yv i
  | VMapS _ | VMapB _ => map_get h yv i
  | VNil => Ok VNil
  | VInt _ => Err
  end.

Definition val_len (h : heap) (v : val) : res nat :=
  match v with
  | VArrS _ | VArrB _ => Ok (arr_len v)
  | VMapS _ | VMapB _ => map_len h v
  | _ => Ok 0
  end.

Definition assign (st : state) (h : heap) (x : var) (v : val) : res (state * rout) :=
  Ok (mkst h (bind_var (sstore st) x v), RV v).

(* infn = true: the statement runs inside the body of OCall, where a name other than the parameter is an outer
   variable reached through a Reference (same effect as at top level); creating a new local is outside the fragment *)
Definition target_ok (infn : bool) (st : state) (x : var) : bool :=
  if infn then Nat.eqb x param_var || (match lookup (sstore st) x with Some _ => true | None => false end) else true.

(* x = [e1,...,en]: evalExpressions builds result := make([]Object, 0, n) and appends each value; then NewArray *)
Definition arr_literal (c : cfg) (o : oracle) (h : heap) (vs : list val) : res (heap * val) :=
  let (h1, sl) := make_arr h (length vs) in
  '(h2, sl2) <- go_append o h1 sl vs ;;
  v <- new_array c h2 sl2 ;;
  Ok (h2, v).

(* x = {k1:e1,...}: evalMapLiteral: NewMapSize(n) then Set of each pair *)
Definition map_literal (c : cfg) (o : oracle) (h : heap) (vs : list (Z * val)) : res (heap * val) :=
  let (h1, m0) := new_map_size c h (length vs) in set_all c o h1 m0 vs.

(* x = <value computed in heap h1> *)
Definition finish (infn : bool) (st : state) (x : var) (r : res (heap * val)) : res (state * rout) :=
  '(h1, v) <- r ;;
  if negb (target_ok infn st x) then Dom else assign st h1 x v.

Definition val_slice (c : cfg) (h : heap) (yv : val) (l r : Z) : res (heap * val) :=
  match yv with
  | VInt _ => Err
  | _ =>
    n <- val_len h yv ;;
    '(l', r') <- range_norm n l r ;;
    match yv with
    | VArrS _ | VArrB _ => arr_slice c h yv l' r'
    | VMapS _ | VMapB _ => map_range c h yv l' r'
    | _ => Ok (h, VNil)
    end
  end.

Definition val_rest (c : cfg) (h : heap) (yv : val) : res (heap * val) :=
  match yv with
  | VArrS _ | VArrB _ => arr_rest c h yv
  | VMapS _ | VMapB _ => map_rest c h yv
  | VNil => Ok (h, VNil)
  | VInt _ => Err
  end.

(* evalInfixExpression for * with an integer right operand *)
Definition val_times (c : cfg) (o : oracle) (h : heap) (lv : val) (n : Z) : res (heap * val) :=
  match lv with
  | VArrS _ | VArrB _ => arr_repeat c o h lv n
  | VInt a => if int64_ok (a * n) then Ok (h, VInt (a * n)%Z) else Dom
  | _ => Err
  end.

Definition prim_step (c : cfg) (o : oracle) (infn : bool) (st : state) (p : prim) : res (state * rout) :=
  let h := sheap st in
  let s := sstore st in
  match p with
  | PArrLit x es => finish infn st x (vs <- eval_elems s es ;; arr_literal c o h vs)
  | PMapLit x kvs => finish infn st x (vs <- eval_pairs s kvs ;; map_literal c o h vs)
  | PCopy x y => finish infn st x (v <- eval_elem s (EVar y) ;; Ok (h, v))
  | PIdxSet x i e =>
    v <- eval_elem s e ;;
    xv <- eval_elem s (EVar x) ;;
    '(h1, nv) <- val_idx_set c o h xv i v ;;
    Ok (mkst h1 (bind_var s x nv), RV v)
  | PPlus x y e =>
    finish infn st x (lv <- eval_elem s (EVar y) ;; rv <- eval_elem s e ;; val_plus c o h lv rv)
  | PRepeat x y n => finish infn st x (lv <- eval_elem s (EVar y) ;; val_times c o h lv n)
  | PSlice x y l r => finish infn st x (yv <- eval_elem s (EVar y) ;; val_slice c h yv l r)
  | PRest x y => finish infn st x (yv <- eval_elem s (EVar y) ;; val_rest c h yv)
  | PGet x y i => finish infn st x (yv <- eval_elem s (EVar y) ;; v <- val_get h yv i ;; Ok (h, v))
  | PDel x k =>
    match lookup s x with
    | None => Ok (st, RB false)
    | Some xv =>
      if negb (is_map xv) then Err else
      '(h1, m, ch) <- map_delete c o h xv k ;;
      if ch then Ok (mkst h1 (bind_var s x m), RB true) else Ok (mkst h1 s, RB false)
    end
  | PIncr x i =>
    xv <- eval_elem s (EVar x) ;;
    ev <- val_get h xv i ;;
    '(h1, nv) <- val_plus c o h ev (VInt 1) ;;
    '(h2, nx) <- val_idx_set c o h1 xv i nv ;;
    Ok (mkst h2 (bind_var s x nx), RV nv)
  | PUnbind x =>
    if infn then Dom else
    match lookup s x with
    | None => Ok (st, RB false)
    | Some _ => Ok (mkst h (unbind s x), RB true)
    end
  end.

Inductive status := Done (r : rout) | Failed | OutDom | IsStuck.

(* evalStatements: stops at the first error; what was done before stays *)
Fixpoint exec_prims (c : cfg) (o : oracle) (infn : bool) (st : state) (ps : list prim) (last : rout) : state * status :=
  match ps with
  | [] => (st, Done last)
  | p :: t =>
    match prim_step c o infn st p with
    | Ok (st', r) => exec_prims c o infn st' t r
    | Err => (st, Failed)
    | Dom => (st, OutDom)
    | Stuck => (st, IsStuck)
    end
  end.

(* evalForList: v := First(list); list = Rest(list); env.Set(name, v); body.  fuel = number of elements *)
Fixpoint for_loop (c : cfg) (o : oracle) (fuel : nat) (st : state) (e : var) (cur : val) (body : list prim) (last : rout)
  : state * status :=
  match fuel with
  | O => (st, Done last)
  | S fuel' =>
    if arr_len cur =? 0 then (st, Done last) else
    match arr_get (sheap st) cur 0, arr_rest c (sheap st) cur with
    | Ok v, Ok (h1, rest) =>
      let st1 := mkst h1 (bind_var (sstore st) e v) in
      match exec_prims c o false st1 body (RV VNil) with
      | (st2, Done r) => for_loop c o fuel' st2 e rest body r
      | (st2, s) => (st2, s)
      end
    | Dom, _ | _, Dom => (st, OutDom)
    | Err, _ | _, Err => (st, Failed)
    | _, _ => (st, IsStuck)
    end
  end.

Definition op_step (c : cfg) (o : oracle) (st : state) (op : op) : state * status :=
  match op with
  | OPrim p => exec_prims c o false st [p] (RV VNil)
  | OFor e y body =>
    match lookup (sstore st) y with
    | None => (st, Failed)
    | Some yv =>
      if is_array yv then for_loop c o (arr_len yv) st e yv body (RV VNil) else (st, OutDom)
    end
  | OCall r y body =>
    match lookup (sstore st) y with
    | None => (st, Failed)
    | Some (VInt _) => (st, OutDom)
    | Some yv =>
      match lookup (sstore st) param_var with
      | Some _ => (st, OutDom)
      | None =>
        let st1 := mkst (sheap st) ((param_var, yv) :: sstore st) in
        match exec_prims c o true st1 body (RV VNil) with
        | (st2, Done _) =>
          match lookup (sstore st2) param_var with
          | Some pv => (mkst (sheap st2) (bind_var (unbind (sstore st2) param_var) r pv), Done (RV pv))
          | None => (st2, IsStuck)
          end
        | (st2, s) => (mkst (sheap st2) (unbind (sstore st2) param_var), s)
        end
      end
    end
  end.

(* a run: the state after each statement, newest first, with the statement's status *)
Fixpoint run_from (c : cfg) (o : oracle) (st : state) (ops : list op) : state :=
  match ops with
  | [] => st
  | op :: t => run_from c o (fst (op_step c o st op)) t
  end.

Definition empty_state : state := mkst [] [].
Definition run (c : cfg) (o : oracle) (ops : list op) : state := run_from c o empty_state ops.

(* ---------------------------------------------------------------- pure specification:
   containers are immutable lists / finite maps in a binding store; no heap, no thresholds *)

Inductive pval : Type :=
| PInt (z : Z)
| PNil
| PArr (l : list pval)
| PMap (l : list (Z * pval)).

Definition p_is_array (v : pval) : bool := match v with PArr _ => true | _ => false end.
Definition p_is_map (v : pval) : bool := match v with PMap _ => true | _ => false end.

Definition p_plus (lv rv : pval) : res pval :=
  match lv, rv with
  | PInt a, PInt b => if int64_ok (a + b) then Ok (PInt (a + b)%Z) else Dom
  | PArr l, PArr r => Ok (PArr (l ++ r))
  | PArr l, _ => Ok (PArr (l ++ [rv]))
  | PMap l, PMap r => Ok (PMap (fold_left (fun m kv => kv_set m (fst kv) (snd kv)) r l))
  | _, _ => Err
  end.

Definition p_idx_set (xv : pval) (i : Z) (v : pval) : res pval :=
  match xv with
  | PArr l =>
    match idx_norm (length l) i with
    | None => Err
    | Some k => l' <- lift (set_nth l k v) ;; Ok (PArr l')
    end
  | PMap l => Ok (PMap (kv_set l i v))
  | _ => Err
  end.

Definition p_get (yv : pval) (i : Z) : res pval :=
  match yv with
  | PArr l => match idx_norm (length l) i with None => Ok PNil | Some k => lift (nth_error l k) end
  | PMap l => Ok (match kv_get l i with Some v => v | None => PNil end)
  | PNil => Ok PNil
  | PInt _ => Err
  end.

Definition p_len (v : pval) : nat :=
  match v with PArr l => length l | PMap l => length l | _ => 0 end.

Definition p_slice (yv : pval) (l r : Z) : res pval :=
  match yv with
  | PInt _ => Err
  | _ =>
    '(l', r') <- range_norm (p_len yv) l r ;;
    match yv with
    | PArr a => x <- lift (window a l' (r' - l')) ;; Ok (PArr x)
    | PMap m => x <- lift (window m l' (r' - l')) ;; Ok (PMap x)
    | _ => Ok PNil
    end
  end.

Definition p_rest (yv : pval) : res pval :=
  match yv with
  | PArr a => if length a <=? 1 then Ok PNil else Ok (PArr (skipn 1 a))
  | PMap m => if length m <=? 1 then Ok PNil else Ok (PMap (skipn 1 m))
  | PNil => Ok PNil
  | PInt _ => Err
  end.

Record pstate := mkpst { pstore : list (var * pval) }.
Inductive prout := PRV (v : pval) | PRB (b : bool).

Definition p_eval_elem (st : list (var * pval)) (e : elem) : res pval :=
  match e with
  | EInt z => Ok (PInt z)
  | EVar y => match lookup st y with Some v => Ok v | None => Err end
  end.
Fixpoint p_eval_elems (st : list (var * pval)) (es : list elem) : res (list pval) :=
  match es with
  | [] => Ok []
  | e :: t => v <- p_eval_elem st e ;; vs <- p_eval_elems st t ;; Ok (v :: vs)
  end.
Fixpoint p_eval_pairs (st : list (var * pval)) (kvs : list (Z * elem)) : res (list (Z * pval)) :=
  match kvs with
  | [] => Ok []
  | (k, e) :: t => v <- p_eval_elem st e ;; vs <- p_eval_pairs st t ;; Ok ((k, v) :: vs)
  end.

Definition p_target_ok (infn : bool) (s : list (var * pval)) (x : var) : bool :=
  if infn then Nat.eqb x param_var || (match lookup s x with Some _ => true | None => false end) else true.

Definition p_assign (s : list (var * pval)) (x : var) (v : pval) : res (list (var * pval) * prout) :=
  Ok (bind_var s x v, PRV v).

Definition p_finish (infn : bool) (s : list (var * pval)) (x : var) (r : res pval) : res (list (var * pval) * prout) :=
  v <- r ;;
  if negb (p_target_ok infn s x) then Dom else p_assign s x v.

Definition p_times (lv : pval) (n : Z) : res pval :=
  match lv with
  | PArr l => if (n <? 0)%Z then Err else Ok (PArr (repeat_list l (Z.to_nat n)))
  | PInt a => if int64_ok (a * n) then Ok (PInt (a * n)%Z) else Dom
  | _ => Err
  end.

Definition p_map_literal (vs : list (Z * pval)) : pval :=
  PMap (fold_left (fun m kv => kv_set m (fst kv) (snd kv)) vs []).

Definition p_prim_step (infn : bool) (s : list (var * pval)) (p : prim) : res (list (var * pval) * prout) :=
  match p with
  | PArrLit x es => p_finish infn s x (vs <- p_eval_elems s es ;; Ok (PArr vs))
  | PMapLit x kvs => p_finish infn s x (vs <- p_eval_pairs s kvs ;; Ok (p_map_literal vs))
  | PCopy x y => p_finish infn s x (p_eval_elem s (EVar y))
  | PIdxSet x i e =>
    v <- p_eval_elem s e ;;
    xv <- p_eval_elem s (EVar x) ;;
    nv <- p_idx_set xv i v ;;
    Ok (bind_var s x nv, PRV v)
  | PPlus x y e => p_finish infn s x (lv <- p_eval_elem s (EVar y) ;; rv <- p_eval_elem s e ;; p_plus lv rv)
  | PRepeat x y n => p_finish infn s x (lv <- p_eval_elem s (EVar y) ;; p_times lv n)
  | PSlice x y l r => p_finish infn s x (yv <- p_eval_elem s (EVar y) ;; p_slice yv l r)
  | PRest x y => p_finish infn s x (yv <- p_eval_elem s (EVar y) ;; p_rest yv)
  | PGet x y i => p_finish infn s x (yv <- p_eval_elem s (EVar y) ;; p_get yv i)
  | PDel x k =>
    match lookup s x with
    | None => Ok (s, PRB false)
    | Some xv =>
      match xv with
      | PMap l =>
        match kv_del l k with
        | Some l' => Ok (bind_var s x (PMap l'), PRB true)
        | None => Ok (s, PRB false)
        end
      | _ => Err
      end
    end
  | PIncr x i =>
    xv <- p_eval_elem s (EVar x) ;;
    ev <- p_get xv i ;;
    nv <- p_plus ev (PInt 1) ;;
    nx <- p_idx_set xv i nv ;;
    Ok (bind_var s x nx, PRV nv)
  | PUnbind x =>
    if infn then Dom else
    match lookup s x with
    | None => Ok (s, PRB false)
    | Some _ => Ok (unbind s x, PRB true)
    end
  end.

Inductive pstatus := PDone (r : prout) | PFailed | POutDom | PIsStuck.

Fixpoint p_exec_prims (infn : bool) (s : list (var * pval)) (ps : list prim) (last : prout)
  : list (var * pval) * pstatus :=
  match ps with
  | [] => (s, PDone last)
  | p :: t =>
    match p_prim_step infn s p with
    | Ok (s', r) => p_exec_prims infn s' t r
    | Err => (s, PFailed)
    | Dom => (s, POutDom)
    | Stuck => (s, PIsStuck)
    end
  end.

(* for e = y { body } over the list of elements *)
Fixpoint p_for_loop (s : list (var * pval)) (e : var) (els : list pval) (body : list prim) (last : prout)
  : list (var * pval) * pstatus :=
  match els with
  | [] => (s, PDone last)
  | v :: t =>
    match p_exec_prims false (bind_var s e v) body (PRV PNil) with
    | (s2, PDone r) => p_for_loop s2 e t body r
    | (s2, st) => (s2, st)
    end
  end.

Definition p_op_step (s : list (var * pval)) (op : op) : list (var * pval) * pstatus :=
  match op with
  | OPrim p => p_exec_prims false s [p] (PRV PNil)
  | OFor e y body =>
    match lookup s y with
    | None => (s, PFailed)
    | Some (PArr l) => p_for_loop s e l body (PRV PNil)
    | Some _ => (s, POutDom)
    end
  | OCall r y body =>
    match lookup s y with
    | None => (s, PFailed)
    | Some (PInt _) => (s, POutDom)
    | Some yv =>
      match lookup s param_var with
      | Some _ => (s, POutDom)
      | None =>
        match p_exec_prims true ((param_var, yv) :: s) body (PRV PNil) with
        | (s2, PDone _) =>
          match lookup s2 param_var with
          | Some pv => (bind_var (unbind s2 param_var) r pv, PDone (PRV pv))
          | None => (s2, PIsStuck)
          end
        | (s2, st) => (unbind s2 param_var, st)
        end
      end
    end
  end.

Fixpoint p_run_from (s : list (var * pval)) (ops : list op) : list (var * pval) :=
  match ops with
  | [] => s
  | op :: t => p_run_from (fst (p_op_step s op)) t
  end.
Definition run_pure (ops : list op) : list (var * pval) := p_run_from [] ops.

(* ---------------------------------------------------------------- reading a machine value (what Inspect shows).
   fuel bounds the nesting depth; None = out of fuel or dangling pointer *)
Fixpoint read (fuel : nat) (h : heap) (v : val) : option pval :=
  match fuel with
  | O => None
  | S f =>
    let rl := fix rl (l : list val) : option (list pval) :=
      match l with
      | [] => Some []
      | x :: t => match read f h x, rl t with Some p, Some ps => Some (p :: ps) | _, _ => None end
      end in
    let rm := fix rm (l : list (Z * val)) : option (list (Z * pval)) :=
      match l with
      | [] => Some []
      | (k, x) :: t => match read f h x, rm t with Some p, Some ps => Some ((k, p) :: ps) | _, _ => None end
      end in
    match v with
    | VInt z => Some (PInt z)
    | VNil => Some PNil
    | VArrS l => option_map PArr (rl l)
    | VArrB s => match read_arr h s with Some l => option_map PArr (rl l) | None => None end
    | VMapS l => option_map PMap (rm l)
    | VMapB p =>
      match map_hdr h p with
      | Some s => match read_kv h s with Some l => option_map PMap (rm l) | None => None end
      | None => None
      end
    end
  end.

Fixpoint read_store (fuel : nat) (h : heap) (s : list (var * val)) : option (list (var * pval)) :=
  match s with
  | [] => Some []
  | (x, v) :: t =>
    match read fuel h v, read_store fuel h t with
    | Some p, Some ps => Some ((x, p) :: ps)
    | _, _ => None
    end
  end.

(* the configuration of /repo: thresholds from the generated constants, repaired code *)
Definition repo_cfg : cfg := mkcfg (Z.to_nat object_MaxSmallArray) (Z.to_nat object_MaxSmallMap) true.
Definition pinned_cfg : cfg := mkcfg (Z.to_nat object_MaxSmallArray) (Z.to_nat object_MaxSmallMap) false.
