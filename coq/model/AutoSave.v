(* Model of the auto-save path: /repo/repl/repl.go AutoSave (+ eval.State.UpdateNumSet, State.SaveGlobals,
   object.Environment.SaveGlobals as far as their file effects go).  Executable Gallina, no proofs here.

   Go / OS                                         model
   ----------------------------------------------  -------------------------------------------------------
   the working directory                           fs : association list  file name |-> contents
   *os.File returned by CreateTemp / Create        handle (HOpen name: follows the inode through a rename;
                                                    HOrphan: the inode has no name any more)
   one system call (openat O_CREAT|O_EXCL,         step  (exec_step: its complete effect, None = it returns
     write, close, fsync, renameat, unlinkat)             an error and has no effect)
   SaveGlobals(f): one fmt.Fprintf = one Write     one StWrite per binding (the harness observes the chunks)
     per saved binding
   `if err != nil { ...; return err }`              the onerr list carried by every program step
   process death (SIGKILL) at any instant          crash point (k, torn): k steps completed, the next step is
                                                    interrupted; what an interrupted step leaves behind is the
                                                    parameter [ce] (crash effect) of [run_steps]; the executable
                                                    instance [torn_step] writes the first [torn] bytes of a write
                                                    and nothing of any other call
   an error returned by a system call              fault (FaultAt i partial): the i-th program step fails, a
                                                    write having stored [partial] bytes first
   name chosen by os.CreateTemp                    the argument [tmp] (base name in the working directory;
                                                    "./x" and "x" are the same file)

   The interpreter below runs ANY skeleton of the generated type GrolGen.Gen_AutoSave.sstep; the runner
   (extraction) and the theorems use the skeleton generated from /repo. *)
From Coq Require Import List NArith ZArith Bool String.
From GrolGen Require Import Gen_AutoSave.
Import ListNotations.

Definition bytes := list N.
Definition fname := list N.

Fixpoint name_eqb (a b : list N) : bool :=
  match a, b with
  | [], [] => true
  | x :: a', y :: b' => N.eqb x y && name_eqb a' b'
  | _, _ => false
  end.

(* ---------------------------------------------------------------- file system *)
Definition fs := list (fname * bytes).

Fixpoint fs_get (f : fs) (n : fname) : option bytes :=
  match f with
  | [] => None
  | (k, c) :: f' => if name_eqb k n then Some c else fs_get f' n
  end.

Fixpoint fs_remove (f : fs) (n : fname) : fs :=
  match f with
  | [] => []
  | (k, c) :: f' => if name_eqb k n then fs_remove f' n else (k, c) :: fs_remove f' n
  end.

Definition fs_set (f : fs) (n : fname) (c : bytes) : fs := (n, c) :: fs_remove f n.

(* ---------------------------------------------------------------- machine *)
Inductive handle : Type := HNone | HOpen (n : fname) | HOrphan.

Record st : Type := mkst { s_fs : fs; s_h : handle }.

Inductive step : Type :=
| StCreateTemp                        (* openat(tmp, O_RDWR|O_CREAT|O_EXCL) *)
| StCreate (n : fname)                (* openat(n, O_RDWR|O_CREAT|O_TRUNC) *)
| StWrite (b : bytes)                 (* one write on the handle (appends) *)
| StClose
| StSync
| StRename (src dst : fname)
| StRemove (n : fname)
| StBad (what : list N).              (* an operation the model has no semantics for: always fails *)

Definition handle_is (h : handle) (n : fname) : bool :=
  match h with HOpen m => name_eqb m n | _ => false end.

(* complete effect of one call; None = the call returns an error (and changes nothing) *)
Definition exec_step (tmp : fname) (s : step) (m : st) : option st :=
  match s with
  | StCreateTemp =>
      match fs_get (s_fs m) tmp with
      | Some _ => None                                   (* O_EXCL; excluded by the freshness assumption *)
      | None => Some (mkst (fs_set (s_fs m) tmp []) (HOpen tmp))
      end
  | StCreate n => Some (mkst (fs_set (s_fs m) n []) (HOpen n))
  | StWrite b =>
      match s_h m with
      | HNone => None
      | HOrphan => Some m                                (* data goes to an inode without a name *)
      | HOpen n =>
          match fs_get (s_fs m) n with
          | Some c => Some (mkst (fs_set (s_fs m) n (c ++ b)) (s_h m))
          | None => None
          end
      end
  | StClose => match s_h m with HNone => None | _ => Some (mkst (s_fs m) HNone) end
  | StSync => match s_h m with HNone => None | _ => Some m end
  | StRename src dst =>
      match fs_get (s_fs m) src with
      | None => None
      | Some c =>
          if name_eqb src dst then Some m else
          Some (mkst (fs_set (fs_remove (s_fs m) src) dst c)
                     (if handle_is (s_h m) src then HOpen dst
                      else if handle_is (s_h m) dst then HOrphan else s_h m))
      end
  | StRemove n =>
      match fs_get (s_fs m) n with
      | None => None
      | Some _ => Some (mkst (fs_remove (s_fs m) n) (if handle_is (s_h m) n then HOrphan else s_h m))
      end
  | StBad _ => None
  end.

Definition exec_or_skip (tmp : fname) (s : step) (m : st) : st :=
  match exec_step tmp s m with Some m' => m' | None => m end.

(* what a call interrupted by process death leaves behind (executable instance of the crash effect):
   a write has stored its first [torn] bytes, every other call has not happened *)
Definition torn_step (tmp : fname) (s : step) (torn : nat) (m : st) : st :=
  match s with
  | StWrite b => exec_or_skip tmp (StWrite (firstn torn b)) m
  | _ => m
  end.

(* run_steps ce tmp acts m k torn: the state on disk when the process dies after k calls of [acts] completed,
   the (k+1)-th being interrupted with crash effect [ce]; k >= length acts: no crash. *)
Fixpoint run_steps (ce : fname -> step -> nat -> st -> st) (tmp : fname) (acts : list step) (m : st)
         (k torn : nat) : st :=
  match acts with
  | [] => m
  | a :: rest =>
      match k with
      | O => ce tmp a torn m
      | S k' => run_steps ce tmp rest (exec_or_skip tmp a m) k' torn
      end
  end.

(* ---------------------------------------------------------------- skeleton -> program *)
Definition pstep : Type := (step * list step)%type.      (* a call and its error block *)

Definition resolve (hn : option fname) (r : fref) : option fname :=
  match r with
  | FHandle => hn
  | FConst n => Some n
  | FUnknown _ => None
  end.

Definition compile_op (hn : option fname) (bs : list bytes) (o : sop) : list step :=
  match o with
  | OpCreateTemp _ _ => [StCreateTemp]
  | OpCreate r => match resolve hn r with Some n => [StCreate n] | None => [StBad [99; 114; 101; 97; 116; 101]%N] end
  | OpSave FHandle => map StWrite bs
  | OpSave _ => [StBad [115; 97; 118; 101; 32; 116; 111; 32; 97; 32; 110; 111; 110; 45; 104; 97; 110; 100; 108; 101]%N]
  | OpClose => [StClose]
  | OpSync => [StSync]
  | OpRename a b =>
      match resolve hn a, resolve hn b with
      | Some x, Some y => [StRename x y]
      | _, _ => [StBad [114; 101; 110; 97; 109; 101]%N]
      end
  | OpRemove r => match resolve hn r with Some n => [StRemove n] | None => [StBad [114; 101; 109; 111; 118; 101]%N] end
  | OpOther w => [StBad w]
  end.

(* name recorded in the handle after an opening operation (f.Name()) *)
Definition next_hn (tmp : fname) (hn : option fname) (o : sop) : option fname :=
  match o with
  | OpCreateTemp _ _ => Some tmp
  | OpCreate r => resolve hn r
  | _ => hn
  end.

Fixpoint compile (tmp : fname) (hn : option fname) (bs : list bytes) (sk : list sstep) : list pstep :=
  match sk with
  | [] => []
  | s :: sk' =>
      let hn' := next_hn tmp hn (st_op s) in
      let onerr := flat_map (compile_op hn' bs) (st_onerr s) in
      map (fun x => (x, onerr)) (compile_op hn bs (st_op s)) ++ compile tmp hn' bs sk'
  end.

(* ---------------------------------------------------------------- faults *)
Inductive fault : Type := NoFault | FaultAt (i partial : nat).

Definition fault_here (f : fault) (i : nat) : option nat :=
  match f with
  | NoFault => None
  | FaultAt j p => if Nat.eqb i j then Some p else None
  end.

(* run_prog: the calls the Go code actually makes (and that take effect), in order, and whether AutoSave
   returns an error.  A step that fails (injected fault, or exec_step = None) diverts into its error block,
   whose own errors are ignored, and the function returns. *)
Fixpoint run_prog (tmp : fname) (p : list pstep) (i : nat) (f : fault) (m : st) : list step * bool :=
  match p with
  | [] => ([], false)
  | (s, onerr) :: rest =>
      match fault_here f i with
      | Some partial =>
          ((match s with StWrite b => [StWrite (firstn partial b)] | _ => [] end) ++ onerr, true)
      | None =>
          match exec_step tmp s m with
          | None => (onerr, true)
          | Some m' => let (t, e) := run_prog tmp rest (S i) f m' in (s :: t, e)
          end
      end
  end.

Definition init (f : fs) : st := mkst f HNone.

Definition autosave_actions (tmp : fname) (sk : list sstep) (bs : list bytes) (f : fault) (fs0 : fs)
  : list step * bool :=
  run_prog tmp (compile tmp None bs sk) 0 f (init fs0).

(* the directory after an auto-save with fault f, the process dying at crash point (k, torn) *)
Definition after (ce : fname -> step -> nat -> st -> st) (tmp : fname) (sk : list sstep) (bs : list bytes)
           (f : fault) (k torn : nat) (fs0 : fs) : fs :=
  s_fs (run_steps ce tmp (fst (autosave_actions tmp sk bs f fs0)) (init fs0) k torn).

(* ---------------------------------------------------------------- the session level: AutoSave's prelude
     if !options.AutoSave return nil
     oldS, newS := s.UpdateNumSet()        (UpdateNumSet: old = s.lastNumSet; new = env.NumSet(); s.lastNumSet = new)
     updates := newS - oldS
     if updates == 0 return nil
   [last] = s.lastNumSet before the call, [cur] = env.NumSet().  Result: actions, error, lastNumSet after.
   Note lastNumSet is advanced before the save is attempted, also when the save then fails. *)
Definition autosave_session (tmp : fname) (sk : list sstep) (bs : list bytes) (f : fault) (fs0 : fs)
           (enabled : bool) (last cur : Z) : (list step * bool) * Z :=
  if negb enabled then (([], false), last)
  else if Z.eqb (cur - last) 0 then (([], false), cur)
  else (autosave_actions tmp sk bs f fs0, cur).

Definition session_after (ce : fname -> step -> nat -> st -> st) (tmp : fname) (sk : list sstep)
           (bs : list bytes) (f : fault) (k torn : nat) (fs0 : fs) (enabled : bool) (last cur : Z) : fs :=
  s_fs (run_steps ce tmp (fst (fst (autosave_session tmp sk bs f fs0 enabled last cur))) (init fs0) k torn).

(* ---------------------------------------------------------------- temp names: os.CreateTemp(dir, pattern)
   returns dir/prefix<random>suffix where pattern = prefix*suffix (last '*'; no '*': suffix empty) *)
Fixpoint split_last_star (p : list N) : option (list N * list N) :=
  match p with
  | [] => None
  | c :: p' =>
      match split_last_star p' with
      | Some (a, b) => Some (c :: a, b)
      | None => if N.eqb c 42 then Some ([], p') else None
      end
  end.

Definition pattern_parts (p : list N) : list N * list N :=
  match split_last_star p with Some ab => ab | None => (p, []) end.

Definition skeleton_temp (sk : list sstep) : option (list N * list N) :=   (* (dir, pattern) of the first CreateTemp *)
  match sk with
  | mkstep (OpCreateTemp d p) _ :: _ => Some (d, p)
  | _ => None
  end.

(* decidable side condition making every name prefix++r++suffix differ from the state file *)
Definition pattern_excludes (pattern state : list N) : bool :=
  let (pre, suf) := pattern_parts pattern in
  Nat.ltb (List.length state) (List.length pre + List.length suf).

(* ---------------------------------------------------------------- the skeleton this model's theorems are written for *)
Definition dot_gr : fname := [46; 103; 114]%N.                                  (* ".gr" *)
Definition model_pattern : list N := [46; 103; 114; 111; 108; 42; 46; 116; 109; 112]%N.   (* ".grol*.tmp" *)
Definition model_skeleton : list sstep :=
  [mkstep (OpCreateTemp [46]%N model_pattern) [];
   mkstep (OpSave FHandle) [];
   mkstep (OpRename FHandle (FConst dot_gr)) []].
(* the prelude in the translator's canonical form (gen/gen_autosave.go preludeLines): ARG0 = the *eval.State,
   ARG1 = the Options; "eval c" = the call c is made here; f()#i = the i-th result of that call *)
Definition model_prelude : list string :=
  ["if !ARG1.AutoSave return nil"%string;
   "eval ARG0.UpdateNumSet()"%string;
   "if (ARG0.UpdateNumSet()#0 == ARG0.UpdateNumSet()#1) return nil"%string].
(* what UpdateNumSet returns and stores, in the translator's notation (gen/gen_autosave.go summarize): the previous
   value of its private field, env.NumSet(), and the field set to env.NumSet() *)
Definition model_updatenumset : list string :=
  ["result0 = init(FIELD)"%string; "result1 = s.env.NumSet()"%string; "FIELD := s.env.NumSet()"%string].

(* ---------------------------------------------------------------- enumeration used by the runner *)
Definition obs : Type := (option bytes * option bytes)%type.      (* contents of the state file and of tmp *)

Definition observe (tmp state : fname) (f : fs) : obs := (fs_get f state, fs_get f tmp).

Definition bytes_eqb (a b : list N) : bool := name_eqb a b.

Definition obytes_eqb (a b : option bytes) : bool :=
  match a, b with
  | None, None => true
  | Some x, Some y => name_eqb x y
  | _, _ => false
  end.

Definition obs_eqb (a b : obs) : bool := obytes_eqb (fst a) (fst b) && obytes_eqb (snd a) (snd b).

(* every crash point of an action list: (k, torn) with torn ranging over the length of the interrupted write *)
Fixpoint crash_points_from (acts : list step) (k : nat) : list (nat * nat) :=
  match acts with
  | [] => [(k, 0)]
  | a :: rest =>
      (match a with
       | StWrite b => map (fun t => (k, t)) (seq 0 (S (List.length b)))
       | _ => [(k, 0)]
       end) ++ crash_points_from rest (S k)
  end.

(* is [o] a possible on-disk outcome of a crash somewhere in the (fault-free) auto-save? *)
Definition crash_possible (tmp state : fname) (sk : list sstep) (bs : list bytes) (fs0 : fs) (o : obs) : bool :=
  let acts := fst (autosave_actions tmp sk bs NoFault fs0) in
  existsb (fun kt => obs_eqb o (observe tmp state (s_fs (run_steps torn_step tmp acts (init fs0) (fst kt) (snd kt)))))
          (crash_points_from acts 0).

(* the crash points at which the temporary file can have length [len] (None: no such file), found from the
   lengths of the writes alone; a sublist of crash_points_from (AutoSave_proofs.crash_candidates_sound), so that
   crash_possible_fast implies crash_possible.  Used by the runner for large states. *)
Fixpoint write_candidates (acts : list step) (k acc : nat) (len : option nat) : list (nat * nat) :=
  match acts with
  | [] => []
  | a :: rest =>
      match a with
      | StWrite b =>
          (match len with
           | Some l => if Nat.leb acc l && Nat.leb l (acc + List.length b) then [(k, l - acc)] else []
           | None => [(k, 0)]
           end) ++ write_candidates rest (S k) (acc + List.length b) len
      | _ => write_candidates rest (S k) acc len
      end
  end.

Fixpoint nonwrite_candidates (acts : list step) (k : nat) : list (nat * nat) :=
  match acts with
  | [] => [(k, 0)]
  | a :: rest =>
      match a with
      | StWrite _ => nonwrite_candidates rest (S k)
      | _ => (k, 0) :: nonwrite_candidates rest (S k)
      end
  end.

(* the few points outside writes first (existsb stops at the first match) *)
Definition crash_candidates (acts : list step) (len : option nat) : list (nat * nat) :=
  nonwrite_candidates acts 0 ++ write_candidates acts 0 0 len.

Definition crash_possible_fast (tmp state : fname) (sk : list sstep) (bs : list bytes) (fs0 : fs) (o : obs) : bool :=
  let acts := fst (autosave_actions tmp sk bs NoFault fs0) in
  existsb (fun kt => obs_eqb o (observe tmp state (s_fs (run_steps torn_step tmp acts (init fs0) (fst kt) (snd kt)))))
          (crash_candidates acts (option_map (@List.length N) (snd o))).

(* every fault position of a program: step index and, for writes, every partial length *)
Fixpoint fault_points_from (p : list pstep) (i : nat) : list fault :=
  match p with
  | [] => []
  | (s, _) :: rest =>
      (match s with
       | StWrite b => map (fun t => FaultAt i t) (seq 0 (S (List.length b)))
       | _ => [FaultAt i 0]
       end) ++ fault_points_from rest (S i)
  end.

(* is (o, err) a possible outcome of a run (no crash) with at most one failing call? *)
Definition fault_possible (tmp state : fname) (sk : list sstep) (bs : list bytes) (fs0 : fs) (o : obs) (err : bool) : bool :=
  existsb (fun f =>
             let r := autosave_actions tmp sk bs f fs0 in
             Bool.eqb err (snd r) &&
             obs_eqb o (observe tmp state (s_fs (run_steps torn_step tmp (fst r) (init fs0) (List.length (fst r)) 0))))
          (NoFault :: fault_points_from (compile tmp None bs sk) 0).

(* ---------------------------------------------------------------- histories: several saves in ONE directory
   A history is a list of saves, each with the temporary name CreateTemp picks for it, the bindings of that session,
   the fault injected (or not) and the point at which the process dies (or not: k beyond the calls).  Whatever an
   aborted save leaves behind (its temporary file) is part of the directory the next save starts from. *)
Record save : Type := mksave { sv_tmp : fname; sv_bs : list bytes; sv_fault : fault; sv_k : nat; sv_torn : nat }.

Definition run_save (ce : fname -> step -> nat -> st -> st) (sk : list sstep) (f : fs) (s : save) : fs :=
  after ce (sv_tmp s) sk (sv_bs s) (sv_fault s) (sv_k s) (sv_torn s) f.

Fixpoint run_history (ce : fname -> step -> nat -> st -> st) (sk : list sstep) (f : fs) (h : list save) : fs :=
  match h with
  | [] => f
  | s :: h' => run_history ce sk (run_save ce sk f s) h'
  end.

(* the fault hits one of the calls of the save (CreateTemp, a write, the rename) *)
Definition fault_in_range (s : save) : bool :=
  match sv_fault s with
  | NoFault => false
  | FaultAt i _ => Nat.ltb i (List.length (sv_bs s) + 2)
  end.

(* the save ran to the end of its rename: no call failed and the process survived all n+2 calls *)
Definition committed (s : save) : bool :=
  negb (fault_in_range s) && Nat.leb (List.length (sv_bs s) + 2) (sv_k s).

(* the process died while the rename was in progress (the only instant at which the outcome is not determined) *)
Definition in_rename (s : save) : bool :=
  negb (fault_in_range s) && Nat.eqb (sv_k s) (List.length (sv_bs s) + 1).

(* contents of the state file after a history none of whose saves died inside its rename:
   what the LAST committed save wrote, or the original file if none committed *)
Fixpoint last_committed (old : option bytes) (h : list save) : option bytes :=
  match h with
  | [] => old
  | s :: h' => last_committed (if committed s then Some (List.concat (sv_bs s)) else old) h'
  end.
