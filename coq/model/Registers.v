(* Model of the integer-register optimisation of /repo (property C05), as repaired by the fix
   commits ce974bc 53bcb24 914e8ba 9eb932a 939db5a 3c1869d 2e49243 f4b446c (and f881ef4, 8c21b75 of other
   properties).
   Executable Gallina, no proofs here.

   Part 1  the body rewrite: eval.ModifyRegister as a callback of ast.Modify (Modify.v), the
           occurrence count, and the functions in which the rewrite is SPECIFIED
           (subst_reg / bails / wf_node, used by proofs/Registers_proofs.v).
   Part 2  the register file of object.Environment (NumRegisters slots, numReg, MakeRegister,
           ReleaseRegister with their panics as explicit outcomes) and an executable evaluator
           of CONTROL SKELETONS: programs abstracted to trees of counted loops, calls, sequences
           and leaves that say how a statement completes.  It computes what registers are
           allocated/released in which environment, how break/continue/return/error/panic
           propagate, and the part of eval.State that a call swaps (current environment, depth
           counter, output writer).  The evaluator takes a [cfg] that switches each repair
           on or off: [repaired] is the current tree, [pinned] the tree before the repairs
           (kept to document the defects; refuted in props/C05.v and props/C10.v).           *)
From Coq Require Import List ZArith NArith Bool Arith.
From GrolGen Require Import Gen_Consts.
From GrolModel Require Import Ast Modify.
Import ListNotations.

(* ------------------------------------------------------------------------------------------ *)
(* Part 1: eval.ModifyRegister / setupRegister                                                 *)

Fixpoint bytes_eqb (a b : bytes) : bool :=
  match a, b with
  | [], [] => true
  | x :: a', y :: b' => N.eqb x y && bytes_eqb a' b'
  | _, _ => false
  end.

(* the *object.Register node of this rewrite: ast.Base{Token: Intern(REGISTER, originalName)} *)
Definition reg_node (name : bytes) : node := NIdent (mkTok token_REGISTER name).

Definition is_reg_of (name : bytes) (n : node) : bool :=
  match n with
  | NIdent t => Z.eqb (ttype t) token_REGISTER && bytes_eqb (tlit t) name
  | _ => false
  end.

(* an *ast.Identifier whose Literal() is the name *)
Definition is_ident_of (name : bytes) (n : node) : bool :=
  match n with
  | NIdent t => negb (Z.eqb (ttype t) token_REGISTER) && bytes_eqb (tlit t) name
  | _ => false
  end.

Definition is_incdec (t : tok) : bool :=
  Z.eqb (ttype t) token_INCR || Z.eqb (ttype t) token_DECR.

(* func ModifyRegister(register *object.Register, in ast.Node) (ast.Node, bool)
     *ast.Identifier with the register's name  -> the register (Count++)
     *ast.PostfixExpression on that name       -> nil,false   (x++ not handled)
     *ast.PrefixExpression ++/-- whose Right is this register (already rewritten: post-order)
                                               -> nil,false   (fix 9eb932a)
     *ast.Builtin quote(...), or del(<this register>)                          -> nil,false
     *ast.MapLiteral whose rewritten keys collide (len(Pairs) != len(Order)) -> nil,false
     *ast.CallExpression whose (already rewritten) Function is this register   -> nil,false
     *ast.FunctionLiteral                      -> nil,false
     anything else (incl. other registers)     -> unchanged                                    *)
(* len(in.Pairs) != len(in.Order) on a rewritten map literal: two keys are the same Go pointer,
   i.e. both are this register (or both nil) *)
Definition count_keys (p : option node -> bool) (l : list (option node * option node)) : nat :=
  length (filter (fun kv => p (fst kv)) l).
Definition is_none (o : option node) : bool := match o with None => true | Some _ => false end.
Definition dup_keys (name : bytes) (l : list (option node * option node)) : bool :=
  (2 <=? count_keys (fun k => match k with Some c => is_reg_of name c | None => false end) l)
  || (2 <=? count_keys is_none l).

(* del(n) with n this register, or any quote(...) (fix f4b446c) *)
Definition first_param (ps : option (list (option node))) : option node :=
  match ps with Some (o :: _) => o | _ => None end.
Definition builtin_gives_up (p : node -> bool) (t : tok) (ps : option (list (option node))) : bool :=
  Z.eqb (ttype t) token_QUOTE
  || (Z.eqb (ttype t) token_DEL && match first_param ps with Some c => p c | None => false end).

Definition modify_register_cb (name : bytes) (n : node) : res node :=
  match n with
  | NBuiltin t ps => if builtin_gives_up (is_reg_of name) t ps then RBail else ROk n
  | NIdent _ => if is_ident_of name n then ROk (reg_node name) else ROk n
  | NPostfix _ prev => if bytes_eqb (tlit prev) name then RBail else ROk n
  | NPrefix t (Some r) => if is_incdec t && is_reg_of name r then RBail else ROk n
  | NMap _ l => if dup_keys name l then RBail else ROk n                     (* fix 3c1869d *)
  | NCall _ (Some fn) _ => if is_reg_of name fn then RBail else ROk n        (* fixes 939db5a, 2e49243 *)
  | NFunc _ _ _ _ _ _ => RBail
  | _ => ROk n
  end.

(* every occurrence is replaced by the SAME Go pointer (&register) *)
Definition same_reg (name : bytes) (a b : node) : bool := is_reg_of name a && is_reg_of name b.

Definition modify_register (name : bytes) (body : node) : res node :=
  modify_gen (same_reg name) (modify_register_cb name) body.

(* helpers to recurse through the children that ast.Modify visits *)
Definition fold_opt {A} (rec : node -> A) (dflt : A) (o : option node) : A :=
  match o with None => dflt | Some c => rec c end.

Section Occurrences.
  Variable name : bytes.

  Definition sum_list (rec : node -> nat) : list (option node) -> nat :=
    fix go (l : list (option node)) : nat :=
      match l with [] => 0 | o :: tl => fold_opt rec 0 o + go tl end.
  Definition sum_slice (rec : node -> nat) (o : option (list (option node))) : nat :=
    match o with None => 0 | Some l => sum_list rec l end.
  Definition sum_pairs (rec : node -> nat) : list (option node * option node) -> nat :=
    fix go (l : list (option node * option node)) : nat :=
      match l with [] => 0 | kv :: tl => fold_opt rec 0 (fst kv) + fold_opt rec 0 (snd kv) + go tl end.

  (* register.Count after a rewrite that answered ok: the identifiers of that name at the
     positions ast.Modify visits (not a literal's Name, not the token of a postfix expression) *)
  Fixpoint count_occ (n : node) : nat :=
    match n with
    | NIdent _ => if is_ident_of name n then 1 else 0
    | NStmts l => sum_list count_occ l
    | NInfix _ l r => fold_opt count_occ 0 l + fold_opt count_occ 0 r
    | NPrefix _ r => fold_opt count_occ 0 r
    | NIndex _ l i => fold_opt count_occ 0 l + fold_opt count_occ 0 i
    | NIf _ c a b => fold_opt count_occ 0 c + fold_opt count_occ 0 a + fold_opt count_occ 0 b
    | NFor _ c b => fold_opt count_occ 0 c + fold_opt count_occ 0 b
    | NReturn _ v => fold_opt count_occ 0 v
    | NFunc _ _ ps b _ _ => sum_slice count_occ ps + fold_opt count_occ 0 b
    | NMacro _ ps b => sum_slice count_occ ps + fold_opt count_occ 0 b
    | NArray _ e => sum_slice count_occ e
    | NMap _ l => sum_pairs count_occ l
    | NBuiltin _ ps => sum_slice count_occ ps
    | NCall _ fn args => fold_opt count_occ 0 fn + sum_slice count_occ args
    | NInt _ _ | NFloat _ _ | NString _ | NBool _ _ | NComment _ _ _ | NControl _ | NPostfix _ _ => 0
    end.

  (* ---- specification side: what the rewrite is supposed to compute ---- *)

  Definition subst_slice (rec : node -> node) (o : option (list (option node))) : option (list (option node)) :=
    match o with None => Some [] | Some l => Some (map (option_map rec) l) end.

  (* replace every visited identifier of that name by the register node *)
  Fixpoint subst_reg (n : node) : node :=
    match n with
    | NIdent _ => if is_ident_of name n then reg_node name else n
    | NStmts l => NStmts (map (option_map subst_reg) l)
    | NInfix t l r => NInfix t (option_map subst_reg l) (option_map subst_reg r)
    | NPrefix t r => NPrefix t (option_map subst_reg r)
    | NIndex t l i => NIndex t (option_map subst_reg l) (option_map subst_reg i)
    | NIf t c a b => NIf t (option_map subst_reg c) (option_map subst_reg a) (option_map subst_reg b)
    | NFor t c b => NFor t (option_map subst_reg c) (option_map subst_reg b)
    | NReturn t v => NReturn t (option_map subst_reg v)
    | NFunc _ _ _ _ _ _ => n                                  (* never rewritten: the rewrite gives up *)
    | NMacro t ps b => NMacro t (subst_slice subst_reg ps) (option_map subst_reg b)
    | NArray t e => NArray t (subst_slice subst_reg e)
    | NMap t l =>
        NMap t (alias_pairs (same_reg name)
                  (map (fun kv => (option_map subst_reg (fst kv), option_map subst_reg (snd kv))) l))
    | NBuiltin t ps => NBuiltin t (subst_slice subst_reg ps)
    | NCall t fn args => NCall t (option_map subst_reg fn) (subst_slice subst_reg args)
    | NInt _ _ | NFloat _ _ | NString _ | NBool _ _ | NComment _ _ _ | NControl _ | NPostfix _ _ => n
    end.

  Definition any_list (rec : node -> bool) : list (option node) -> bool :=
    fix go (l : list (option node)) : bool :=
      match l with [] => false | o :: tl => fold_opt rec false o || go tl end.
  Definition any_slice (rec : node -> bool) (o : option (list (option node))) : bool :=
    match o with None => false | Some l => any_list rec l end.
  Definition any_pairs (rec : node -> bool) : list (option node * option node) -> bool :=
    fix go (l : list (option node * option node)) : bool :=
      match l with [] => false | kv :: tl => fold_opt rec false (fst kv) || fold_opt rec false (snd kv) || go tl end.

  (* a macro parameter survives the rewrite only if it stays an *ast.Identifier *)
  Definition param_gives_up (rec : node -> bool) (o : option node) : bool :=
    match o with
    | None => true
    | Some c => rec c || negb (is_identifier c) || is_ident_of name c
    end.
  Definition any_params (rec : node -> bool) (o : option (list (option node))) : bool :=
    match o with None => false | Some l => existsb (param_gives_up rec) l end.

  (* the documented bail-outs: a function literal, a postfix ++/-- on the name, a prefix ++/--
     on the name, the name in call position, a map literal with the name as key twice, del(name), any
     quote(...) (and a
     macro literal with a parameter of that name), anywhere ast.Modify looks *)
  Fixpoint bails (n : node) : bool :=
    match n with
    | NFunc _ _ _ _ _ _ => true
    | NPostfix _ prev => bytes_eqb (tlit prev) name
    | NPrefix t r =>
        fold_opt bails false r
        || (is_incdec t && match r with Some c => is_ident_of name c || is_reg_of name c | None => false end)
    | NStmts l => any_list bails l
    | NInfix _ l r => fold_opt bails false l || fold_opt bails false r
    | NIndex _ l i => fold_opt bails false l || fold_opt bails false i
    | NIf _ c a b => fold_opt bails false c || fold_opt bails false a || fold_opt bails false b
    | NFor _ c b => fold_opt bails false c || fold_opt bails false b
    | NReturn _ v => fold_opt bails false v
    | NMacro _ ps b => any_params bails ps || fold_opt bails false b
    | NArray _ e => any_slice bails e
    | NMap _ l =>
        any_pairs bails l
        || dup_keys name (map (fun kv => (option_map subst_reg (fst kv), option_map subst_reg (snd kv))) l)
    | NBuiltin t ps =>
        any_slice bails ps
        || builtin_gives_up (fun c => is_ident_of name c || is_reg_of name c) t ps
    | NCall _ fn args =>
        fold_opt bails false fn || any_slice bails args
        || match fn with Some c => is_ident_of name c || is_reg_of name c | None => false end
    | NIdent _ | NInt _ _ | NFloat _ _ | NString _ | NBool _ _ | NComment _ _ _ | NControl _ => false
    end.

  (* trees on which ast.Modify cannot panic: every field of Go type pointer-to-Statements that
     Modify dereferences holds a Statements node (true of every tree the parser returns without
     reporting an error) *)
  Definition all_list (rec : node -> bool) : list (option node) -> bool :=
    fix go (l : list (option node)) : bool :=
      match l with [] => true | o :: tl => fold_opt rec true o && go tl end.
  Definition all_slice (rec : node -> bool) (o : option (list (option node))) : bool :=
    match o with None => true | Some l => all_list rec l end.
  Definition all_pairs (rec : node -> bool) : list (option node * option node) -> bool :=
    fix go (l : list (option node * option node)) : bool :=
      match l with [] => true | kv :: tl => fold_opt rec true (fst kv) && fold_opt rec true (snd kv) && go tl end.
  Definition wf_body (rec : node -> bool) (o : option node) : bool :=
    match o with None => false | Some c => is_stmts c && rec c end.

  Fixpoint wf_node (n : node) : bool :=
    match n with
    | NStmts l => all_list wf_node l
    | NInfix _ l r => fold_opt wf_node true l && fold_opt wf_node true r
    | NPrefix _ r => fold_opt wf_node true r
    | NIndex _ l i => fold_opt wf_node true l && fold_opt wf_node true i
    | NIf _ c a b =>
        fold_opt wf_node true c && wf_body wf_node a
        && match b with None => true | Some _ => wf_body wf_node b end
    | NFor _ c b => fold_opt wf_node true c && wf_body wf_node b
    | NReturn _ v => fold_opt wf_node true v
    | NFunc _ _ ps b _ _ => all_slice wf_node ps && wf_body wf_node b
    | NMacro _ ps b => all_slice wf_node ps && wf_body wf_node b
    | NArray _ e => all_slice wf_node e
    | NMap _ l => all_pairs wf_node l
    | NBuiltin _ ps => all_slice wf_node ps
    | NCall _ fn args => fold_opt wf_node true fn && all_slice wf_node args
    | NIdent _ | NInt _ _ | NFloat _ _ | NString _ | NBool _ _ | NComment _ _ _ | NControl _
    | NPostfix _ _ => true
    end.
End Occurrences.

(* func setupRegister(env, name, value, body) (Register, ast.Node, bool): the new body (the
   original one when the rewrite gave up or replaced nothing), ok, Count; None = Go panic *)
Definition setup_register_body (name : bytes) (body : node) : option (node * bool * nat) :=
  match modify_register name body with
  | ROk b' => let c := count_occ name body in
              Some (if Nat.eqb c 0 then body else b', true, c)
  | RBail => Some (body, false, 0)
  | RPanic => None
  end.

(* ------------------------------------------------------------------------------------------ *)
(* Part 2: register file and control skeletons                                                 *)

Definition num_registers : nat := Z.to_nat object_NumRegisters.

(* Go panics that can end an evaluation *)
Inductive pkind : Type :=
| PNoRegisters      (* MakeRegister: "No more registers available" *)
| PNonLifo          (* ReleaseRegister: "Releasing non last register" *)
| PRuntime          (* any other run-time panic raised by the evaluated program *)
| PDepth.           (* State.Eval: "max depth reached" *)

(* how the evaluation of a node completes *)
Inductive signal : Type :=
| GNormal                 (* a value *)
| GBreak | GContinue      (* object.ReturnValue with ControlType BREAK / CONTINUE *)
| GReturn                 (* object.ReturnValue with ControlType RETURN *)
| GError                  (* object.Error (language error, or the context's deadline error) *)
| GPanic (k : pkind)      (* Go panic unwinding the evaluator *)
| GStuck.                 (* model-internal: an environment index out of range; proved unreachable *)

Inductive leaf : Type := LNormal | LBreak | LContinue | LReturn | LError | LPanic | LDepth.

Definition leaf_signal (l : leaf) : signal :=
  match l with
  | LNormal => GNormal | LBreak => GBreak | LContinue => GContinue | LReturn => GReturn
  | LError => GError | LPanic => GPanic PRuntime | LDepth => GPanic PDepth
  end.

Inductive skel : Type :=
| KLeaf (l : leaf)                   (* a statement without loops/calls completing that way *)
| KProbe                             (* a statement that observes numReg of the current environment
                                        and whether output reaches the session writer (harness hook) *)
| KSeq (l : list skel)               (* ast.Statements *)
| KLoop (named rewritable : bool) (iters : list skel)
                                     (* evalForInteger: `for x = a:b {..}` (named) or `for n {..}`;
                                        [rewritable] = the body rewrite answers ok; one element of
                                        [iters] per iteration that starts *)
| KCatch (body : skel)               (* catch(e): an error result of e becomes a value and evaluation
                                        goes on (e is a loop or a call here; control results are not
                                        generated under catch and pass through unchanged) *)
| KCall (nint : nat) (body : skel).  (* applyFunction of a grol function whose call binds [nint]
                                        integer arguments to non-constant parameter names *)

(* which repairs are present *)
Record cfg : Type := mkCfg {
  use_regs : bool;        (* !State.NoReg *)
  fix_capacity : bool;    (* ce974bc: HasRegisters tested before MakeRegister *)
  fix_release : bool;     (* 53bcb24: deferred ReleaseRegister in evalForInteger *)
  fix_fallback : bool;    (* 914e8ba: rewrite gave up => plain variable, not an error *)
  fix_out : bool          (* 31dc576: EvalOne restores State.Out after a recovered panic *)
}.
Definition repaired (regs : bool) : cfg := mkCfg regs true true true true.
Definition pinned (regs : bool) : cfg := mkCfg regs false false false false.

(* The part of eval.State + object.Environment the skeleton acts on.
   envs : numReg of the environments of the dynamic call stack (Environment.stack chain),
          root first, State.env = the LAST one
   depth: State.depth counted in calls (one per active applyFunction / top-level Eval)
   outs : how many per-call output buffers are swapped in; 0 = State.Out is the session writer *)
Record mstate : Type := mkM { envs : list nat; depth : nat; outs : nat }.

Definition probe : Type := (nat * nat)%type.   (* numReg of the current env, outs *)

Definition cur_idx (m : mstate) : nat := pred (length (envs m)).
Definition get_env (m : mstate) (i : nat) : option nat := nth_error (envs m) i.

Fixpoint set_nth (i v : nat) (l : list nat) : list nat :=
  match l, i with
  | [], _ => []
  | _ :: tl, 0 => v :: tl
  | x :: tl, S i' => x :: set_nth i' v tl
  end.
Definition set_env (i v : nat) (m : mstate) : mstate := mkM (set_nth i v (envs m)) (depth m) (outs m).

(* func (e *Environment) MakeRegister: panics unless HasRegisters(), else returns Idx = numReg, numReg++ *)
Inductive mk_res : Type := MkOk (idx : nat) (m : mstate) | MkPanic | MkStuck.
Definition make_register (i : nat) (m : mstate) : mk_res :=
  match get_env m i with
  | None => MkStuck
  | Some n => if n <? num_registers then MkOk n (set_env i (S n) m) else MkPanic
  end.

(* func (e *Environment) ReleaseRegister: panics unless register.Idx == numReg-1, else numReg-- *)
Inductive rel_res : Type := RelOk (m : mstate) | RelPanic | RelStuck.
Definition release_register (i idx : nat) (m : mstate) : rel_res :=
  match get_env m i with
  | None => RelStuck
  | Some 0 => RelPanic
  | Some (S n') => if idx =? n' then RelOk (set_env i n' m) else RelPanic
  end.

Definition result : Type := (signal * mstate * list probe)%type.

(* how the iterations of a counted loop ended *)
Inductive loop_end : Type := LEnd | LBroke | LSig (g : signal).
Definition loop_signal (e : loop_end) : signal :=
  match e with LEnd => GNormal | LBroke => GNormal | LSig g => g end.

(* Eval() around a function body: RETURN is unwrapped, other control types become an error *)
Definition call_signal (g : signal) : signal :=
  match g with
  | GReturn => GNormal
  | GBreak | GContinue => GError
  | other => other
  end.

Definition is_abort (g : signal) : bool :=
  match g with GPanic _ | GStuck => true | _ => false end.

Section Eval.
  Variable c : cfg.

  (* evalStatements: stops at the first result of type RETURN (any control) or ERROR *)
  Definition run_seq (rec : skel -> mstate -> result) : list skel -> mstate -> result :=
    fix go (l : list skel) (m : mstate) : result :=
      match l with
      | [] => (GNormal, m, [])
      | s :: tl =>
        match rec s m with
        | (GNormal, m1, t1) => match go tl m1 with (g2, m2, t2) => (g2, m2, t1 ++ t2) end
        | other => other
        end
      end.

  (* the for loop of evalForInteger over the iterations that start *)
  Definition run_iters (rec : skel -> mstate -> result) : list skel -> mstate -> loop_end * mstate * list probe :=
    fix go (l : list skel) (m : mstate) : loop_end * mstate * list probe :=
      match l with
      | [] => (LEnd, m, [])
      | s :: tl =>
        match rec s m with
        | (GNormal, m1, t1) | (GContinue, m1, t1) =>
            match go tl m1 with (e, m2, t2) => (e, m2, t1 ++ t2) end
        | (GBreak, m1, t1) => (LBroke, m1, t1)
        | (g, m1, t1) => (LSig g, m1, t1)
        end
      end.

  Fixpoint eval (s : skel) (m : mstate) : result :=
    match s with
    | KLeaf l => (leaf_signal l, m, [])
    | KProbe =>
        match get_env m (cur_idx m) with
        | None => (GStuck, m, [])
        | Some n => (GNormal, m, [(n, outs m)])
        end
    | KSeq l => run_seq eval l m
    | KLoop named rewritable iters =>
        let plain := match run_iters eval iters m with (e, m1, t) => (loop_signal e, m1, t) end in
        if named && use_regs c then
          let i := cur_idx m in                       (* s.env *)
          match get_env m i with
          | None => (GStuck, m, [])
          | Some n =>
            if n <? num_registers then                (* HasRegisters() *)
              match make_register i m with
              | MkOk idx m1 =>
                if rewritable || fix_fallback c then
                  match run_iters eval iters m1 with
                  | (e, m2, t) =>
                    (* pinned: released only when the for statement runs to its end;
                       repaired: deferred, on every way out including a panic *)
                    if fix_release c || match e with LEnd => true | _ => false end then
                      match release_register i idx m2 with
                      | RelOk m3 => (loop_signal e, m3, t)
                      | RelPanic => (GPanic PNonLifo, m2, t)
                      | RelStuck => (GStuck, m2, t)
                      end
                    else (loop_signal e, m2, t)
                  end
                else
                  (* "for loop register x shouldn't be modified inside the loop" *)
                  if fix_release c then
                    match release_register i idx m1 with
                    | RelOk m3 => (GError, m3, [])
                    | RelPanic => (GPanic PNonLifo, m1, [])
                    | RelStuck => (GStuck, m1, [])
                    end
                  else (GError, m1, [])
              | MkPanic => (GPanic PNoRegisters, m, [])
              | MkStuck => (GStuck, m, [])
              end
            else if fix_capacity c then plain         (* no free register: plain variable *)
            else (GPanic PNoRegisters, m, [])         (* MakeRegister panics *)
          end
        else plain
    | KCatch body =>
        match eval body m with
        | (GError, m1, t) => (GNormal, m1, t)
        | other => other
        end
    | KCall nint body =>
        (* extendFunctionEnv: a new environment; each integer argument takes a register *)
        if use_regs c && negb (fix_capacity c) && (num_registers <? nint) then
          (GPanic PNoRegisters, m, [])                (* before s.env is switched *)
        else
          let regs := if use_regs c then Nat.min nint num_registers else 0 in
          let m1 := mkM (envs m ++ [regs]) (S (depth m)) (S (outs m)) in
          match eval body m1 with
          | (g, m2, t) =>
            if is_abort g then (g, m2, t)             (* nothing is restored while unwinding *)
            else (call_signal g,
                  mkM (firstn (length (envs m)) (envs m2))   (* s.env = curState *)
                      (pred (depth m2))                      (* s.depth-- *)
                      (outs m),                              (* s.Out = oldOut *)
                  t)
          end
    end.
End Eval.

(* the control outcome of a skeleton when nothing goes wrong in the register machinery *)
Definition seq_signal (rec : skel -> signal) : list skel -> signal :=
  fix go (l : list skel) : signal :=
    match l with
    | [] => GNormal
    | s :: tl => match rec s with GNormal => go tl | g => g end
    end.
Definition iters_signal (rec : skel -> signal) : list skel -> signal :=
  fix go (l : list skel) : signal :=
    match l with
    | [] => GNormal
    | s :: tl => match rec s with GNormal | GContinue => go tl | GBreak => GNormal | g => g end
    end.
Fixpoint pure_signal (s : skel) : signal :=
  match s with
  | KLeaf l => leaf_signal l
  | KProbe => GNormal
  | KSeq l => seq_signal pure_signal l
  | KLoop _ _ iters => iters_signal pure_signal iters
  | KCatch body => match pure_signal body with GError => GNormal | g => g end
  | KCall _ body => let g := pure_signal body in if is_abort g then g else call_signal g
  end.
